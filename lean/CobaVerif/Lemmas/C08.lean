/-
C08 — helper lemmas: sums over lists, step characterisation, the termination measure, the
inductive invariant and its consequences.  Core Lean only.
-/
import CobaVerif.Model.C08

namespace Coba.C08

/-! ### sums -/

@[simp] theorem listSum_nil : listSum [] = 0 := rfl
@[simp] theorem listSum_cons (x : Nat) (xs : List Nat) : listSum (x :: xs) = x + listSum xs := rfl

@[simp] theorem listSum_append (a b : List Nat) : listSum (a ++ b) = listSum a + listSum b := by
  induction a with
  | nil => simp
  | cons x xs ih => simp [ih]; omega

/-- sum of `g` over a list -/
def sumOver {α} (g : α → Nat) (l : List α) : Nat := listSum (l.map g)

@[simp] theorem sumOver_nil {α} (g : α → Nat) : sumOver g [] = 0 := rfl
@[simp] theorem sumOver_cons {α} (g : α → Nat) (x : α) (xs : List α) :
    sumOver g (x :: xs) = g x + sumOver g xs := rfl
@[simp] theorem sumOver_append {α} (g : α → Nat) (a b : List α) :
    sumOver g (a ++ b) = sumOver g a + sumOver g b := by
  simp [sumOver]

theorem sumOver_set {α} (g : α → Nat) (l : List α) (i : Nat) (old x : α) (h : l[i]? = some old) :
    sumOver g (l.set i x) + g old = sumOver g l + g x := by
  induction l generalizing i with
  | nil => simp at h
  | cons y ys ih =>
    cases i with
    | zero => simp at h; subst h; simp; omega
    | succ j =>
      simp at h
      have := ih j h
      simp; omega

theorem sumOver_map {α β} (g : β → Nat) (f : α → β) (l : List α) :
    sumOver g (l.map f) = sumOver (fun x => g (f x)) l := by
  simp [sumOver, List.map_map, Function.comp_def]

theorem sumOver_replicate {α} (g : α → Nat) (n : Nat) (x : α) :
    sumOver g (List.replicate n x) = n * g x := by
  induction n with
  | zero => simp
  | succ k ih => simp [List.replicate_succ, ih, Nat.succ_mul]; omega

theorem sumOver_eq_zero {α} (g : α → Nat) (l : List α) :
    sumOver g l = 0 ↔ ∀ x ∈ l, g x = 0 := by
  induction l with
  | nil => simp
  | cons y ys ih => simp [ih]

theorem sumOver_le_of_mem {α} (g : α → Nat) (l : List α) (x : α) (h : x ∈ l) : g x ≤ sumOver g l := by
  induction l with
  | nil => simp at h
  | cons y ys ih =>
    simp at h
    rcases h with h | h
    · subst h; simp
    · have := ih h; simp; omega

theorem sumOver_congr {α} (g g' : α → Nat) (l : List α) (h : ∀ x ∈ l, g x = g' x) :
    sumOver g l = sumOver g' l := by
  induction l with
  | nil => rfl
  | cons y ys ih =>
    simp
    rw [h y (by simp), ih (fun x hx => h x (by simp [hx]))]

theorem mu_def (c : Cfg) (s : State) : mu c s =
    sumOver (fun x => elemCost x + 2) s.todo
  + (match s.infl with | some x => elemCost x + 1 | none => 0)
  + sumOver elemCost s.inq
  + s.outq.length
  + sumOver (wPot c) s.ws
  + (if s.lphase then 0 else 1 + 5 * s.nprocs)
  + phasePot s.main := rfl

/-! ### characterisation of the enabled steps -/

theorem getElem?_of_beq_some {l : List W} {w : Nat} {x : W} (h : (l[w]? == some x) = true) : l[w]? = some x := by
  simpa using h

/-! ### the termination measure decreases -/

theorem en_wGet {c : Cfg} {s : State} {w : Nat} (h : enabled c s (.wGet w) = true) :
    ∃ k x rest, s.ws[w]? = some (.run k [] none) ∧ mayTake c k = true ∧ s.inq = x :: rest := by
  simp only [enabled] at h
  split at h
  · rename_i k hw
    simp only [Bool.and_eq_true] at h
    cases hq : s.inq with
    | nil => simp [hq] at h
    | cons x rest => exact ⟨k, x, rest, hw, h.1, rfl⟩
  · simp at h

theorem en_wPut {c : Cfg} {s : State} {w : Nat} (h : enabled c s (.wPut w) = true) :
    ∃ k o pend e, s.ws[w]? = some (.run k (o :: pend) e) := by
  simp only [enabled] at h
  split at h
  · rename_i k o pend e hw; exact ⟨k, o, pend, e, hw⟩
  · simp at h

theorem en_wRaise {c : Cfg} {s : State} {w : Nat} (h : enabled c s (.wRaise w) = true) :
    ∃ k e, s.ws[w]? = some (.run k [] (some e)) := by
  simp only [enabled] at h
  split at h
  · rename_i k e hw; exact ⟨k, e, hw⟩
  · simp at h

theorem en_wRetire {c : Cfg} {s : State} {w : Nat} (h : enabled c s (.wRetire w) = true) :
    ∃ k, s.ws[w]? = some (.run k [] none) ∧ mayTake c k = false := by
  simp only [enabled] at h
  split at h
  · rename_i k hw; exact ⟨k, hw, by simpa using h⟩
  · simp at h

theorem en_wCallback {c : Cfg} {s : State} {w : Nat} (h : enabled c s (.wCallback w) = true) :
    ∃ p e, s.ws[w]? = some (.exited p e) := by
  simp only [enabled] at h
  split at h
  · rename_i p e hw; exact ⟨p, e, hw⟩
  · simp at h

theorem en_wBegin {c : Cfg} {s : State} {w : Nat} (h : enabled c s (.wBegin w) = true) :
    s.ws[w]? = some .spawned ∧ (w = 0 ∨ s.main ≠ .waitEvent) := by
  simp only [enabled, Bool.and_eq_true, Bool.or_eq_true] at h
  refine ⟨by simpa using h.1, ?_⟩
  rcases h.2 with h2 | h2
  · left; simpa using h2
  · right; simpa using h2

theorem mu_loadTake (c : Cfg) (s : State) (h : enabled c s .loadTake = true) :
    mu c (step c s .loadTake) < mu c s := by
  simp only [enabled, Bool.and_eq_true] at h
  obtain ⟨⟨h1, _⟩, h3⟩ := h
  cases ht : s.todo with
  | nil => simp [ht] at h3
  | cons x rest =>
    have hi : s.infl = none := by simpa using h1
    cases hp : perrOf x with
    | none =>
      simp only [step, ht, hp, mu_def, hi]
      simp
      omega
    | some e =>
      simp only [step, ht, hp, mu_def, hi]
      simp
      omega

theorem mu_loadPut (c : Cfg) (s : State) (h : enabled c s .loadPut = true) :
    mu c (step c s .loadPut) < mu c s := by
  simp only [enabled, Bool.and_eq_true] at h
  cases hi : s.infl with
  | none => simp [hi] at h
  | some x =>
    simp only [step, hi, mu_def]
    simp
    omega

theorem mu_loadFinish (c : Cfg) (s : State) (h : enabled c s .loadFinish = true) :
    mu c (step c s .loadFinish) < mu c s := by
  simp only [enabled, Bool.and_eq_true] at h
  obtain ⟨⟨h1, h2⟩, _⟩ := h
  have hl : s.lphase = false := by simpa using h1
  have hi : s.infl = none := by simpa using h2
  simp only [step, mu_def, hl, hi, sumOver_replicate]
  simp [elemCost]
  omega

theorem mu_wGet (c : Cfg) (s : State) (w : Nat) (h : enabled c s (.wGet w) = true) :
    mu c (step c s (.wGet w)) < mu c s := by
  obtain ⟨k, x, rest, hw, hk, hq⟩ := en_wGet h
  have hs := sumOver_set (wPot c) s.ws w (.run k [] none)
  cases x with
  | none =>
    have := hs (.exited true none) hw
    simp only [step, hw, hq, mu_def]
    simp [wPot, hk, elemCost] at this ⊢
    omega
  | some it =>
    have := hs (.run (k+1) it.outs it.err) hw
    simp only [step, hw, hq, mu_def]
    simp [wPot, hk, elemCost] at this ⊢
    split at this <;> split at this <;> simp_all <;> omega

theorem mu_wPut (c : Cfg) (s : State) (w : Nat) (h : enabled c s (.wPut w) = true) :
    mu c (step c s (.wPut w)) < mu c s := by
  obtain ⟨k, o, pend, e, hw⟩ := en_wPut h
  have := sumOver_set (wPot c) s.ws w (.run k (o :: pend) e) (.run k pend e) hw
  simp only [step, hw, mu_def]
  simp [wPot] at this ⊢
  omega

theorem mu_wRaise (c : Cfg) (s : State) (w : Nat) (h : enabled c s (.wRaise w) = true) :
    mu c (step c s (.wRaise w)) < mu c s := by
  obtain ⟨k, e, hw⟩ := en_wRaise h
  have := sumOver_set (wPot c) s.ws w (.run k [] (some e)) (.exited false (some e)) hw
  simp only [step, hw, mu_def]
  simp [wPot] at this ⊢
  omega

theorem mu_wRetire (c : Cfg) (s : State) (w : Nat) (h : enabled c s (.wRetire w) = true) :
    mu c (step c s (.wRetire w)) < mu c s := by
  obtain ⟨k, hw, hk⟩ := en_wRetire h
  have := sumOver_set (wPot c) s.ws w (.run k [] none) (.exited false none) hw
  simp only [step, mu_def]
  simp [wPot, hk] at this ⊢
  omega

theorem mu_wBegin (c : Cfg) (s : State) (w : Nat) (h : enabled c s (.wBegin w) = true) :
    mu c (step c s (.wBegin w)) < mu c s := by
  obtain ⟨hw, _⟩ := en_wBegin h
  have := sumOver_set (wPot c) s.ws w .spawned (.run 0 [] none) hw
  simp only [step, mu_def]
  simp [wPot, mayTake] at this ⊢
  split at this <;> omega

theorem mu_wCallback (c : Cfg) (s : State) (w : Nat) (h : enabled c s (.wCallback w) = true) :
    mu c (step c s (.wCallback w)) < mu c s := by
  obtain ⟨p, e, hw⟩ := en_wCallback h
  have h1 := sumOver_set (wPot c) s.ws w (.exited p e) .spawned hw
  have h2 := sumOver_set (wPot c) s.ws w (.exited p e) .dead hw
  simp only [wPot] at h1 h2
  simp only [step, hw, mu_def]
  have hn : 5 * (s.nprocs - 1) ≤ 5 * s.nprocs := by omega
  split
  · cases hl : s.lphase <;> simp <;> omega
  · cases hl : s.lphase <;> split <;> simp <;> omega

theorem mu_main (c : Cfg) (s : State) (a : Action)
    (ha : a = .mEvent ∨ a = .cGet ∨ a = .cAbandon ∨ a = .drainIn ∨ a = .drainOut ∨ a = .mDone)
    (h : enabled c s a = true) : mu c (step c s a) < mu c s := by
  rcases ha with rfl | rfl | rfl | rfl | rfl | rfl
  · simp only [enabled, Bool.and_eq_true] at h
    have hm : s.main = .waitEvent := by simpa using h.1
    simp only [step, mu_def, hm]; simp [phasePot]
  · simp only [enabled, Bool.and_eq_true] at h
    have hm : s.main = .consuming := by simpa using h.1
    cases hq : s.outq with
    | nil => simp [hq] at h
    | cons x rest =>
      cases x <;> simp only [step, hq, mu_def, hm] <;> simp [phasePot] <;> omega
  · simp only [enabled] at h
    have hm : s.main = .consuming := by simpa using h
    simp only [step, mu_def, hm]; simp [phasePot]
  · simp only [enabled, Bool.and_eq_true] at h
    cases hq : s.inq with
    | nil => simp [hq] at h
    | cons x rest =>
      simp only [step, hq, mu_def]; simp
      have : 0 < elemCost x := by cases x <;> simp [elemCost] <;> omega
      omega
  · simp only [enabled, Bool.and_eq_true] at h
    cases hq : s.outq with
    | nil => simp [hq] at h
    | cons x rest => simp only [step, hq, mu_def]; simp
  · simp only [enabled] at h
    have hm : s.main = .fin := by simpa using h
    simp only [step, mu_def, hm]; simp [phasePot]

/-- the termination measure strictly decreases on every enabled step -/
theorem mu_decreases' (c : Cfg) (s : State) (a : Action) (h : enabled c s a = true) :
    mu c (step c s a) < mu c s := by
  cases a with
  | loadTake => exact mu_loadTake c s h
  | loadPut => exact mu_loadPut c s h
  | loadFinish => exact mu_loadFinish c s h
  | wBegin w => exact mu_wBegin c s w h
  | wGet w => exact mu_wGet c s w h
  | wPut w => exact mu_wPut c s w h
  | wRaise w => exact mu_wRaise c s w h
  | wRetire w => exact mu_wRetire c s w h
  | wCallback w => exact mu_wCallback c s w h
  | mEvent => exact mu_main c s _ (by simp) h
  | cGet => exact mu_main c s _ (by simp) h
  | cAbandon => exact mu_main c s _ (by simp) h
  | drainIn => exact mu_main c s _ (by simp) h
  | drainOut => exact mu_main c s _ (by simp) h
  | mDone => exact mu_main c s _ (by simp) h

/-- every run (from any state) is finite: its length is bounded by the measure of its first state -/
theorem run_bounded' (c : Cfg) (s s' : State) (tr : List Action) (h : runTrace c s tr = some s') :
    tr.length + mu c s' ≤ mu c s := by
  induction tr generalizing s with
  | nil => simp [runTrace] at h; subst h; simp
  | cons a as ih =>
    simp only [runTrace] at h
    split at h
    · rename_i he
      have := ih _ h
      have := mu_decreases' c s a he
      simp; omega
    · simp at h


/-! ### the invariant -/

def oCount (o : Nat) (q : List (Option Nat)) : Nat := sumOver (fun x => if x = some o then 1 else 0) q
def elemOuts : Option ItemSpec → List Nat
  | some x => x.outs
  | none => []
def elemErrs : Option ItemSpec → List Nat
  | some x => x.err.toList
  | none => []
def elemPerrs : Option ItemSpec → List Nat
  | some x => x.perr.toList
  | none => []
def wOuts : W → List Nat
  | .run _ p _ => p
  | _ => []
def wErrs : W → List Nat
  | .run _ _ e => e.toList
  | .exited _ e => e.toList
  | _ => []

/-- where the elements of the input side currently are -/
def inSide (s : State) : List (Option ItemSpec) := s.inq ++ s.infl.toList ++ s.todo ++ s.dropIn

/-- number of copies of output `o` anywhere in the system -/
def outTotal (o : Nat) (s : State) : Nat :=
  s.recv.count o + oCount o s.outq + oCount o s.dropOut
  + sumOver (fun w => (wOuts w).count o) s.ws + sumOver (fun x => (elemOuts x).count o) (inSide s)

/-- number of copies of error `e` anywhere in the system -/
def errTotal (e : Nat) (s : State) : Nat :=
  s.excs.count e + sumOver (fun w => (wErrs w).count e) s.ws + sumOver (fun x => (elemErrs x).count e) (inSide s)

def alive : W → Nat
  | .dead => 0
  | _ => 1
/-- lineages that still need a pill to finish -/
def needy : W → Nat
  | .dead => 0
  | .exited true _ => 0
  | _ => 1
def isPill : Option ItemSpec → Nat
  | none => 1
  | some _ => 0

/-- FIFO discipline of in_queue: nothing but pills behind a pill -/
def sortedQ : List (Option ItemSpec) → Prop
  | [] => True
  | some _ :: r => sortedQ r
  | none :: r => ∀ x ∈ r, x = none

structure Inv (c : Cfg) (s : State) : Prop where
  npos   : 0 < c.n
  len    : s.ws.length = c.n
  np     : s.nprocs = sumOver alive s.ws
  ev     : s.main = .waitEvent → s.event = false → s.ws[0]? = some W.spawned
  outC   : ∀ o, outTotal o s = sumOver (fun x => x.outs.count o) c.items
  errC   : ∀ e, errTotal e s = sumOver (fun x => x.err.toList.count e) c.items
             + (if s.lphase then s.lexc.toList.count e else 0)
  lph0   : s.lphase = false → (∀ x ∈ s.inq, x ≠ none) ∧ (∀ x ∈ s.todo, x ≠ none) ∧ s.infl ≠ some none
  lph1   : s.lphase = true → (∀ x ∈ s.todo, x = none) ∧ (∀ x, s.infl = some x → x = none)
  sorted : sortedQ s.inq
  pois   : ∀ w : Nat, (∃ e, s.ws[w]? = some (W.exited true e)) ∨ (s.ws[w]? = some W.dead ∧ s.excs = []) →
             s.lphase = true ∧ ∀ x ∈ s.inq, x = none
  pills  : s.active = true → s.lphase = true →
             sumOver needy s.ws ≤ sumOver isPill (s.inq ++ s.infl.toList ++ s.todo)
  opill  : none ∈ s.outq → s.nprocs = 0
  olast  : ∀ x ∈ s.outq.dropLast, x ≠ none
  q      : s.active = true → s.nprocs = 0 → none ∈ s.outq
  fin    : s.active = false → s.abandoned = false →
             s.nprocs = 0 ∧ (s.excs = [] →
               (∀ o, s.recv.count o = sumOver (fun x => x.outs.count o) c.items) ∧ ∀ x ∈ c.items, x.err = none ∧ x.perr = none)
  maxk   : 0 < c.m → ∀ (w : Nat) k p e, s.ws[w]? = some (W.run k p e) → k ≤ c.m
  aband  : s.abandoned = true → s.active = false
  drops  : s.active = true → (s.lexc = none → s.dropIn = []) ∧ s.dropOut = []
  perrC  : ∀ e, sumOver (fun x => (elemPerrs x).count e) (inSide s)
             = sumOver (fun x => x.perr.toList.count e) c.items
  pick   : (∀ x ∈ s.inq, perrOf x = none) ∧ (∀ x, s.infl = some x → perrOf x = none)
  lexcIn : s.lphase = true → ∀ e, s.lexc = some e → e ∈ s.excs
  lexc0  : s.lphase = false → ∀ e, s.lexc = some e → s.todo = []
  lexcOk : ∀ e, s.lexc = some e → 0 < sumOver (fun x => x.perr.toList.count e) c.items

theorem sortedQ_tail {x} {r : List (Option ItemSpec)} (h : sortedQ (x :: r)) : sortedQ r := by
  cases x with
  | some _ => exact h
  | none =>
    simp only [sortedQ] at h
    cases r with
    | nil => trivial
    | cons y ys =>
      have hy := h y (by simp)
      subst hy
      simp only [sortedQ]
      intro z hz; exact h z (by simp [hz])

theorem sortedQ_of_all_none (q : List (Option ItemSpec)) (h : ∀ x ∈ q, x = none) : sortedQ q := by
  cases q with
  | nil => trivial
  | cons y ys =>
    have hy := h y (by simp)
    subst hy
    simp only [sortedQ]
    intro z hz; exact h z (by simp [hz])

theorem sortedQ_append_none (q : List (Option ItemSpec)) (h : sortedQ q) : sortedQ (q ++ [none]) := by
  induction q with
  | nil => simp [sortedQ]
  | cons y ys ih =>
    cases y with
    | some _ => exact ih h
    | none =>
      simp only [sortedQ, List.cons_append] at h ⊢
      intro z hz
      simp at hz
      rcases hz with hz | hz
      · exact h z hz
      · exact hz

theorem sortedQ_append_some (q : List (Option ItemSpec)) (i : ItemSpec) (h : ∀ x ∈ q, x ≠ none) :
    sortedQ (q ++ [some i]) := by
  induction q with
  | nil => simp [sortedQ]
  | cons y ys ih =>
    cases y with
    | some _ => exact ih (fun x hx => h x (by simp [hx]))
    | none => exact absurd rfl (h none (by simp))

theorem alive_le_needy (w : W) : needy w ≤ alive w := by
  cases w with
  | exited p e => cases p <;> simp [needy, alive]
  | _ => simp [needy, alive]

theorem sumOver_mono {α} (g g' : α → Nat) (l : List α) (h : ∀ x, g x ≤ g' x) : sumOver g l ≤ sumOver g' l := by
  induction l with
  | nil => simp
  | cons y ys ih => have := h y; simp; omega

theorem all_dead_of_nprocs_zero {c : Cfg} {s : State} (hI : Inv c s) (h0 : s.nprocs = 0) :
    ∀ w ∈ s.ws, w = .dead := by
  intro w hw
  have h := hI.np
  rw [h0] at h
  have := (sumOver_eq_zero alive s.ws).1 h.symm w hw
  cases w <;> simp [alive] at this ⊢

theorem mem_of_getElem? {α} {l : List α} {i : Nat} {x : α} (h : l[i]? = some x) : x ∈ l :=
  List.mem_of_getElem? h

theorem alive_pos_of_get {c : Cfg} {s : State} (hI : Inv c s) {w : Nat} {x : W} (hw : s.ws[w]? = some x)
    (hx : x ≠ .dead) : 0 < s.nprocs := by
  rw [hI.np]
  have := sumOver_le_of_mem alive s.ws x (mem_of_getElem? hw)
  cases x <;> simp [alive] at this hx ⊢ <;> omega

theorem mem_dropLast_of_tail {α} (x : α) (r : List α) (y : α) (h : y ∈ r.dropLast) : y ∈ (x :: r).dropLast := by
  cases r with
  | nil => simp at h
  | cons z zs => simp [List.dropLast] at h ⊢; right; exact h



/-! ### the invariant is inductive -/

theorem get_set {l : List W} {w : Nat} {old : W} (h : l[w]? = some old) (x : W) (w' : Nat) :
    (l.set w x)[w']? = if w' = w then some x else l[w']? := by
  have hlt : w < l.length := by
    rcases Nat.lt_or_ge w l.length with h' | h'
    · exact h'
    · rw [List.getElem?_eq_none h'] at h; simp at h
  rw [List.getElem?_set]
  by_cases hw : w = w'
  · subst hw; simp [hlt]
  · have : ¬ w' = w := fun h => hw h.symm
    simp [hw, this]
theorem wsums {l : List W} {w : Nat} {old : W} (h : l[w]? = some old) (x : W) (g : W → Nat) :
    sumOver g (l.set w x) + g old = sumOver g l + g x := sumOver_set g l w old x h

/-- `ev` survives any step of a lineage that is not `spawned` -/
theorem ev_set {c : Cfg} {s : State} (hI : Inv c s) {w : Nat} {old : W} (hw : s.ws[w]? = some old)
    (hold : old ≠ .spawned) (x : W) :
    s.main = .waitEvent → s.event = false → (s.ws.set w x)[0]? = some W.spawned := by
  intro hm he
  have h0 := hI.ev hm he
  rw [get_set hw]
  by_cases h : 0 = w
  · subst h; rw [hw] at h0; simp at h0; exact absurd h0 hold
  · simp [h, h0]

theorem oCount_append (o : Nat) (a b : List (Option Nat)) : oCount o (a ++ b) = oCount o a + oCount o b := by
  simp [oCount]


theorem oCount_none (o : Nat) (q : List (Option Nat)) (h : ∀ x ∈ q, x = none) : oCount o q = 0 := by
  unfold oCount
  rw [sumOver_eq_zero]
  intro x hx; rw [h x hx]; simp


theorem inv_init' (c : Cfg) (hn : 0 < c.n) : Inv c (init c) := by
  refine { npos := hn, len := by simp [init], np := ?_, ev := ?_, outC := ?_, errC := ?_, lph0 := ?_, lph1 := ?_,
           sorted := trivial, pois := ?_, pills := ?_, opill := ?_, olast := ?_, q := ?_, fin := ?_, maxk := ?_, aband := ?_, drops := ?_, perrC := ?_, pick := ?_, lexcIn := ?_, lexc0 := ?_, lexcOk := ?_ }
  · simp [init, sumOver_replicate, alive]
  · intro _ _
    simp only [init]
    cases hc : c.n with
    | zero => omega
    | succ k => simp [List.replicate_succ]
  · intro o
    simp [outTotal, init, inSide, oCount, sumOver_replicate, wOuts, sumOver_map, elemOuts]
  · intro e
    simp [errTotal, init, inSide, sumOver_replicate, wErrs, sumOver_map, elemErrs]
  · intro _; simp [init]
  · intro h; simp [init] at h
  · intro w h
    simp only [init] at h
    rcases h with ⟨e, h⟩ | ⟨h, _⟩ <;>
    · have := mem_of_getElem? h
      simp at this
  · intro _ h; simp [init] at h
  · simp [init]
  · simp [init]
  · intro _ h
    simp [init] at h; omega
  · intro h; simp [init, State.active] at h
  · intro _ w k p e h
    have := mem_of_getElem? h
    simp [init] at this
  · simp [init]
  · intro _; simp [init]
  · intro e
    simp [init, inSide, sumOver_map, elemPerrs]
  · simp [init]
  · intro h; simp [init] at h
  · intro _ e h; simp [init] at h
  · intro e h; simp [init] at h

theorem elemPerrs_of_perrOf_none (x : Option ItemSpec) (h : perrOf x = none) : elemPerrs x = [] := by
  cases x with
  | none => rfl
  | some it => simp [perrOf] at h; simp [elemPerrs, h]

theorem inv_loadTake (c : Cfg) (s : State) (hI : Inv c s) (h : enabled c s .loadTake = true) :
    Inv c (step c s .loadTake) := by
  simp only [enabled, Bool.and_eq_true] at h
  obtain ⟨⟨h1, h2⟩, h3⟩ := h
  have hi : s.infl = none := by simpa using h1
  have hst : s.stopped = false := by simpa using h2
  have hact : s.active = true := by
    simp only [State.active, State.stopped] at hst ⊢
    cases hm : s.main <;> simp_all
  cases ht : s.todo with
  | nil => simp [ht] at h3
  | cons x rest =>
  cases hp : perrOf x with
  | none =>
    simp only [step, ht, hp]
    refine { npos := hI.npos, len := hI.len, np := hI.np, ev := hI.ev, outC := ?_, errC := ?_, lph0 := ?_, lph1 := ?_,
             sorted := hI.sorted, pois := hI.pois, pills := ?_, opill := hI.opill, olast := hI.olast, q := hI.q,
             fin := hI.fin, maxk := hI.maxk, aband := hI.aband, drops := hI.drops, perrC := ?_, pick := ?_, lexcIn := hI.lexcIn, lexc0 := ?_, lexcOk := hI.lexcOk }
    · intro o
      have := hI.outC o
      simp only [outTotal, inSide, hi, ht] at this ⊢
      simp at this ⊢; omega
    · intro e
      have := hI.errC e
      simp only [errTotal, inSide, hi, ht] at this ⊢
      simp at this ⊢; omega
    · intro hl
      have := hI.lph0 hl
      simp only [ht] at this
      refine ⟨this.1, fun y hy => this.2.1 y (by simp [hy]), ?_⟩
      simp
      exact this.2.1 x (by simp)
    · intro hl
      have := hI.lph1 hl
      simp only [ht] at this
      refine ⟨fun y hy => this.1 y (by simp [hy]), ?_⟩
      intro y hy
      simp at hy; subst hy
      exact this.1 x (by simp)
    · intro ha hl
      have := hI.pills ha hl
      simp only [hi, ht] at this ⊢
      simp at this ⊢; omega
    · intro e
      have := hI.perrC e
      simp only [inSide, hi, ht] at this ⊢
      simp at this ⊢; omega
    · refine ⟨hI.pick.1, ?_⟩
      intro y hy
      simp at hy; subst hy; exact hp
    · intro hl e he
      have := hI.lexc0 hl e he
      rw [ht] at this; simp at this
  | some e0 =>
    simp only [step, ht, hp]
    have hxs : ∃ it, x = some it ∧ it.perr = some e0 := by
      cases x with
      | none => simp [perrOf] at hp
      | some it => exact ⟨it, rfl, by simpa [perrOf] using hp⟩
    obtain ⟨it, hx, hit⟩ := hxs
    have hl : s.lphase = false := by
      cases hl : s.lphase with
      | false => rfl
      | true =>
        have := (hI.lph1 hl).1 x (by rw [ht]; simp)
        rw [hx] at this; simp at this
    refine { npos := hI.npos, len := hI.len, np := hI.np, ev := hI.ev, outC := ?_, errC := ?_, lph0 := ?_, lph1 := ?_,
             sorted := hI.sorted, pois := hI.pois, pills := ?_, opill := hI.opill, olast := hI.olast, q := hI.q,
             fin := hI.fin, maxk := hI.maxk, aband := hI.aband, drops := ?_, perrC := ?_, pick := hI.pick, lexcIn := ?_, lexc0 := ?_, lexcOk := ?_ }
    · intro o
      have := hI.outC o
      simp only [outTotal, inSide, hi, ht] at this ⊢
      simp at this ⊢; omega
    · intro e
      have := hI.errC e
      simp only [errTotal, inSide, hi, ht, hl] at this ⊢
      simp at this ⊢; omega
    · intro _
      have := hI.lph0 hl
      exact ⟨this.1, by simp, by simp [hi]⟩
    · intro hl'; rw [hl] at hl'; simp at hl'
    · intro _ hl'; rw [hl] at hl'; simp at hl'
    · intro _
      refine ⟨by simp, (hI.drops hact).2⟩
    · intro e
      have := hI.perrC e
      simp only [inSide, hi, ht] at this ⊢
      simp at this ⊢; omega
    · intro hl'; rw [hl] at hl'; simp at hl'
    · intro _ _ _; rfl
    · intro e he
      simp at he; subst he
      have := hI.perrC e0
      have hmem : x ∈ inSide s := by simp [inSide, ht]
      have h2 := sumOver_le_of_mem (fun x => (elemPerrs x).count e0) (inSide s) x hmem
      rw [hx] at h2
      have h3 : (elemPerrs (some it)).count e0 = 1 := by simp [elemPerrs, hit]
      simp only [h3] at h2
      omega

theorem inv_loadPut (c : Cfg) (s : State) (hI : Inv c s) (h : enabled c s .loadPut = true) :
    Inv c (step c s .loadPut) := by
  simp only [enabled, Bool.and_eq_true] at h
  cases hi : s.infl with
  | none => simp [hi] at h
  | some x =>
  simp only [step, hi]
  refine { npos := hI.npos, len := hI.len, np := hI.np, ev := hI.ev, outC := ?_, errC := ?_, lph0 := ?_, lph1 := ?_,
           sorted := ?_, pois := ?_, pills := ?_, opill := hI.opill, olast := hI.olast, q := hI.q,
           fin := hI.fin, maxk := hI.maxk, aband := hI.aband, drops := hI.drops, perrC := ?_, pick := ?_, lexcIn := hI.lexcIn, lexc0 := hI.lexc0, lexcOk := hI.lexcOk }
  · intro o
    have := hI.outC o
    simp only [outTotal, inSide, hi] at this ⊢
    simp at this ⊢; omega
  · intro e
    have := hI.errC e
    simp only [errTotal, inSide, hi] at this ⊢
    simp at this ⊢; omega
  · intro hl
    have := hI.lph0 hl
    simp only [hi] at this
    refine ⟨?_, this.2.1, by simp⟩
    intro y hy
    simp at hy
    rcases hy with hy | hy
    · exact this.1 y hy
    · subst hy; intro hx; subst hx; exact this.2.2 rfl
  · intro hl
    have := hI.lph1 hl
    exact ⟨this.1, by simp⟩
  · cases hl : s.lphase with
    | false =>
      have := hI.lph0 hl
      cases x with
      | none => exact absurd (by rw [hi]) this.2.2
      | some i => exact sortedQ_append_some _ _ this.1
    | true =>
      have := (hI.lph1 hl).2 x hi
      subst this
      exact sortedQ_append_none _ hI.sorted
  · intro w hw
    have := hI.pois w hw
    refine ⟨this.1, ?_⟩
    intro y hy
    simp at hy
    rcases hy with hy | hy
    · exact this.2 y hy
    · subst hy; exact (hI.lph1 this.1).2 _ hi
  · intro ha hl
    have := hI.pills ha hl
    simp only [hi] at this ⊢
    simp at this ⊢; omega
  · intro e
    have := hI.perrC e
    simp only [inSide, hi] at this ⊢
    simp at this ⊢; omega
  · refine ⟨?_, by simp⟩
    intro y hy
    simp at hy
    rcases hy with hy | hy
    · exact hI.pick.1 y hy
    · subst hy; exact hI.pick.2 _ hi

theorem inv_loadFinish (c : Cfg) (s : State) (hI : Inv c s) (h : enabled c s .loadFinish = true) :
    Inv c (step c s .loadFinish) := by
  simp only [enabled, Bool.and_eq_true, Bool.or_eq_true] at h
  obtain ⟨⟨h1, h2⟩, h3⟩ := h
  have hl : s.lphase = false := by simpa using h1
  have hi : s.infl = none := by simpa using h2
  simp only [step]
  refine { npos := hI.npos, len := hI.len, np := hI.np, ev := hI.ev, outC := ?_, errC := ?_, lph0 := ?_, lph1 := ?_,
           sorted := hI.sorted, pois := ?_, pills := ?_, opill := hI.opill, olast := hI.olast, q := hI.q,
           fin := ?_, maxk := hI.maxk, aband := hI.aband, drops := ?_, perrC := ?_, pick := hI.pick, lexcIn := ?_, lexc0 := ?_, lexcOk := hI.lexcOk }
  · intro o
    have := hI.outC o
    simp only [outTotal, inSide, hi] at this ⊢
    simp [sumOver_replicate, elemOuts] at this ⊢; omega
  · intro e
    have := hI.errC e
    simp only [errTotal, inSide, hi, hl] at this ⊢
    simp [sumOver_replicate, elemErrs, List.count_append] at this ⊢; omega
  · intro h'; simp at h'
  · intro _
    refine ⟨?_, by simp [hi]⟩
    intro y hy
    simp at hy; exact hy.2
  · intro w hw
    have hw' : (∃ e, s.ws[w]? = some (W.exited true e)) ∨ (s.ws[w]? = some W.dead ∧ s.excs = []) := by
      rcases hw with hw | ⟨hd, hex⟩
      · exact Or.inl hw
      · simp at hex; exact Or.inr ⟨hd, hex.1⟩
    have := (hI.pois w hw').1
    rw [hl] at this; simp at this
  · intro ha _
    simp only [hi]
    simp [sumOver_replicate, isPill]
    have h1 := sumOver_mono needy alive s.ws alive_le_needy
    have := hI.np
    omega
  · intro ha hab
    have := hI.fin ha hab
    refine ⟨this.1, ?_⟩
    intro hex
    simp at hex
    exact this.2 hex.1
  · intro ha
    have hd := hI.drops ha
    have hst : s.stopped = false := by
      simp only [State.active, State.stopped] at ha ⊢
      cases hm : s.main <;> simp_all
    rcases h3 with h3 | h3
    · have : s.todo = [] := by simpa using h3
      refine ⟨?_, hd.2⟩
      intro hlx; simp [hd.1 hlx, this]
    · rw [hst] at h3; simp at h3
  · intro e
    have := hI.perrC e
    simp only [inSide, hi] at this ⊢
    simp [sumOver_replicate, elemPerrs] at this ⊢; omega
  · intro _ e he
    have he : s.lexc = some e := he
    simp [he]
  · intro h'; simp at h'

theorem inv_mEvent (c : Cfg) (s : State) (hI : Inv c s) (h : enabled c s .mEvent = true) :
    Inv c (step c s .mEvent) := by
  simp only [enabled, Bool.and_eq_true] at h
  have hm : s.main = .waitEvent := by simpa using h.1
  have hact : s.active = true := by simp [State.active, hm]
  simp only [step]
  refine { npos := hI.npos, len := hI.len, np := hI.np, ev := ?_, outC := hI.outC, errC := hI.errC, lph0 := hI.lph0, lph1 := hI.lph1,
           sorted := hI.sorted, pois := hI.pois, pills := ?_, opill := hI.opill, olast := hI.olast, q := ?_,
           fin := ?_, maxk := hI.maxk, aband := ?_, drops := ?_, perrC := hI.perrC, pick := hI.pick, lexcIn := hI.lexcIn, lexc0 := hI.lexc0, lexcOk := hI.lexcOk }
  · intro h'; simp at h'
  · intro _ hl; exact hI.pills hact hl
  · intro _ h0; exact hI.q hact h0
  · intro h'; simp [State.active] at h'
  · intro ha; have := hI.aband ha; rw [hact] at this; simp at this
  · intro _; exact hI.drops hact

theorem inv_cAbandon (c : Cfg) (s : State) (hI : Inv c s) (h : enabled c s .cAbandon = true) :
    Inv c (step c s .cAbandon) := by
  simp only [enabled] at h
  have hm : s.main = .consuming := by simpa using h
  simp only [step]
  refine { npos := hI.npos, len := hI.len, np := hI.np, ev := ?_, outC := hI.outC, errC := hI.errC, lph0 := hI.lph0, lph1 := hI.lph1,
           sorted := hI.sorted, pois := hI.pois, pills := ?_, opill := hI.opill, olast := hI.olast, q := ?_,
           fin := ?_, maxk := hI.maxk, aband := ?_, drops := ?_, perrC := hI.perrC, pick := hI.pick, lexcIn := hI.lexcIn, lexc0 := hI.lexc0, lexcOk := hI.lexcOk }
  · intro h'; simp at h'
  · intro h'; simp [State.active] at h'
  · intro h'; simp [State.active] at h'
  · intro _ h'; simp at h'
  · intro _; simp [State.active]
  · intro h'; simp [State.active] at h'

theorem inv_mDone (c : Cfg) (s : State) (hI : Inv c s) (h : enabled c s .mDone = true) :
    Inv c (step c s .mDone) := by
  simp only [enabled] at h
  have hm : s.main = .fin := by simpa using h
  have hact : s.active = false := by simp [State.active, hm]
  simp only [step]
  refine { npos := hI.npos, len := hI.len, np := hI.np, ev := ?_, outC := hI.outC, errC := hI.errC, lph0 := hI.lph0, lph1 := hI.lph1,
           sorted := hI.sorted, pois := hI.pois, pills := ?_, opill := hI.opill, olast := hI.olast, q := ?_,
           fin := ?_, maxk := hI.maxk, aband := ?_, drops := ?_, perrC := hI.perrC, pick := hI.pick, lexcIn := hI.lexcIn, lexc0 := hI.lexc0, lexcOk := hI.lexcOk }
  · intro h'; simp at h'
  · intro h'; simp [State.active] at h'
  · intro h'; simp [State.active] at h'
  · intro _ ha; exact hI.fin hact ha
  · intro _; simp [State.active]
  · intro h'; simp [State.active] at h'

theorem inv_drainIn (c : Cfg) (s : State) (hI : Inv c s) (h : enabled c s .drainIn = true) :
    Inv c (step c s .drainIn) := by
  simp only [enabled, Bool.and_eq_true] at h
  have hm : s.main = .fin := by simpa using h.1
  have hact : s.active = false := by simp [State.active, hm]
  cases hq : s.inq with
  | nil => simp [hq] at h
  | cons x rest =>
  simp only [step, hq]
  refine { npos := hI.npos, len := hI.len, np := hI.np, ev := hI.ev, outC := ?_, errC := ?_, lph0 := ?_, lph1 := hI.lph1,
           sorted := ?_, pois := ?_, pills := ?_, opill := hI.opill, olast := hI.olast, q := ?_,
           fin := hI.fin, maxk := hI.maxk, aband := hI.aband, drops := ?_, perrC := ?_, pick := ?_, lexcIn := hI.lexcIn, lexc0 := hI.lexc0, lexcOk := hI.lexcOk }
  · intro o
    have := hI.outC o
    simp only [outTotal, inSide, hq] at this ⊢
    simp at this ⊢; omega
  · intro e
    have := hI.errC e
    simp only [errTotal, inSide, hq] at this ⊢
    simp at this ⊢; omega
  · intro hl
    have := hI.lph0 hl
    rw [hq] at this
    exact ⟨fun y hy => this.1 y (by simp [hy]), this.2⟩
  · have := hI.sorted; rw [hq] at this; exact sortedQ_tail this
  · intro w hw
    have := hI.pois w hw
    rw [hq] at this
    exact ⟨this.1, fun y hy => this.2 y (by simp [hy])⟩
  · intro h'; rw [State.active] at h' hact; simp_all
  · intro h'; rw [State.active] at h' hact; simp_all
  · intro h'; rw [State.active] at h' hact; simp_all
  · intro e
    have := hI.perrC e
    simp only [inSide, hq] at this ⊢
    simp at this ⊢; omega
  · refine ⟨fun y hy => hI.pick.1 y (by rw [hq]; simp [hy]), hI.pick.2⟩

theorem inv_drainOut (c : Cfg) (s : State) (hI : Inv c s) (h : enabled c s .drainOut = true) :
    Inv c (step c s .drainOut) := by
  simp only [enabled, Bool.and_eq_true] at h
  have hm : s.main = .fin := by simpa using h.1
  have hact : s.active = false := by simp [State.active, hm]
  cases hq : s.outq with
  | nil => simp [hq] at h
  | cons x rest =>
  simp only [step, hq]
  refine { npos := hI.npos, len := hI.len, np := hI.np, ev := hI.ev, outC := ?_, errC := hI.errC, lph0 := hI.lph0, lph1 := hI.lph1,
           sorted := hI.sorted, pois := hI.pois, pills := ?_, opill := ?_, olast := ?_, q := ?_,
           fin := hI.fin, maxk := hI.maxk, aband := hI.aband, drops := ?_, perrC := hI.perrC, pick := hI.pick, lexcIn := hI.lexcIn, lexc0 := hI.lexc0, lexcOk := hI.lexcOk }
  · intro o
    have := hI.outC o
    simp only [outTotal, inSide, hq, oCount] at this ⊢
    simp at this ⊢; omega
  · intro h'; rw [State.active] at h' hact; simp_all
  · intro hn; exact hI.opill (by rw [hq]; simp [hn])
  · intro y hy
    have := hI.olast y
    rw [hq] at this
    exact this (mem_dropLast_of_tail x rest y hy)
  · intro h'; rw [State.active] at h' hact; simp_all
  · intro h'; rw [State.active] at h' hact; simp_all

theorem inv_cGet (c : Cfg) (s : State) (hI : Inv c s) (h : enabled c s .cGet = true) :
    Inv c (step c s .cGet) := by
  simp only [enabled, Bool.and_eq_true] at h
  have hm : s.main = .consuming := by simpa using h.1
  have hact : s.active = true := by simp [State.active, hm]
  cases hq : s.outq with
  | nil => simp [hq] at h
  | cons x rest =>
  cases x with
  | some o =>
    simp only [step, hq]
    refine { npos := hI.npos, len := hI.len, np := hI.np, ev := hI.ev, outC := ?_, errC := hI.errC, lph0 := hI.lph0, lph1 := hI.lph1,
             sorted := hI.sorted, pois := hI.pois, pills := hI.pills, opill := ?_, olast := ?_, q := ?_,
             fin := ?_, maxk := hI.maxk, aband := hI.aband, drops := hI.drops, perrC := hI.perrC, pick := hI.pick, lexcIn := hI.lexcIn, lexc0 := hI.lexc0, lexcOk := hI.lexcOk }
    · intro o'
      have := hI.outC o'
      simp only [outTotal, inSide, hq, oCount] at this ⊢
      simp [List.count_append] at this ⊢
      by_cases ho : o = o'
      · subst ho; simp at this ⊢; omega
      · have h1 : ¬ (o' = o) := fun h => ho h.symm
        simp [ho] at this ⊢; omega
    · intro hn; exact hI.opill (by rw [hq]; simp [hn])
    · intro y hy
      have := hI.olast y
      rw [hq] at this
      exact this (mem_dropLast_of_tail _ rest y hy)
    · intro ha h0
      have := hI.q ha h0
      rw [hq] at this
      simpa using this
    · intro h'; rw [State.active] at h' hact; simp_all
  | none =>
    simp only [step, hq]
    have h0 : s.nprocs = 0 := hI.opill (by rw [hq]; simp)
    have hrest : rest = [] := by
      cases rest with
      | nil => rfl
      | cons z zs =>
        have := hI.olast none (by rw [hq]; simp [List.dropLast])
        exact absurd rfl this
    refine { npos := hI.npos, len := hI.len, np := hI.np, ev := ?_, outC := ?_, errC := hI.errC, lph0 := hI.lph0, lph1 := hI.lph1,
             sorted := hI.sorted, pois := hI.pois, pills := ?_, opill := ?_, olast := ?_, q := ?_,
             fin := ?_, maxk := hI.maxk, aband := ?_, drops := ?_, perrC := hI.perrC, pick := hI.pick, lexcIn := hI.lexcIn, lexc0 := hI.lexc0, lexcOk := hI.lexcOk }
    · intro h'; simp at h'
    · intro o'
      have := hI.outC o'
      simp only [outTotal, inSide, hq, oCount] at this ⊢
      simp at this ⊢; omega
    · intro h'; simp [State.active] at h'
    · intro _; exact h0
    · subst hrest; simp
    · intro h'; simp [State.active] at h'
    · intro _ hab
      refine ⟨h0, ?_⟩
      intro hex
      have hex : s.excs = [] := hex
      have hdead := all_dead_of_nprocs_zero hI h0
      have hlen := hI.len
      have hnp := hI.npos
      have h0w : s.ws[0]? = some .dead := by
        cases hws : s.ws with
        | nil => rw [hws] at hlen; simp at hlen; omega
        | cons w0 wr =>
          have := hdead w0 (by rw [hws]; simp)
          subst this; simp
      have hp := hI.pois 0 (Or.inr ⟨h0w, hex⟩)
      have hl1 := hI.lph1 hp.1
      have hlx : s.lexc = none := by
        cases hlx : s.lexc with
        | none => rfl
        | some e1 =>
          have := hI.lexcIn hp.1 e1 hlx
          rw [hex] at this; simp at this
      have hd0 := hI.drops hact
      have hd : s.dropIn = [] ∧ s.dropOut = [] := ⟨hd0.1 hlx, hd0.2⟩
      have hwo : ∀ o', sumOver (fun w => (wOuts w).count o') s.ws = 0 := by
        intro o'
        rw [sumOver_eq_zero]
        intro w hw; rw [hdead w hw]; simp [wOuts]
      have hwe : ∀ e, sumOver (fun w => (wErrs w).count e) s.ws = 0 := by
        intro e
        rw [sumOver_eq_zero]
        intro w hw; rw [hdead w hw]; simp [wErrs]
      have hin : ∀ x ∈ inSide s, x = none := by
        intro x hx
        simp only [inSide, hd.1, List.append_nil, List.mem_append] at hx
        rcases hx with (hx | hx) | hx
        · exact hp.2 x hx
        · cases hi : s.infl with
          | none => rw [hi] at hx; simp at hx
          | some y =>
            rw [hi] at hx; simp at hx; subst hx
            exact hl1.2 _ hi
        · exact hl1.1 x hx
      have hio : ∀ o', sumOver (fun x => (elemOuts x).count o') (inSide s) = 0 := by
        intro o'
        rw [sumOver_eq_zero]
        intro x hx; rw [hin x hx]; simp [elemOuts]
      have hie : ∀ e, sumOver (fun x => (elemErrs x).count e) (inSide s) = 0 := by
        intro e
        rw [sumOver_eq_zero]
        intro x hx; rw [hin x hx]; simp [elemErrs]
      constructor
      · intro o'
        have := hI.outC o'
        simp only [outTotal, hq, hrest, hd.2, hwo, hio, oCount] at this
        simp at this
        exact this
      · intro x hx
        constructor
        · cases he : x.err with
          | none => rfl
          | some e =>
            have := hI.errC e
            simp only [errTotal, hwe, hie, hex, hlx] at this
            have h2 := sumOver_le_of_mem (fun x => x.err.toList.count e) c.items x hx
            simp only [he] at h2
            simp at h2 this
            omega
        · cases he : x.perr with
          | none => rfl
          | some e =>
            have := hI.perrC e
            have hip : sumOver (fun x => (elemPerrs x).count e) (inSide s) = 0 := by
              rw [sumOver_eq_zero]
              intro y hy; rw [hin y hy]; simp [elemPerrs]
            rw [hip] at this
            have h2 := sumOver_le_of_mem (fun x => x.perr.toList.count e) c.items x hx
            simp only [he] at h2
            simp at h2
            omega
    · intro hab
      simp [State.active]
    · intro h'; simp [State.active] at h'

theorem inv_wBegin (c : Cfg) (s : State) (w : Nat) (hI : Inv c s) (h : enabled c s (.wBegin w) = true) :
    Inv c (step c s (.wBegin w)) := by
  obtain ⟨hw, hw0⟩ := en_wBegin h
  simp only [step]
  refine { npos := hI.npos, len := by simp [hI.len], np := ?_, ev := ?_, outC := ?_, errC := ?_, lph0 := hI.lph0, lph1 := hI.lph1,
           sorted := hI.sorted, pois := ?_, pills := ?_, opill := hI.opill, olast := hI.olast, q := hI.q,
           fin := hI.fin, maxk := ?_, aband := hI.aband, drops := hI.drops, perrC := hI.perrC, pick := hI.pick, lexcIn := hI.lexcIn, lexc0 := hI.lexc0, lexcOk := hI.lexcOk }
  · have := wsums hw (.run 0 [] none) alive
    have := hI.np
    simp [alive] at *; omega
  · intro _ h'; simp at h'
  · intro o
    have := hI.outC o
    have h2 := wsums hw (.run 0 [] none) (fun w => (wOuts w).count o)
    simp only [outTotal, inSide] at this ⊢
    simp [wOuts] at h2 this ⊢; omega
  · intro e
    have := hI.errC e
    have h2 := wsums hw (.run 0 [] none) (fun w => (wErrs w).count e)
    simp only [errTotal, inSide] at this ⊢
    simp [wErrs] at h2 this ⊢; omega
  · intro w' hp
    simp only [get_set hw] at hp
    by_cases hww : w' = w
    · simp [hww] at hp
    · simp only [hww, if_false] at hp
      exact hI.pois w' hp
  · intro ha hl
    have := hI.pills ha hl
    have h2 := wsums hw (.run 0 [] none) needy
    simp [needy] at h2 this ⊢; omega
  · intro hm w' k p e hr
    simp only [get_set hw] at hr
    by_cases hww : w' = w
    · simp [hww] at hr; omega
    · simp only [hww, if_false] at hr
      exact hI.maxk hm w' k p e hr

theorem inv_wPut (c : Cfg) (s : State) (w : Nat) (hI : Inv c s) (h : enabled c s (.wPut w) = true) :
    Inv c (step c s (.wPut w)) := by
  obtain ⟨k, o, pend, e, hw⟩ := en_wPut h
  have hpos := alive_pos_of_get hI hw (by simp)
  have hnone : none ∉ s.outq := fun hn => by have := hI.opill hn; omega
  simp only [step, hw]
  refine { npos := hI.npos, len := by simp [hI.len], np := ?_, ev := ev_set hI hw (by simp) _, outC := ?_, errC := ?_,
           lph0 := hI.lph0, lph1 := hI.lph1,
           sorted := hI.sorted, pois := ?_, pills := ?_, opill := ?_, olast := ?_, q := ?_,
           fin := hI.fin, maxk := ?_, aband := hI.aband, drops := hI.drops, perrC := hI.perrC, pick := hI.pick, lexcIn := hI.lexcIn, lexc0 := hI.lexc0, lexcOk := hI.lexcOk }
  · have := wsums hw (.run k pend e) alive
    have := hI.np
    simp [alive] at *; omega
  · intro o'
    have := hI.outC o'
    have h2 := wsums hw (.run k pend e) (fun w => (wOuts w).count o')
    simp only [outTotal, inSide, oCount_append] at this ⊢
    simp [wOuts, oCount, List.count_cons] at h2 this ⊢
    by_cases ho : o = o'
    · subst ho; simp at h2 ⊢; omega
    · simp [ho] at h2 ⊢; omega
  · intro e'
    have := hI.errC e'
    have h2 := wsums hw (.run k pend e) (fun w => (wErrs w).count e')
    simp only [errTotal, inSide] at this ⊢
    simp [wErrs] at h2 this ⊢; omega
  · intro w' hp
    simp only [get_set hw] at hp
    by_cases hww : w' = w
    · simp [hww] at hp
    · simp only [hww, if_false] at hp
      exact hI.pois w' hp
  · intro ha hl
    have := hI.pills ha hl
    have h2 := wsums hw (.run k pend e) needy
    simp [needy] at h2 this ⊢; omega
  · intro hn
    simp at hn
    exact absurd hn hnone
  · intro y hy
    simp at hy
    intro hyn; subst hyn; exact hnone hy
  · intro _ h0
    have h0 : s.nprocs = 0 := h0
    omega
  · intro hm w' k' p' e' hr
    simp only [get_set hw] at hr
    by_cases hww : w' = w
    · simp [hww] at hr
      exact hr.1 ▸ hI.maxk hm w k _ e hw
    · simp only [hww, if_false] at hr
      exact hI.maxk hm w' k' p' e' hr

theorem inv_wRaise (c : Cfg) (s : State) (w : Nat) (hI : Inv c s) (h : enabled c s (.wRaise w) = true) :
    Inv c (step c s (.wRaise w)) := by
  obtain ⟨k, e, hw⟩ := en_wRaise h
  simp only [step, hw]
  refine { npos := hI.npos, len := by simp [hI.len], np := ?_, ev := ev_set hI hw (by simp) _, outC := ?_, errC := ?_,
           lph0 := hI.lph0, lph1 := hI.lph1,
           sorted := hI.sorted, pois := ?_, pills := ?_, opill := hI.opill, olast := hI.olast, q := hI.q,
           fin := hI.fin, maxk := ?_, aband := hI.aband, drops := hI.drops, perrC := hI.perrC, pick := hI.pick, lexcIn := hI.lexcIn, lexc0 := hI.lexc0, lexcOk := hI.lexcOk }
  · have := wsums hw (.exited false (some e)) alive
    have := hI.np
    simp [alive] at *; omega
  · intro o'
    have := hI.outC o'
    have h2 := wsums hw (.exited false (some e)) (fun w => (wOuts w).count o')
    simp only [outTotal, inSide] at this ⊢
    simp [wOuts] at h2 this ⊢; omega
  · intro e'
    have := hI.errC e'
    have h2 := wsums hw (.exited false (some e)) (fun w => (wErrs w).count e')
    simp only [errTotal, inSide] at this ⊢
    simp [wErrs] at h2 this ⊢; omega
  · intro w' hp
    simp only [get_set hw] at hp
    by_cases hww : w' = w
    · simp [hww] at hp
    · simp only [hww, if_false] at hp
      exact hI.pois w' hp
  · intro ha hl
    have := hI.pills ha hl
    have h2 := wsums hw (.exited false (some e)) needy
    simp [needy] at h2 this ⊢; omega
  · intro hm w' k' p' e' hr
    simp only [get_set hw] at hr
    by_cases hww : w' = w
    · simp [hww] at hr
    · simp only [hww, if_false] at hr
      exact hI.maxk hm w' k' p' e' hr

theorem inv_wRetire (c : Cfg) (s : State) (w : Nat) (hI : Inv c s) (h : enabled c s (.wRetire w) = true) :
    Inv c (step c s (.wRetire w)) := by
  obtain ⟨k, hw, _⟩ := en_wRetire h
  simp only [step]
  refine { npos := hI.npos, len := by simp [hI.len], np := ?_, ev := ev_set hI hw (by simp) _, outC := ?_, errC := ?_,
           lph0 := hI.lph0, lph1 := hI.lph1,
           sorted := hI.sorted, pois := ?_, pills := ?_, opill := hI.opill, olast := hI.olast, q := hI.q,
           fin := hI.fin, maxk := ?_, aband := hI.aband, drops := hI.drops, perrC := hI.perrC, pick := hI.pick, lexcIn := hI.lexcIn, lexc0 := hI.lexc0, lexcOk := hI.lexcOk }
  · have := wsums hw (.exited false none) alive
    have := hI.np
    simp [alive] at *; omega
  · intro o'
    have := hI.outC o'
    have h2 := wsums hw (.exited false none) (fun w => (wOuts w).count o')
    simp only [outTotal, inSide] at this ⊢
    simp [wOuts] at h2 this ⊢; omega
  · intro e'
    have := hI.errC e'
    have h2 := wsums hw (.exited false none) (fun w => (wErrs w).count e')
    simp only [errTotal, inSide] at this ⊢
    simp [wErrs] at h2 this ⊢; omega
  · intro w' hp
    simp only [get_set hw] at hp
    by_cases hww : w' = w
    · simp [hww] at hp
    · simp only [hww, if_false] at hp
      exact hI.pois w' hp
  · intro ha hl
    have := hI.pills ha hl
    have h2 := wsums hw (.exited false none) needy
    simp [needy] at h2 this ⊢; omega
  · intro hm w' k' p' e' hr
    simp only [get_set hw] at hr
    by_cases hww : w' = w
    · simp [hww] at hr
    · simp only [hww, if_false] at hr
      exact hI.maxk hm w' k' p' e' hr

theorem inv_wGet (c : Cfg) (s : State) (w : Nat) (hI : Inv c s) (h : enabled c s (.wGet w) = true) :
    Inv c (step c s (.wGet w)) := by
  obtain ⟨k, x, rest, hw, hk, hq⟩ := en_wGet h
  cases x with
  | some x =>
    simp only [step, hw, hq]
    refine { npos := hI.npos, len := by simp [hI.len], np := ?_, ev := ev_set hI hw (by simp) _, outC := ?_, errC := ?_,
             lph0 := ?_, lph1 := hI.lph1,
             sorted := ?_, pois := ?_, pills := ?_, opill := hI.opill, olast := hI.olast, q := hI.q,
             fin := hI.fin, maxk := ?_, aband := hI.aband, drops := hI.drops, perrC := ?_, pick := ?_, lexcIn := hI.lexcIn, lexc0 := hI.lexc0, lexcOk := hI.lexcOk }
    · have := wsums hw (.run (k+1) x.outs x.err) alive
      have := hI.np
      simp [alive] at *; omega
    · intro o'
      have := hI.outC o'
      have h2 := wsums hw (.run (k+1) x.outs x.err) (fun w => (wOuts w).count o')
      simp only [outTotal, inSide, hq] at this ⊢
      simp [wOuts, elemOuts] at h2 this ⊢; omega
    · intro e'
      have := hI.errC e'
      have h2 := wsums hw (.run (k+1) x.outs x.err) (fun w => (wErrs w).count e')
      simp only [errTotal, inSide, hq] at this ⊢
      simp [wErrs, elemErrs] at h2 this ⊢; omega
    · intro hl
      have := hI.lph0 hl
      rw [hq] at this
      exact ⟨fun y hy => this.1 y (by simp [hy]), this.2⟩
    · have := hI.sorted; rw [hq] at this; exact sortedQ_tail this
    · intro w' hp
      simp only [get_set hw] at hp
      by_cases hww : w' = w
      · simp [hww] at hp
      · simp only [hww, if_false] at hp
        have := hI.pois w' hp
        rw [hq] at this
        exact ⟨this.1, fun y hy => this.2 y (by simp [hy])⟩
    · intro ha hl
      have := hI.pills ha hl
      have h2 := wsums hw (.run (k+1) x.outs x.err) needy
      rw [hq] at this
      simp [needy, isPill] at h2 this ⊢; omega
    · intro hm w' k' p' e' hr
      simp only [get_set hw] at hr
      by_cases hww : w' = w
      · simp [hww] at hr
        simp [mayTake] at hk
        omega
      · simp only [hww, if_false] at hr
        exact hI.maxk hm w' k' p' e' hr
    · intro e'
      have := hI.perrC e'
      have hpk := hI.pick.1 (some x) (by rw [hq]; simp)
      have hx0 : x.perr = none := by simpa [perrOf] using hpk
      simp only [inSide, hq] at this ⊢
      simp [elemPerrs, hx0] at this ⊢; omega
    · exact ⟨fun y hy => hI.pick.1 y (by rw [hq]; simp [hy]), hI.pick.2⟩
  | none =>
    simp only [step, hw, hq]
    have hl : s.lphase = true := by
      cases hl : s.lphase with
      | true => rfl
      | false =>
        have := (hI.lph0 hl).1 none (by rw [hq]; simp)
        exact absurd rfl this
    have hrest : ∀ y ∈ rest, y = none := by
      have := hI.sorted; rw [hq] at this; exact this
    refine { npos := hI.npos, len := by simp [hI.len], np := ?_, ev := ev_set hI hw (by simp) _, outC := ?_, errC := ?_,
             lph0 := ?_, lph1 := hI.lph1,
             sorted := sortedQ_of_all_none _ hrest, pois := ?_, pills := ?_, opill := hI.opill, olast := hI.olast, q := hI.q,
             fin := hI.fin, maxk := ?_, aband := hI.aband, drops := hI.drops, perrC := ?_, pick := ?_, lexcIn := hI.lexcIn, lexc0 := hI.lexc0, lexcOk := hI.lexcOk }
    · have := wsums hw (.exited true none) alive
      have := hI.np
      simp [alive] at *; omega
    · intro o'
      have := hI.outC o'
      have h2 := wsums hw (.exited true none) (fun w => (wOuts w).count o')
      simp only [outTotal, inSide, hq] at this ⊢
      simp [wOuts, elemOuts] at h2 this ⊢; omega
    · intro e'
      have := hI.errC e'
      have h2 := wsums hw (.exited true none) (fun w => (wErrs w).count e')
      simp only [errTotal, inSide, hq] at this ⊢
      simp [wErrs, elemErrs] at h2 this ⊢; omega
    · intro hl'; rw [hl] at hl'; simp at hl'
    · intro w' _
      exact ⟨hl, hrest⟩
    · intro ha _
      have := hI.pills ha hl
      have h2 := wsums hw (.exited true none) needy
      rw [hq] at this
      simp [needy, isPill] at h2 this ⊢; omega
    · intro hm w' k' p' e' hr
      simp only [get_set hw] at hr
      by_cases hww : w' = w
      · simp [hww] at hr
      · simp only [hww, if_false] at hr
        exact hI.maxk hm w' k' p' e' hr
    · intro e'
      have := hI.perrC e'
      simp only [inSide, hq] at this ⊢
      simp [elemPerrs] at this ⊢; omega
    · exact ⟨fun y hy => hI.pick.1 y (by rw [hq]; simp [hy]), hI.pick.2⟩

theorem inv_wCallback (c : Cfg) (s : State) (w : Nat) (hI : Inv c s) (h : enabled c s (.wCallback w) = true) :
    Inv c (step c s (.wCallback w)) := by
  obtain ⟨p, e, hw⟩ := en_wCallback h
  have hpos := alive_pos_of_get hI hw (by simp)
  have hnone : none ∉ s.outq := fun hn => by have := hI.opill hn; omega
  simp only [step, hw]
  split
  · rename_i hc
    simp only [Bool.and_eq_true, Bool.not_eq_true', List.isEmpty_iff, List.append_eq_nil_iff] at hc
    obtain ⟨hp, hex, he⟩ := hc
    have he' : e = none := by cases e <;> simp at he ⊢
    subst hp he'
    simp only [Option.toList, List.append_nil]
    refine { npos := hI.npos, len := by simp [hI.len], np := ?_, ev := ev_set hI hw (by simp) _, outC := ?_, errC := ?_,
             lph0 := hI.lph0, lph1 := hI.lph1,
             sorted := hI.sorted, pois := ?_, pills := ?_, opill := hI.opill, olast := hI.olast, q := hI.q,
             fin := hI.fin, maxk := ?_, aband := hI.aband, drops := hI.drops, perrC := hI.perrC, pick := hI.pick, lexcIn := hI.lexcIn, lexc0 := hI.lexc0, lexcOk := hI.lexcOk }
    · have := wsums hw .spawned alive
      have := hI.np
      simp [alive] at *; omega
    · intro o'
      have := hI.outC o'
      have h2 := wsums hw .spawned (fun w => (wOuts w).count o')
      simp only [outTotal, inSide] at this ⊢
      simp [wOuts] at h2 this ⊢; omega
    · intro e'
      have := hI.errC e'
      have h2 := wsums hw .spawned (fun w => (wErrs w).count e')
      simp only [errTotal, inSide] at this ⊢
      simp [wErrs] at h2 this ⊢; omega
    · intro w' hp
      simp only [get_set hw] at hp
      by_cases hww : w' = w
      · simp [hww] at hp
      · simp only [hww, if_false] at hp
        exact hI.pois w' hp
    · intro ha hl
      have := hI.pills ha hl
      have h2 := wsums hw .spawned needy
      simp [needy] at h2 this ⊢; omega
    · intro hm w' k' p' e' hr
      simp only [get_set hw] at hr
      by_cases hww : w' = w
      · simp [hww] at hr
      · simp only [hww, if_false] at hr
        exact hI.maxk hm w' k' p' e' hr
  · rename_i hc
    have hc' : p = true ∨ s.excs ++ e.toList ≠ [] := by
      cases p with
      | true => left; rfl
      | false =>
        right; intro hnil
        apply hc; simp [hnil]
    refine { npos := hI.npos, len := by simp [hI.len], np := ?_, ev := ev_set hI hw (by simp) _, outC := ?_, errC := ?_,
             lph0 := hI.lph0, lph1 := hI.lph1,
             sorted := hI.sorted, pois := ?_, pills := ?_, opill := ?_, olast := ?_, q := ?_,
             fin := ?_, maxk := ?_, aband := hI.aband, drops := hI.drops, perrC := hI.perrC, pick := hI.pick, lexcIn := ?_, lexc0 := hI.lexc0, lexcOk := hI.lexcOk }
    · have := wsums hw .dead alive
      have := hI.np
      simp [alive] at *; omega
    · intro o'
      have := hI.outC o'
      have h2 := wsums hw .dead (fun w => (wOuts w).count o')
      simp only [outTotal, inSide] at this ⊢
      by_cases hz : s.nprocs - 1 = 0
      · simp [hz, wOuts, oCount] at h2 this ⊢; omega
      · simp [hz, wOuts, oCount] at h2 this ⊢; omega
    · intro e'
      have := hI.errC e'
      have h2 := wsums hw .dead (fun w => (wErrs w).count e')
      simp only [errTotal, inSide] at this ⊢
      simp [wErrs, List.count_append] at h2 this ⊢; omega
    · intro w' hp
      simp only [get_set hw] at hp
      by_cases hww : w' = w
      · simp [hww] at hp
        obtain ⟨hex, he⟩ := hp
        rcases hc' with hp1 | hne
        · subst hp1; exact hI.pois w (Or.inl ⟨e, hw⟩)
        · exact absurd (by simp [hex, he]) hne
      · simp only [hww, if_false] at hp
        rcases hp with hp | ⟨hd, hex⟩
        · exact hI.pois w' (Or.inl hp)
        · simp at hex
          exact hI.pois w' (Or.inr ⟨hd, hex.1⟩)
    · intro ha hl
      have := hI.pills ha hl
      have h2 := wsums hw .dead needy
      simp [needy] at h2 this ⊢; omega
    · intro _
      by_cases hz : s.nprocs - 1 = 0
      · exact hz
      · have : s.nprocs - 1 = 0 := by
          rename_i hn
          simp [hz] at hn
          exact absurd hn hnone
        exact this
    · by_cases hz : s.nprocs - 1 = 0
      · simp [hz]
        intro y hy hyn; subst hyn; exact hnone hy
      · simp [hz]; exact hI.olast
    · intro _ h0
      have h0 : s.nprocs - 1 = 0 := h0
      simp [h0]
    · intro ha hab
      have := (hI.fin ha hab).1
      omega
    · intro hm w' k' p' e' hr
      simp only [get_set hw] at hr
      by_cases hww : w' = w
      · simp [hww] at hr
      · simp only [hww, if_false] at hr
        exact hI.maxk hm w' k' p' e' hr
    · intro hl e' he'
      have := hI.lexcIn hl e' he'
      simp [this]

/-- the invariant is inductive -/
theorem inv_step' (c : Cfg) (s : State) (a : Action) (hI : Inv c s) (h : enabled c s a = true) :
    Inv c (step c s a) := by
  cases a with
  | loadTake => exact inv_loadTake c s hI h
  | loadPut => exact inv_loadPut c s hI h
  | loadFinish => exact inv_loadFinish c s hI h
  | wBegin w => exact inv_wBegin c s w hI h
  | wGet w => exact inv_wGet c s w hI h
  | wPut w => exact inv_wPut c s w hI h
  | wRaise w => exact inv_wRaise c s w hI h
  | wRetire w => exact inv_wRetire c s w hI h
  | wCallback w => exact inv_wCallback c s w hI h
  | mEvent => exact inv_mEvent c s hI h
  | cGet => exact inv_cGet c s hI h
  | cAbandon => exact inv_cAbandon c s hI h
  | drainIn => exact inv_drainIn c s hI h
  | drainOut => exact inv_drainOut c s hI h
  | mDone => exact inv_mDone c s hI h

theorem inv_reachable' (c : Cfg) (hn : 0 < c.n) (s : State) (h : Reachable c s) : Inv c s := by
  induction h with
  | init => exact inv_init' c hn
  | step _ he ih => exact inv_step' c _ _ ih he


/-! ### consequences -/

theorem count_allOuts (c : Cfg) (o : Nat) : (allOuts c).count o = sumOver (fun x => x.outs.count o) c.items := by
  unfold allOuts
  induction c.items with
  | nil => simp
  | cons y ys ih => simp [List.flatMap_cons, List.count_append, ih]

theorem mem_errs_of_pos (items : List ItemSpec) (e : Nat) (h : 0 < sumOver (fun x => x.err.toList.count e) items) :
    e ∈ items.filterMap (·.err) := by
  induction items with
  | nil => simp at h
  | cons y ys ih =>
    simp only [sumOver_cons] at h
    cases hy : y.err with
    | none =>
      simp [hy] at h
      have := ih h
      simp [hy] at this ⊢; exact this
    | some e' =>
      by_cases he : e' = e
      · simp [hy, he]
      · simp [hy, he] at h
        have := ih h
        simp [hy] at this ⊢; right; exact this

theorem mem_perrs_of_pos (items : List ItemSpec) (e : Nat) (h : 0 < sumOver (fun x => x.perr.toList.count e) items) :
    e ∈ items.filterMap (·.perr) := by
  induction items with
  | nil => simp at h
  | cons y ys ih =>
    simp only [sumOver_cons] at h
    cases hy : y.perr with
    | none =>
      simp [hy] at h
      have := ih h
      simp [hy] at this ⊢; exact this
    | some e' =>
      by_cases he : e' = e
      · simp [hy, he]
      · simp [hy, he] at h
        have := ih h
        simp [hy] at this ⊢; right; exact this

theorem mem_allErrs_of_pos (c : Cfg) (e : Nat) (h : 0 < sumOver (fun x => x.err.toList.count e) c.items) :
    e ∈ allErrs c := by
  unfold allErrs
  exact List.mem_append_left _ (mem_errs_of_pos c.items e h)

theorem mem_allErrs_of_perr_pos (c : Cfg) (e : Nat) (h : 0 < sumOver (fun x => x.perr.toList.count e) c.items) :
    e ∈ allErrs c := by
  unfold allErrs
  exact List.mem_append_right _ (mem_perrs_of_pos c.items e h)

theorem allErrs_nil_iff (c : Cfg) : allErrs c = [] ↔ ∀ x ∈ c.items, x.err = none ∧ x.perr = none := by
  unfold allErrs
  induction c.items with
  | nil => simp
  | cons y ys ih =>
    simp only [List.append_eq_nil_iff] at ih ⊢
    cases hy : y.err with
    | none =>
      cases hp : y.perr with
      | none =>
        simp only [List.filterMap_cons, hy, hp, List.mem_cons, forall_eq_or_imp, true_and, and_self]
        exact ih
      | some e => simp [hy, hp]
    | some e => simp [hy]

theorem excs_sub {c : Cfg} {s : State} (hI : Inv c s) : ∀ e ∈ s.excs, e ∈ allErrs c := by
  intro e he
  have := hI.errC e
  have hc : 0 < s.excs.count e := List.count_pos_iff.2 he
  simp only [errTotal] at this
  by_cases hpos : 0 < sumOver (fun x => x.err.toList.count e) c.items
  · exact mem_allErrs_of_pos c e hpos
  · apply mem_allErrs_of_perr_pos
    apply hI.lexcOk e
    cases hl : s.lphase with
    | false => simp [hl] at this; omega
    | true =>
      simp [hl] at this
      cases hx : s.lexc with
      | none => simp [hx] at this; omega
      | some e1 =>
        by_cases h1 : e1 = e
        · rw [h1]
        · simp [hx, h1] at this; omega

theorem recv_sub {c : Cfg} {s : State} (hI : Inv c s) (o : Nat) : s.recv.count o ≤ (allOuts c).count o := by
  rw [count_allOuts]
  have := hI.outC o
  simp only [outTotal] at this
  omega

/-- what a finished, not abandoned call has delivered -/
theorem finished' {c : Cfg} {s : State} (hI : Inv c s) (hd : s.main = .done) (hab : s.abandoned = false) :
    (s.excs = [] → s.recv.Perm (allOuts c) ∧ allErrs c = []) ∧ (∀ e ∈ s.excs, e ∈ allErrs c) := by
  refine ⟨?_, excs_sub hI⟩
  intro hex
  have := (hI.fin (by simp [State.active, hd]) hab).2 hex
  refine ⟨?_, (allErrs_nil_iff c).2 this.2⟩
  rw [List.perm_iff_count]
  intro o
  rw [count_allOuts]; exact this.1 o

theorem exactly_once' (c : Cfg) (hn : 0 < c.n) (s : State) (hr : Reachable c s) (hd : s.main = .done)
    (hab : s.abandoned = false) (hne : ∀ x ∈ c.items, x.err = none ∧ x.perr = none) :
    ∃ outs, outcome s = .ok outs ∧ outs.Perm (allOuts c) := by
  have hI := inv_reachable' c hn s hr
  have hf := finished' hI hd hab
  have hnil : allErrs c = [] := (allErrs_nil_iff c).2 hne
  have hex : s.excs = [] := by
    cases he : s.excs with
    | nil => rfl
    | cons e es =>
      have := hf.2 e (by simp [he])
      rw [hnil] at this; simp at this
  refine ⟨s.recv, ?_, (hf.1 hex).1⟩
  simp [outcome, hab, hex]

theorem error_surfaces' (c : Cfg) (hn : 0 < c.n) (s : State) (hr : Reachable c s) (hd : s.main = .done)
    (hab : s.abandoned = false) (x : ItemSpec) (hx : x ∈ c.items) (hxe : x.err ≠ none ∨ x.perr ≠ none) :
    ∃ e outs, outcome s = .raised e outs ∧ e ∈ allErrs c := by
  have hI := inv_reachable' c hn s hr
  have hf := finished' hI hd hab
  cases he : s.excs with
  | nil =>
    have := (allErrs_nil_iff c).1 (hf.1 he).2 x hx
    rcases hxe with h | h
    · exact absurd this.1 h
    · exact absurd this.2 h
  | cons e es =>
    exact ⟨e, s.recv, by simp [outcome, hab, he], hf.2 e (by simp [he])⟩

/-- a normal return means: everything delivered, and no item raised (nothing dropped silently) -/
theorem ok_complete' (c : Cfg) (hn : 0 < c.n) (s : State) (hr : Reachable c s) (hd : s.main = .done)
    (outs : List Nat) (ho : outcome s = .ok outs) : outs.Perm (allOuts c) ∧ allErrs c = [] := by
  have hI := inv_reachable' c hn s hr
  simp only [outcome] at ho
  split at ho
  · simp at ho
  · rename_i hab
    have hab : s.abandoned = false := by simpa using hab
    split at ho
    · simp at ho
    · rename_i hex
      simp at ho; subst ho
      exact (finished' hI hd hab).1 hex

theorem raised_genuine' (c : Cfg) (hn : 0 < c.n) (s : State) (hr : Reachable c s)
    (e : Nat) (outs : List Nat) (ho : outcome s = .raised e outs) : e ∈ allErrs c := by
  have hI := inv_reachable' c hn s hr
  simp only [outcome] at ho
  split at ho
  · simp at ho
  · split at ho
    · rename_i e' es hex
      simp at ho
      exact excs_sub hI e (by rw [hex, ← ho.1]; simp)
    · simp at ho

theorem never_duplicated' (c : Cfg) (hn : 0 < c.n) (s : State) (hr : Reachable c s) (o : Nat) :
    s.recv.count o ≤ (allOuts c).count o := recv_sub (inv_reachable' c hn s hr) o

theorem max_tasks' (c : Cfg) (hn : 0 < c.n) (hm : 0 < c.m) (s : State) (hr : Reachable c s)
    (w k : Nat) (p : List Nat) (e : Option Nat) (h : s.ws[w]? = some (.run k p e)) : k ≤ c.m :=
  (inv_reachable' c hn s hr).maxk hm w k p e h

/-- a live lineage either has an enabled step of its own, or is parked on an empty in_queue -/
theorem worker_progress (c : Cfg) (s : State) (w : Nat) (x : W) (hw : s.ws[w]? = some x)
    (hm : s.main ≠ .waitEvent) :
    (∃ a, a ≠ Action.cAbandon ∧ enabled c s a = true) ∨ x = .dead ∨
      (∃ k, x = .run k [] none ∧ s.inq = []) := by
  cases x with
  | spawned =>
    left; refine ⟨.wBegin w, by simp, ?_⟩
    simp [enabled, hw, hm]
  | dead => right; left; rfl
  | exited p e =>
    left; refine ⟨.wCallback w, by simp, ?_⟩
    simp [enabled, hw]
  | run k pend e =>
    cases pend with
    | cons o rest =>
      left; refine ⟨.wPut w, by simp, ?_⟩
      simp [enabled, hw]
    | nil =>
      cases e with
      | some e =>
        left; refine ⟨.wRaise w, by simp, ?_⟩
        simp [enabled, hw]
      | none =>
        cases hk : mayTake c k with
        | false =>
          left; refine ⟨.wRetire w, by simp, ?_⟩
          simp [enabled, hw, hk]
        | true =>
          cases hq : s.inq with
          | nil => right; right; exact ⟨k, rfl, rfl⟩
          | cons y ys =>
            left; refine ⟨.wGet w, by simp, ?_⟩
            simp [enabled, hw, hk, hq]

theorem exists_alive {c : Cfg} {s : State} (hI : Inv c s) (h : s.nprocs ≠ 0) :
    ∃ (w : Nat) (x : W), s.ws[w]? = some x ∧ x ≠ W.dead := by
  have hnp := hI.np
  by_cases hall : ∀ x ∈ s.ws, alive x = 0
  · have := (sumOver_eq_zero alive s.ws).2 hall
    omega
  · have hall' : ∃ x, x ∈ s.ws ∧ alive x ≠ 0 := by
      apply Classical.byContradiction
      intro hno
      apply hall
      intro x hx
      apply Classical.byContradiction
      intro hne
      exact hno ⟨x, hx, hne⟩
    obtain ⟨x, hx, hxa⟩ := hall'
    obtain ⟨w, hw⟩ := List.mem_iff_getElem?.1 hx
    refine ⟨w, x, hw, ?_⟩
    intro hd; subst hd; simp [alive] at hxa

theorem deadlock_free' (c : Cfg) (hn : 0 < c.n) (s : State) (hr : Reachable c s) (hnd : s.main ≠ .done) :
    ∃ a, a ≠ Action.cAbandon ∧ enabled c s a = true := by
  have hI := inv_reachable' c hn s hr
  cases hm : s.main with
  | done => exact absurd hm hnd
  | fin => exact ⟨.mDone, by simp, by simp [enabled, hm]⟩
  | waitEvent =>
    cases he : s.event with
    | true => exact ⟨.mEvent, by simp, by simp [enabled, hm, he]⟩
    | false =>
      have := hI.ev hm he
      exact ⟨.wBegin 0, by simp, by simp [enabled, this]⟩
  | consuming =>
    have hact : s.active = true := by simp [State.active, hm]
    cases hq : s.outq with
    | cons y ys => exact ⟨.cGet, by simp, by simp [enabled, hm, hq]⟩
    | nil =>
      have hnp : s.nprocs ≠ 0 := by
        intro h0
        have := hI.q hact h0
        rw [hq] at this; simp at this
      obtain ⟨w, x, hw, hxd⟩ := exists_alive hI hnp
      rcases worker_progress c s w x hw (by rw [hm]; simp) with h | h | ⟨k, hx, hinq⟩
      · exact h
      · exact absurd h hxd
      · -- every live lineage may be parked: then the loader side can move
        cases hi : s.infl with
        | some y =>
          refine ⟨.loadPut, by simp, ?_⟩
          simp [enabled, hi, hinq, cap]; omega
        | none =>
          have hst : s.stopped = false := by simp [State.stopped, hm]
          cases ht : s.todo with
          | cons y ys =>
            exact ⟨.loadTake, by simp, by simp [enabled, hi, hst, ht]⟩
          | nil =>
            cases hl : s.lphase with
            | false => exact ⟨.loadFinish, by simp, by simp [enabled, hl, hi, ht]⟩
            | true =>
              have hp := hI.pills hact hl
              rw [hinq, hi, ht] at hp
              simp at hp
              have h1 := sumOver_le_of_mem needy s.ws x (mem_of_getElem? hw)
              subst hx
              simp [needy] at h1
              omega

theorem reachable_of_run (c : Cfg) (s s' : State) (tr : List Action) (hs : Reachable c s)
    (h : runTrace c s tr = some s') : Reachable c s' := by
  induction tr generalizing s with
  | nil => simp [runTrace] at h; subst h; exact hs
  | cons a as ih =>
    simp only [runTrace] at h
    split at h
    · rename_i he; exact ih _ (Reachable.step hs he) h
    · simp at h

/-- a run that cannot be extended (except by the caller abandoning) has finished the call -/
theorem reaches_done' (c : Cfg) (hn : 0 < c.n) (tr : List Action) (s : State)
    (h : runTrace c (init c) tr = some s)
    (hstuck : ∀ a, a ≠ Action.cAbandon → enabled c s a = false) : s.main = .done := by
  have hr := reachable_of_run c _ _ tr Reachable.init h
  cases hm : s.main with
  | done => rfl
  | _ =>
    all_goals
      obtain ⟨a, ha, he⟩ := deadlock_free' c hn s hr (by rw [hm]; simp)
      rw [hstuck a ha] at he; simp at he

/-! ### in-process path -/

theorem inproc_ok' (items : List ItemSpec) (h : ∀ x ∈ items, x.err = none) :
    inproc items = (items.flatMap (·.outs), none) := by
  induction items with
  | nil => rfl
  | cons y ys ih =>
    have hy := h y (by simp)
    have := ih (fun x hx => h x (by simp [hx]))
    simp [inproc, hy, this]

theorem inproc_err' (items : List ItemSpec) (x : ItemSpec) (hx : x ∈ items) (hxe : x.err ≠ none) :
    ∃ e, (inproc items).2 = some e ∧ e ∈ items.filterMap (·.err) := by
  induction items with
  | nil => simp at hx
  | cons y ys ih =>
    cases hy : y.err with
    | some e => exact ⟨e, by simp [inproc, hy], by simp [hy]⟩
    | none =>
      simp at hx
      rcases hx with hx | hx
      · subst hx; exact absurd hy hxe
      · obtain ⟨e, h1, h2⟩ := ih hx
        refine ⟨e, by simp [inproc, hy, h1], ?_⟩
        simp [hy] at h2 ⊢; exact h2

theorem inproc_sublist' (items : List ItemSpec) : (inproc items).1.Sublist (items.flatMap (·.outs)) := by
  induction items with
  | nil => simp [inproc]
  | cons y ys ih =>
    cases hy : y.err with
    | some e => simp [inproc, hy]
    | none =>
      simp only [inproc, hy, List.flatMap_cons]
      exact List.Sublist.append (List.Sublist.refl _) ih


/-! ### several calls on one object -/

theorem startCall_eq_init' (o : Obj) (c : Cfg) : startCall o c = init c := rfl

theorem calls_independent' (o : Obj) (calls : List (Cfg × List Action)) :
    runHistory o calls = singleCalls calls := by
  unfold runHistory
  induction calls generalizing o with
  | nil => rfl
  | cons p rest ih =>
    obtain ⟨c, tr⟩ := p
    simp only [runHistoryWith, singleCalls, startCall_eq_init']
    cases h : runTrace c (init c) tr with
    | none => rfl
    | some s => simp only [ih s.obj]


def staleObj : Obj := { nprocs := 0, excs := [0] }
def staleCfg : Cfg := { n := 1, m := 1, items := [{ id := 0, outs := [7], err := none }] }
def staleTrace : List Action :=
  [.wBegin 0, .mEvent, .loadTake, .loadPut, .wGet 0, .wPut 0, .wRetire 0, .wCallback 0, .cGet, .cGet, .mDone]

theorem stale_exceptions_counterexample' :
    (runTrace staleCfg (startCallStale staleObj staleCfg) staleTrace).map (fun s => (s.main, outcome s))
        = some (Phase.done, Outcome.raised 0 [7])
      ∧ allErrs staleCfg = [] ∧ runTrace staleCfg (init staleCfg) staleTrace = none := by decide

theorem terminates' (c : Cfg) (tr : List Action) (s : State) (h : runTrace c (init c) tr = some s) :
    tr.length ≤ mu c (init c) := by
  have := run_bounded' c (init c) s tr h; omega

theorem abandon_terminates' (c : Cfg) (s : State) (hc : s.main = .consuming) :
    enabled c s .cAbandon = true ∧
    (∀ s', s'.main = .fin → enabled c s' .mDone = true) ∧
    outcome (step c (step c s .cAbandon) .mDone) = .closed s.recv := by
  refine ⟨by simp [enabled, hc], ?_, by simp [step, outcome]⟩
  intro s' h; simp [enabled, h]


/-! ### put time-outs (environment extension) -/

theorem no_timeouts_no_drops' (c : Cfg) (h : c.timeouts = false) (s : State) (hr : ReachableT c s) : Reachable c s := by
  induction hr with
  | init => exact Reachable.init
  | @step s' a _ he ih =>
    cases a with
    | base a => exact Reachable.step ih he
    | putTimeout => simp [enabledT, h] at he

theorem mu_putTimeout' (c : Cfg) (s : State) (a : ActionT) (h : enabledT c s a = true) :
    mu c (stepT c s a) < mu c s := by
  cases a with
  | base a => exact mu_decreases' c s a h
  | putTimeout =>
    simp only [enabledT, Bool.and_eq_true] at h
    cases hi : s.infl with
    | none => simp [hi] at h
    | some x =>
      simp only [stepT, hi, mu_def]
      simp
      omega

def toItems : List ItemSpec :=
  [{ id := 0, outs := [1], err := none }, { id := 1, outs := [2], err := none }, { id := 2, outs := [3], err := none }]
def toCfg : Cfg := { n := 1, m := 1, items := toItems, timeouts := true }
def toTrace : List ActionT :=
  [.base .loadTake, .base .loadPut, .base .loadTake, .base .loadPut, .base .loadTake, .putTimeout, .base .loadFinish,
   .base (.wBegin 0), .base .mEvent, .base (.wGet 0), .base (.wPut 0), .base (.wRetire 0), .base (.wCallback 0),
   .base (.wBegin 0), .base (.wGet 0), .base (.wPut 0), .base (.wRetire 0), .base (.wCallback 0), .base (.wBegin 0),
   .base .loadTake, .base .loadPut, .base (.wGet 0), .base (.wCallback 0), .base .cGet, .base .cGet, .base .cGet, .base .mDone]

theorem timeouts_can_drop' :
    (runTraceT toCfg (init toCfg) toTrace).map (fun s => (s.main, outcome s)) = some (Phase.done, Outcome.ok [1, 2])
      ∧ allOuts toCfg = [1, 2, 3] := by decide


/-! ### the CobaMultiprocessor wrapper -/

theorem wrapper_input' {α} (it : List α) : wrapperInput it = it := by
  cases it <;> rfl

theorem wrapper_preserves_outputs' (boot : Nat → Bool) (o : Outcome) (outs : List Nat) :
    (o = .ok outs → wrapOutcome boot o = .ok outs) ∧ (o = .closed outs → wrapOutcome boot o = .closed outs) := by
  constructor <;> intro h <;> subst h <;> rfl

theorem wrapper_error_translation' (boot : Nat → Bool) (e : Nat) (outs : List Nat) :
    wrapOutcome boot (.raised e outs) = (if boot e then .exit e outs else .raised e outs) := rfl

theorem wrapper_transparent' (boot : Nat → Bool) (c : Cfg) (hn : 0 < c.n) (s : State) (hr : Reachable c s)
    (hb : ∀ e ∈ allErrs c, boot e = false) :
    wrapOutcome boot (outcome s) = (match outcome s with
      | .ok o => .ok o | .closed o => .closed o | .raised e o => .raised e o) := by
  cases ho : outcome s with
  | ok o => rfl
  | closed o => rfl
  | raised e o =>
    have := raised_genuine' c hn s hr e o ho
    simp [wrapOutcome, hb e this]

theorem wrapper_oneshot_counterexample' :
    wrapperInput [1, 2, 3] = [1, 2, 3] ∧ wrapperInputStale [1, 2, 3] = [2, 3] := by decide


theorem wrapper_guard' {α} (it : List α) : wrapperSkips it = true ↔ it = [] := by
  cases it <;> simp [wrapperSkips, peekFirst]

theorem wrapper_guard_counterexample' :
    wrapperSkips [none, some 1, some 2] = false ∧ wrapperSkipsStale [none, some 1, some 2] = true := by decide


/-! ### commutation of independent steps -/

def Commutes (c : Cfg) (s : State) (a b : Action) : Prop :=
  enabled c (step c s a) b = true ∧ enabled c (step c s b) a = true ∧ step c (step c s a) b = step c (step c s b) a

theorem Commutes.symm {c s a b} (h : Commutes c s a b) : Commutes c s b a := ⟨h.2.1, h.1, h.2.2.symm⟩

theorem stopped_of_main {s s' : State} (h : s'.main = s.main) : s'.stopped = s.stopped := by
  simp [State.stopped, h]

theorem comm_loadTake_wPut (c : Cfg) (s : State) (w : Nat) (ha : enabled c s .loadTake = true) (hb : enabled c s (.wPut w) = true) :
    Commutes c s .loadTake (.wPut w) := by
  obtain ⟨k, o, pend, e, hw⟩ := en_wPut hb
  simp only [enabled, Bool.and_eq_true] at ha
  have hst : s.stopped = false := by simpa using ha.1.2
  cases ht : s.todo with
  | nil => simp [ht] at ha
  | cons x rest =>
    cases hp : perrOf x <;>
      simp [Commutes, enabled, step, ht, hp, hw, ha.1.1, State.stopped] <;> simpa [State.stopped] using hst

theorem comm_loadPut_wPut (c : Cfg) (s : State) (w : Nat) (ha : enabled c s .loadPut = true) (hb : enabled c s (.wPut w) = true) :
    Commutes c s .loadPut (.wPut w) := by
  obtain ⟨k, o, pend, e, hw⟩ := en_wPut hb
  simp only [enabled, Bool.and_eq_true] at ha
  cases hi : s.infl with
  | none => simp [hi] at ha
  | some x => simp [Commutes, enabled, step, hi, hw, ha]

theorem comm_wGet_wPut (c : Cfg) (s : State) (w w' : Nat) (hne : w ≠ w') (ha : enabled c s (.wGet w) = true) (hb : enabled c s (.wPut w') = true) :
    Commutes c s (.wGet w) (.wPut w') := by
  obtain ⟨k, x, rest, hw, hk, hq⟩ := en_wGet ha
  obtain ⟨k', o, pend, e, hw'⟩ := en_wPut hb
  have h1 : ∀ y, (s.ws.set w y)[w']? = s.ws[w']? := fun y => by rw [List.getElem?_set_ne hne]
  have h2 : ∀ y, (s.ws.set w' y)[w]? = s.ws[w]? := fun y => by rw [List.getElem?_set_ne (Ne.symm hne)]
  cases x <;> simp [Commutes, enabled, step, hw, hw', hq, hk, h1, h2, List.set_comm _ _ hne]

theorem comm_loadTake_wGet (c : Cfg) (s : State) (w : Nat) (ha : enabled c s .loadTake = true) (hb : enabled c s (.wGet w) = true) :
    Commutes c s .loadTake (.wGet w) := by
  obtain ⟨k, x, rest, hw, hk, hq⟩ := en_wGet hb
  simp only [enabled, Bool.and_eq_true] at ha
  have hst : s.stopped = false := by simpa using ha.1.2
  cases ht : s.todo with
  | nil => simp [ht] at ha
  | cons y ys =>
    cases hp : perrOf y <;> cases x <;>
      simp [Commutes, enabled, step, ht, hp, hw, hq, hk, ha.1.1, State.stopped] <;> simpa [State.stopped] using hst

theorem comm_loadTake_wCallback (c : Cfg) (s : State) (w : Nat) (ha : enabled c s .loadTake = true) (hb : enabled c s (.wCallback w) = true) :
    Commutes c s .loadTake (.wCallback w) := by
  obtain ⟨p, e, hw⟩ := en_wCallback hb
  simp only [enabled, Bool.and_eq_true] at ha
  have hst : s.stopped = false := by simpa using ha.1.2
  cases ht : s.todo with
  | nil => simp [ht] at ha
  | cons y ys =>
    cases hp : perrOf y <;>
      (simp only [Commutes, enabled, step, ht, hp, hw]
       split <;> simp [ha.1.1, ht, hp, State.stopped] <;> simpa [State.stopped] using hst)

theorem comm_loadPut_wCallback (c : Cfg) (s : State) (w : Nat) (ha : enabled c s .loadPut = true) (hb : enabled c s (.wCallback w) = true) :
    Commutes c s .loadPut (.wCallback w) := by
  obtain ⟨p, e, hw⟩ := en_wCallback hb
  simp only [enabled, Bool.and_eq_true] at ha
  cases hi : s.infl with
  | none => simp [hi] at ha
  | some x =>
    simp only [Commutes, enabled, step, hi, hw]
    split <;> simp [hi, ha]

theorem comm_wGet_wCallback (c : Cfg) (s : State) (w w' : Nat) (hne : w ≠ w') (ha : enabled c s (.wGet w) = true)
    (hb : enabled c s (.wCallback w') = true) : Commutes c s (.wGet w) (.wCallback w') := by
  obtain ⟨k, x, rest, hw, hk, hq⟩ := en_wGet ha
  obtain ⟨p, e, hw'⟩ := en_wCallback hb
  have h1 : ∀ y, (s.ws.set w y)[w']? = s.ws[w']? := fun y => by rw [List.getElem?_set_ne hne]
  have h2 : ∀ y, (s.ws.set w' y)[w]? = s.ws[w]? := fun y => by rw [List.getElem?_set_ne (Ne.symm hne)]
  cases x <;> by_cases hc : (!p && (s.excs ++ e.toList).isEmpty) = true <;>
    simp [Commutes, enabled, step, hw, hw', hq, hk, h1, h2, hc, List.set_comm _ _ hne]

theorem comm_loadPut_cGet (c : Cfg) (s : State) (ha : enabled c s .loadPut = true) (hb : enabled c s .cGet = true) :
    Commutes c s .loadPut .cGet := by
  simp only [enabled, Bool.and_eq_true] at ha hb
  cases hi : s.infl with
  | none => simp [hi] at ha
  | some x =>
    cases hq : s.outq with
    | nil => simp [hq] at hb
    | cons y ys => cases y <;> simp [Commutes, enabled, step, hi, hq, ha, hb]

theorem comm_wGet_cGet (c : Cfg) (s : State) (w : Nat) (ha : enabled c s (.wGet w) = true) (hb : enabled c s .cGet = true) :
    Commutes c s (.wGet w) .cGet := by
  obtain ⟨k, x, rest, hw, hk, hq⟩ := en_wGet ha
  simp only [enabled, Bool.and_eq_true] at hb
  cases ho : s.outq with
  | nil => simp [ho] at hb
  | cons y ys => cases y <;> cases x <;> simp [Commutes, enabled, step, hw, hq, hk, ho, hb]

theorem comm_mEvent (c : Cfg) (s : State) (a : Action) (hm : a = .loadTake ∨ a = .loadPut ∨ (∃ w, a = .wGet w) ∨ (∃ w, a = .wPut w))
    (ha : enabled c s a = true) (hb : enabled c s .mEvent = true) : Commutes c s a .mEvent := by
  simp only [enabled, Bool.and_eq_true] at hb
  have hmw : s.main = .waitEvent := by simpa using hb.1
  rcases hm with rfl | rfl | ⟨w, rfl⟩ | ⟨w, rfl⟩
  · simp only [enabled, Bool.and_eq_true] at ha
    cases ht : s.todo with
    | nil => simp [ht] at ha
    | cons y ys => cases hp : perrOf y <;> simp [Commutes, enabled, step, ht, hp, ha.1.1, hb, hmw, State.stopped]
  · simp only [enabled, Bool.and_eq_true] at ha
    cases hi : s.infl with
    | none => simp [hi] at ha
    | some x => simp [Commutes, enabled, step, hi, ha, hb, hmw]
  · obtain ⟨k, x, rest, hw, hk, hq⟩ := en_wGet ha
    cases x <;> simp [Commutes, enabled, step, hw, hq, hk, hb, hmw]
  · obtain ⟨k, o, pend, e, hw⟩ := en_wPut ha
    simp [Commutes, enabled, step, hw, hb, hmw]

/-- replacing the state of lineage `w` (and possibly setting the event): what `wBegin`, `wRaise`, `wRetire` do -/
def localStep (w : Nat) (x : W) (ev : Bool) (s : State) : State := { s with ws := s.ws.set w x, event := s.event || ev }

theorem local_enabled (c : Cfg) (s : State) (w : Nat) (x : W) (ev : Bool) (b : Action) (hl : lin b ≠ some w)
    (hb : enabled c s b = true) : enabled c (localStep w x ev s) b = true := by
  cases b with
  | wBegin w' | wGet w' | wPut w' | wRaise w' | wRetire w' | wCallback w' =>
    have hne : w ≠ w' := fun h => hl (by simp [lin, h])
    simp_all [enabled, localStep, List.getElem?_set_ne hne]
  | _ => simp_all [enabled, localStep, State.stopped]

theorem local_step (c : Cfg) (s : State) (w : Nat) (x : W) (ev : Bool) (b : Action) (hl : lin b ≠ some w) :
    step c (localStep w x ev s) b = localStep w x ev (step c s b) := by
  cases b with
  | wBegin w' | wGet w' | wPut w' | wRaise w' | wRetire w' | wCallback w' =>
    have hne : w ≠ w' := fun h => hl (by simp [lin, h])
    simp only [step, localStep, List.getElem?_set_ne hne]
    all_goals (repeat' split)
    all_goals simp_all [List.set_comm _ _ (Ne.symm hne)]
  | _ =>
    simp only [step, localStep]
    all_goals (repeat' split)
    all_goals simp_all

theorem frame_ws (c : Cfg) (s : State) (w : Nat) (b : Action) (hl : lin b ≠ some w) :
    (step c s b).ws[w]? = s.ws[w]? := by
  cases b with
  | wBegin w' | wGet w' | wPut w' | wRaise w' | wRetire w' | wCallback w' =>
    have hne : w' ≠ w := fun h => hl (by simp [lin, h])
    simp only [step]
    all_goals (repeat' split)
    all_goals simp_all [List.getElem?_set_ne hne]
  | _ =>
    simp only [step]
    all_goals (repeat' split)
    all_goals simp_all

theorem frame_main (c : Cfg) (s : State) (b : Action) (h : s.main ≠ .waitEvent) : (step c s b).main ≠ .waitEvent := by
  cases b <;> simp only [step] <;> (repeat' split) <;> simp_all

/-- the replacement state (and whether the event gets set) a local step computes from the lineage's own state -/
def localOf : Action → Option W → W × Bool
  | .wBegin _, _ => (.run 0 [] none, true)
  | .wRaise _, some (.run _ _ e) => (.exited false e, false)
  | .wRetire _, _ => (.exited false none, false)
  | _, _ => (.dead, false)

theorem local_form (c : Cfg) (s : State) (a : Action) (w : Nat) (hloc : isLocal a = true) (hw : lin a = some w)
    (ha : enabled c s a = true) :
    step c s a = localStep w (localOf a s.ws[w]?).1 (localOf a s.ws[w]?).2 s := by
  cases a <;> simp [isLocal] at hloc <;> simp [lin] at hw <;> subst hw
  · simp [step, localStep, localOf]
  · obtain ⟨k, e, hw⟩ := en_wRaise ha
    simp [step, localStep, localOf, hw]
  · simp [step, localStep, localOf]

theorem local_stays_enabled (c : Cfg) (s : State) (a b : Action) (w : Nat) (hloc : isLocal a = true) (hw : lin a = some w)
    (hl : lin b ≠ some w) (ha : enabled c s a = true) : enabled c (step c s b) a = true := by
  have hf := frame_ws c s w b hl
  cases a <;> simp [isLocal] at hloc <;> simp [lin] at hw <;> subst hw
  · simp only [enabled, Bool.and_eq_true, Bool.or_eq_true] at ha ⊢
    refine ⟨by rw [hf]; exact ha.1, ?_⟩
    rcases ha.2 with h | h
    · exact Or.inl h
    · right
      have : s.main ≠ .waitEvent := by simpa using h
      simpa using frame_main c s b this
  · simp only [enabled] at ha ⊢; rw [hf]; exact ha
  · simp only [enabled] at ha ⊢; rw [hf]; exact ha

/-- a step that only concerns one lineage (`wBegin`, `wRaise`, `wRetire`) commutes with every step of another actor -/
theorem step_comm_local' (c : Cfg) (s : State) (a b : Action) (w : Nat) (hloc : isLocal a = true) (hw : lin a = some w)
    (hl : lin b ≠ some w) (ha : enabled c s a = true) (hb : enabled c s b = true) : Commutes c s a b := by
  have hs := local_form c s a w hloc hw ha
  have ha' := local_stays_enabled c s a b w hloc hw hl ha
  have hs' := local_form c (step c s b) a w hloc hw ha'
  rw [frame_ws c s w b hl] at hs'
  refine ⟨?_, ha', ?_⟩
  · rw [hs]; exact local_enabled c s w _ _ b hl hb
  · rw [hs, hs', local_step c s w _ _ b hl]

theorem step_comm1 (c : Cfg) (s : State) (a b : Action) (hi : indep1 a b = true)
    (ha : enabled c s a = true) (hb : enabled c s b = true) : Commutes c s a b := by
  simp only [indep1, Bool.or_eq_true, Bool.and_eq_true] at hi
  rcases hi with ⟨hloc, hne⟩ | ht
  · cases hw : lin a with
    | none => cases a <;> simp [isLocal] at hloc <;> simp [lin] at hw
    | some w =>
      refine step_comm_local' c s a b w hloc hw ?_ ha hb
      rw [hw] at hne
      simpa using hne
  · cases a <;> cases b <;> simp at ht
    · exact comm_loadTake_wGet c s _ ha hb
    · exact comm_loadTake_wPut c s _ ha hb
    · exact comm_loadTake_wCallback c s _ ha hb
    · exact comm_mEvent c s _ (Or.inl rfl) ha hb
    · exact comm_loadPut_wPut c s _ ha hb
    · exact comm_loadPut_wCallback c s _ ha hb
    · exact comm_mEvent c s _ (Or.inr (Or.inl rfl)) ha hb
    · exact comm_loadPut_cGet c s ha hb
    · exact comm_wGet_wPut c s _ _ ht ha hb
    · exact comm_wGet_wCallback c s _ _ ht ha hb
    · exact comm_mEvent c s _ (Or.inr (Or.inr (Or.inl ⟨_, rfl⟩))) ha hb
    · exact comm_wGet_cGet c s _ ha hb
    · exact comm_mEvent c s _ (Or.inr (Or.inr (Or.inr ⟨_, rfl⟩))) ha hb

theorem step_comm' (c : Cfg) (s : State) (a b : Action) (hi : indep a b = true)
    (ha : enabled c s a = true) (hb : enabled c s b = true) : Commutes c s a b := by
  simp only [indep, Bool.or_eq_true] at hi
  rcases hi with h | h
  · exact step_comm1 c s a b h ha hb
  · exact (step_comm1 c s b a h hb ha).symm


/-- swapping two adjacent independent steps (both possible in the same state) does not change what a schedule computes -/
theorem swap_adjacent' (c : Cfg) (s : State) (a b : Action) (rest : List Action) (hi : indep a b = true)
    (ha : enabled c s a = true) (hb : enabled c s b = true) :
    runTrace c s (a :: b :: rest) = runTrace c s (b :: a :: rest) := by
  obtain ⟨h1, h2, h3⟩ := step_comm' c s a b hi ha hb
  simp [runTrace, ha, hb, h1, h2, h3]

def commCfg : Cfg := { n := 2, m := 1, items := [{ id := 0, outs := [1], err := none }, { id := 1, outs := [2], err := none }] }
def commState : State := (runTrace commCfg (init commCfg) [.wBegin 0, .mEvent, .wBegin 1, .loadTake, .loadPut, .loadTake, .wGet 0]).getD (init commCfg)

theorem step_comm_example' :
    indep (.wPut 0) .loadPut = true ∧ enabled commCfg commState (.wPut 0) = true ∧ enabled commCfg commState .loadPut = true
      ∧ indep (.wPut 0) .cGet = false := by decide


/-! ### abandon: the caller's own steps finish the call -/

theorem drainIn_all (c : Cfg) (q : List (Option ItemSpec)) (s : State) (hq : s.inq = q) (hm : s.main = .fin) (rest : List Action) :
    runTrace c s (List.replicate q.length .drainIn ++ rest) =
      runTrace c { s with inq := [], dropIn := s.dropIn ++ q } rest := by
  induction q generalizing s with
  | nil =>
    have : { s with inq := [], dropIn := s.dropIn } = s := by cases s; simp_all
    simp [this]
  | cons x xs ih =>
    simp only [List.length_cons, List.replicate_succ, List.cons_append, runTrace]
    have he : enabled c s .drainIn = true := by simp [enabled, hm, hq]
    rw [if_pos he]
    have := ih (step c s .drainIn) (by simp [step, hq]) (by simp [step, hq, hm])
    rw [this]
    simp [step, hq, List.append_assoc]

theorem drainOut_all (c : Cfg) (q : List (Option Nat)) (s : State) (hq : s.outq = q) (hm : s.main = .fin) (rest : List Action) :
    runTrace c s (List.replicate q.length .drainOut ++ rest) =
      runTrace c { s with outq := [], dropOut := s.dropOut ++ q } rest := by
  induction q generalizing s with
  | nil =>
    have : { s with outq := [], dropOut := s.dropOut } = s := by cases s; simp_all
    simp [this]
  | cons x xs ih =>
    simp only [List.length_cons, List.replicate_succ, List.cons_append, runTrace]
    have he : enabled c s .drainOut = true := by simp [enabled, hm, hq]
    rw [if_pos he]
    have := ih (step c s .drainOut) (by simp [step, hq]) (by simp [step, hq, hm])
    rw [this]
    simp [step, hq, List.append_assoc]

/-- the caller gives up in any `consuming` state: its own steps alone (no help from any other thread) finish the call,
both queues are empty when it returns (nothing it handed out stays referenced by the queues) and nothing is raised -/
theorem abandon_returns' (c : Cfg) (s : State) (hc : s.main = .consuming) :
    ∃ s', runTrace c s (finishSeq s) = some s' ∧ s'.main = .done ∧ s'.inq = [] ∧ s'.outq = []
      ∧ outcome s' = .closed s.recv ∧ s'.ws = s.ws ∧ (∀ w, enabled c s' (.wGet w) = false)
      ∧ (∀ w k, s.ws[w]? = some (.run k [] none) → mayTake c k = true → parked c s' w = true) := by
  have he : enabled c s .cAbandon = true := by simp [enabled, hc]
  simp only [finishSeq, runTrace, if_pos he, List.append_assoc]
  have h1 := drainIn_all c s.inq (step c s .cAbandon) (by simp [step]) (by simp [step]) (List.replicate s.outq.length .drainOut ++ [.mDone])
  rw [h1]
  have h2 := drainOut_all c s.outq { (step c s .cAbandon) with inq := [], dropIn := (step c s .cAbandon).dropIn ++ s.inq }
    (by simp [step]) (by simp [step]) [.mDone]
  rw [h2]
  refine ⟨_, rfl, ?_⟩
  refine ⟨by simp [step], by simp [step], by simp [step], by simp [step, outcome], by simp [step], ?_, ?_⟩
  · intro w
    simp only [enabled, step]
    split <;> simp
  · intro w k hw hk
    simp [parked, step, hw, hk]

/-! ## Phase 4: larger independence table, worker faults (exit code ≠ 0), max-tasks as an invariant of its own -/


theorem comm_wPut_cGet (c : Cfg) (s : State) (w : Nat) (ha : enabled c s (.wPut w) = true) (hb : enabled c s .cGet = true) :
    Commutes c s (.wPut w) .cGet := by
  obtain ⟨k, o, pend, e, hw⟩ := en_wPut ha
  simp only [enabled, Bool.and_eq_true] at hb
  cases ho : s.outq with
  | nil => simp [ho] at hb
  | cons y ys => cases y <;> simp [Commutes, enabled, step, hw, ho, hb]

theorem comm_loadPut_wGet (c : Cfg) (s : State) (w : Nat) (ha : enabled c s .loadPut = true) (hb : enabled c s (.wGet w) = true) :
    Commutes c s .loadPut (.wGet w) := by
  obtain ⟨k, x, rest, hw, hk, hq⟩ := en_wGet hb
  simp only [enabled, Bool.and_eq_true] at ha
  cases hi : s.infl with
  | none => simp [hi] at ha
  | some y =>
    have hl : rest.length < cap c := by have := ha.2; simp [hq] at this; omega
    cases x <;> simp [Commutes, enabled, step, hi, hw, hq, hk, hl]

theorem step_comm2' (c : Cfg) (s : State) (a b : Action) (hi : indep2 a b = true)
    (ha : enabled c s a = true) (hb : enabled c s b = true) : Commutes c s a b := by
  simp only [indep2, Bool.or_eq_true] at hi
  rcases hi with (h | h) | h
  · exact step_comm' c s a b h ha hb
  · cases a <;> cases b <;> simp [indepExtra1] at h
    · exact comm_loadPut_wGet c s _ ha hb
    · exact comm_wPut_cGet c s _ ha hb
  · cases a <;> cases b <;> simp [indepExtra1] at h
    · exact (comm_loadPut_wGet c s _ hb ha).symm
    · exact (comm_wPut_cGet c s _ hb ha).symm

theorem swap_adjacent2' (c : Cfg) (s : State) (a b : Action) (rest : List Action) (hi : indep2 a b = true)
    (ha : enabled c s a = true) (hb : enabled c s b = true) :
    runTrace c s (a :: b :: rest) = runTrace c s (b :: a :: rest) := by
  obtain ⟨h1, h2, h3⟩ := step_comm2' c s a b hi ha hb
  simp [runTrace, ha, hb, h1, h2, h3]

/-! faults -/
theorem no_faults_refines' (c : Cfg) (s : FState) (hr : ReachableF c 0 s) :
    Reachable c s.b ∧ s.mainErr = false ∧ s.crashed = [] ∧ s.skipped = false ∧ s.budget = 0 := by
  induction hr with
  | init => exact ⟨Reachable.init, rfl, rfl, rfl, rfl⟩
  | @step s' a _ he ih =>
    obtain ⟨h1, h2, h3, h4, h5⟩ := ih
    cases a with
    | wCrash w => simp [enabledF, h5] at he
    | base a =>
      have hen : enabled c s'.b a = true := by
        cases a <;> simp only [enabledF, Bool.and_eq_true] at he <;> first | exact he | exact he.1
      have hst : stepF c s' (.base a) = { s' with b := step c s'.b a } := by
        cases a <;> simp [stepF, h2, h3]
      rw [hst]
      exact ⟨Reachable.step h1 hen, h2, h3, h4, h5⟩

theorem muF_decreases' (c : Cfg) (s : FState) (a : ActionF) (h : enabledF c s a = true) :
    muF c (stepF c s a) < muF c s := by
  cases a with
  | base a =>
    have hen : enabled c s.b a = true := by
      cases a <;> simp only [enabledF, Bool.and_eq_true] at h <;> first | exact h | exact h.1
    have hb := mu_decreases' c s.b a hen
    have key : mu c (stepF c s (.base a)).b ≤ mu c (step c s.b a) ∧ (stepF c s (.base a)).budget = s.budget := by
      cases a with
      | wCallback w =>
        simp only [stepF]
        split
        · exact ⟨by simp [mu_def], rfl⟩
        · exact ⟨Nat.le_refl _, rfl⟩
      | mEvent =>
        simp only [stepF]
        split
        · refine ⟨?_, rfl⟩
          simp only [enabled, Bool.and_eq_true] at hen
          have hm : s.b.main = .waitEvent := by simpa using hen.1
          simp [mu_def, step, phasePot]
        · exact ⟨Nat.le_refl _, rfl⟩
      | _ => exact ⟨Nat.le_refl _, rfl⟩
    simp only [muF]; omega
  | wCrash w =>
    simp only [enabledF, Bool.and_eq_true, decide_eq_true_eq] at h
    obtain ⟨hbud, hw⟩ := h
    cases hws : s.b.ws[w]? with
    | none => simp [hws] at hw
    | some x =>
      cases x with
      | dead => simp [hws] at hw
      | exited p e => simp [hws] at hw
      | spawned =>
        have := sumOver_set (wPot c) s.b.ws w .spawned (.exited true none) hws
        simp only [wPot] at this
        simp only [stepF, hws, muF, mu_def]; omega
      | run k pend e =>
        have := sumOver_set (wPot c) s.b.ws w (.run k pend e) (.exited true none) hws
        simp only [wPot] at this
        simp only [stepF, hws, muF, mu_def]; omega

def MaxK (c : Cfg) (s : State) : Prop := ∀ (w k : Nat) (p : List Nat) (e : Option Nat), s.ws[w]? = some (W.run k p e) → 0 < c.m → k ≤ c.m

theorem maxk_set (c : Cfg) (s : State) (w : Nat) (x : W) (h : MaxK c s)
    (hx : ∀ k p e, x = .run k p e → 0 < c.m → k ≤ c.m) (ws' : List W) (hws : ws' = s.ws.set w x)
    (s' : State) (hs : s'.ws = ws') : MaxK c s' := by
  intro w' k p e hw hm
  rw [hs, hws, List.getElem?_set] at hw
  split at hw
  · split at hw
    · exact hx k p e (by simpa using hw) hm
    · simp at hw
  · exact h w' k p e hw hm

theorem maxk_step (c : Cfg) (s : State) (a : Action) (h : MaxK c s) (he : enabled c s a = true) : MaxK c (step c s a) := by
  have same : ∀ s' : State, s'.ws = s.ws → MaxK c s' := fun s' hs w k p e hw hm => h w k p e (hs ▸ hw) hm
  cases a with
  | wBegin w => exact maxk_set c s w (.run 0 [] none) h (by intro k p e hx hm; cases hx; omega) _ rfl _ (by simp [step])
  | wGet w =>
    obtain ⟨k, x, rest, hw, hk, hq⟩ := en_wGet he
    cases x with
    | none => exact maxk_set c s w (.exited true none) h (by intro k p e hx; cases hx) _ rfl _ (by simp [step, hw, hq])
    | some x =>
      refine maxk_set c s w (.run (k + 1) x.outs x.err) h ?_ _ rfl _ (by simp [step, hw, hq])
      intro k' p e hx hm; cases hx
      simp [mayTake] at hk; omega
  | wPut w =>
    obtain ⟨k, o, pend, e, hw⟩ := en_wPut he
    refine maxk_set c s w (.run k pend e) h ?_ _ rfl _ (by simp [step, hw])
    intro k' p e' hx hm; cases hx; exact h w _ _ _ hw hm
  | wRaise w =>
    obtain ⟨k, e, hw⟩ := en_wRaise he
    exact maxk_set c s w (.exited false (some e)) h (by intro k p e hx; cases hx) _ rfl _ (by simp [step, hw])
  | wRetire w => exact maxk_set c s w (.exited false none) h (by intro k p e hx; cases hx) _ rfl _ (by simp [step])
  | wCallback w =>
    obtain ⟨p, e, hw⟩ := en_wCallback he
    simp only [step, hw]
    split
    · exact maxk_set c s w .spawned h (by intro k p e hx; cases hx) _ rfl _ rfl
    · exact maxk_set c s w .dead h (by intro k p e hx; cases hx) _ rfl _ rfl
  | loadTake => apply same; simp only [step]; split <;> (try split) <;> rfl
  | loadPut => apply same; simp only [step]; split <;> rfl
  | loadFinish => apply same; rfl
  | mEvent => apply same; rfl
  | cGet => apply same; simp only [step]; split <;> rfl
  | cAbandon => apply same; rfl
  | drainIn => apply same; simp only [step]; split <;> rfl
  | drainOut => apply same; simp only [step]; split <;> rfl
  | mDone => apply same; rfl

theorem maxk_init (c : Cfg) : MaxK c (init c) := by
  intro w k p e hw
  simp only [init] at hw
  rw [List.getElem?_replicate] at hw
  split at hw <;> simp at hw

theorem maxk_stepF (c : Cfg) (s : FState) (a : ActionF) (h : MaxK c s.b) (he : enabledF c s a = true) : MaxK c (stepF c s a).b := by
  cases a with
  | base a =>
    have hen : enabled c s.b a = true := by
      cases a <;> simp only [enabledF, Bool.and_eq_true] at he <;> first | exact he | exact he.1
    have hb := maxk_step c s.b a h hen
    have same : ∀ s' : State, s'.ws = (step c s.b a).ws → MaxK c s' := fun s' hs w k p e hw hm => hb w k p e (hs ▸ hw) hm
    cases a with
    | wCallback w => simp only [stepF]; split <;> apply same <;> rfl
    | mEvent => simp only [stepF]; split <;> apply same <;> rfl
    | _ => exact hb
  | wCrash w =>
    simp only [stepF]
    split
    · exact maxk_set c s.b w (.exited true none) h (by intro k p e hx; cases hx) _ rfl _ rfl
    · exact maxk_set c s.b w (.exited true none) h (by intro k p e hx; cases hx) _ rfl _ rfl
    · exact h

theorem maxk_reachableF (c : Cfg) (f : Nat) (s : FState) (hr : ReachableF c f s) : MaxK c s.b := by
  induction hr with
  | init => exact maxk_init c
  | step _ he ih => exact maxk_stepF c _ _ ih he

theorem max_tasks_faults' (c : Cfg) (hm : 0 < c.m) (f : Nat) (s : FState) (hr : ReachableF c f s)
    (w k : Nat) (p : List Nat) (e : Option Nat) (h : s.b.ws[w]? = some (.run k p e)) : k ≤ c.m :=
  maxk_reachableF c f s hr w k p e h hm

theorem runF_bounded' (c : Cfg) (s s' : FState) (tr : List ActionF) (h : runTraceF c s tr = some s') :
    tr.length + muF c s' ≤ muF c s := by
  induction tr generalizing s with
  | nil => simp [runTraceF] at h; subst h; simp
  | cons a as ih =>
    simp only [runTraceF] at h
    split at h
    · rename_i he
      have := ih _ h
      have := muF_decreases' c s a he
      simp; omega
    · simp at h

/-! closed witnesses for the fault extension -/

def crashCfg : Cfg := { n := 2, m := 0, items := [{ id := 0, outs := [1], err := none }, { id := 1, outs := [2], err := none }] }
def crashTrace : List ActionF :=
  [.base .loadTake, .base .loadPut, .base .loadTake, .base .loadPut, .base .loadFinish, .base .loadTake, .base .loadPut, .base .loadTake, .base .loadPut,
   .base (.wBegin 0), .base .mEvent, .base (.wBegin 1), .base (.wGet 0), .wCrash 0, .base (.wCallback 0),
   .base (.wGet 1), .base (.wPut 1), .base (.wGet 1), .base (.wCallback 1), .base .cGet, .base .cGet, .base .drainIn, .base .mDone]

theorem crash_loses_item' :
    (runTraceF crashCfg (initF crashCfg 1) crashTrace).map (fun s => (s.b.main, outcome s.b, s.lostOuts, s.mainErr))
      = some (Phase.done, Outcome.ok [2], [1], true) ∧ allOuts crashCfg = [1, 2] ∧ allErrs crashCfg = [] := by decide

def skipCfg : Cfg := { n := 2, m := 1, items := [{ id := 0, outs := [1], err := none }] }
def skipTrace : List ActionF :=
  [.base (.wBegin 0), .base .loadTake, .base .loadPut, .base (.wGet 0), .wCrash 0, .base (.wCallback 0), .base .mEvent, .base .mDone]

theorem crash_before_event_skips' :
    (runTraceF skipCfg (initF skipCfg 1) skipTrace).map (fun s => (s.b.main, outcome s.b, s.skipped, s.lostOuts, enabledF skipCfg s (.base (.wBegin 1))))
      = some (Phase.done, Outcome.ok [], true, [1], false) := by decide

theorem indep2_example' :
    indep2 (.wPut 0) .cGet = true ∧ indep (.wPut 0) .cGet = false ∧ indep2 .loadPut (.wGet 1) = true ∧ indep2 (.wGet 0) (.wGet 1) = false
      ∧ indep2 (.wPut 0) (.wPut 1) = false := by decide

theorem exactly_once_faults_partial' (c : Cfg) (hn : 0 < c.n) (s : FState) (hr : ReachableF c 0 s) (hd : s.b.main = .done)
    (hab : s.b.abandoned = false) (hne : ∀ x ∈ c.items, x.err = none ∧ x.perr = none) :
    ∃ outs, outcome s.b = .ok outs ∧ outs.Perm (allOuts c) :=
  exactly_once' c hn s.b (no_faults_refines' c s hr).1 hd hab hne

theorem error_surfaces_faults_partial' (c : Cfg) (hn : 0 < c.n) (s : FState) (hr : ReachableF c 0 s) (hd : s.b.main = .done)
    (hab : s.b.abandoned = false) (x : ItemSpec) (hx : x ∈ c.items) (hxe : x.err ≠ none ∨ x.perr ≠ none) :
    ∃ e outs, outcome s.b = .raised e outs ∧ e ∈ allErrs c :=
  error_surfaces' c hn s.b (no_faults_refines' c s hr).1 hd hab x hx hxe

theorem terminates_faults' (c : Cfg) (f : Nat) (tr : List ActionF) (s : FState) (h : runTraceF c (initF c f) tr = some s) :
    tr.length ≤ mu c (init c) + 3 * f := by
  have := runF_bounded' c (initF c f) s tr h
  simp only [muF, initF] at this; omega

theorem fin_can_finish_faults' (c : Cfg) (s : FState) (h : s.b.main = .fin) : enabledF c s (.base .mDone) = true := by
  simp [enabledF, enabled, h]

/-! ## Phase 4: `read_wait=True` -/


theorem enR_base {c : Cfg} {s : RState} {a : Action} (h : enabledR c s (.base a) = true) : enabled c s.b a = true := by
  cases a <;> simp only [enabledR, Bool.and_eq_true] at h <;> first | exact h | exact h.1 | exact h.1.1

theorem readwait_refines' (c : Cfg) (rw : Bool) (s : RState) (hr : ReachableR c rw s) : Reachable c s.b := by
  induction hr with
  | init => exact Reachable.init
  | @step s' a _ he ih =>
    cases a with
    | base a => exact Reachable.step ih (enR_base he)
    | wKey w => exact ih
    | cKey => simp only [stepR]; split <;> exact ih
    | drainKey => exact ih

theorem no_readwait_no_keys' (c : Cfg) (s : RState) (hr : ReachableR c false s) : s.keyPending = [] ∧ s.keyWait = [] := by
  induction hr with
  | init => exact ⟨rfl, rfl⟩
  | @step s' a _ he ih =>
    cases a with
    | base a => exact ih
    | wKey w => simp [enabledR, ih.1] at he
    | cKey => simp only [stepR]; split <;> simp [ih.1, ih.2]
    | drainKey => exact ih

theorem outq_step_len (c : Cfg) (s : State) (a : Action) : (step c s a).outq.length ≤ s.outq.length + 1 := by
  cases a <;> simp only [step] <;> (repeat' split) <;> simp_all <;> omega

theorem syncOut_len (old new : List (Option Nat)) (r : List ROut) (h : new.length ≤ old.length + 1) :
    (syncOut old new r).length ≤ r.length + 1 := by
  simp only [syncOut]
  split
  · simp; omega
  · simp; omega

theorem muR_decreases' (c : Cfg) (rw : Bool) (s : RState) (a : ActionR) (h : enabledR c s a = true) :
    muR c (stepR c rw s a) < muR c s := by
  cases a with
  | base a =>
    have hb := mu_decreases' c s.b a (enR_base h)
    have hl := syncOut_len s.b.outq (step c s.b a).outq s.routq (outq_step_len c s.b a)
    have hnot : lineEnds s.b a ≠ none → (step c s.b a).outq = s.b.outq := by
      cases a <;> simp [lineEnds, step]
      · rename_i w
        intro _
        split <;> rfl
      · rename_i w; split <;> rfl
    simp only [muR, stepR]
    cases hle : lineEnds s.b a with
    | none => cases rw <;> simp <;> omega
    | some w =>
      have := hnot (by simp [hle])
      have hs : (syncOut s.b.outq (step c s.b a).outq s.routq).length = s.routq.length := by
        rw [this]; simp [syncOut]
      cases rw <;> simp <;> omega
  | wKey w =>
    simp only [enabledR] at h
    have hm : w ∈ s.keyPending := by simpa using h
    have := List.length_erase_of_mem hm
    have hp : 0 < s.keyPending.length := List.length_pos_of_mem hm
    simp only [muR, stepR]; simp; omega
  | cKey =>
    simp only [enabledR, Bool.and_eq_true] at h
    cases hq : s.routq with
    | nil => simp [hq, isKeyHead] at h
    | cons x rest =>
      cases x with
      | val o => simp [hq, isKeyHead] at h
      | pill => simp [hq, isKeyHead] at h
      | key w =>
        have := List.length_filter_le (fun x => x != w) s.keyWait
        simp only [muR, stepR, hq]; simp; omega
  | drainKey =>
    simp only [enabledR, Bool.and_eq_true] at h
    cases hq : s.routq with
    | nil => simp [hq, isKeyHead] at h
    | cons x rest => simp only [muR, stepR, hq]; simp

theorem runR_bounded' (c : Cfg) (rw : Bool) (s s' : RState) (tr : List ActionR) (h : runTraceR c rw s tr = some s') :
    tr.length + muR c s' ≤ muR c s := by
  induction tr generalizing s with
  | nil => simp [runTraceR] at h; subst h; simp
  | cons a as ih =>
    simp only [runTraceR] at h
    split at h
    · rename_i he
      have := ih _ h
      have := muR_decreases' c rw s a he
      simp; omega
    · simp at h

theorem terminates_readwait' (c : Cfg) (rw : Bool) (tr : List ActionR) (s : RState) (h : runTraceR c rw (initR c) tr = some s) :
    tr.length ≤ 6 * mu c (init c) := by
  have := runR_bounded' c rw (initR c) s tr h
  simp only [muR, initR] at this; simp at this; omega

def rwCfg : Cfg := { n := 1, m := 1, items := [{ id := 0, outs := [1], err := none }] }
def rwTrace1 : List ActionR :=
  [.base (.wBegin 0), .base .mEvent, .base .loadTake, .base .loadPut, .base (.wGet 0), .base (.wPut 0), .base (.wRetire 0), .wKey 0]
def rwTrace2 : List ActionR :=
  [.base .cGet, .cKey, .base (.wCallback 0), .base .loadFinish, .base .loadTake, .base .loadPut, .base (.wBegin 0), .base (.wGet 0), .wKey 0, .cKey,
   .base (.wCallback 0), .base .cGet, .base .mDone]

theorem readwait_example' :
    (runTraceR rwCfg true (initR rwCfg) rwTrace1).map (fun s => (s.routq, s.keyWait, enabledR rwCfg s (.base (.wCallback 0)), enabled rwCfg s.b (.wCallback 0)))
      = some ([ROut.val 1, ROut.key 0], [0], false, true)
    ∧ (runTraceR rwCfg true (initR rwCfg) (rwTrace1 ++ rwTrace2)).map (fun s => (s.b.main, outcome s.b, s.routq, s.keyPending, s.keyWait))
      = some (Phase.done, Outcome.ok [1], [], [], []) := by decide

/-! ### `read_wait`: the invariant of the key layer and deadlock-freedom -/


def RInv (s : RState) : Prop :=
  s.b.outq = s.routq.filterMap ROut.proj ∧ (s.b.active = true → ∀ w ∈ s.keyWait, ROut.key w ∈ s.routq)

theorem outq_step_shape (c : Cfg) (s : State) (a : Action) :
    (step c s a).outq = s.outq ∨ (∃ x, (step c s a).outq = s.outq ++ [x]) ∨
      ((a = .cGet ∨ a = .drainOut) ∧ ∃ y, s.outq = y :: (step c s a).outq) := by
  cases a <;> simp only [step] <;> (repeat' split) <;> simp_all

theorem active_step (c : Cfg) (s : State) (a : Action) (he : enabled c s a = true) (h : (step c s a).active = true) : s.active = true := by
  cases a <;> simp only [step] at h <;> (repeat' split at h) <;> simp_all [State.active, enabled]

theorem proj_lift (x : Option Nat) : ROut.proj (ROut.lift x) = some x := by cases x <;> rfl

theorem rinv_init (c : Cfg) : RInv (initR c) := by
  refine ⟨by simp [initR, init], ?_⟩
  intro _ w hw; simp [initR] at hw

theorem rinv_step (c : Cfg) (rw : Bool) (s : RState) (a : ActionR) (hI : RInv s) (he : enabledR c s a = true) : RInv (stepR c rw s a) := by
  obtain ⟨h1, h2⟩ := hI
  cases a with
  | base a =>
    have hen := enR_base he
    have hhead : (a = .cGet ∨ a = .drainOut) → isKeyHead s.routq = false := by
      rintro (rfl | rfl) <;> simp only [enabledR, Bool.and_eq_true] at he <;> simpa using he.2
    simp only [stepR, RInv]
    rcases outq_step_shape c s.b a with hs | ⟨x, hs⟩ | ⟨hcd, y, hs⟩
    · have e1 : syncOut s.b.outq (step c s.b a).outq s.routq = s.routq := by rw [hs]; simp [syncOut]
      rw [e1, hs]
      exact ⟨h1, fun hact => h2 (active_step c s.b a hen hact)⟩
    · have e1 : syncOut s.b.outq (step c s.b a).outq s.routq = s.routq ++ [ROut.lift x] := by
        rw [hs]; unfold syncOut; rw [if_neg (by simp)]; simp
      rw [e1, hs]
      refine ⟨by simp [h1, proj_lift], fun hact w hw => ?_⟩
      have := h2 (active_step c s.b a hen hact) w hw
      simp [this]
    · have hk := hhead hcd
      cases hq : s.routq with
      | nil => rw [hq] at h1; simp [hs] at h1
      | cons r rest =>
        have e1 : syncOut s.b.outq (step c s.b a).outq (r :: rest) = rest := by
          rw [hs]; simp [syncOut]
        rw [e1]
        cases r with
        | key w => simp [hq, isKeyHead] at hk
        | val o =>
          rw [hq, hs] at h1; simp [ROut.proj] at h1
          refine ⟨h1.2, fun hact w hw => ?_⟩
          have := h2 (active_step c s.b a hen hact) w hw
          rw [hq] at this; simpa using this
        | pill =>
          rw [hq, hs] at h1; simp [ROut.proj] at h1
          refine ⟨h1.2, fun hact w hw => ?_⟩
          have := h2 (active_step c s.b a hen hact) w hw
          rw [hq] at this; simpa using this
  | wKey w =>
    simp only [stepR, RInv]
    refine ⟨by simp [h1, ROut.proj], fun hact w' hw' => ?_⟩
    simp at hw'
    rcases hw' with rfl | hw'
    · simp
    · have := h2 hact w' hw'; simp [this]
  | cKey =>
    simp only [enabledR, Bool.and_eq_true] at he
    cases hq : s.routq with
    | nil => simp [hq, isKeyHead] at he
    | cons r rest =>
      cases r with
      | val o => simp [hq, isKeyHead] at he
      | pill => simp [hq, isKeyHead] at he
      | key w =>
        simp only [stepR, hq, RInv]
        refine ⟨by rw [h1, hq]; rfl, fun hact w' hw' => ?_⟩
        simp at hw'
        have := h2 hact w' hw'.1
        rw [hq] at this
        simp at this
        rcases this with rfl | h
        · exact absurd rfl hw'.2
        · exact h
  | drainKey =>
    simp only [enabledR, Bool.and_eq_true] at he
    cases hq : s.routq with
    | nil => simp [hq, isKeyHead] at he
    | cons r rest =>
      cases r with
      | val o => simp [hq, isKeyHead] at he
      | pill => simp [hq, isKeyHead] at he
      | key w =>
        simp only [stepR, hq, RInv]
        refine ⟨by rw [h1, hq]; rfl, fun hact => ?_⟩
        have hm : s.b.main = .fin := by simpa using he.1
        simp [State.active, hm] at hact

theorem rinv_reachable (c : Cfg) (rw : Bool) (s : RState) (hr : ReachableR c rw s) : RInv s := by
  induction hr with
  | init => exact rinv_init c
  | step _ he ih => exact rinv_step c rw _ _ ih he

theorem deadlock_free_readwait' (c : Cfg) (hn : 0 < c.n) (rw : Bool) (s : RState) (hr : ReachableR c rw s) (hnd : s.b.main ≠ .done) :
    ∃ a, a ≠ ActionR.base .cAbandon ∧ enabledR c s a = true := by
  have hb := readwait_refines' c rw s hr
  obtain ⟨h1, h2⟩ := rinv_reachable c rw s hr
  have hI := inv_reachable' c hn s.b hb
  cases hm : s.b.main with
  | done => exact absurd hm hnd
  | fin => exact ⟨.base .mDone, by simp, by simp [enabledR, enabled, hm]⟩
  | waitEvent =>
    cases hev : s.b.event with
    | true => exact ⟨.base .mEvent, by simp, by simp [enabledR, enabled, hm, hev]⟩
    | false =>
      have := hI.ev hm hev
      exact ⟨.base (.wBegin 0), by simp, by simp [enabledR, enabled, this]⟩
  | consuming =>
    cases hk : isKeyHead s.routq with
    | true => exact ⟨.cKey, by simp, by simp [enabledR, hm, hk]⟩
    | false =>
      obtain ⟨a, hne, hen⟩ := deadlock_free' c hn s.b hb hnd
      have hact : s.b.active = true := by simp [State.active, hm]
      cases a with
      | cAbandon => exact absurd rfl hne
      | wCallback w =>
        by_cases hp : s.keyPending.contains w = true
        · exact ⟨.wKey w, by simp, by simpa [enabledR] using hp⟩
        · by_cases hw : s.keyWait.contains w = true
          · have hmem : ROut.key w ∈ s.routq := h2 hact w (by simpa using hw)
            cases hq : s.routq with
            | nil => rw [hq] at hmem; simp at hmem
            | cons r rest =>
              have hne' : s.b.outq ≠ [] := by
                rw [h1, hq]
                cases r with
                | key w' => simp [hq, isKeyHead] at hk
                | val o => simp [ROut.proj]
                | pill => simp [ROut.proj]
              refine ⟨.base .cGet, by simp, ?_⟩
              simp only [enabledR, enabled, hm, hk]
              cases ho : s.b.outq with
              | nil => exact absurd ho hne'
              | cons _ _ => simp
          · refine ⟨.base (.wCallback w), by simp, ?_⟩
            simp only [enabledR, hen]
            simp at hp hw
            simp [hp, hw]
      | cGet => exact ⟨.base .cGet, by simp, by simp [enabledR, hen, hk]⟩
      | drainOut => simp [enabled, hm] at hen
      | loadTake => exact ⟨.base .loadTake, by simp, by simpa [enabledR] using hen⟩
      | loadPut => exact ⟨.base .loadPut, by simp, by simpa [enabledR] using hen⟩
      | loadFinish => exact ⟨.base .loadFinish, by simp, by simpa [enabledR] using hen⟩
      | wBegin w => exact ⟨.base (.wBegin w), by simp, by simpa [enabledR] using hen⟩
      | wGet w => exact ⟨.base (.wGet w), by simp, by simpa [enabledR] using hen⟩
      | wPut w => exact ⟨.base (.wPut w), by simp, by simpa [enabledR] using hen⟩
      | wRaise w => exact ⟨.base (.wRaise w), by simp, by simpa [enabledR] using hen⟩
      | wRetire w => exact ⟨.base (.wRetire w), by simp, by simpa [enabledR] using hen⟩
      | mEvent => exact ⟨.base .mEvent, by simp, by simpa [enabledR] using hen⟩
      | drainIn => exact ⟨.base .drainIn, by simp, by simpa [enabledR] using hen⟩
      | mDone => exact ⟨.base .mDone, by simp, by simpa [enabledR] using hen⟩

/-- a schedule with `read_wait` that cannot be extended (except by the caller giving up) has finished the call -/
theorem reaches_done_readwait' (c : Cfg) (hn : 0 < c.n) (rw : Bool) (s : RState) (hr : ReachableR c rw s)
    (hstuck : ∀ a, a ≠ ActionR.base .cAbandon → enabledR c s a = false) : s.b.main = .done := by
  by_cases hnd : s.b.main = .done
  · exact hnd
  · obtain ⟨a, hne, hen⟩ := deadlock_free_readwait' c hn rw s hr hnd
    rw [hstuck a hne] at hen; simp at hen

/-! ## Phase 5: the fault extension — an invariant WITHOUT conservation of errors, deadlock-freedom and "nothing twice" with crashes -/

structure BInv (s : State) : Prop where
  np    : s.nprocs = sumOver alive s.ws
  lph1  : s.lphase = true → (∀ x ∈ s.todo, x = none) ∧ (∀ x, s.infl = some x → x = none)
  pills : s.active = true → s.lphase = true → sumOver needy s.ws ≤ sumOver isPill (s.inq ++ s.infl.toList ++ s.todo)
  q     : s.active = true → s.nprocs = 0 → none ∈ s.outq

theorem binv_init (c : Cfg) (hn : 0 < c.n) : BInv (init c) := by
  refine ⟨?_, ?_, ?_, ?_⟩
  · simp [init, sumOver_replicate, alive]
  · intro h; simp [init] at h
  · intro _ h; simp [init] at h
  · intro _ h; simp [init] at h; omega

theorem binv_loadTake (c : Cfg) (s : State) (hI : BInv s) (h : enabled c s .loadTake = true) : BInv (step c s .loadTake) := by
  simp only [enabled, Bool.and_eq_true] at h
  obtain ⟨⟨hinfl, _⟩, htodo⟩ := h
  cases ht : s.todo with
  | nil => simp [ht] at htodo
  | cons x rest =>
    have hi : s.infl = none := by simpa using hinfl
    simp only [step, ht]
    cases hp : perrOf x with
    | none =>
      simp only []
      refine ⟨hI.np, ?_, ?_, hI.q⟩
      · intro hl; have := hI.lph1 hl; rw [ht] at this
        exact ⟨fun y hy => this.1 y (by simp [hy]), fun y hy => by simp at hy; subst hy; exact this.1 _ (by simp)⟩
      · intro ha hl; have := hI.pills ha hl; rw [ht, hi] at this; simp at this ⊢; omega
    | some e =>
      simp only []
      refine ⟨hI.np, ?_, ?_, hI.q⟩
      · intro hl; have := (hI.lph1 hl).1 x (by simp [ht]); subst this; simp [perrOf] at hp
      · intro ha hl; have := (hI.lph1 hl).1 x (by simp [ht]); subst this; simp [perrOf] at hp

theorem binv_loadPut (c : Cfg) (s : State) (hI : BInv s) (h : enabled c s .loadPut = true) : BInv (step c s .loadPut) := by
  simp only [enabled, Bool.and_eq_true] at h
  cases hi : s.infl with
  | none => simp [hi] at h
  | some x =>
    simp only [step, hi]
    refine ⟨hI.np, ?_, ?_, hI.q⟩
    · intro hl; exact ⟨(hI.lph1 hl).1, by simp⟩
    · intro ha hl; have := hI.pills ha hl; rw [hi] at this; simp at this ⊢; omega

theorem binv_loadFinish (c : Cfg) (s : State) (hI : BInv s) (h : enabled c s .loadFinish = true) : BInv (step c s .loadFinish) := by
  simp only [enabled, Bool.and_eq_true] at h
  have hi : s.infl = none := by simpa using h.1.2
  simp only [step]
  refine ⟨hI.np, ?_, ?_, hI.q⟩
  · intro _; exact ⟨fun x hx => by simp at hx; exact hx.2, by simp [hi]⟩
  · intro _ _
    have h1 := sumOver_mono needy alive s.ws alive_le_needy
    have h2 := hI.np
    simp [hi, sumOver_replicate, isPill]; omega

theorem binv_same (s s' : State) (hI : BInv s) (h1 : s'.nprocs = s.nprocs) (h2 : s'.ws = s.ws) (h3 : s'.lphase = s.lphase)
    (h4 : s'.todo = s.todo) (h5 : s'.infl = s.infl) (h6 : s'.inq = s.inq) (h7 : s'.active = true → s.active = true)
    (h8 : s'.active = true → none ∈ s.outq → none ∈ s'.outq) : BInv s' := by
  refine ⟨by rw [h1, h2]; exact hI.np, by rw [h3, h4, h5]; exact hI.lph1, ?_, ?_⟩
  · intro ha hl; rw [h2, h4, h5, h6]; exact hI.pills (h7 ha) (h3 ▸ hl)
  · intro ha hn; exact h8 ha (hI.q (h7 ha) (h1 ▸ hn))

theorem binv_mEvent (c : Cfg) (s : State) (hI : BInv s) (h : enabled c s .mEvent = true) : BInv (step c s .mEvent) := by
  simp only [enabled, Bool.and_eq_true] at h
  have hm : s.main = .waitEvent := by simpa using h.1
  exact binv_same s _ hI rfl rfl rfl rfl rfl rfl (fun _ => by simp [State.active, hm]) (fun _ h => h)

theorem binv_inactive (s s' : State) (hI : BInv s) (h1 : s'.nprocs = s.nprocs) (h2 : s'.ws = s.ws) (h3 : s'.lphase = s.lphase)
    (h4 : s'.todo = s.todo) (h5 : s'.infl = s.infl) (h7 : s'.active = false) : BInv s' := by
  refine ⟨by rw [h1, h2]; exact hI.np, by rw [h3, h4, h5]; exact hI.lph1, ?_, ?_⟩
  · intro ha; rw [h7] at ha; simp at ha
  · intro ha; rw [h7] at ha; simp at ha

theorem binv_cAbandon (c : Cfg) (s : State) (hI : BInv s) : BInv (step c s .cAbandon) :=
  binv_inactive s _ hI rfl rfl rfl rfl rfl (by simp [step, State.active])

theorem binv_mDone (c : Cfg) (s : State) (hI : BInv s) : BInv (step c s .mDone) :=
  binv_inactive s _ hI rfl rfl rfl rfl rfl (by simp [step, State.active])

theorem binv_drainIn (c : Cfg) (s : State) (hI : BInv s) (h : enabled c s .drainIn = true) : BInv (step c s .drainIn) := by
  simp only [enabled, Bool.and_eq_true] at h
  have hm : s.main = .fin := by simpa using h.1
  simp only [step]
  split <;> exact binv_inactive s _ hI rfl rfl rfl rfl rfl (by simp [State.active, hm])

theorem binv_drainOut (c : Cfg) (s : State) (hI : BInv s) (h : enabled c s .drainOut = true) : BInv (step c s .drainOut) := by
  simp only [enabled, Bool.and_eq_true] at h
  have hm : s.main = .fin := by simpa using h.1
  simp only [step]
  split <;> exact binv_inactive s _ hI rfl rfl rfl rfl rfl (by simp [State.active, hm])

theorem binv_cGet (c : Cfg) (s : State) (hI : BInv s) (h : enabled c s .cGet = true) : BInv (step c s .cGet) := by
  simp only [step]
  split
  · rename_i o rest hq
    exact binv_same s _ hI rfl rfl rfl rfl rfl rfl (fun h => h) (fun _ h => by rw [hq] at h; simpa using h)
  · exact binv_inactive s _ hI rfl rfl rfl rfl rfl (by simp [State.active])
  · exact hI

/-- a step that rewrites one lineage and (possibly) appends to the out-queue -/
theorem binv_ws (s s' : State) (w : Nat) (old x : W) (hI : BInv s) (hw : s.ws[w]? = some old)
    (h2 : s'.ws = s.ws.set w x) (h3 : s'.lphase = s.lphase)
    (h4 : s'.todo = s.todo) (h5 : s'.infl = s.infl) (h7 : s'.main = s.main)
    (hal : s'.nprocs + alive old = s.nprocs + alive x)
    (hpl : s'.active = true → s'.lphase = true →
      sumOver isPill s.inq + needy x ≤ sumOver isPill s'.inq + needy old)
    (h8 : none ∈ s.outq → none ∈ s'.outq) (h9 : s'.nprocs = 0 → alive old = 1 → alive x = 0 → none ∈ s'.outq) : BInv s' := by
  have ha := wsums hw x alive
  have hn := wsums hw x needy
  have hact : s'.active = s.active := by simp [State.active, h7]
  refine ⟨?_, by rw [h3, h4, h5]; exact hI.lph1, ?_, ?_⟩
  · rw [h2]; have := hI.np; omega
  · intro hA hl
    have := hI.pills (hact ▸ hA) (h3 ▸ hl)
    have := hpl hA hl
    rw [h2, h4, h5]; simp at *; omega
  · intro hA h0
    have hnp := hI.np
    by_cases hs0 : s.nprocs = 0
    · exact h8 (hI.q (hact ▸ hA) hs0)
    · apply h9 h0 <;> cases old <;> cases x <;> simp [alive] at * <;> omega



theorem binv_wBegin (c : Cfg) (s : State) (w : Nat) (hI : BInv s) (h : enabled c s (.wBegin w) = true) : BInv (step c s (.wBegin w)) := by
  obtain ⟨hw, _⟩ := en_wBegin h
  exact binv_ws s _ w .spawned (.run 0 [] none) hI hw rfl rfl rfl rfl rfl (by simp [step, alive]) (by intro _ _; simp [step, needy])
    (fun h => h) (by simp [alive])

theorem binv_wPut (c : Cfg) (s : State) (w : Nat) (hI : BInv s) (h : enabled c s (.wPut w) = true) : BInv (step c s (.wPut w)) := by
  obtain ⟨k, o, pend, e, hw⟩ := en_wPut h
  simp only [step, hw]
  exact binv_ws s _ w _ (.run k pend e) hI hw rfl rfl rfl rfl rfl (by simp [alive]) (by intro _ _; simp [needy])
    (fun h => by simp [h]) (by simp [alive])

theorem binv_wRaise (c : Cfg) (s : State) (w : Nat) (hI : BInv s) (h : enabled c s (.wRaise w) = true) : BInv (step c s (.wRaise w)) := by
  obtain ⟨k, e, hw⟩ := en_wRaise h
  simp only [step, hw]
  exact binv_ws s _ w _ (.exited false (some e)) hI hw rfl rfl rfl rfl rfl (by simp [alive]) (by intro _ _; simp [needy])
    (fun h => h) (by simp [alive])

theorem binv_wRetire (c : Cfg) (s : State) (w : Nat) (hI : BInv s) (h : enabled c s (.wRetire w) = true) : BInv (step c s (.wRetire w)) := by
  obtain ⟨k, hw, _⟩ := en_wRetire h
  exact binv_ws s _ w _ (.exited false none) hI hw rfl rfl rfl rfl rfl (by simp [step, alive]) (by intro _ _; simp [step, needy])
    (fun h => h) (by simp [alive])

theorem binv_wGet (c : Cfg) (s : State) (w : Nat) (hI : BInv s) (h : enabled c s (.wGet w) = true) : BInv (step c s (.wGet w)) := by
  obtain ⟨k, x, rest, hw, _, hq⟩ := en_wGet h
  cases x with
  | some x =>
    simp only [step, hw, hq]
    exact binv_ws s _ w _ (.run (k+1) x.outs x.err) hI hw rfl rfl rfl rfl rfl (by simp [alive])
      (by intro _ _; simp [needy, hq, isPill]) (fun h => h) (by simp [alive])
  | none =>
    simp only [step, hw, hq]
    exact binv_ws s _ w _ (.exited true none) hI hw rfl rfl rfl rfl rfl (by simp [alive])
      (by intro _ _; simp [needy, hq, isPill]; omega) (fun h => h) (by simp [alive])

theorem binv_wCallback (c : Cfg) (s : State) (w : Nat) (hI : BInv s) (h : enabled c s (.wCallback w) = true) : BInv (step c s (.wCallback w)) := by
  obtain ⟨p, e, hw⟩ := en_wCallback h
  have hpos : 0 < s.nprocs := by
    rw [hI.np]
    have := sumOver_le_of_mem alive s.ws _ (mem_of_getElem? hw)
    simp [alive] at this; omega
  simp only [step, hw]
  split
  · rename_i hc
    simp only [Bool.and_eq_true, Bool.not_eq_true'] at hc
    have hp := hc.1; subst hp
    exact binv_ws s _ w _ .spawned hI hw rfl rfl rfl rfl rfl (by simp [alive]) (by intro _ _; simp [needy])
      (fun h => h) (by simp [alive])
  · refine binv_ws s _ w _ .dead hI hw rfl rfl rfl rfl rfl (by simp [alive]; omega) (by intro _ _; simp [needy])
      (fun h => ?_) (fun h0 _ _ => ?_)
    · simp only []; split <;> simp [h]
    · simp only [] at h0 ⊢; simp [h0]

theorem binv_step (c : Cfg) (s : State) (a : Action) (hI : BInv s) (h : enabled c s a = true) : BInv (step c s a) := by
  cases a with
  | loadTake => exact binv_loadTake c s hI h
  | loadPut => exact binv_loadPut c s hI h
  | loadFinish => exact binv_loadFinish c s hI h
  | wBegin w => exact binv_wBegin c s w hI h
  | wGet w => exact binv_wGet c s w hI h
  | wPut w => exact binv_wPut c s w hI h
  | wRaise w => exact binv_wRaise c s w hI h
  | wRetire w => exact binv_wRetire c s w hI h
  | wCallback w => exact binv_wCallback c s w hI h
  | mEvent => exact binv_mEvent c s hI h
  | cGet => exact binv_cGet c s hI h
  | cAbandon => exact binv_cAbandon c s hI
  | drainIn => exact binv_drainIn c s hI h
  | drainOut => exact binv_drainOut c s hI h
  | mDone => exact binv_mDone c s hI



/-- every enabled base step conserves the number of copies of an output (no invariant needed) -/
theorem outTotal_step (c : Cfg) (s : State) (a : Action) (o : Nat) (h : enabled c s a = true) :
    outTotal o (step c s a) = outTotal o s := by
  cases a with
  | loadTake =>
    simp only [enabled, Bool.and_eq_true] at h
    have hi : s.infl = none := by simpa using h.1.1
    simp only [step]
    split
    · rename_i x rest ht
      split <;> simp [outTotal, inSide, ht, hi] <;> omega
    · rfl
  | loadPut =>
    simp only [step]
    split
    · rename_i x hi; simp [outTotal, inSide, hi]
    · rfl
  | loadFinish =>
    simp only [enabled, Bool.and_eq_true] at h
    have hi : s.infl = none := by simpa using h.1.2
    have : sumOver (fun x => (elemOuts x).count o) (List.replicate s.nprocs (none : Option ItemSpec)) = 0 := by
      simp [sumOver_replicate, elemOuts]
    simp [step, outTotal, inSide, hi, this]; omega
  | wBegin w =>
    obtain ⟨hw, _⟩ := en_wBegin h
    have := wsums hw (.run 0 [] none) (fun w => (wOuts w).count o)
    simp [step, outTotal, inSide, wOuts] at this ⊢; omega
  | wGet w =>
    obtain ⟨k, x, rest, hw, _, hq⟩ := en_wGet h
    cases x with
    | some x =>
      have := wsums hw (.run (k+1) x.outs x.err) (fun w => (wOuts w).count o)
      simp [step, hw, hq, outTotal, inSide, wOuts, elemOuts] at this ⊢; omega
    | none =>
      have := wsums hw (.exited true none) (fun w => (wOuts w).count o)
      simp [step, hw, hq, outTotal, inSide, wOuts, elemOuts] at this ⊢; omega
  | wPut w =>
    obtain ⟨k, o', pend, e, hw⟩ := en_wPut h
    have := wsums hw (.run k pend e) (fun w => (wOuts w).count o)
    simp [step, hw, outTotal, inSide, wOuts, oCount, List.count_cons] at this ⊢
    split at this <;> rename_i ho <;> simp [ho, eq_comm] at this ⊢ <;> omega
  | wRaise w =>
    obtain ⟨k, e, hw⟩ := en_wRaise h
    have := wsums hw (.exited false (some e)) (fun w => (wOuts w).count o)
    simp [step, hw, outTotal, inSide, wOuts] at this ⊢; omega
  | wRetire w =>
    obtain ⟨k, hw, _⟩ := en_wRetire h
    have := wsums hw (.exited false none) (fun w => (wOuts w).count o)
    simp [step, outTotal, inSide, wOuts] at this ⊢; omega
  | wCallback w =>
    obtain ⟨p, e, hw⟩ := en_wCallback h
    have h1 := wsums hw .spawned (fun w => (wOuts w).count o)
    have h2 := wsums hw .dead (fun w => (wOuts w).count o)
    simp only [step, hw]
    split
    · simp [outTotal, inSide, wOuts] at h1 ⊢; omega
    · split <;> simp [outTotal, inSide, wOuts, oCount] at h2 ⊢ <;> omega
  | mEvent => rfl
  | cGet =>
    simp only [step]
    split
    · rename_i o' rest hq
      simp [outTotal, inSide, hq, oCount, List.count_cons]
      split <;> rename_i ho <;> simp [ho, eq_comm] <;> omega
    · rename_i rest hq; simp [outTotal, inSide, hq, oCount]
    · rfl
  | cAbandon => rfl
  | drainIn =>
    simp only [step]
    split
    · rename_i x rest hq; simp [outTotal, inSide, hq]; omega
    · rfl
  | drainOut =>
    simp only [step]
    split
    · rename_i x rest hq; simp [outTotal, inSide, hq, oCount]; omega
    · rfl
  | mDone => rfl



theorem frame_event (c : Cfg) (s : State) (b : Action) (h : (step c s b).event = false) : s.event = false := by
  cases b <;> simp only [step] at h <;> (repeat' split at h) <;> simp_all

theorem enF_base {c : Cfg} {s : FState} {a : Action} (h : enabledF c s (.base a) = true) : enabled c s.b a = true := by
  cases a <;> simp only [enabledF, Bool.and_eq_true] at h <;> first | exact h | exact h.1

/-- the invariant of the fault extension: what deadlock-freedom and "nothing twice" need, WITHOUT conservation of errors -/
structure FInv (c : Cfg) (s : FState) : Prop where
  b     : BInv s.b
  evF   : s.b.main = .waitEvent → s.b.event = false →
            s.b.ws[0]? = some W.spawned ∨ (0 ∈ s.crashed ∧ ∃ p e, s.b.ws[0]? = some (W.exited p e))
  skip  : s.skipped = true → s.b.active = false
  outF  : ∀ o, outTotal o s.b + s.lostOuts.count o = sumOver (fun x => x.outs.count o) c.items

theorem finv_init (c : Cfg) (hn : 0 < c.n) (f : Nat) : FInv c (initF c f) := by
  refine ⟨binv_init c hn, ?_, by simp [initF], ?_⟩
  · intro _ _; left
    simp only [initF, init]
    cases hc : c.n with
    | zero => omega
    | succ k => simp [List.replicate_succ]
  · intro o
    simp [initF, outTotal, init, inSide, oCount, sumOver_replicate, wOuts, sumOver_map, elemOuts]

/-- a base step that is not lineage 0's own keeps lineage 0 where it is while the caller still waits for the event -/
theorem evF_frame (c : Cfg) (s : State) (a : Action) (crashed : List Nat) (he : enabled c s a = true)
    (hI : s.main = .waitEvent → s.event = false →
            s.ws[0]? = some W.spawned ∨ (0 ∈ crashed ∧ ∃ p e, s.ws[0]? = some (W.exited p e)))
    (hcb : a ≠ .wCallback 0)
    (hm : (step c s a).main = .waitEvent) (hev : (step c s a).event = false) :
    (step c s a).ws[0]? = some W.spawned ∨ (0 ∈ crashed ∧ ∃ p e, (step c s a).ws[0]? = some (W.exited p e)) := by
  have hm0 : s.main = .waitEvent := by
    apply Classical.byContradiction; intro hne; exact frame_main c s a hne hm
  have he0 := frame_event c s a hev
  have h0 := hI hm0 he0
  by_cases hl : lin a = some 0
  · exfalso
    cases a <;> simp [lin] at hl <;> subst hl
    · simp [step] at hev
    · obtain ⟨k, x, rest, hw, _, _⟩ := en_wGet he
      rw [hw] at h0; simp at h0
    · obtain ⟨k, o, pend, e, hw⟩ := en_wPut he
      rw [hw] at h0; simp at h0
    · obtain ⟨k, e, hw⟩ := en_wRaise he
      rw [hw] at h0; simp at h0
    · obtain ⟨k, hw, _⟩ := en_wRetire he
      rw [hw] at h0; simp at h0
    · exact hcb rfl
  · rw [frame_ws c s 0 a hl]; exact h0

theorem outTotal_event (o : Nat) (s : State) (ev : Bool) : outTotal o { s with event := ev } = outTotal o s := rfl
theorem outTotal_main (o : Nat) (s : State) (m : Phase) : outTotal o { s with main := m } = outTotal o s := rfl

theorem finv_step (c : Cfg) (s : FState) (a : ActionF) (hI : FInv c s) (he : enabledF c s a = true) : FInv c (stepF c s a) := by
  cases a with
  | wCrash w =>
    simp only [enabledF, Bool.and_eq_true, decide_eq_true_eq] at he
    obtain ⟨_, hw⟩ := he
    have key : ∀ (old : W) (lost : List Nat) (s' : FState), s.b.ws[w]? = some old → old ≠ .dead → needy (.exited true none) ≤ needy old →
        (∀ o, (wOuts old).count o = lost.count o) →
        s'.b = { s.b with ws := s.b.ws.set w (.exited true none) } → s'.crashed = w :: s.crashed → s'.skipped = s.skipped →
        (∀ o, s'.lostOuts.count o = s.lostOuts.count o + lost.count o) → (old = .spawned ∨ ∃ k p e, old = .run k p e) → FInv c s' := by
      intro old lost s' hold hnd hneedy hlost hb hcr hsk hlo hshape
      have hbinv : BInv s'.b := by
        rw [hb]
        refine binv_ws s.b _ w old (.exited true none) hI.b hold rfl rfl rfl rfl rfl ?_ ?_ (fun h => h) ?_
        · cases old <;> simp [alive] at hnd ⊢
        · intro _ _; simp only []; omega
        · intro _ _ h; simp [alive] at h
      refine ⟨hbinv, ?_, ?_, ?_⟩
      · rw [hb, hcr]; simp only []
        intro hm hev
        have h0 := hI.evF hm hev
        by_cases hw0 : w = 0
        · subst hw0; right
          refine ⟨by simp, true, none, ?_⟩
          rw [get_set hold]; simp
        · have hne : ¬ (0 = w) := fun h => hw0 h.symm
          rw [get_set hold, if_neg hne]
          rcases h0 with h0 | ⟨h1, h2⟩
          · left; exact h0
          · right; exact ⟨List.mem_cons_of_mem _ h1, h2⟩
      · rw [hsk, hb]; exact hI.skip
      · intro o
        have := hI.outF o
        have h2 := wsums hold (.exited true none) (fun w => (wOuts w).count o)
        rw [hb, hlo o, ← hlost o]
        simp only [outTotal, inSide] at this ⊢
        simp [wOuts] at h2 this ⊢; omega
    cases hws : s.b.ws[w]? with
    | none => simp [hws] at hw
    | some x =>
      cases x with
      | dead => simp [hws] at hw
      | exited p e => simp [hws] at hw
      | spawned =>
        refine key .spawned [] _ hws (by simp) (by simp [needy]) (by simp [wOuts]) ?_ ?_ ?_ ?_ (Or.inl rfl)
        all_goals simp [stepF, hws]
      | run k pend e =>
        refine key (.run k pend e) pend _ hws (by simp) (by simp [needy]) (by simp [wOuts]) ?_ ?_ ?_ ?_ (Or.inr ⟨k, pend, e, rfl⟩)
        all_goals simp [stepF, hws]
  | base a =>
    have hen := enF_base he
    have hb := binv_step c s.b a hI.b hen
    have hout : ∀ o, outTotal o (step c s.b a) + s.lostOuts.count o = sumOver (fun x => x.outs.count o) c.items := by
      intro o; rw [outTotal_step c s.b a o hen]; exact hI.outF o
    have hskip : ∀ a, enabled c s.b a = true → s.skipped = true → (step c s.b a).active = false := by
      intro a ha hs
      have h1 := hI.skip hs
      cases h2 : (step c s.b a).active with
      | false => rfl
      | true => rw [active_step c s.b a ha h2] at h1; simp at h1
    have generic : (∀ w, a ≠ .wCallback w) → a ≠ .mEvent → stepF c s (.base a) = { s with b := step c s.b a } →
        FInv c (stepF c s (.base a)) := by
      intro h1 _ hst
      rw [hst]
      exact ⟨hb, fun hm hev => evF_frame c s.b a s.crashed hen hI.evF (h1 0) hm hev, hskip a hen, hout⟩
    cases a with
    | wCallback w =>
      obtain ⟨p, e, hw⟩ := en_wCallback hen
      simp only [stepF]
      split
      · rename_i hc
        refine ⟨?_, ?_, ?_, ?_⟩
        · exact binv_same _ _ hb rfl rfl rfl rfl rfl rfl (fun h => h) (fun _ h => h)
        · intro _ hev; simp at hev
        · exact hskip _ hen
        · exact hout
      · rename_i hc
        refine ⟨hb, ?_, hskip _ hen, hout⟩
        intro hm hev
        by_cases hw0 : w = 0
        · subst hw0
          have hm0 : s.b.main = .waitEvent := by
            apply Classical.byContradiction; intro hne; exact frame_main c s.b _ hne hm
          rcases hI.evF hm0 (frame_event c s.b _ hev) with h0 | ⟨h1, _⟩
          · rw [hw] at h0; simp at h0
          · exact absurd (by simpa using h1) hc
        · exact evF_frame c s.b _ s.crashed hen hI.evF (by simp [hw0]) hm hev
    | mEvent =>
      simp only [stepF]
      split
      · refine ⟨?_, ?_, ?_, ?_⟩
        · exact binv_inactive s.b _ hI.b rfl rfl rfl rfl rfl (by simp [State.active])
        · intro hm; simp at hm
        · intro _; simp [State.active]
        · exact hI.outF
      · exact ⟨hb, fun hm => by simp [step] at hm, hskip _ hen, hout⟩
    | loadTake => exact generic (by simp) (by simp) rfl
    | loadPut => exact generic (by simp) (by simp) rfl
    | loadFinish => exact generic (by simp) (by simp) rfl
    | wBegin w => exact generic (by simp) (by simp) rfl
    | wGet w => exact generic (by simp) (by simp) rfl
    | wPut w => exact generic (by simp) (by simp) rfl
    | wRaise w => exact generic (by simp) (by simp) rfl
    | wRetire w => exact generic (by simp) (by simp) rfl
    | cGet => exact generic (by simp) (by simp) rfl
    | cAbandon => exact generic (by simp) (by simp) rfl
    | drainIn => exact generic (by simp) (by simp) rfl
    | drainOut => exact generic (by simp) (by simp) rfl
    | mDone => exact generic (by simp) (by simp) rfl

theorem finv_reachable (c : Cfg) (hn : 0 < c.n) (f : Nat) (s : FState) (hr : ReachableF c f s) : FInv c s := by
  induction hr with
  | init => exact finv_init c hn f
  | step _ he ih => exact finv_step c _ _ ih he



theorem enF_lift (c : Cfg) (s : FState) (a : Action) (h : enabled c s.b a = true) (hm : s.b.main ≠ .waitEvent)
    (hs : s.skipped = false) : enabledF c s (.base a) = true := by
  cases a <;> simp_all [enabledF, startedF]

theorem exists_alive_b {s : State} (hI : BInv s) (h : s.nprocs ≠ 0) :
    ∃ (w : Nat) (x : W), s.ws[w]? = some x ∧ x ≠ W.dead := by
  have hnp := hI.np
  by_cases hall : ∀ x ∈ s.ws, alive x = 0
  · have := (sumOver_eq_zero alive s.ws).2 hall
    omega
  · have hall' : ∃ x, x ∈ s.ws ∧ alive x ≠ 0 := by
      apply Classical.byContradiction
      intro hno
      apply hall
      intro x hx
      apply Classical.byContradiction
      intro hne
      exact hno ⟨x, hx, hne⟩
    obtain ⟨x, hx, hxa⟩ := hall'
    obtain ⟨w, hw⟩ := List.mem_iff_getElem?.1 hx
    refine ⟨w, x, hw, ?_⟩
    intro hd; subst hd; simp [alive] at hxa

/-- with any number of worker crashes: as long as the call has not returned, some step of the CODE (not a further crash, not
the caller giving up) is possible -/
theorem deadlock_free_faults' (c : Cfg) (hn : 0 < c.n) (f : Nat) (s : FState) (hr : ReachableF c f s) (hnd : s.b.main ≠ .done) :
    ∃ a : Action, a ≠ .cAbandon ∧ enabledF c s (.base a) = true := by
  have hI := finv_reachable c hn f s hr
  cases hm : s.b.main with
  | done => exact absurd hm hnd
  | fin => exact ⟨.mDone, by simp, by simp [enabledF, enabled, hm]⟩
  | waitEvent =>
    cases he : s.b.event with
    | true => exact ⟨.mEvent, by simp, by simp [enabledF, enabled, hm, he]⟩
    | false =>
      rcases hI.evF hm he with h0 | ⟨_, p, e, h0⟩
      · exact ⟨.wBegin 0, by simp, by simp [enabledF, enabled, startedF, h0]⟩
      · exact ⟨.wCallback 0, by simp, by simp [enabledF, enabled, h0]⟩
  | consuming =>
    have hact : s.b.active = true := by simp [State.active, hm]
    have hsk : s.skipped = false := by
      cases h : s.skipped with
      | false => rfl
      | true => have := hI.skip h; rw [hact] at this; simp at this
    have hmw : s.b.main ≠ .waitEvent := by rw [hm]; simp
    have lift : (∃ a, a ≠ Action.cAbandon ∧ enabled c s.b a = true) → ∃ a : Action, a ≠ .cAbandon ∧ enabledF c s (.base a) = true :=
      fun ⟨a, h1, h2⟩ => ⟨a, h1, enF_lift c s a h2 hmw hsk⟩
    apply lift
    cases hq : s.b.outq with
    | cons y ys => exact ⟨.cGet, by simp, by simp [enabled, hm, hq]⟩
    | nil =>
      have hnp : s.b.nprocs ≠ 0 := by
        intro h0
        have := hI.b.q hact h0
        rw [hq] at this; simp at this
      obtain ⟨w, x, hw, hxd⟩ := exists_alive_b hI.b hnp
      rcases worker_progress c s.b w x hw hmw with h | h | ⟨k, hx, hinq⟩
      · exact h
      · exact absurd h hxd
      · cases hi : s.b.infl with
        | some y =>
          refine ⟨.loadPut, by simp, ?_⟩
          simp [enabled, hi, hinq, cap]; omega
        | none =>
          have hst : s.b.stopped = false := by simp [State.stopped, hm]
          cases ht : s.b.todo with
          | cons y ys =>
            exact ⟨.loadTake, by simp, by simp [enabled, hi, hst, ht]⟩
          | nil =>
            cases hl : s.b.lphase with
            | false => exact ⟨.loadFinish, by simp, by simp [enabled, hl, hi, ht]⟩
            | true =>
              have hp := hI.b.pills hact hl
              rw [hinq, hi, ht] at hp
              simp at hp
              have h1 := sumOver_le_of_mem needy s.b.ws x (mem_of_getElem? hw)
              subst hx
              simp [needy] at h1
              omega

theorem reachableF_of_run (c : Cfg) (f : Nat) (s s' : FState) (tr : List ActionF) (hs : ReachableF c f s)
    (h : runTraceF c s tr = some s') : ReachableF c f s' := by
  induction tr generalizing s with
  | nil => simp [runTraceF] at h; subst h; exact hs
  | cons a as ih =>
    simp only [runTraceF] at h
    split at h
    · rename_i he; exact ih _ (ReachableF.step hs he) h
    · simp at h

/-- a schedule with crashes that the code cannot extend has finished the call -/
theorem reaches_done_faults' (c : Cfg) (hn : 0 < c.n) (f : Nat) (tr : List ActionF) (s : FState)
    (h : runTraceF c (initF c f) tr = some s)
    (hstuck : ∀ a : Action, a ≠ .cAbandon → enabledF c s (.base a) = false) : s.b.main = .done := by
  have hr := reachableF_of_run c f _ _ tr ReachableF.init h
  cases hm : s.b.main with
  | done => rfl
  | _ =>
    all_goals
      obtain ⟨a, ha, he⟩ := deadlock_free_faults' c hn f s hr (by rw [hm]; simp)
      rw [hstuck a ha] at he; simp at he

/-- with any number of crashes: every copy of an output is handed over, still in the system, or was held by a dead process -/
theorem outputs_accounted_faults' (c : Cfg) (hn : 0 < c.n) (f : Nat) (s : FState) (hr : ReachableF c f s) (o : Nat) :
    outTotal o s.b + s.lostOuts.count o = (allOuts c).count o := by
  rw [count_allOuts]; exact (finv_reachable c hn f s hr).outF o

theorem never_duplicated_faults' (c : Cfg) (hn : 0 < c.n) (f : Nat) (s : FState) (hr : ReachableF c f s) (o : Nat) :
    s.b.recv.count o + s.lostOuts.count o ≤ (allOuts c).count o := by
  have := outputs_accounted_faults' c hn f s hr o
  simp only [outTotal] at this; omega



theorem budget_le (c : Cfg) (f : Nat) (s : FState) (hr : ReachableF c f s) : s.budget ≤ f := by
  induction hr with
  | init => simp [initF]
  | @step s' a _ he ih =>
    cases a with
    | wCrash w => simp only [stepF]; split <;> (try simp) <;> omega
    | base a => cases a <;> simp only [stepF] <;> (try split) <;> exact ih

/-- a run in which no crash has happened (the whole budget is still there) is a run of the base system, whatever the budget -/
theorem no_crash_refines' (c : Cfg) (f : Nat) (s : FState) (hr : ReachableF c f s) (hb : s.budget = f) :
    Reachable c s.b ∧ s.mainErr = false ∧ s.crashed = [] ∧ s.skipped = false := by
  induction hr with
  | init => exact ⟨Reachable.init, rfl, rfl, rfl⟩
  | @step s' a hr' he ih =>
    have hle := budget_le c f s' hr'
    cases a with
    | wCrash w =>
      exfalso
      simp only [enabledF, Bool.and_eq_true, decide_eq_true_eq] at he
      obtain ⟨hpos, hw⟩ := he
      simp only [stepF] at hb
      split at hb
      · simp at hb; omega
      · simp at hb; omega
      · rename_i h1 h2
        cases hws : s'.b.ws[w]? with
        | none => simp [hws] at hw
        | some x => cases x <;> simp_all
    | base a =>
      have hb' : s'.budget = f := by
        cases a <;> simp only [stepF] at hb <;> (try split at hb) <;> exact hb
      obtain ⟨h1, h2, h3, h4⟩ := ih hb'
      have hen := enF_base he
      have hst : stepF c s' (.base a) = { s' with b := step c s'.b a } := by
        cases a <;> simp [stepF, h2, h3]
      rw [hst]
      exact ⟨Reachable.step h1 hen, h2, h3, h4⟩

theorem exactly_once_nocrash_partial' (c : Cfg) (hn : 0 < c.n) (f : Nat) (s : FState) (hr : ReachableF c f s) (hb : s.budget = f)
    (hd : s.b.main = .done) (hab : s.b.abandoned = false) (hne : ∀ x ∈ c.items, x.err = none ∧ x.perr = none) :
    ∃ outs, outcome s.b = .ok outs ∧ outs.Perm (allOuts c) :=
  exactly_once' c hn s.b (no_crash_refines' c f s hr hb).1 hd hab hne

theorem error_surfaces_nocrash_partial' (c : Cfg) (hn : 0 < c.n) (f : Nat) (s : FState) (hr : ReachableF c f s) (hb : s.budget = f)
    (hd : s.b.main = .done) (hab : s.b.abandoned = false) (x : ItemSpec) (hx : x ∈ c.items) (hxe : x.err ≠ none ∨ x.perr ≠ none) :
    ∃ e outs, outcome s.b = .raised e outs ∧ e ∈ allErrs c :=
  error_surfaces' c hn s.b (no_crash_refines' c f s hr hb).1 hd hab x hx hxe



theorem ws_len_step (c : Cfg) (s : State) (a : Action) : (step c s a).ws.length = s.ws.length := by
  cases a <;> simp only [step] <;> (repeat' split) <;> simp

theorem ws_len_stepF (c : Cfg) (s : FState) (a : ActionF) : (stepF c s a).b.ws.length = s.b.ws.length := by
  cases a with
  | wCrash w => simp only [stepF]; split <;> simp
  | base a =>
    have := ws_len_step c s.b a
    cases a <;> simp only [stepF] <;> (try split) <;> exact this

theorem ws_len_reachableF (c : Cfg) (f : Nat) (s : FState) (hr : ReachableF c f s) : s.b.ws.length = c.n := by
  induction hr with
  | init => simp [initF, init]
  | step _ _ ih => rw [ws_len_stepF]; exact ih

theorem lt_of_get {l : List W} {w : Nat} {x : W} (h : l[w]? = some x) : w < l.length := by
  rcases Nat.lt_or_ge w l.length with h' | h'
  · exact h'
  · rw [List.getElem?_eq_none h'] at h; simp at h

theorem mem_codeActions (c : Cfg) (s : State) (a : Action) (hlen : s.ws.length = c.n) (ha : a ≠ .cAbandon)
    (he : enabled c s a = true) : a ∈ codeActions c := by
  have hw : ∀ w, lin a = some w → w < c.n := by
    intro w hl
    rw [← hlen]
    cases a <;> simp [lin] at hl <;> subst hl
    · exact lt_of_get (en_wBegin he).1
    · obtain ⟨k, x, rest, hw, _, _⟩ := en_wGet he; exact lt_of_get hw
    · obtain ⟨k, o, pend, e, hw⟩ := en_wPut he; exact lt_of_get hw
    · obtain ⟨k, e, hw⟩ := en_wRaise he; exact lt_of_get hw
    · obtain ⟨k, hw, _⟩ := en_wRetire he; exact lt_of_get hw
    · obtain ⟨p, e, hw⟩ := en_wCallback he; exact lt_of_get hw
  cases a <;> first
    | exact absurd rfl ha
    | (simp [codeActions]; done)
    | (have := hw _ rfl; simp [codeActions, List.mem_flatMap, List.mem_range]; omega)

/-- the executable form the driver evaluates: a reachable state (crashes included) in which no step of the code is possible
has finished the call -/
theorem stuck_done_faults' (c : Cfg) (hn : 0 < c.n) (f : Nat) (s : FState) (hr : ReachableF c f s)
    (hst : stuckF c s = true) : s.b.main = .done := by
  cases hm : s.b.main with
  | done => rfl
  | _ =>
    all_goals
      exfalso
      obtain ⟨a, ha, he⟩ := deadlock_free_faults' c hn f s hr (by rw [hm]; simp)
      have hmem := mem_codeActions c s.b a (ws_len_reachableF c f s hr) ha (enF_base he)
      simp only [stuckF, List.all_eq_true] at hst
      have := hst a hmem
      rw [he] at this; simp at this


def strandCfg : Cfg := { n := 1, m := 2, items := [{ id := 0, outs := [1], err := none }, { id := 1, outs := [2], err := none }] }
def strandTrace : List ActionF :=
  [.base (.wBegin 0), .base .mEvent, .base .loadTake, .base .loadPut, .base .loadTake, .base .loadPut, .base (.wGet 0), .wCrash 0,
   .base (.wCallback 0), .base .cGet, .base .drainIn, .base .mDone, .base .loadFinish]

theorem crash_strands_items' :
    (runTraceF strandCfg (initF strandCfg 1) strandTrace).map
        (fun s => (s.b.main, outcome s.b, s.lostOuts, s.b.dropIn.length, stuckF strandCfg s))
      = some (Phase.done, Outcome.ok [], [1], 1, true) ∧ allOuts strandCfg = [1, 2] := by decide

/-! ## Phase 5: crash × read_wait -/

theorem enRF_r {c : Cfg} {s : RFState} {a : ActionR} (h : enabledRF c s (.r a) = true) : enabledR c s.r a = true := by
  cases a with
  | base b => cases b <;> simp only [enabledRF, Bool.and_eq_true] at h <;> first | exact h | exact h.1
  | _ => exact h

theorem filter_ne_length_lt (l : List Nat) (w : Nat) (h : w ∈ l) : (l.filter (· != w)).length < l.length := by
  induction l with
  | nil => simp at h
  | cons x xs ih =>
    by_cases hx : x = w
    · subst hx
      have := List.length_filter_le (fun y => y != x) xs
      simp; omega
    · have hm : w ∈ xs := by simpa [Ne.symm hx] using h
      have := ih hm
      simp [hx]; omega

theorem muRF_decreases' (c : Cfg) (rw : Bool) (s : RFState) (a : ActionRF) (h : enabledRF c s a = true) :
    muR c (stepRF c rw s a).r < muR c s.r := by
  cases a with
  | r a =>
    have hb := muR_decreases' c rw s.r a (enRF_r h)
    have key : muR c (stepRF c rw s (.r a)).r ≤ muR c (stepR c rw s.r a) := by
      cases a with
      | base b =>
        cases b with
        | wCallback w =>
          simp only [stepRF]; split
          · simp [muR, mu_def]
          · exact Nat.le_refl _
        | mEvent =>
          have hen := enR_base (enRF_r h)
          simp only [enabled, Bool.and_eq_true] at hen
          have hm : s.r.b.main = .waitEvent := by simpa using hen.1
          simp only [stepRF]; split
          · simp [muR, stepR, syncOut, mu_def, step, phasePot, lineEnds]
            cases rw <;> omega
          · exact Nat.le_refl _
        | _ => exact Nat.le_refl _
      | _ => exact Nat.le_refl _
    omega
  | wCrashKey w =>
    simp only [enabledRF, Bool.and_eq_true, decide_eq_true_eq] at h
    obtain ⟨⟨_, hk⟩, hw⟩ := h
    have hmem : w ∈ s.r.keyWait := by simpa using hk
    have hlt := filter_ne_length_lt s.r.keyWait w hmem
    cases hws : s.r.b.ws[w]? with
    | none => simp [hws] at hw
    | some x =>
      cases x with
      | exited p e =>
        have := sumOver_set (wPot c) s.r.b.ws w (.exited p e) (.exited true e) hws
        simp only [wPot] at this
        simp only [stepRF, hws, muR, mu_def]; omega
      | _ => simp [hws] at hw

theorem runRF_bounded' (c : Cfg) (rw : Bool) (s s' : RFState) (tr : List ActionRF) (h : runTraceRF c rw s tr = some s') :
    tr.length + muR c s'.r ≤ muR c s.r := by
  induction tr generalizing s with
  | nil => simp [runTraceRF] at h; subst h; simp
  | cons a as ih =>
    simp only [runTraceRF] at h
    split at h
    · rename_i he
      have := ih _ h
      have := muRF_decreases' c rw s a he
      simp; omega
    · simp at h

theorem terminates_rf' (c : Cfg) (rw : Bool) (f : Nat) (tr : List ActionRF) (s : RFState)
    (h : runTraceRF c rw (initRF c f) tr = some s) : tr.length ≤ 6 * mu c (init c) := by
  have := runRF_bounded' c rw _ _ tr h
  simp [initRF, initR, muR] at this; omega

theorem stepR_b (c : Cfg) (rw : Bool) (s : RState) (a : ActionR) :
    (stepR c rw s a).b = (match a with | .base b => step c s.b b | _ => s.b) := by
  cases a <;> simp [stepR]
  split <;> rfl

theorem outTotal_stepR (c : Cfg) (rw : Bool) (s : RState) (a : ActionR) (o : Nat) (h : enabledR c s a = true) :
    outTotal o (stepR c rw s a).b = outTotal o s.b := by
  rw [stepR_b]
  cases a with
  | base b => exact outTotal_step c s.b b o (enR_base h)
  | _ => rfl

theorem outC_rf (c : Cfg) (rw : Bool) (f : Nat) (s : RFState) (hr : ReachableRF c rw f s) (o : Nat) :
    outTotal o s.r.b = sumOver (fun x => x.outs.count o) c.items := by
  induction hr with
  | init => simp [initRF, initR, outTotal, init, inSide, oCount, sumOver_replicate, wOuts, sumOver_map, elemOuts]
  | @step s' a _ he ih =>
    rw [← ih]
    cases a with
    | wCrashKey w =>
      simp only [enabledRF, Bool.and_eq_true] at he
      cases hws : s'.r.b.ws[w]? with
      | none => simp [hws] at he
      | some x =>
        cases x with
        | exited p e =>
          have h2 := wsums hws (.exited true e) (fun w => (wOuts w).count o)
          simp only [stepRF, hws, outTotal, inSide]
          simp [wOuts] at h2 ⊢; omega
        | _ => simp [hws] at he
    | r a =>
      have hen := enRF_r he
      have hgen := outTotal_stepR c rw s'.r a o hen
      cases a with
      | base b =>
        cases b with
        | wCallback w => simp only [stepRF]; split <;> exact hgen
        | mEvent => simp only [stepRF]; split <;> first | rfl | exact hgen
        | _ => exact hgen
      | _ => exact hgen

theorem never_duplicated_rf' (c : Cfg) (rw : Bool) (f : Nat) (s : RFState) (hr : ReachableRF c rw f s) (o : Nat) :
    s.r.b.recv.count o ≤ (allOuts c).count o := by
  have := outC_rf c rw f s hr o
  rw [count_allOuts]
  simp only [outTotal] at this; omega


def rfTrace : List ActionRF :=
  rwTrace1.map .r ++ [.wCrashKey 0, .r (.base (.wCallback 0)), .r (.base .cGet), .r .cKey, .r (.base .cGet), .r (.base .mDone)]

theorem crash_keywait_example' :
    (runTraceRF rwCfg true (initRF rwCfg 1) (rfTrace.take (rwTrace1.length + 1))).map
        (fun s => (s.mainErr, s.r.keyWait, s.crashedK, enabledRF rwCfg s (.r (.base (.wCallback 0))))) = some (false, [], [0], true)
    ∧ (runTraceRF rwCfg true (initRF rwCfg 1) rfTrace).map (fun s => (s.mainErr, s.r.keyWait, s.r.b.nprocs, s.r.routq)) = some (true, [], 0, [])
    ∧ (runTraceRF rwCfg true (initRF rwCfg 1) rfTrace).map (fun s => (s.r.b.main, outcome s.r.b, s.budget)) = some (Phase.done, Outcome.ok [1], 0) := by decide

/-! ### phase 6: the read_wait protocol (`MyProcessLine.run/start`, the caller's dispatch) is the program `workerProgram` -/

theorem readwait_program_line_end' (c : Cfg) (s : RState) (a : Action) (w : Nat) (h : lineEnds s.b a = some w) :
    rwPc (stepR c true s (.base a)) w = 1 ∧ enabledR c (stepR c true s (.base a)) (.base (.wCallback w)) = false := by
  have hk : (stepR c true s (.base a)).keyPending = w :: s.keyPending := by simp [stepR, h]
  constructor
  · simp [rwPc, hk]
  · simp [enabledR, hk]

theorem readwait_program_no_store' (c : Cfg) (s : RState) (a : Action) :
    (stepR c false s (.base a)).keyPending = s.keyPending ∧ (stepR c false s (.base a)).keyWait = s.keyWait := by
  simp [stepR]

theorem readwait_program_write_key' (c : Cfg) (rw : Bool) (s : RState) (w : Nat) (h : rwPc s w = 1) :
    enabledR c s (.wKey w) = true ∧ (stepR c rw s (.wKey w)).routq = s.routq ++ [.key w]
    ∧ (stepR c rw s (.wKey w)).keyWait.contains w = true ∧ (stepR c rw s (.wKey w)).b = s.b := by
  have hp : s.keyPending.contains w = true := by
    simp only [rwPc] at h
    split at h
    · assumption
    · split at h <;> omega
  refine ⟨by simpa [enabledR] using hp, by simp [stepR], by simp [stepR], by simp [stepR]⟩

theorem readwait_program_blocks_exit' (c : Cfg) (s : RState) (w : Nat) (h : rwPc s w ≠ 0) :
    enabledR c s (.base (.wCallback w)) = false := by
  simp only [rwPc] at h
  split at h
  · rename_i h1
    have h1' : w ∈ s.keyPending := by simpa using h1
    simp [enabledR, h1']
  · split at h
    · rename_i _ h2
      have h2' : w ∈ s.keyWait := by simpa using h2
      simp [enabledR, h2']
    · exact absurd rfl h

theorem readwait_program_wait_released_by_caller' (c : Cfg) (rw : Bool) (s : RState) (a : ActionR) (w : Nat)
    (ha : a ≠ .cKey) (hw : s.keyWait.contains w = true) : (stepR c rw s a).keyWait.contains w = true := by
  cases a with
  | base a => simpa [stepR] using hw
  | wKey w' => simp [stepR]; right; simpa using hw
  | cKey => exact absurd rfl ha
  | drainKey => simpa [stepR] using hw

theorem readwait_caller_dispatch' (c : Cfg) (s : RState) :
    enabledR c s .cKey = (s.b.main == .consuming && callerSets true (isKeyHead s.routq))
    ∧ enabledR c s (.base .cGet) = (enabled c s.b .cGet && !callerSets true (isKeyHead s.routq)) := by
  simp [enabledR, callerSets]

theorem readwait_caller_sets_owner' (c : Cfg) (rw : Bool) (s : RState) (w : Nat) (rest : List ROut) (h : s.routq = .key w :: rest) :
    (stepR c rw s .cKey).routq = rest ∧ (stepR c rw s .cKey).keyWait.contains w = false ∧ (stepR c rw s .cKey).b.recv = s.b.recv
    ∧ ∀ w', w' ≠ w → (stepR c rw s .cKey).keyWait.contains w' = s.keyWait.contains w' := by
  refine ⟨by simp [stepR, h], by simp [stepR, h], by simp [stepR, h], ?_⟩
  intro w' hne
  simp [stepR, h, List.contains_eq_mem, List.mem_filter, hne]

/-- non-vacuity: after `rwTrace1`'s line end the lineage is at `writeKey` (pc 1), after `wKey` it waits (pc 2) and the callback is blocked -/
theorem readwait_program_example' :
    (workerProgram true).map RWOp.code = [0, 1, 2] ∧ (workerProgram false).map RWOp.code = [0]
    ∧ rwPc { b := init rwCfg, routq := [], keyPending := [0], keyWait := [] } 0 = 1
    ∧ rwPc (stepR rwCfg true { b := init rwCfg, routq := [], keyPending := [0], keyWait := [] } (.wKey 0)) 0 = 2 := by decide

/-! ### phase 6: calls alive at the same time on one object — the product system -/

theorem overlapping_calls_project' (c1 c2 : Cfg) (tr : List Action2) : ∀ (s t : State × State),
    runTrace2 c1 c2 s tr = some t → runTrace c1 s.1 (proj1 tr) = some t.1 ∧ runTrace c2 s.2 (proj2 tr) = some t.2 := by
  induction tr with
  | nil => intro s t h; simp [runTrace2] at h; subst h; simp [proj1, proj2, runTrace]
  | cons a as ih =>
    intro s t h
    simp only [runTrace2] at h
    split at h
    · rename_i he
      have := ih _ _ h
      cases a with
      | first a => simp only [enabled2] at he; simpa [proj1, proj2, runTrace, he, step2] using this
      | second a => simp only [enabled2] at he; simpa [proj1, proj2, runTrace, he, step2] using this
    · exact absurd h (by simp)

theorem overlapping_calls_reachable' (c1 c2 : Cfg) (s : State × State) (h : Reachable2 c1 c2 s) :
    Reachable c1 s.1 ∧ Reachable c2 s.2 := by
  induction h with
  | init => exact ⟨.init, .init⟩
  | step hr he ih =>
    rename_i s a
    cases a with
    | first a => exact ⟨.step ih.1 (by simpa [enabled2] using he), ih.2⟩
    | second a => exact ⟨ih.1, .step ih.2 (by simpa [enabled2] using he)⟩

/-- whatever the sibling call does (raise, be abandoned, lag behind), a step of one call never changes what is enabled for the other -/
theorem overlapping_calls_no_interference' (c1 c2 : Cfg) (s : State × State) (a b : Action) :
    enabled2 c1 c2 (step2 c1 c2 s (.first a)) (.second b) = enabled2 c1 c2 s (.second b)
    ∧ enabled2 c1 c2 (step2 c1 c2 s (.second b)) (.first a) = enabled2 c1 c2 s (.first a)
    ∧ step2 c1 c2 (step2 c1 c2 s (.first a)) (.second b) = step2 c1 c2 (step2 c1 c2 s (.second b)) (.first a) := by
  simp [enabled2, step2]

theorem overlapping_calls_exactly_once' (c1 c2 : Cfg) (hn : 0 < c2.n) (s : State × State) (hr : Reachable2 c1 c2 s)
    (hd : s.2.main = .done) (hab : s.2.abandoned = false) (hne : ∀ x ∈ c2.items, x.err = none ∧ x.perr = none) :
    ∃ outs, outcome s.2 = .ok outs ∧ outs.Perm (allOuts c2) :=
  exactly_once' c2 hn s.2 (overlapping_calls_reachable' c1 c2 s hr).2 hd hab hne

theorem overlapping_calls_deadlock_free' (c1 c2 : Cfg) (hn1 : 0 < c1.n) (hn2 : 0 < c2.n) (s : State × State) (hr : Reachable2 c1 c2 s)
    (hnd : s.1.main ≠ .done ∨ s.2.main ≠ .done) :
    ∃ a, a ≠ Action2.first .cAbandon ∧ a ≠ Action2.second .cAbandon ∧ enabled2 c1 c2 s a = true := by
  have hr' := overlapping_calls_reachable' c1 c2 s hr
  rcases hnd with h | h
  · obtain ⟨a, ha, he⟩ := deadlock_free' c1 hn1 s.1 hr'.1 h
    exact ⟨.first a, by simpa using ha, by simp, by simpa [enabled2] using he⟩
  · obtain ⟨a, ha, he⟩ := deadlock_free' c2 hn2 s.2 hr'.2 h
    exact ⟨.second a, by simp, by simpa using ha, by simpa [enabled2] using he⟩

theorem overlapping_calls_variant' (c1 c2 : Cfg) (s : State × State) (a : Action2) (h : enabled2 c1 c2 s a = true) :
    mu c1 (step2 c1 c2 s a).1 + mu c2 (step2 c1 c2 s a).2 < mu c1 s.1 + mu c2 s.2 := by
  cases a with
  | first a => have := mu_decreases' c1 s.1 a (by simpa [enabled2] using h); simp only [step2]; omega
  | second a => have := mu_decreases' c2 s.2 a (by simpa [enabled2] using h); simp only [step2]; omega

/-- non-vacuity: the two one-item calls `rwCfg`, the sibling started first, the first call abandoned... here: both run to the end, interleaved -/
theorem overlapping_calls_example' :
    (runTrace2 exOv exOv (init exOv, init exOv) exOvTrace).map (fun s => (outcome s.1, outcome s.2)) = some (.ok [1], .ok [1]) := by decide


end Coba.C08
