/-
C08 — helper lemmas: sums over lists, step characterisation, the termination measure, the
inductive invariant and its consequences.  Core Lean only.
-/
import CobaVerif.Model.C08

namespace Coba.C08

/-! ### sums -/

@[simp] theorem listSum_nil : listSum [] = 0 := rfl
@[simp] theorem listSum_cons (x : Nat) (xs : List Nat) : listSum (x :: xs) = x + listSum xs := rfl

@[simp] theorem listSum_append (a b : List Nat) : listSum (a ++ b) = listSum a + listSum b := by
  induction a with
  | nil => simp
  | cons x xs ih => simp [ih]; omega

/-- sum of `g` over a list -/
def sumOver {α} (g : α → Nat) (l : List α) : Nat := listSum (l.map g)

@[simp] theorem sumOver_nil {α} (g : α → Nat) : sumOver g [] = 0 := rfl
@[simp] theorem sumOver_cons {α} (g : α → Nat) (x : α) (xs : List α) :
    sumOver g (x :: xs) = g x + sumOver g xs := rfl
@[simp] theorem sumOver_append {α} (g : α → Nat) (a b : List α) :
    sumOver g (a ++ b) = sumOver g a + sumOver g b := by
  simp [sumOver]

theorem sumOver_set {α} (g : α → Nat) (l : List α) (i : Nat) (old x : α) (h : l[i]? = some old) :
    sumOver g (l.set i x) + g old = sumOver g l + g x := by
  induction l generalizing i with
  | nil => simp at h
  | cons y ys ih =>
    cases i with
    | zero => simp at h; subst h; simp; omega
    | succ j =>
      simp at h
      have := ih j h
      simp; omega

theorem sumOver_map {α β} (g : β → Nat) (f : α → β) (l : List α) :
    sumOver g (l.map f) = sumOver (fun x => g (f x)) l := by
  simp [sumOver, List.map_map, Function.comp_def]

theorem sumOver_replicate {α} (g : α → Nat) (n : Nat) (x : α) :
    sumOver g (List.replicate n x) = n * g x := by
  induction n with
  | zero => simp
  | succ k ih => simp [List.replicate_succ, ih, Nat.succ_mul]; omega

theorem sumOver_eq_zero {α} (g : α → Nat) (l : List α) :
    sumOver g l = 0 ↔ ∀ x ∈ l, g x = 0 := by
  induction l with
  | nil => simp
  | cons y ys ih => simp [ih]

theorem sumOver_le_of_mem {α} (g : α → Nat) (l : List α) (x : α) (h : x ∈ l) : g x ≤ sumOver g l := by
  induction l with
  | nil => simp at h
  | cons y ys ih =>
    simp at h
    rcases h with h | h
    · subst h; simp
    · have := ih h; simp; omega

theorem sumOver_congr {α} (g g' : α → Nat) (l : List α) (h : ∀ x ∈ l, g x = g' x) :
    sumOver g l = sumOver g' l := by
  induction l with
  | nil => rfl
  | cons y ys ih =>
    simp
    rw [h y (by simp), ih (fun x hx => h x (by simp [hx]))]

theorem mu_def (c : Cfg) (s : State) : mu c s =
    sumOver (fun x => elemCost x + 2) s.todo
  + (match s.infl with | some x => elemCost x + 1 | none => 0)
  + sumOver elemCost s.inq
  + s.outq.length
  + sumOver (wPot c) s.ws
  + (if s.lphase then 0 else 1 + 5 * s.nprocs)
  + phasePot s.main := rfl

/-! ### characterisation of the enabled steps -/

theorem getElem?_of_beq_some {l : List W} {w : Nat} {x : W} (h : (l[w]? == some x) = true) : l[w]? = some x := by
  simpa using h

/-! ### the termination measure decreases -/

theorem en_wGet {c : Cfg} {s : State} {w : Nat} (h : enabled c s (.wGet w) = true) :
    ∃ k x rest, s.ws[w]? = some (.run k [] none) ∧ mayTake c k = true ∧ s.inq = x :: rest := by
  simp only [enabled] at h
  split at h
  · rename_i k hw
    simp only [Bool.and_eq_true] at h
    cases hq : s.inq with
    | nil => simp [hq] at h
    | cons x rest => exact ⟨k, x, rest, hw, h.1, rfl⟩
  · simp at h

theorem en_wPut {c : Cfg} {s : State} {w : Nat} (h : enabled c s (.wPut w) = true) :
    ∃ k o pend e, s.ws[w]? = some (.run k (o :: pend) e) := by
  simp only [enabled] at h
  split at h
  · rename_i k o pend e hw; exact ⟨k, o, pend, e, hw⟩
  · simp at h

theorem en_wRaise {c : Cfg} {s : State} {w : Nat} (h : enabled c s (.wRaise w) = true) :
    ∃ k e, s.ws[w]? = some (.run k [] (some e)) := by
  simp only [enabled] at h
  split at h
  · rename_i k e hw; exact ⟨k, e, hw⟩
  · simp at h

theorem en_wRetire {c : Cfg} {s : State} {w : Nat} (h : enabled c s (.wRetire w) = true) :
    ∃ k, s.ws[w]? = some (.run k [] none) ∧ mayTake c k = false := by
  simp only [enabled] at h
  split at h
  · rename_i k hw; exact ⟨k, hw, by simpa using h⟩
  · simp at h

theorem en_wCallback {c : Cfg} {s : State} {w : Nat} (h : enabled c s (.wCallback w) = true) :
    ∃ p e, s.ws[w]? = some (.exited p e) := by
  simp only [enabled] at h
  split at h
  · rename_i p e hw; exact ⟨p, e, hw⟩
  · simp at h

theorem en_wBegin {c : Cfg} {s : State} {w : Nat} (h : enabled c s (.wBegin w) = true) :
    s.ws[w]? = some .spawned ∧ (w = 0 ∨ s.main ≠ .waitEvent) := by
  simp only [enabled, Bool.and_eq_true, Bool.or_eq_true] at h
  refine ⟨by simpa using h.1, ?_⟩
  rcases h.2 with h2 | h2
  · left; simpa using h2
  · right; simpa using h2

theorem mu_loadTake (c : Cfg) (s : State) (h : enabled c s .loadTake = true) :
    mu c (step c s .loadTake) < mu c s := by
  simp only [enabled, Bool.and_eq_true] at h
  obtain ⟨⟨h1, _⟩, h3⟩ := h
  cases ht : s.todo with
  | nil => simp [ht] at h3
  | cons x rest =>
    have hi : s.infl = none := by simpa using h1
    simp only [step, ht, mu_def, hi]
    simp
    omega

theorem mu_loadPut (c : Cfg) (s : State) (h : enabled c s .loadPut = true) :
    mu c (step c s .loadPut) < mu c s := by
  simp only [enabled, Bool.and_eq_true] at h
  cases hi : s.infl with
  | none => simp [hi] at h
  | some x =>
    simp only [step, hi, mu_def]
    simp
    omega

theorem mu_loadFinish (c : Cfg) (s : State) (h : enabled c s .loadFinish = true) :
    mu c (step c s .loadFinish) < mu c s := by
  simp only [enabled, Bool.and_eq_true] at h
  obtain ⟨⟨h1, h2⟩, _⟩ := h
  have hl : s.lphase = false := by simpa using h1
  have hi : s.infl = none := by simpa using h2
  simp only [step, mu_def, hl, hi, sumOver_replicate]
  simp [elemCost]
  omega

theorem mu_wGet (c : Cfg) (s : State) (w : Nat) (h : enabled c s (.wGet w) = true) :
    mu c (step c s (.wGet w)) < mu c s := by
  obtain ⟨k, x, rest, hw, hk, hq⟩ := en_wGet h
  have hs := sumOver_set (wPot c) s.ws w (.run k [] none)
  cases x with
  | none =>
    have := hs (.exited true none) hw
    simp only [step, hw, hq, mu_def]
    simp [wPot, hk, elemCost] at this ⊢
    omega
  | some it =>
    have := hs (.run (k+1) it.outs it.err) hw
    simp only [step, hw, hq, mu_def]
    simp [wPot, hk, elemCost] at this ⊢
    split at this <;> split at this <;> simp_all <;> omega

theorem mu_wPut (c : Cfg) (s : State) (w : Nat) (h : enabled c s (.wPut w) = true) :
    mu c (step c s (.wPut w)) < mu c s := by
  obtain ⟨k, o, pend, e, hw⟩ := en_wPut h
  have := sumOver_set (wPot c) s.ws w (.run k (o :: pend) e) (.run k pend e) hw
  simp only [step, hw, mu_def]
  simp [wPot] at this ⊢
  omega

theorem mu_wRaise (c : Cfg) (s : State) (w : Nat) (h : enabled c s (.wRaise w) = true) :
    mu c (step c s (.wRaise w)) < mu c s := by
  obtain ⟨k, e, hw⟩ := en_wRaise h
  have := sumOver_set (wPot c) s.ws w (.run k [] (some e)) (.exited false (some e)) hw
  simp only [step, hw, mu_def]
  simp [wPot] at this ⊢
  omega

theorem mu_wRetire (c : Cfg) (s : State) (w : Nat) (h : enabled c s (.wRetire w) = true) :
    mu c (step c s (.wRetire w)) < mu c s := by
  obtain ⟨k, hw, hk⟩ := en_wRetire h
  have := sumOver_set (wPot c) s.ws w (.run k [] none) (.exited false none) hw
  simp only [step, mu_def]
  simp [wPot, hk] at this ⊢
  omega

theorem mu_wBegin (c : Cfg) (s : State) (w : Nat) (h : enabled c s (.wBegin w) = true) :
    mu c (step c s (.wBegin w)) < mu c s := by
  obtain ⟨hw, _⟩ := en_wBegin h
  have := sumOver_set (wPot c) s.ws w .spawned (.run 0 [] none) hw
  simp only [step, mu_def]
  simp [wPot, mayTake] at this ⊢
  split at this <;> omega

theorem mu_wCallback (c : Cfg) (s : State) (w : Nat) (h : enabled c s (.wCallback w) = true) :
    mu c (step c s (.wCallback w)) < mu c s := by
  obtain ⟨p, e, hw⟩ := en_wCallback h
  have h1 := sumOver_set (wPot c) s.ws w (.exited p e) .spawned hw
  have h2 := sumOver_set (wPot c) s.ws w (.exited p e) .dead hw
  simp only [wPot] at h1 h2
  simp only [step, hw, mu_def]
  have hn : 5 * (s.nprocs - 1) ≤ 5 * s.nprocs := by omega
  split
  · cases hl : s.lphase <;> simp <;> omega
  · cases hl : s.lphase <;> split <;> simp <;> omega

theorem mu_main (c : Cfg) (s : State) (a : Action)
    (ha : a = .mEvent ∨ a = .cGet ∨ a = .cAbandon ∨ a = .drainIn ∨ a = .drainOut ∨ a = .mDone)
    (h : enabled c s a = true) : mu c (step c s a) < mu c s := by
  rcases ha with rfl | rfl | rfl | rfl | rfl | rfl
  · simp only [enabled, Bool.and_eq_true] at h
    have hm : s.main = .waitEvent := by simpa using h.1
    simp only [step, mu_def, hm]; simp [phasePot]
  · simp only [enabled, Bool.and_eq_true] at h
    have hm : s.main = .consuming := by simpa using h.1
    cases hq : s.outq with
    | nil => simp [hq] at h
    | cons x rest =>
      cases x <;> simp only [step, hq, mu_def, hm] <;> simp [phasePot] <;> omega
  · simp only [enabled] at h
    have hm : s.main = .consuming := by simpa using h
    simp only [step, mu_def, hm]; simp [phasePot]
  · simp only [enabled, Bool.and_eq_true] at h
    cases hq : s.inq with
    | nil => simp [hq] at h
    | cons x rest =>
      simp only [step, hq, mu_def]; simp
      have : 0 < elemCost x := by cases x <;> simp [elemCost] <;> omega
      omega
  · simp only [enabled, Bool.and_eq_true] at h
    cases hq : s.outq with
    | nil => simp [hq] at h
    | cons x rest => simp only [step, hq, mu_def]; simp
  · simp only [enabled] at h
    have hm : s.main = .fin := by simpa using h
    simp only [step, mu_def, hm]; simp [phasePot]

/-- the termination measure strictly decreases on every enabled step -/
theorem mu_decreases' (c : Cfg) (s : State) (a : Action) (h : enabled c s a = true) :
    mu c (step c s a) < mu c s := by
  cases a with
  | loadTake => exact mu_loadTake c s h
  | loadPut => exact mu_loadPut c s h
  | loadFinish => exact mu_loadFinish c s h
  | wBegin w => exact mu_wBegin c s w h
  | wGet w => exact mu_wGet c s w h
  | wPut w => exact mu_wPut c s w h
  | wRaise w => exact mu_wRaise c s w h
  | wRetire w => exact mu_wRetire c s w h
  | wCallback w => exact mu_wCallback c s w h
  | mEvent => exact mu_main c s _ (by simp) h
  | cGet => exact mu_main c s _ (by simp) h
  | cAbandon => exact mu_main c s _ (by simp) h
  | drainIn => exact mu_main c s _ (by simp) h
  | drainOut => exact mu_main c s _ (by simp) h
  | mDone => exact mu_main c s _ (by simp) h

/-- every run (from any state) is finite: its length is bounded by the measure of its first state -/
theorem run_bounded' (c : Cfg) (s s' : State) (tr : List Action) (h : runTrace c s tr = some s') :
    tr.length + mu c s' ≤ mu c s := by
  induction tr generalizing s with
  | nil => simp [runTrace] at h; subst h; simp
  | cons a as ih =>
    simp only [runTrace] at h
    split at h
    · rename_i he
      have := ih _ h
      have := mu_decreases' c s a he
      simp; omega
    · simp at h


/-! ### the invariant -/

def oCount (o : Nat) (q : List (Option Nat)) : Nat := sumOver (fun x => if x = some o then 1 else 0) q
def elemOuts : Option ItemSpec → List Nat
  | some x => x.outs
  | none => []
def elemErrs : Option ItemSpec → List Nat
  | some x => x.err.toList
  | none => []
def wOuts : W → List Nat
  | .run _ p _ => p
  | _ => []
def wErrs : W → List Nat
  | .run _ _ e => e.toList
  | .exited _ e => e.toList
  | _ => []

/-- where the elements of the input side currently are -/
def inSide (s : State) : List (Option ItemSpec) := s.inq ++ s.infl.toList ++ s.todo ++ s.dropIn

/-- number of copies of output `o` anywhere in the system -/
def outTotal (o : Nat) (s : State) : Nat :=
  s.recv.count o + oCount o s.outq + oCount o s.dropOut
  + sumOver (fun w => (wOuts w).count o) s.ws + sumOver (fun x => (elemOuts x).count o) (inSide s)

/-- number of copies of error `e` anywhere in the system -/
def errTotal (e : Nat) (s : State) : Nat :=
  s.excs.count e + sumOver (fun w => (wErrs w).count e) s.ws + sumOver (fun x => (elemErrs x).count e) (inSide s)

def alive : W → Nat
  | .dead => 0
  | _ => 1
/-- lineages that still need a pill to finish -/
def needy : W → Nat
  | .dead => 0
  | .exited true _ => 0
  | _ => 1
def isPill : Option ItemSpec → Nat
  | none => 1
  | some _ => 0

/-- FIFO discipline of in_queue: nothing but pills behind a pill -/
def sortedQ : List (Option ItemSpec) → Prop
  | [] => True
  | some _ :: r => sortedQ r
  | none :: r => ∀ x ∈ r, x = none

structure Inv (c : Cfg) (s : State) : Prop where
  npos   : 0 < c.n
  len    : s.ws.length = c.n
  np     : s.nprocs = sumOver alive s.ws
  ev     : s.main = .waitEvent → s.event = false → s.ws[0]? = some W.spawned
  outC   : ∀ o, outTotal o s = sumOver (fun x => x.outs.count o) c.items
  errC   : ∀ e, errTotal e s = sumOver (fun x => x.err.toList.count e) c.items
  lph0   : s.lphase = false → (∀ x ∈ s.inq, x ≠ none) ∧ (∀ x ∈ s.todo, x ≠ none) ∧ s.infl ≠ some none
  lph1   : s.lphase = true → (∀ x ∈ s.todo, x = none) ∧ (∀ x, s.infl = some x → x = none)
  sorted : sortedQ s.inq
  pois   : ∀ w : Nat, (∃ e, s.ws[w]? = some (W.exited true e)) ∨ (s.ws[w]? = some W.dead ∧ s.excs = []) →
             s.lphase = true ∧ ∀ x ∈ s.inq, x = none
  pills  : s.active = true → s.lphase = true →
             sumOver needy s.ws ≤ sumOver isPill (s.inq ++ s.infl.toList ++ s.todo)
  opill  : none ∈ s.outq → s.nprocs = 0
  olast  : ∀ x ∈ s.outq.dropLast, x ≠ none
  q      : s.active = true → s.nprocs = 0 → none ∈ s.outq
  fin    : s.active = false → s.abandoned = false →
             s.nprocs = 0 ∧ (s.excs = [] →
               (∀ o, s.recv.count o = sumOver (fun x => x.outs.count o) c.items) ∧ ∀ x ∈ c.items, x.err = none)
  maxk   : 0 < c.m → ∀ (w : Nat) k p e, s.ws[w]? = some (W.run k p e) → k ≤ c.m
  aband  : s.abandoned = true → s.active = false
  drops  : s.active = true → s.dropIn = [] ∧ s.dropOut = []

theorem sortedQ_tail {x} {r : List (Option ItemSpec)} (h : sortedQ (x :: r)) : sortedQ r := by
  cases x with
  | some _ => exact h
  | none =>
    simp only [sortedQ] at h
    cases r with
    | nil => trivial
    | cons y ys =>
      have hy := h y (by simp)
      subst hy
      simp only [sortedQ]
      intro z hz; exact h z (by simp [hz])

theorem sortedQ_of_all_none (q : List (Option ItemSpec)) (h : ∀ x ∈ q, x = none) : sortedQ q := by
  cases q with
  | nil => trivial
  | cons y ys =>
    have hy := h y (by simp)
    subst hy
    simp only [sortedQ]
    intro z hz; exact h z (by simp [hz])

theorem sortedQ_append_none (q : List (Option ItemSpec)) (h : sortedQ q) : sortedQ (q ++ [none]) := by
  induction q with
  | nil => simp [sortedQ]
  | cons y ys ih =>
    cases y with
    | some _ => exact ih h
    | none =>
      simp only [sortedQ, List.cons_append] at h ⊢
      intro z hz
      simp at hz
      rcases hz with hz | hz
      · exact h z hz
      · exact hz

theorem sortedQ_append_some (q : List (Option ItemSpec)) (i : ItemSpec) (h : ∀ x ∈ q, x ≠ none) :
    sortedQ (q ++ [some i]) := by
  induction q with
  | nil => simp [sortedQ]
  | cons y ys ih =>
    cases y with
    | some _ => exact ih (fun x hx => h x (by simp [hx]))
    | none => exact absurd rfl (h none (by simp))

theorem alive_le_needy (w : W) : needy w ≤ alive w := by
  cases w with
  | exited p e => cases p <;> simp [needy, alive]
  | _ => simp [needy, alive]

theorem sumOver_mono {α} (g g' : α → Nat) (l : List α) (h : ∀ x, g x ≤ g' x) : sumOver g l ≤ sumOver g' l := by
  induction l with
  | nil => simp
  | cons y ys ih => have := h y; simp; omega

theorem all_dead_of_nprocs_zero {c : Cfg} {s : State} (hI : Inv c s) (h0 : s.nprocs = 0) :
    ∀ w ∈ s.ws, w = .dead := by
  intro w hw
  have h := hI.np
  rw [h0] at h
  have := (sumOver_eq_zero alive s.ws).1 h.symm w hw
  cases w <;> simp [alive] at this ⊢

theorem mem_of_getElem? {α} {l : List α} {i : Nat} {x : α} (h : l[i]? = some x) : x ∈ l :=
  List.mem_of_getElem? h

theorem alive_pos_of_get {c : Cfg} {s : State} (hI : Inv c s) {w : Nat} {x : W} (hw : s.ws[w]? = some x)
    (hx : x ≠ .dead) : 0 < s.nprocs := by
  rw [hI.np]
  have := sumOver_le_of_mem alive s.ws x (mem_of_getElem? hw)
  cases x <;> simp [alive] at this hx ⊢ <;> omega

theorem mem_dropLast_of_tail {α} (x : α) (r : List α) (y : α) (h : y ∈ r.dropLast) : y ∈ (x :: r).dropLast := by
  cases r with
  | nil => simp at h
  | cons z zs => simp [List.dropLast] at h ⊢; right; exact h

end Coba.C08
