/-
C19 helper lemmas: list sums, the local step relation, lock effects, invariant preservation.
-/
import CobaVerif.Model.C19
import CobaVerif.Generated.C19Consts
import CobaVerif.Generated.C19Protocol
import CobaVerif.Generated.C19Keys

namespace Coba.C19
set_option linter.unusedSimpArgs false


theorem sumBy_set (f : Caller → Nat) : ∀ (l : List Caller) (i : Nat) (c c' : Caller),
    l[i]? = some c → sumBy f (l.set i c') + f c = sumBy f l + f c' := by
  intro l
  induction l with
  | nil => intro i c c' h; simp at h
  | cons a t ih =>
    intro i c c' h
    cases i with
    | zero => simp at h; subst h; simp [sumBy]; omega
    | succ n =>
      simp at h
      have := ih n c c' h
      simp [sumBy]; omega

theorem sumBy_ge (f : Caller → Nat) : ∀ (l : List Caller) (i : Nat) (c : Caller),
    l[i]? = some c → f c ≤ sumBy f l := by
  intro l
  induction l with
  | nil => intro i c h; simp at h
  | cons a t ih =>
    intro i c h
    cases i with
    | zero => simp at h; subst h; simp [sumBy]
    | succ n => simp at h; have := ih n c h; simp [sumBy]; omega

theorem sumBy_ge2 (f : Caller → Nat) : ∀ (l : List Caller) (i j : Nat) (c d : Caller),
    l[i]? = some c → l[j]? = some d → i ≠ j → f c + f d ≤ sumBy f l := by
  intro l
  induction l with
  | nil => intro i j c d h; simp at h
  | cons a t ih =>
    intro i j c d hi hj hne
    cases i with
    | zero =>
      cases j with
      | zero => exact absurd rfl hne
      | succ m => simp at hi hj; subst hi; have := sumBy_ge f t m d hj; simp [sumBy]; omega
    | succ n =>
      cases j with
      | zero => simp at hi hj; subst hj; have := sumBy_ge f t n c hi; simp [sumBy]; omega
      | succ m =>
        simp at hi hj
        have := ih n m c d hi hj (by omega)
        simp [sumBy]; omega

theorem sumBy_zero (f : Caller → Nat) : ∀ (l : List Caller), (∀ c ∈ l, f c = 0) → sumBy f l = 0 := by
  intro l
  induction l with
  | nil => intro _; rfl
  | cons a t ih => intro h; simp [sumBy, h a (by simp), ih (fun c hc => h c (by simp [hc]))]


/-- the local step relation on reachable local states, one constructor per branch of `stepC` -/
inductive LStep (idx : Nat → Nat) (arr : Nat → Int) (cache : Nat → Option Nat) :
    Caller → Ev → (Nat → Int) → (Nat → Option Nat) → Caller → Prop
  | idle_gs {k g r rest stack book tn} :
      LStep idx arr cache ⟨.idle, .getSet k g :: r, rest, stack, book, tn⟩ .begin arr cache ⟨.gsAcqR k g, r, rest, stack, book, tn⟩
  | idle_exit_skip {r rest book tn} :
      LStep idx arr cache ⟨.idle, .exit :: r, rest, [], book, tn⟩ .skip arr cache ⟨.idle, r, rest, [], book, tn⟩
  | idle_exit {r rest j t book tn} :
      LStep idx arr cache ⟨.idle, .exit :: r, rest, j :: t, book, tn⟩ .begin arr cache ⟨.exRel, r, rest, j :: t, book, tn⟩
  | idle_raise {r rest stack book tn} :
      LStep idx arr cache ⟨.idle, .raise :: r, rest, stack, book, tn⟩ .raiseBody arr cache (toUnwind ⟨.idle, .raise :: r, rest, stack, book, tn⟩)
  | idle_rmv {k f o r rest stack book tn} :
      LStep idx arr cache ⟨.idle, .rmv k f o :: r, rest, stack, book, tn⟩ .begin arr cache ⟨.rmChk k f o, r, rest, stack, book, tn⟩
  | idle_close {rest j t book tn} :
      LStep idx arr cache ⟨.idle, [], rest, j :: t, book, tn⟩ .begin arr cache ⟨.exRel, [], rest, j :: t, book, tn⟩
  | idle_next {seg more book tn} :
      LStep idx arr cache ⟨.idle, [], seg :: more, [], book, tn⟩ .nextSeg arr cache ⟨.idle, seg, more, [], book, tn⟩
  | acqR_ok {k g cur rest stack book tn} : arr (idx k) ≥ 0 →
      LStep idx arr cache ⟨.gsAcqR k g, cur, rest, stack, book, tn⟩ (.acqR k) (upd arr (idx k) (arr (idx k) + 1)) cache
        ⟨.gsChk1 k g, cur, rest, stack, upd book k (book k + 1), tn⟩
  | acqR_spin {k g cur rest stack book tn} : ¬ arr (idx k) ≥ 0 →
      LStep idx arr cache ⟨.gsAcqR k g, cur, rest, stack, book, tn⟩ .spin arr cache ⟨.gsAcqR k g, cur, rest, stack, book, tn⟩
  | chk1_hit {k g v cur rest stack book tn} : cache k = some v →
      LStep idx arr cache ⟨.gsChk1 k g, cur, rest, stack, book, tn⟩ (.contains k true) arr cache ⟨.gsGet1 k, cur, rest, stack, book, tn⟩
  | chk1_miss {k g cur rest stack book tn} : cache k = none →
      LStep idx arr cache ⟨.gsChk1 k g, cur, rest, stack, book, tn⟩ (.contains k false) arr cache ⟨.gsRelR k g, cur, rest, stack, book, tn⟩
  | get1 {k v cur rest stack book tn} : cache k = some v →
      LStep idx arr cache ⟨.gsGet1 k, cur, rest, stack, book, tn⟩ (.cget k v) arr cache ⟨.gsEnter k v, cur, rest, stack, book, tn⟩
  | relR {k g cur rest stack book tn} : k ∉ stack →
      LStep idx arr cache ⟨.gsRelR k g, cur, rest, stack, book, tn⟩ (.relR k) (upd arr (idx k) (arr (idx k) - 1)) cache
        ⟨.gsAcqW k g, cur, rest, stack, upd book k (book k - 1), tn⟩
  | acqW_ok {k g cur rest stack book tn} : arr (idx k) = 0 →
      LStep idx arr cache ⟨.gsAcqW k g, cur, rest, stack, book, tn⟩ (.acqW k) (upd arr (idx k) (-1)) cache
        ⟨.gsChk2 k g, cur, rest, stack, upd book k (-1), tn⟩
  | acqW_spin {k g cur rest stack book tn} : ¬ arr (idx k) = 0 → (tn = false ∨ stack = []) →
      LStep idx arr cache ⟨.gsAcqW k g, cur, rest, stack, book, tn⟩ .spin arr cache ⟨.gsAcqW k g, cur, rest, stack, book, tn⟩
  | acqW_refuse {k g cur rest stack book} : ¬ arr (idx k) = 0 → stack ≠ [] →
      LStep idx arr cache ⟨.gsAcqW k g, cur, rest, stack, book, true⟩ (.refuse k) arr cache (toUnwind ⟨.gsAcqW k g, cur, rest, stack, book, true⟩)
  | chk2_hit {k g v cur rest stack book tn} : cache k = some v →
      LStep idx arr cache ⟨.gsChk2 k g, cur, rest, stack, book, tn⟩ (.contains k true) arr cache ⟨.gsSwA k, cur, rest, stack, book, tn⟩
  | chk2_miss {k g cur rest stack book tn} : cache k = none →
      LStep idx arr cache ⟨.gsChk2 k g, cur, rest, stack, book, tn⟩ (.contains k false) arr cache ⟨.gsPop k g, cur, rest, stack, book, tn⟩
  | swA {k cur rest stack book tn} :
      LStep idx arr cache ⟨.gsSwA k, cur, rest, stack, book, tn⟩ (.sw k) (upd arr (idx k) 1) cache ⟨.gsGet2 k, cur, rest, stack, upd book k 1, tn⟩
  | get2 {k v cur rest stack book tn} : cache k = some v →
      LStep idx arr cache ⟨.gsGet2 k, cur, rest, stack, book, tn⟩ (.cget k v) arr cache ⟨.gsEnter k v, cur, rest, stack, book, tn⟩
  | pop_create {k g cur rest stack book tn} :
      LStep idx arr cache ⟨.gsPop k g, cur, rest, stack, book, tn⟩ (.ccreate k) arr cache ⟨.gsPopW k g, cur, rest, stack, book, tn⟩
  | pop_ok {k v cur rest stack book tn} :
      LStep idx arr cache ⟨.gsPopW k (.ok v), cur, rest, stack, book, tn⟩ (.cpop k v) arr (upd cache k (some v)) ⟨.gsSwB k v, cur, rest, stack, book, tn⟩
  | pop_fail {k cur rest stack book tn} :
      LStep idx arr cache ⟨.gsPopW k .fail, cur, rest, stack, book, tn⟩ (.cpopFail k) arr cache ⟨.gsHRelW k, cur, rest, stack, book, tn⟩
  | swB {k v cur rest stack book tn} :
      LStep idx arr cache ⟨.gsSwB k v, cur, rest, stack, book, tn⟩ (.sw k) (upd arr (idx k) 1) cache ⟨.gsEnter k v, cur, rest, stack, upd book k 1, tn⟩
  | enter {k v cur rest stack book tn} :
      LStep idx arr cache ⟨.gsEnter k v, cur, rest, stack, book, tn⟩ (.enter k v) arr cache ⟨.idle, cur, rest, k :: stack, book, tn⟩
  | hrelW {k cur rest stack book tn} :
      LStep idx arr cache ⟨.gsHRelW k, cur, rest, stack, book, tn⟩ (.relW k) (upd arr (idx k) 0) cache
        (toUnwind ⟨.gsHRelW k, cur, rest, stack, upd book k 0, tn⟩)
  | exRel {k t cur rest book tn} :
      LStep idx arr cache ⟨.exRel, cur, rest, k :: t, book, tn⟩ (.relR k) (upd arr (idx k) (arr (idx k) - 1)) cache
        ⟨.idle, cur, rest, t, upd book k (book k - 1), tn⟩
  | rmChk_raise {k f o v cur rest stack book tn} : cache k = some v → k ∈ stack →
      LStep idx arr cache ⟨.rmChk k f o, cur, rest, stack, book, tn⟩ (.contains k true) arr cache (toUnwind ⟨.rmChk k f o, cur, rest, stack, book, tn⟩)
  | rmChk_go {k f o v cur rest stack book tn} : cache k = some v → k ∉ stack →
      LStep idx arr cache ⟨.rmChk k f o, cur, rest, stack, book, tn⟩ (.contains k true) arr cache ⟨.rmAcqW k f, cur, rest, stack, book, tn⟩
  | rmChk_absent {k f cur rest stack book tn} : cache k = none →
      LStep idx arr cache ⟨.rmChk k f false, cur, rest, stack, book, tn⟩ (.contains k false) arr cache ⟨.idle, cur, rest, stack, book, tn⟩
  | rmChk_seen {k f cur rest stack book tn} : cache k = none → k ∉ stack →
      LStep idx arr cache ⟨.rmChk k f true, cur, rest, stack, book, tn⟩ (.contains k true) arr cache ⟨.rmAcqW k f, cur, rest, stack, book, tn⟩
  | rmAcqW_ok {k f cur rest stack book tn} : arr (idx k) = 0 →
      LStep idx arr cache ⟨.rmAcqW k f, cur, rest, stack, book, tn⟩ (.acqW k) (upd arr (idx k) (-1)) cache
        ⟨.rmRemove k f, cur, rest, stack, upd book k (-1), tn⟩
  | rmAcqW_spin {k f cur rest stack book tn} : ¬ arr (idx k) = 0 → (tn = false ∨ stack = []) →
      LStep idx arr cache ⟨.rmAcqW k f, cur, rest, stack, book, tn⟩ .spin arr cache ⟨.rmAcqW k f, cur, rest, stack, book, tn⟩
  | rmAcqW_refuse {k f cur rest stack book} : ¬ arr (idx k) = 0 → stack ≠ [] →
      LStep idx arr cache ⟨.rmAcqW k f, cur, rest, stack, book, true⟩ (.refuse k) arr cache (toUnwind ⟨.rmAcqW k f, cur, rest, stack, book, true⟩)
  | rmRemove_fail {k cur rest stack book tn} :
      LStep idx arr cache ⟨.rmRemove k true, cur, rest, stack, book, tn⟩ (.crmvFail k) arr cache ⟨.rmHRelW k, cur, rest, stack, book, tn⟩
  | rmHRelW {k cur rest stack book tn} :
      LStep idx arr cache ⟨.rmHRelW k, cur, rest, stack, book, tn⟩ (.relW k) (upd arr (idx k) 0) cache
        (toUnwind ⟨.rmHRelW k, cur, rest, stack, upd book k 0, tn⟩)
  | rmRemove {k cur rest stack book tn} :
      LStep idx arr cache ⟨.rmRemove k false, cur, rest, stack, book, tn⟩ (.crmv k (cache k).isSome) arr (upd cache k none) ⟨.rmRelW k, cur, rest, stack, book, tn⟩
  | rmRelW {k cur rest stack book tn} :
      LStep idx arr cache ⟨.rmRelW k, cur, rest, stack, book, tn⟩ (.relW k) (upd arr (idx k) 0) cache ⟨.idle, cur, rest, stack, upd book k 0, tn⟩
  | unwind {k t rest book tn} :
      LStep idx arr cache ⟨.unwind, [], rest, k :: t, book, tn⟩ (.relR k) (upd arr (idx k) (arr (idx k) - 1)) cache
        (toUnwind ⟨.unwind, [], rest, t, upd book k (book k - 1), tn⟩)

theorem count_pos_of_book {stack : List Nat} {k : Nat} (h : (stack.count k : Int) ≠ 0) : k ∈ stack := by
  have : stack.count k ≠ 0 := by omega
  exact List.count_pos_iff.mp (Nat.pos_of_ne_zero this)

theorem stepC_sound (idx : Nat → Nat) (arr : Nat → Int) (cache : Nat → Option Nat) (c c' : Caller) (ev : Ev) (a' ch')
    (h : stepC idx arr cache c = some (ev, a', ch', c')) (hb : bookOK c) (hp : pcOK cache c)
    (hs : ∀ k ∈ c.stack, (cache k).isSome) :
    LStep idx arr cache c ev a' ch' c' := by
  rcases c with ⟨pc, cur, rest, stack, book, tn⟩
  cases pc <;> simp only [stepC] at h <;> (repeat' split at h) <;> simp at h
  all_goals (try obtain ⟨rfl, rfl, rfl, rfl⟩ := h)
  all_goals (try (constructor <;> assumption))
  -- idle: exit with empty / non-empty stack, implicit close, next segment
  · cases stack <;> simp at * ; exact LStep.idle_exit_skip
  · cases stack <;> simp at * ; exact LStep.idle_exit
  · cases stack <;> simp at * ; exact LStep.idle_close
  · cases stack <;> simp at * ; exact LStep.idle_next
  -- gsRelR: the key cannot be in the caller's own stack (it is not cached), so the handler branch is dead
  · rename_i k g hne
    have hbk := hb k
    simp [pcOK] at hp
    simp [Caller.reads, Pc.readKey, Pc.writeKey, upd] at hbk hne hs
    have hk : k ∉ stack := fun hm => by have := hs k hm; simp [hp] at this
    have : stack.count k = 0 := List.count_eq_zero.mpr hk
    omega
  · rename_i k g hne
    simp [pcOK] at hp
    simp at hs
    exact LStep.relR (fun hm => by have := hs k hm; simp [hp] at this)
  -- gsAcqW, guard false: repaired code refuses a nested request (`_locks[key] = 0`, so the handler releases nothing); else spin
  · rename_i k g hne htn
    have hbk := hb k
    simp [pcOK] at hp
    simp [Caller.reads, Pc.readKey, Pc.writeKey, List.count_eq_zero_of_not_mem hp] at hbk
    have htn' : tn = true ∧ stack ≠ [] := by cases tn <;> cases stack <;> simp_all
    obtain ⟨rfl, hst⟩ := htn'
    simp [toHandler, afterHRelR, hbk]
    exact LStep.acqW_refuse hne hst
  · rename_i k g hne htn
    exact LStep.acqW_spin hne (by cases tn <;> cases stack <;> simp_all)
  -- gsPop fail: `_locks` says write, so the handler releases the write lock
  · rename_i k g
    have hbk := hb k
    simp [Caller.reads, Pc.readKey, Pc.writeKey] at hbk
    simp [toHandler, afterHRelR, hbk]
    exact LStep.pop_fail
  · simp [pcOK] at hp
  -- rmChk
  · rename_i k f o _ v hc hne
    have hbk := hb k
    simp [Caller.reads, Pc.readKey, Pc.writeKey] at hbk
    exact LStep.rmChk_raise hc (count_pos_of_book (by rw [← hbk]; exact hne))
  · rename_i k f o _ v hc hne
    have hbk := hb k
    simp [Caller.reads, Pc.readKey, Pc.writeKey] at hbk
    refine LStep.rmChk_go hc (fun hm => hne ?_)
    have : 0 < stack.count k := List.count_pos_iff.mpr hm
    omega
  -- rmChk, entry not cached but the unlocked membership test says yes: the key cannot be in the caller's own stack
  · rename_i k f o _ hc ho hne
    have hbk := hb k
    simp [Caller.reads, Pc.readKey, Pc.writeKey] at hbk
    have hk : k ∉ stack := fun hm => by have := hs k hm; simp [hc] at this
    have : stack.count k = 0 := List.count_eq_zero.mpr hk
    omega
  · rename_i k f o _ hc ho hne
    subst ho
    exact LStep.rmChk_seen hc (fun hm => by have := hs k hm; simp [hc] at this)
  · rename_i k f o _ hc ho
    have : o = false := by simpa using ho
    subst this
    exact LStep.rmChk_absent hc
  -- rmAcqW, guard false
  · rename_i k f hne htn
    have htn' : tn = true ∧ stack ≠ [] := by cases tn <;> cases stack <;> simp_all
    obtain ⟨rfl, hst⟩ := htn'
    exact LStep.rmAcqW_refuse hne hst
  · rename_i k f hne htn
    exact LStep.rmAcqW_spin hne (by cases tn <;> cases stack <;> simp_all)
  -- rmRemove: the inner rmv raises / succeeds
  · rename_i hf; subst hf; exact LStep.rmRemove_fail
  · rename_i hf; simp at hf; subst hf; exact LStep.rmRemove
  · simp [pcOK] at hp
    subst hp
    exact LStep.unwind

def ind (i j : Nat) : Nat := if j = i then 1 else 0

inductive LockEff (idx : Nat → Nat) (arr a' : Nat → Int) (c c' : Caller) : Prop
  | neutral : a' = arr → (∀ i, c'.rc idx i = c.rc idx i) → (∀ i, c'.wc idx i = c.wc idx i) → LockEff idx arr a' c c'
  | acqR (k : Nat) : arr (idx k) ≥ 0 → a' = upd arr (idx k) (arr (idx k) + 1) →
      (∀ i, c'.rc idx i = c.rc idx i + ind i (idx k)) → (∀ i, c'.wc idx i = c.wc idx i) → LockEff idx arr a' c c'
  | relR (k : Nat) : a' = upd arr (idx k) (arr (idx k) - 1) →
      (∀ i, c.rc idx i = c'.rc idx i + ind i (idx k)) → (∀ i, c'.wc idx i = c.wc idx i) → LockEff idx arr a' c c'
  | acqW (k : Nat) : arr (idx k) = 0 → a' = upd arr (idx k) (-1) →
      (∀ i, c'.rc idx i = c.rc idx i) → (∀ i, c'.wc idx i = c.wc idx i + ind i (idx k)) → LockEff idx arr a' c c'
  | relW (k : Nat) : a' = upd arr (idx k) 0 →
      (∀ i, c'.rc idx i = c.rc idx i) → (∀ i, c.wc idx i = c'.wc idx i + ind i (idx k)) → LockEff idx arr a' c c'
  | sw (k : Nat) : a' = upd arr (idx k) 1 →
      (∀ i, c'.rc idx i = c.rc idx i + ind i (idx k)) → (∀ i, c.wc idx i = c'.wc idx i + ind i (idx k)) → LockEff idx arr a' c c'

theorem toUnwind_eq (c : Caller) :
    toUnwind c = ⟨.idle, [], c.rest, c.stack, c.book, c.tn⟩ ∨ toUnwind c = ⟨.unwind, [], c.rest, c.stack, c.book, c.tn⟩ := by
  simp only [toUnwind]; split <;> simp

theorem rc_mk (idx : Nat → Nat) (pc cur rest stack book tn) (i : Nat) :
    Caller.rc idx ⟨pc, cur, rest, stack, book, tn⟩ i =
      (match pc.readKey with | some k => ind i (idx k) | none => 0) + stack.countP (fun k => idx k == i) := by
  simp only [Caller.rc, Caller.reads]
  cases pc.readKey <;> simp [ind, List.countP_cons]
  omega

theorem wc_mk (idx : Nat → Nat) (pc cur rest stack book tn) (i : Nat) :
    Caller.wc idx ⟨pc, cur, rest, stack, book, tn⟩ i = (match pc.writeKey with | some k => ind i (idx k) | none => 0) := by
  simp only [Caller.wc]
  cases pc.writeKey <;> simp [ind]

theorem lstep_lockEff {idx arr cache c ev a' ch' c'} (h : LStep idx arr cache c ev a' ch' c') :
    LockEff idx arr a' c c' := by
  cases h
  all_goals (try rcases toUnwind_eq _ with hu | hu <;> rw [hu])
  all_goals first
    | (refine LockEff.neutral rfl ?_ ?_ <;> intro i <;> simp [rc_mk, wc_mk, Pc.readKey, Pc.writeKey, List.countP_cons, ind] <;> done)
    | (refine LockEff.neutral rfl ?_ ?_ <;> intro i <;> simp [rc_mk, wc_mk, Pc.readKey, Pc.writeKey, List.countP_cons, ind] <;> omega)
    | (refine LockEff.acqR _ (by assumption) rfl ?_ ?_ <;> intro i <;> simp [rc_mk, wc_mk, Pc.readKey, Pc.writeKey, List.countP_cons, ind] <;> omega)
    | (refine LockEff.relR _ rfl ?_ ?_ <;> intro i <;> simp [rc_mk, wc_mk, Pc.readKey, Pc.writeKey, List.countP_cons, ind] <;> omega)
    | (refine LockEff.acqW _ (by assumption) rfl ?_ ?_ <;> intro i <;> simp [rc_mk, wc_mk, Pc.readKey, Pc.writeKey, List.countP_cons, ind])
    | (refine LockEff.relW _ rfl ?_ ?_ <;> intro i <;> simp [rc_mk, wc_mk, Pc.readKey, Pc.writeKey, List.countP_cons, ind])
    | (refine LockEff.sw _ rfl ?_ ?_ <;> intro i <;> simp [rc_mk, wc_mk, Pc.readKey, Pc.writeKey, List.countP_cons, ind] <;> omega)
    | skip

def LocksOK (idx : Nat → Nat) (s : St) : Prop :=
  ∀ i, (s.W idx i = 0 ∧ s.arr i = (s.R idx i : Int)) ∨ (s.W idx i = 1 ∧ s.R idx i = 0 ∧ s.arr i = -1)

theorem locks_preserved (idx : Nat → Nat) (s : St) (j : Nat) (c c' : Caller) (a' : Nat → Int) (ch' : Nat → Option Nat)
    (h1 : LocksOK idx s) (hj : s.cs[j]? = some c) (he : LockEff idx s.arr a' c c') :
    LocksOK idx { arr := a', cache := ch', cs := s.cs.set j c' } := by
  intro i
  have hR := sumBy_set (fun c => c.rc idx i) s.cs j c c' hj
  have hW := sumBy_set (fun c => c.wc idx i) s.cs j c c' hj
  have gR := sumBy_ge (fun c => c.rc idx i) s.cs j c hj
  have gW := sumBy_ge (fun c => c.wc idx i) s.cs j c hj
  have h1i := h1 i
  simp only [St.R, St.W] at *
  cases he with
  | neutral ha hr hw => subst ha; rw [hr i] at hR; rw [hw i] at hW; rcases h1i with h | h <;> omega
  | acqR k hg ha hr hw =>
    subst ha; rw [hr i] at hR; rw [hw i] at hW
    have h1k := h1 (idx k)
    simp only [St.R, St.W] at h1k
    by_cases hik : i = idx k
    · subst hik; simp [upd, ind] at *; rcases h1i with h | h <;> omega
    · have hik' : ¬ idx k = i := fun h => hik h.symm
      simp [upd, ind, hik, hik'] at *; rcases h1i with h | h <;> omega
  | relR k ha hr hw =>
    subst ha; rw [hr i] at hR gR; rw [hw i] at hW
    by_cases hik : i = idx k
    · subst hik; simp [upd, ind] at *; rcases h1i with h | h <;> omega
    · have hik' : ¬ idx k = i := fun h => hik h.symm
      simp [upd, ind, hik, hik'] at *; rcases h1i with h | h <;> omega
  | acqW k hg ha hr hw =>
    subst ha; rw [hr i] at hR; rw [hw i] at hW
    by_cases hik : i = idx k
    · subst hik; simp [upd, ind] at *; rcases h1i with h | h <;> omega
    · have hik' : ¬ idx k = i := fun h => hik h.symm
      simp [upd, ind, hik, hik'] at *; rcases h1i with h | h <;> omega
  | relW k ha hr hw =>
    subst ha; rw [hr i] at hR; rw [hw i] at hW gW
    by_cases hik : i = idx k
    · subst hik; simp [upd, ind] at *; rcases h1i with h | h <;> omega
    · have hik' : ¬ idx k = i := fun h => hik h.symm
      simp [upd, ind, hik, hik'] at *; rcases h1i with h | h <;> omega
  | sw k ha hr hw =>
    subst ha; rw [hr i] at hR; rw [hw i] at hW gW
    by_cases hik : i = idx k
    · subst hik; simp [upd, ind] at *; rcases h1i with h | h <;> omega
    · have hik' : ¬ idx k = i := fun h => hik h.symm
      simp [upd, ind, hik, hik'] at *; rcases h1i with h | h <;> omega


theorem pcOK_toUnwind (ch : Nat → Option Nat) (c : Caller) : pcOK ch (toUnwind c) := by
  simp only [toUnwind]
  cases hst : c.stack <;> simp [pcOK]

theorem lstep_book {idx arr cache c ev a' ch' c'} (h : LStep idx arr cache c ev a' ch' c')
    (hb : bookOK c) (hW : ∀ k, c.pc.writeKey = some k → k ∉ c.stack) : bookOK c' := by
  cases h
  all_goals (try rcases toUnwind_eq _ with hu | hu <;> rw [hu])
  all_goals (
    intro k'
    have hbk := hb k'
    simp [Caller.reads, Pc.readKey, Pc.writeKey, upd, List.count_cons] at hbk hW ⊢)
  all_goals (try (first | exact hbk | omega))
  all_goals (try (split <;> (try subst_vars) <;> simp_all [List.count_eq_zero_of_not_mem] <;> omega))
  all_goals (try (simp only [@eq_comm Nat k'] at *; split <;> (try subst_vars) <;> simp_all [List.count_eq_zero_of_not_mem] <;> omega))

theorem lstep_pcOK {idx arr cache c ev a' ch' c'} (h : LStep idx arr cache c ev a' ch' c')
    (hp : pcOK cache c) : pcOK ch' c' := by
  cases h
  all_goals (first | exact pcOK_toUnwind _ _ | (simp [pcOK, upd] at hp ⊢ <;> simp_all))

theorem lstep_stack {idx arr cache c ev a' ch' c'} (h : LStep idx arr cache c ev a' ch' c')
    (hp : pcOK cache c) (hs : ∀ k ∈ c.stack, (cache k).isSome)
    (hW : ∀ k, c.pc.writeKey = some k → k ∉ c.stack) : ∀ k ∈ c'.stack, (ch' k).isSome := by
  cases h
  all_goals (try rcases toUnwind_eq _ with hu | hu <;> rw [hu])
  all_goals (simp [pcOK, upd, Pc.writeKey] at hp hs hW ⊢)
  all_goals (try (first | exact hs | simp_all))
  all_goals (intro k hk; have := hs k hk; split <;> simp_all)

/-- the inner cache changes only at a key whose write lock the stepping caller holds -/
theorem lstep_cache {idx arr cache c ev a' ch' c'} (h : LStep idx arr cache c ev a' ch' c') :
    ch' = cache ∨ ∃ k, c.pc.writeKey = some k ∧ ∀ k', k' ≠ k → ch' k' = cache k' := by
  cases h
  all_goals (first | exact Or.inl rfl | (right; refine ⟨_, rfl, ?_⟩; intro k' hk; simp [upd, hk]))

/-- what `pcOK` and the cached-stack fact say about a caller depends only on the keys it holds -/
theorem pcOK_frame {cache ch' : Nat → Option Nat} {d : Caller}
    (hf : ∀ k, (k ∈ d.reads ∨ d.pc.writeKey = some k) → ch' k = cache k) (hp : pcOK cache d) : pcOK ch' d := by
  rcases d with ⟨pc, cur, rest, stack, book, tn⟩
  cases pc <;> simp [pcOK, Caller.reads, Pc.readKey, Pc.writeKey] at hf hp ⊢ <;> simp_all

theorem stack_frame {cache ch' : Nat → Option Nat} {d : Caller}
    (hf : ∀ k, (k ∈ d.reads ∨ d.pc.writeKey = some k) → ch' k = cache k)
    (hs : ∀ k ∈ d.stack, (cache k).isSome) : ∀ k ∈ d.stack, (ch' k).isSome := by
  intro k hk
  rw [hf k (Or.inl (by simp [Caller.reads, hk]))]
  exact hs k hk

theorem rc_zero_iff (idx : Nat → Nat) (c : Caller) (i : Nat) : c.rc idx i = 0 ↔ ∀ k ∈ c.reads, idx k ≠ i := by
  simp [Caller.rc, List.countP_eq_zero]

theorem wc_one_of_writeKey (idx : Nat → Nat) (c : Caller) (k : Nat) (h : c.pc.writeKey = some k) : c.wc idx (idx k) = 1 := by
  simp [Caller.wc, h]

theorem wc_zero_iff (idx : Nat → Nat) (c : Caller) (i : Nat) : c.wc idx i = 0 ↔ ∀ k, c.pc.writeKey = some k → idx k ≠ i := by
  simp only [Caller.wc]
  cases c.pc.writeKey <;> simp

/-- a write holder excludes every other holder on its index -/
theorem writer_excl {idx : Nat → Nat} {s : St} (hl : LocksOK idx s) {i : Nat} {c : Caller} {k : Nat}
    (hi : s.cs[i]? = some c) (hw : c.pc.writeKey = some k) :
    (∀ k' ∈ c.reads, idx k' ≠ idx k) ∧
    ∀ (j : Nat) (d : Caller), j ≠ i → s.cs[j]? = some d →
      (∀ k' ∈ d.reads, idx k' ≠ idx k) ∧ (∀ k', d.pc.writeKey = some k' → idx k' ≠ idx k) := by
  have h1 := wc_one_of_writeKey idx c k hw
  have gW := sumBy_ge (fun c => c.wc idx (idx k)) s.cs i c hi
  have gR := sumBy_ge (fun c => c.rc idx (idx k)) s.cs i c hi
  have hk := hl (idx k)
  simp only [St.R, St.W] at hk
  have hW1 : sumBy (fun c => c.wc idx (idx k)) s.cs = 1 ∧ sumBy (fun c => c.rc idx (idx k)) s.cs = 0 := by
    omega
  refine ⟨(rc_zero_iff idx c (idx k)).mp (by omega), ?_⟩
  intro j d hji hj
  have g2 := sumBy_ge2 (fun c => c.wc idx (idx k)) s.cs i j c d hi hj (Ne.symm hji)
  have gRd := sumBy_ge (fun c => c.rc idx (idx k)) s.cs j d hj
  exact ⟨(rc_zero_iff idx d (idx k)).mp (by omega), (wc_zero_iff idx d (idx k)).mp (by omega)⟩

theorem Inv.locksOK {idx : Nat → Nat} {s : St} (h : Inv idx s) : LocksOK idx s := h.locks

theorem inv_step {idx : Nat → Nat} {s s' : St} {i : Nat} {ev : Ev} (hI : Inv idx s)
    (h : step idx s i = some (ev, s')) : Inv idx s' := by
  unfold step at h
  cases hi : s.cs[i]? with
  | none => simp [hi] at h
  | some c =>
    simp only [hi] at h
    cases hc : stepC idx s.arr s.cache c with
    | none => simp [hc] at h
    | some r =>
      obtain ⟨ev1, a', ch', c'⟩ := r
      simp only [hc, Option.some.injEq, Prod.mk.injEq] at h
      obtain ⟨rfl, rfl⟩ := h
      have hL := stepC_sound idx s.arr s.cache c c' ev1 a' ch' hc (hI.book i c hi) (hI.pc i c hi) (hI.stack i c hi)
      have hW : ∀ k, c.pc.writeKey = some k → k ∉ c.stack := by
        intro k hw hm
        exact (writer_excl hI.locks hi hw).1 k (by simp [Caller.reads, hm]) rfl
      have hlen : i < s.cs.length := by
        rcases Nat.lt_or_ge i s.cs.length with h | h
        · exact h
        · simp [List.getElem?_eq_none h] at hi
      -- frame for the other callers
      have hframe : ∀ (j : Nat) (d : Caller), j ≠ i → s.cs[j]? = some d →
          ∀ k, (k ∈ d.reads ∨ d.pc.writeKey = some k) → ch' k = s.cache k := by
        intro j d hji hj k hk
        rcases lstep_cache hL with he | ⟨kw, hkw, hoff⟩
        · rw [he]
        · apply hoff
          intro hkk
          subst hkk
          have hx := (writer_excl hI.locks hi hkw).2 j d hji hj
          rcases hk with hk | hk
          · exact hx.1 k hk rfl
          · exact hx.2 k hk rfl
      have hget : ∀ (j : Nat) (d : Caller), (s.cs.set i c')[j]? = some d → (j = i ∧ d = c') ∨ (j ≠ i ∧ s.cs[j]? = some d) := by
        intro j d hj
        by_cases hji : j = i
        · subst hji; simp [List.getElem?_set_self hlen] at hj; exact Or.inl ⟨rfl, hj.symm⟩
        · rw [List.getElem?_set_ne (Ne.symm hji)] at hj; exact Or.inr ⟨hji, hj⟩
      refine ⟨locks_preserved idx s i c c' a' ch' hI.locks hi (lstep_lockEff hL), ?_, ?_, ?_⟩
      · intro j d hj
        rcases hget j d hj with ⟨_, rfl⟩ | ⟨_, hj'⟩
        · exact lstep_book hL (hI.book i c hi) hW
        · exact hI.book j d hj'
      · intro j d hj
        rcases hget j d hj with ⟨_, rfl⟩ | ⟨hji, hj'⟩
        · exact lstep_stack hL (hI.pc i c hi) (hI.stack i c hi) hW
        · exact stack_frame (hframe j d hji hj') (hI.stack j d hj')
      · intro j d hj
        rcases hget j d hj with ⟨_, rfl⟩ | ⟨hji, hj'⟩
        · exact lstep_pcOK hL (hI.pc i c hi)
        · exact pcOK_frame (hframe j d hji hj') (hI.pc j d hj')

theorem inv_init (idx : Nat → Nat) (progs : List (List (List Instr))) : Inv idx (init progs) := by
  have hmem : ∀ (j : Nat) (c : Caller), (init progs).cs[j]? = some c → ∃ p, c = mkCaller p := by
    intro j c hj
    simp only [init] at hj
    have := List.mem_of_getElem? hj
    simp at this
    obtain ⟨p, _, hp⟩ := this
    exact ⟨p, hp.symm⟩
  have hz : ∀ i, St.R idx (init progs) i = 0 ∧ St.W idx (init progs) i = 0 := by
    intro i
    constructor
    · apply sumBy_zero; intro c hc; simp [init] at hc; obtain ⟨p, _, rfl⟩ := hc
      simp [mkCaller, mkCallerT, Caller.rc, Caller.reads, Pc.readKey]
    · apply sumBy_zero; intro c hc; simp [init] at hc; obtain ⟨p, _, rfl⟩ := hc
      simp [mkCaller, mkCallerT, Caller.wc, Pc.writeKey]
  refine ⟨?_, ?_, ?_, ?_⟩
  · intro i; have hzi := hz i; refine Or.inl ⟨hzi.2, ?_⟩; rw [hzi.1]; simp [init]
  · intro j c hj; obtain ⟨p, rfl⟩ := hmem j c hj; intro k; simp [mkCaller, mkCallerT, Caller.reads, Pc.readKey, Pc.writeKey]
  · intro j c hj; obtain ⟨p, rfl⟩ := hmem j c hj; simp [mkCaller, mkCallerT]
  · intro j c hj; obtain ⟨p, rfl⟩ := hmem j c hj; simp [mkCaller, mkCallerT, pcOK]

theorem inv_reachable {idx : Nat → Nat} {progs : List (List (List Instr))} {s : St}
    (h : Reachable idx progs s) : Inv idx s := by
  induction h with
  | init => exact inv_init idx progs
  | step _ hs ih => exact inv_step ih hs

theorem step_iff {idx : Nat → Nat} {s s' : St} {i : Nat} {ev : Ev} :
    step idx s i = some (ev, s') ↔
      ∃ c a' ch' c', s.cs[i]? = some c ∧ stepC idx s.arr s.cache c = some (ev, a', ch', c') ∧
        s' = { arr := a', cache := ch', cs := s.cs.set i c' } := by
  simp only [step]
  cases hi : s.cs[i]? with
  | none => simp
  | some c =>
    cases hc : stepC idx s.arr s.cache c with
    | none => simp [hc]
    | some r =>
      obtain ⟨ev1, a', ch', c'⟩ := r
      simp only [hc, Option.some.injEq, Prod.mk.injEq]
      constructor
      · rintro ⟨rfl, rfl⟩; exact ⟨c, a', ch', c', rfl, hc, rfl⟩
      · rintro ⟨c2, a2, ch2, c2', h1, h2, h3⟩
        cases h1
        rw [hc] at h2
        simp only [Option.some.injEq, Prod.mk.injEq] at h2
        obtain ⟨rfl, rfl, rfl, rfl⟩ := h2
        exact ⟨rfl, h3.symm⟩

theorem hier_toUnwind (idx : Nat → Nat) (c : Caller) (h : ∀ seg ∈ c.rest, segOk (hierOk idx) [] seg = true) :
    hierC idx (toUnwind c) := by
  rcases toUnwind_eq c with hu | hu <;> rw [hu] <;> simp [hierC, segOk] <;> exact h

theorem lstep_hier {ord : Nat → Nat} {idx arr cache c ev a' ch' c'} (h : LStep idx arr cache c ev a' ch' c')
    (hh : hierC ord c) : hierC ord c' := by
  cases h
  all_goals (first
    | exact hier_toUnwind ord _ hh.1
    | (simp [hierC, segOk] at hh ⊢; simp_all))

theorem no_stuckC {idx arr cache} {c : Caller} (hp : pcOK cache c) (hnt : c.terminal = false) :
    (stepC idx arr cache c).isSome := by
  rcases c with ⟨pc, cur, rest, stack, book, tn⟩
  cases pc <;> simp [stepC, pcOK, Caller.terminal] at hp hnt ⊢ <;> (repeat' split) <;> simp_all

/-- only the three lock guards can spin, and only when the guard is false -/
theorem spin_pc {idx arr cache c a' ch' c'} (h : LStep idx arr cache c .spin a' ch' c') :
    a' = arr ∧ ch' = cache ∧ c' = c ∧
    ((∃ k g, c.pc = .gsAcqR k g ∧ arr (idx k) < 0) ∨ (∃ k g, c.pc = .gsAcqW k g ∧ arr (idx k) ≠ 0) ∨
     (∃ k f, c.pc = .rmAcqW k f ∧ arr (idx k) ≠ 0)) := by
  cases h <;> simp_all <;> omega

theorem sumBy_pos (f : Caller → Nat) : ∀ (l : List Caller), 0 < sumBy f l → ∃ c ∈ l, 0 < f c := by
  intro l
  induction l with
  | nil => intro h; simp [sumBy] at h
  | cons a t ih =>
    intro h
    simp only [sumBy] at h
    by_cases ha : 0 < f a
    · exact ⟨a, by simp, ha⟩
    · obtain ⟨c, hc, hpos⟩ := ih (by omega)
      exact ⟨c, by simp [hc], hpos⟩

theorem exists_max (P : Caller → Prop) (f : Caller → Nat) : ∀ (l : List Caller), (∃ c ∈ l, P c) →
    ∃ c ∈ l, P c ∧ ∀ d ∈ l, P d → f d ≤ f c := by
  intro l
  induction l with
  | nil => intro h; obtain ⟨c, hc, _⟩ := h; simp at hc
  | cons a t ih =>
    intro _
    by_cases ht : ∃ c ∈ t, P c
    · obtain ⟨m, hm, hPm, hmax⟩ := ih ht
      by_cases ha : P a ∧ f m < f a
      · refine ⟨a, by simp, ha.1, ?_⟩
        intro d hd hPd
        rcases List.mem_cons.mp hd with rfl | hd
        · exact Nat.le_refl _
        · have := hmax d hd hPd; omega
      · refine ⟨m, by simp [hm], hPm, ?_⟩
        intro d hd hPd
        rcases List.mem_cons.mp hd with rfl | hd
        · have : ¬ f m < f d := fun h => ha ⟨hPd, h⟩
          omega
        · exact hmax d hd hPd
    · rename_i hex
      obtain ⟨c, hc, hPc⟩ := hex
      rcases List.mem_cons.mp hc with rfl | hc
      · refine ⟨c, by simp, hPc, ?_⟩
        intro d hd hPd
        rcases List.mem_cons.mp hd with rfl | hd
        · exact Nat.le_refl _
        · exact absurd ⟨d, hd, hPd⟩ ht
      · exact absurd ⟨c, hc, hPc⟩ ht

/-- index of the key a caller is waiting to write-lock -/
def wantIdx (idx : Nat → Nat) (c : Caller) : Nat :=
  match c.pc with
  | .gsAcqW k _ => idx k
  | .rmAcqW k _ => idx k
  | _ => 0

theorem terminal_pc {c : Caller} (h : c.terminal = true) : c.pc = .idle ∧ c.stack = [] := by
  rcases c with ⟨pc, cur, rest, stack, book, tn⟩
  cases pc <;> simp_all [Caller.terminal]

theorem deadlock_free_core {idx ord : Nat → Nat} {s : St} (hord : ∀ a b, idx a = idx b → ord a = ord b) (hI : Inv idx s)
    (hH : ∀ (j : Nat) (c : Caller), s.cs[j]? = some c → hierC ord c)
    (hnt : s.allTerminal = false) : ∃ i ev s', step idx s i = some (ev, s') ∧ ev ≠ .spin := by
  apply Classical.byContradiction
  intro hno
  have hall : ∀ i ev s', step idx s i = some (ev, s') → ev = .spin := by
    intro i ev s' h
    apply Classical.byContradiction
    intro hne
    exact hno ⟨i, ev, s', h, hne⟩
  -- every caller that is not terminal sits at a lock guard that is false
  have hspin : ∀ (j : Nat) (c : Caller), s.cs[j]? = some c → c.terminal = false →
      ((∃ k g, c.pc = .gsAcqR k g ∧ s.arr (idx k) < 0) ∨ (∃ k g, c.pc = .gsAcqW k g ∧ s.arr (idx k) ≠ 0) ∨
       (∃ k f, c.pc = .rmAcqW k f ∧ s.arr (idx k) ≠ 0)) := by
    intro j c hj hnt
    have hsome := no_stuckC (idx := idx) (arr := s.arr) (hI.pc j c hj) hnt
    cases hc : stepC idx s.arr s.cache c with
    | none => simp [hc] at hsome
    | some r =>
      obtain ⟨ev, a', ch', c'⟩ := r
      have hst : step idx s j = some (ev, { arr := a', cache := ch', cs := s.cs.set j c' }) :=
        step_iff.mpr ⟨c, a', ch', c', hj, hc, rfl⟩
      have hev := hall _ _ _ hst
      subst hev
      exact (spin_pc (stepC_sound idx s.arr s.cache c c' _ a' ch' hc (hI.book j c hj) (hI.pc j c hj) (hI.stack j c hj))).2.2.2
  have hnow : ∀ (j : Nat) (c : Caller), s.cs[j]? = some c → c.pc.writeKey = none := by
    intro j c hj
    cases ht : c.terminal with
    | true => rw [(terminal_pc ht).1]; rfl
    | false =>
      rcases hspin j c hj ht with ⟨k, g, hp, _⟩ | ⟨k, g, hp, _⟩ | ⟨k, f, hp, _⟩ <;> rw [hp] <;> rfl
  have hW0 : ∀ i, s.W idx i = 0 := by
    intro i
    apply sumBy_zero
    intro c hc
    obtain ⟨j, hj⟩ := List.getElem?_of_mem hc
    simp [Caller.wc, hnow j c hj]
  have harr : ∀ i, s.arr i = (s.R idx i : Int) := by
    intro i
    rcases hI.locks i with h | h
    · exact h.2
    · have := hW0 i; omega
  -- a non-terminal caller whose wanted index is maximal
  have hex : ∃ c ∈ s.cs, c.terminal = false := by
    simp only [St.allTerminal] at hnt
    have := List.all_eq_false.mp hnt
    obtain ⟨c, hc, hct⟩ := this
    exact ⟨c, hc, by simpa using hct⟩
  obtain ⟨c, hc, hct, hmax⟩ := exists_max (fun c => c.terminal = false) (wantIdx ord) s.cs hex
  obtain ⟨j, hj⟩ := List.getElem?_of_mem hc
  -- the key it wants, and the fact that somebody reads that index
  have hwant : ∃ k, wantIdx ord c = ord k ∧ s.arr (idx k) ≠ 0 := by
    rcases hspin j c hj hct with ⟨k, g, hp, hlt⟩ | ⟨k, g, hp, hne⟩ | ⟨k, f, hp, hne⟩
    · have := harr (idx k); omega
    · exact ⟨k, by simp [wantIdx, hp], hne⟩
    · exact ⟨k, by simp [wantIdx, hp], hne⟩
  obtain ⟨k, hwk, hne⟩ := hwant
  have hRpos : 0 < s.R idx (idx k) := by have := harr (idx k); omega
  obtain ⟨d, hd, hdpos⟩ := sumBy_pos _ _ hRpos
  obtain ⟨jd, hjd⟩ := List.getElem?_of_mem hd
  have hrd : ∃ k' ∈ d.reads, idx k' = idx k := by
    apply Classical.byContradiction
    intro hcon
    have : d.rc idx (idx k) = 0 := (rc_zero_iff idx d (idx k)).mpr (fun k' hk' he => hcon ⟨k', hk', he⟩)
    omega
  obtain ⟨k', hk', hkk⟩ := hrd
  have hdt : d.terminal = false := by
    cases ht : d.terminal with
    | false => rfl
    | true =>
      have := terminal_pc ht
      simp [Caller.reads, this.1, this.2, Pc.readKey] at hk'
  have hle := hmax d hd hdt
  have hHd := hH jd d hjd
  have hPd := hI.pc jd d hjd
  rcases hspin jd d hjd hdt with ⟨kd, g, hp, hlt⟩ | ⟨kd, g, hp, _⟩ | ⟨kd, fd, hp, _⟩
  · have := harr (idx kd); omega
  · simp [Caller.reads, hp, Pc.readKey] at hk'
    simp [hierC, hp, hierOk] at hHd
    simp [pcOK, hp] at hPd
    rcases hHd.2.1 with hm | hlt
    · exact hPd hm
    · have := hlt k' hk'
      have hoo := hord k' k hkk
      rw [hwk] at hle; simp [wantIdx, hp] at hle
      omega
  · simp [Caller.reads, hp, Pc.readKey] at hk'
    simp [hierC, hp, hierOk] at hHd
    simp [pcOK, hp] at hPd
    rcases hHd.2.1 with hm | hlt
    · exact hPd hm
    · have := hlt k' hk'
      have hoo := hord k' k hkk
      rw [hwk] at hle; simp [wantIdx, hp] at hle
      omega

theorem hier_init (idx : Nat → Nat) (progs : List (List (List Instr))) (hp : ∀ p ∈ progs, Hier idx p = true) :
    ∀ (j : Nat) (c : Caller), (init progs).cs[j]? = some c → hierC idx c := by
  intro j c hj
  have := List.mem_of_getElem? hj
  simp [init] at this
  obtain ⟨p, hpm, rfl⟩ := this
  have h := hp p hpm
  simp [Hier] at h
  simp [hierC, mkCaller, mkCallerT, segOk]
  exact h

theorem hier_step {idx ord : Nat → Nat} {s s' : St} {i : Nat} {ev : Ev} (hI : Inv idx s)
    (hH : ∀ (j : Nat) (c : Caller), s.cs[j]? = some c → hierC ord c)
    (h : step idx s i = some (ev, s')) : ∀ (j : Nat) (c : Caller), s'.cs[j]? = some c → hierC ord c := by
  obtain ⟨c, a', ch', c', hi, hc, rfl⟩ := step_iff.mp h
  have hL := stepC_sound idx s.arr s.cache c c' ev a' ch' hc (hI.book i c hi) (hI.pc i c hi) (hI.stack i c hi)
  intro j d hj
  by_cases hji : j = i
  · subst hji
    have hlen : j < s.cs.length := by
      rcases Nat.lt_or_ge j s.cs.length with h | h
      · exact h
      · simp [List.getElem?_eq_none h] at hi
    simp [List.getElem?_set_self hlen] at hj
    subst hj
    exact lstep_hier hL (hH j c hi)
  · simp only [] at hj
    rw [List.getElem?_set_ne (Ne.symm hji)] at hj
    exact hH j d hj

theorem hier_reachable {idx ord : Nat → Nat} {progs : List (List (List Instr))} {s : St}
    (hp : ∀ p ∈ progs, Hier ord p = true) (h : Reachable idx progs s) :
    ∀ (j : Nat) (c : Caller), s.cs[j]? = some c → hierC ord c := by
  induction h with
  | init => exact hier_init ord progs hp
  | step hr hs ih => exact hier_step (inv_reachable hr) ih hs

/-- every non-spin local step decreases the caller's measure; a spin changes nothing -/
theorem lstep_measure {idx arr cache c ev a' ch' c'} (h : LStep idx arr cache c ev a' ch' c') :
    (ev ≠ .spin → c'.measure < c.measure) ∧ (ev = .spin → a' = arr ∧ ch' = cache ∧ c' = c) := by
  cases h
  all_goals (try rcases toUnwind_eq _ with hu | hu <;> rw [hu])
  all_goals (simp [Caller.measure, Pc.rank, restWeight]; try omega)

theorem set_self : ∀ (l : List Caller) (i : Nat) (c : Caller), l[i]? = some c → l.set i c = l := by
  intro l
  induction l with
  | nil => intro i c h; simp at h
  | cons a t ih =>
    intro i c h
    cases i with
    | zero => simp at h; subst h; rfl
    | succ n => simp at h; simp [ih n c h]

theorem progress_core {idx : Nat → Nat} {s s' : St} {i : Nat} {ev : Ev} (hI : Inv idx s)
    (h : step idx s i = some (ev, s')) :
    (ev ≠ .spin → s'.measure < s.measure) ∧ (ev = .spin → s' = s) := by
  obtain ⟨c, a', ch', c', hi, hc, rfl⟩ := step_iff.mp h
  have hL := stepC_sound idx s.arr s.cache c c' ev a' ch' hc (hI.book i c hi) (hI.pc i c hi) (hI.stack i c hi)
  have hm := lstep_measure hL
  constructor
  · intro hne
    have := hm.1 hne
    have hs := sumBy_set Caller.measure s.cs i c c' hi
    simp only [St.measure]
    omega
  · intro he
    obtain ⟨rfl, rfl, rfl⟩ := hm.2 he
    rw [set_self s.cs i c' hi]

/-- what each event says about the stepping caller and the inner cache -/
theorem lstep_events {idx arr cache c ev a' ch' c'} (h : LStep idx arr cache c ev a' ch' c') (hp : pcOK cache c) :
    (∀ k v, ev = .cget k v → k ∈ c.reads ∧ cache k = some v) ∧
    (∀ k v, ev = .enter k v → k ∈ c.reads ∧ cache k = some v) ∧
    (∀ k v, ev = .cpop k v → c.pc.writeKey = some k ∧ cache k = none ∧ ch' = upd cache k (some v)) ∧
    (∀ k, ev = .cpopFail k → c.pc.writeKey = some k ∧ cache k = none ∧ ch' = cache) ∧
    (∀ k b, ev = .crmv k b → c.pc.writeKey = some k ∧ b = (cache k).isSome ∧ ch' = upd cache k none) ∧
    (∀ k, evPop k ev + cachedN cache k = evRmv k ev + cachedN ch' k) := by
  cases h
  all_goals (simp [pcOK, Caller.reads, Pc.readKey, Pc.writeKey, evPop, evRmv] at hp ⊢)
  all_goals (try simp_all)
  case pop_ok k0 v0 _ _ _ _ _ =>
    intro k
    by_cases hk : k0 = k
    · subst hk; simp [cachedN, upd, hp]
    · have hk' : ¬ k = k0 := fun h => hk h.symm
      simp [cachedN, upd, hk, hk']
  case rmRemove k0 _ _ _ _ _ =>
    intro k
    by_cases hk : k0 = k
    · subst hk
      cases hc : cache k0 <;> simp [cachedN, upd, hc]
    · have hk' : ¬ k = k0 := fun h => hk h.symm
      cases hc : cache k0 <;> simp [cachedN, upd, hk, hk', hc]

theorem reachable_run {idx : Nat → Nat} {progs : List (List (List Instr))} :
    ∀ (sched : List Nat) (s : St), Reachable idx progs s → Reachable idx progs (run idx s sched).1 := by
  intro sched
  induction sched with
  | nil => intro s h; exact h
  | cons i is ih =>
    intro s h
    simp only [run]
    cases hs : step idx s i with
    | none => simpa [hs] using ih s h
    | some r => obtain ⟨ev, s1⟩ := r; simpa [hs] using ih s1 (Reachable.step h hs)

theorem step_balance {idx : Nat → Nat} {s s' : St} {i : Nat} {ev : Ev} (hI : Inv idx s)
    (h : step idx s i = some (ev, s')) (k : Nat) :
    evPop k ev + cachedN s.cache k = evRmv k ev + cachedN s'.cache k := by
  obtain ⟨c, a', ch', c', hi, hc, rfl⟩ := step_iff.mp h
  have hL := stepC_sound idx s.arr s.cache c c' ev a' ch' hc (hI.book i c hi) (hI.pc i c hi) (hI.stack i c hi)
  exact (lstep_events hL (hI.pc i c hi)).2.2.2.2.2 k

theorem single_flight_trace' {idx : Nat → Nat} (k : Nat) :
    ∀ (sched : List Nat) (s : St), Inv idx s →
      popCount k (run idx s sched).2 + cachedN s.cache k =
        rmvCount k (run idx s sched).2 + cachedN (run idx s sched).1.cache k := by
  intro sched
  induction sched with
  | nil => intro s _; simp [run, popCount, rmvCount]
  | cons i is ih =>
    intro s hI
    simp only [run]
    cases hs : step idx s i with
    | none => simpa [hs] using ih s hI
    | some r =>
      obtain ⟨ev, s1⟩ := r
      have h1 := ih s1 (inv_step hI hs)
      have h2 := step_balance hI hs k
      simp only [hs, popCount, rmvCount]
      omega

/-- all the step-level facts about one step of a reachable state, in one place -/
theorem step_facts {idx : Nat → Nat} {s s' : St} {i : Nat} {ev : Ev} (hI : Inv idx s)
    (h : step idx s i = some (ev, s')) :
    ∃ c, s.cs[i]? = some c ∧
      (∀ k v, ev = .cget k v → k ∈ c.reads ∧ s.cache k = some v) ∧
      (∀ k v, ev = .enter k v → k ∈ c.reads ∧ s.cache k = some v) ∧
      (∀ k v, ev = .cpop k v → c.pc.writeKey = some k ∧ s.cache k = none ∧ s'.cache = upd s.cache k (some v)) ∧
      (∀ k, ev = .cpopFail k → c.pc.writeKey = some k ∧ s.cache k = none ∧ s'.cache = s.cache) ∧
      (∀ k b, ev = .crmv k b → c.pc.writeKey = some k ∧ b = (s.cache k).isSome ∧ s'.cache = upd s.cache k none) := by
  obtain ⟨c, a', ch', c', hi, hc, rfl⟩ := step_iff.mp h
  have hL := stepC_sound idx s.arr s.cache c c' ev a' ch' hc (hI.book i c hi) (hI.pc i c hi) (hI.stack i c hi)
  have := lstep_events hL (hI.pc i c hi)
  exact ⟨c, hi, this.1, this.2.1, this.2.2.1, this.2.2.2.1, this.2.2.2.2.1⟩

theorem locks_released_core {idx : Nat → Nat} {s : St} (hI : Inv idx s) (ht : s.allTerminal = true) :
    (∀ i, s.arr i = 0) ∧ ∀ (j : Nat) (c : Caller), s.cs[j]? = some c → ∀ k, c.book k = 0 := by
  have hterm : ∀ c ∈ s.cs, c.pc = .idle ∧ c.stack = [] := by
    intro c hc
    simp only [St.allTerminal, List.all_eq_true] at ht
    exact terminal_pc (ht c hc)
  constructor
  · intro i
    have hR : s.R idx i = 0 := by
      apply sumBy_zero; intro c hc
      simp [Caller.rc, Caller.reads, (hterm c hc).1, (hterm c hc).2, Pc.readKey]
    have hW : s.W idx i = 0 := by
      apply sumBy_zero; intro c hc
      simp [Caller.wc, (hterm c hc).1, Pc.writeKey]
    rcases hI.locks i with h | h <;> omega
  · intro j c hj k
    have hb := hI.book j c hj k
    have := hterm c (List.mem_of_getElem? hj)
    simpa [Caller.reads, this.1, this.2, Pc.readKey, Pc.writeKey] using hb

theorem no_stuck_core {idx : Nat → Nat} {s : St} (hI : Inv idx s) {i : Nat} {c : Caller}
    (hi : s.cs[i]? = some c) (hnt : c.terminal = false) : (step idx s i).isSome := by
  have hsome := no_stuckC (idx := idx) (arr := s.arr) (hI.pc i c hi) hnt
  cases hc : stepC idx s.arr s.cache c with
  | none => simp [hc] at hsome
  | some r =>
    obtain ⟨ev, a', ch', c'⟩ := r
    rw [step_iff.mpr ⟨c, a', ch', c', hi, hc, rfl⟩]
    rfl

/-! DiskCacher -/
theorem write_failure_removes' (fs : Fs) (key : Nat) (w : Write)
    (hw : (∃ b, w = .cutAfter b) ∨ w = .failBefore) (habs : fs key = none ∨ fs key = some []) :
    (diskGetSet fs key w).2 = .raised ∧ (diskGetSet fs key w).1 key = none := by
  rcases habs with h | h <;> rcases hw with ⟨b, rfl⟩ | rfl <;> simp [diskGetSet, h, upd]

theorem zero_length_is_absent' (fs : Fs) (key : Nat) (w : Write) (h : fs key = some []) :
    (diskGetSet fs key w).2 = (diskGetSet (upd fs key none) key w).2 ∧
    (diskGetSet fs key w).1 key = (diskGetSet (upd fs key none) key w).1 key := by
  cases w <;> simp [diskGetSet, h, upd]

/-- an entry that is served is either one that was already complete on disk or the complete
output of the writer; nothing is served after a failed write -/
theorem disk_served_complete' (fs : Fs) (key : Nat) (w : Write) (bytes : List Nat)
    (h : (diskGetSet fs key w).2 = .value bytes) :
    (fs key = some bytes ∧ bytes ≠ []) ∨ w = .complete bytes := by
  simp only [diskGetSet] at h
  cases hk : fs key with
  | none => cases w <;> simp_all [upd]
  | some b =>
    cases b with
    | nil => cases w <;> simp_all [upd]
    | cons x t => simp_all; left; rw [← h]; simp

@[simp] theorem instrP_getSet (P : Nat → Nat → Prop) (k : Nat) (g : Getter) : instrP P (.getSet k g) = getterP P k g := by
  cases g <;> rfl
@[simp] theorem getterP_ok (P : Nat → Nat → Prop) (k v : Nat) : getterP P k (.ok v) = P k v := rfl

theorem prov_toUnwind (P : Nat → Nat → Prop) (c : Caller) (h : ∀ seg ∈ c.rest, ∀ ins ∈ seg, instrP P ins) :
    provC P (toUnwind c) := by
  rcases toUnwind_eq c with hu | hu <;> rw [hu] <;> simp [provC] <;> exact h

theorem lstep_prov {P : Nat → Nat → Prop} {idx arr cache c ev a' ch' c'} (h : LStep idx arr cache c ev a' ch' c')
    (hc : provC P c) (hch : ∀ k v, cache k = some v → P k v) :
    provC P c' ∧ (∀ k v, ch' k = some v → P k v) := by
  cases h
  all_goals (refine ⟨?_, ?_⟩)
  all_goals (first
    | exact hch
    | exact prov_toUnwind P _ hc.2.1
    | (simp [provC] at hc ⊢; grind)
    | (simp [provC, upd] at hc ⊢; intro k v; split <;> simp_all)
    | skip)
  · intro hv; subst hv; exact hc.2.2
  · intro k v hkv
    simp only [upd] at hkv
    split at hkv
    · simp at hkv
    · exact hch k v hkv

/-- every value found in the cache, and hence every value a caller receives, is the complete
result of a getter of the programs -/
theorem prov_reachable {P : Nat → Nat → Prop} {idx : Nat → Nat} {progs : List (List (List Instr))} {s : St}
    (hP : ∀ p ∈ progs, ∀ seg ∈ p, ∀ ins ∈ seg, instrP P ins) (h : Reachable idx progs s) :
    (∀ (j : Nat) (c : Caller), s.cs[j]? = some c → provC P c) ∧ (∀ k v, s.cache k = some v → P k v) := by
  induction h with
  | init =>
    constructor
    · intro j c hj
      have := List.mem_of_getElem? hj
      simp [init] at this
      obtain ⟨p, hpm, rfl⟩ := this
      simp [provC, mkCaller, mkCallerT]
      exact hP p hpm
    · intro k v hkv; simp [init] at hkv
  | step hr hs ih =>
    rename_i s0 s1 i ev
    have hI := inv_reachable hr
    obtain ⟨c, a', ch', c', hi, hc, rfl⟩ := step_iff.mp hs
    have hL := stepC_sound idx s0.arr s0.cache c c' ev a' ch' hc (hI.book i c hi) (hI.pc i c hi) (hI.stack i c hi)
    have hp := lstep_prov hL (ih.1 i c hi) ih.2
    refine ⟨?_, hp.2⟩
    intro j d hj
    by_cases hji : j = i
    · subst hji
      have hlen : j < s0.cs.length := by
        rcases Nat.lt_or_ge j s0.cs.length with h | h
        · exact h
        · simp [List.getElem?_eq_none h] at hi
      simp [List.getElem?_set_self hlen] at hj
      subst hj
      exact hp.1
    · simp only [] at hj
      rw [List.getElem?_set_ne (Ne.symm hji)] at hj
      exact ih.1 j d hj

theorem mutual_exclusion' {idx : Nat → Nat} {progs : List (List (List Instr))} {s : St}
    (h : Reachable idx progs s) {i j : Nat} {c d : Caller} {k : Nat}
    (hi : s.cs[i]? = some c) (hj : s.cs[j]? = some d) (hne : j ≠ i) (hw : c.pc.writeKey = some k) :
    (∀ k' ∈ c.reads, idx k' ≠ idx k) ∧ (∀ k' ∈ d.reads, idx k' ≠ idx k) ∧
    (∀ k', d.pc.writeKey = some k' → idx k' ≠ idx k) := by
  have := writer_excl (inv_reachable h).locks hi hw
  exact ⟨this.1, (this.2 j d hne hj).1, (this.2 j d hne hj).2⟩

theorem not_deadlocked_of_step {idx : Nat → Nat} {s : St}
    (h : ∃ i ev s', step idx s i = some (ev, s') ∧ ev ≠ .spin) : s.deadlocked idx = false := by
  obtain ⟨i, ev, s', hs, hne⟩ := h
  have hlt : i < s.cs.length := by
    obtain ⟨c, _, _, _, hi, _, _⟩ := step_iff.mp hs
    rcases Nat.lt_or_ge i s.cs.length with h | h
    · exact h
    · simp [List.getElem?_eq_none h] at hi
  simp only [St.deadlocked, Bool.and_eq_false_iff]
  right
  apply List.all_eq_false.mpr
  refine ⟨i, List.mem_range.mpr hlt, ?_⟩
  simp [hs, hne]

theorem deadlock_free_partial' {idx : Nat → Nat} {progs : List (List (List Instr))} {s : St}
    (hH : ∀ p ∈ progs, Hier idx p = true) (h : Reachable idx progs s) (hnt : s.allTerminal = false) :
    ∃ i ev s', step idx s i = some (ev, s') ∧ ev ≠ .spin :=
  deadlock_free_core (fun _ _ h => h) (inv_reachable h) (hier_reachable hH h) hnt

theorem never_deadlocked' {idx : Nat → Nat} {progs : List (List (List Instr))} {s : St}
    (hH : ∀ p ∈ progs, Hier idx p = true) (h : Reachable idx progs s) : s.deadlocked idx = false := by
  cases ht : s.allTerminal with
  | true => simp [St.deadlocked, ht]
  | false => exact not_deadlocked_of_step (deadlock_free_partial' hH h ht)

def cexIdx : Nat → Nat := fun k => k
def cexProgs : List (List (List Instr)) :=
  [[[.getSet 0 (.ok 1), .rmv 1 false false]], [[.getSet 1 (.ok 2), .rmv 0 false false]]]
def cexSched : List Nat := List.replicate 11 0 ++ List.replicate 11 1 ++ [0, 0, 0, 1, 1, 1]

theorem cross_nesting_counterexample' :
    (∀ p ∈ cexProgs, WellNested cexIdx p = true) ∧
    (run cexIdx (init cexProgs) cexSched).1.deadlocked cexIdx = true := by
  constructor
  · decide
  · decide

def selfProgs : List (List (List Instr)) := [[[.getSet 0 (.ok 1), .getSet 1 (.ok 2)]]]
theorem nested_collision_counterexample' :
    (run (fun _ => 0) (init selfProgs) (List.replicate 18 0)).1.deadlocked (fun _ => 0) = true := by
  decide

theorem single_flight' {idx : Nat → Nat} {progs : List (List (List Instr))} {s s' : St} {i : Nat} {ev : Ev} {k : Nat}
    (h : Reachable idx progs s) (hs : step idx s i = some (ev, s')) (hev : (∃ v, ev = .cpop k v) ∨ ev = .cpopFail k) :
    s.cache k = none := by
  obtain ⟨c, _, _, _, h3, h4, _⟩ := step_facts (inv_reachable h) hs
  rcases hev with ⟨v, rfl⟩ | rfl
  · exact (h3 k v rfl).2.1
  · exact (h4 k rfl).2.1

theorem single_flight_trace_init (idx : Nat → Nat) (progs : List (List (List Instr))) (sched : List Nat) (k : Nat) :
    popCount k (run idx (init progs) sched).2 =
      rmvCount k (run idx (init progs) sched).2 + cachedN (run idx (init progs) sched).1.cache k := by
  have := single_flight_trace' (idx := idx) k sched (init progs) (inv_init idx progs)
  simpa [cachedN, init] using this

theorem complete_values' {idx : Nat → Nat} {progs : List (List (List Instr))} {s s' : St} {i : Nat} {k v : Nat}
    (h : Reachable idx progs s) (hs : step idx s i = some (.enter k v, s')) : s.cache k = some v := by
  obtain ⟨c, _, _, h2, _⟩ := step_facts (inv_reachable h) hs
  exact (h2 k v rfl).2

theorem getter_failure_clean' {idx : Nat → Nat} {progs : List (List (List Instr))} {s s' : St} {i k : Nat}
    (h : Reachable idx progs s) (hs : step idx s i = some (.cpopFail k, s')) :
    s'.cache = s.cache ∧ s'.cache k = none := by
  obtain ⟨c, _, _, _, _, h4, _⟩ := step_facts (inv_reachable h) hs
  have := h4 k rfl
  exact ⟨this.2.2, by rw [this.2.2]; exact this.2.1⟩

theorem lstep_rmvFail {idx arr cache c ev a' ch' c' k} (h : LStep idx arr cache c ev a' ch' c') (he : ev = .crmvFail k) :
    c.pc.writeKey = some k ∧ ch' = cache ∧ a' = arr := by
  cases h <;> simp_all [Pc.writeKey]

theorem rmv_failure_clean' {idx : Nat → Nat} {progs : List (List (List Instr))} {s s' : St} {i k : Nat}
    (h : Reachable idx progs s) (hs : step idx s i = some (.crmvFail k, s')) :
    s'.cache = s.cache ∧ s'.arr = s.arr ∧ ∃ c, s.cs[i]? = some c ∧ c.pc.writeKey = some k := by
  have hI := inv_reachable h
  obtain ⟨c, a', ch', c', hi, hc, rfl⟩ := step_iff.mp hs
  have hL := stepC_sound idx s.arr s.cache c c' _ a' ch' hc (hI.book i c hi) (hI.pc i c hi) (hI.stack i c hi)
  have := lstep_rmvFail hL rfl
  exact ⟨this.2.1, this.2.2, c, hi, this.1⟩

theorem count_le_countP (idx : Nat → Nat) (k : Nat) : ∀ (l : List Nat), l.count k ≤ l.countP (fun k' => idx k' == idx k) := by
  intro l
  induction l with
  | nil => simp
  | cons a t ih =>
    by_cases h : a = k
    · subst h; simp [List.count_cons, List.countP_cons]; exact ih
    · simp only [List.count_cons, List.countP_cons]
      have : (a == k) = false := by simpa using h
      simp [this]; split <;> omega

/-- the array cell is an exact, unbounded count of the simultaneous read holds: with `n` re-entrant
reads of `k` open in one caller (and any number of other readers) the slot is at least `n`, and it
equals the total number of read holds on that index -/
theorem slot_counts_readers' {idx : Nat → Nat} {progs : List (List (List Instr))} {s : St}
    (h : Reachable idx progs s) {j : Nat} {c : Caller} {k : Nat} (hj : s.cs[j]? = some c) (hk : k ∈ c.stack) :
    s.arr (idx k) = (s.R idx (idx k) : Int) ∧ (c.stack.count k : Int) ≤ s.arr (idx k) := by
  have hI := inv_reachable h
  have gR := sumBy_ge (fun c => c.rc idx (idx k)) s.cs j c hj
  have h1 : c.stack.count k ≤ c.rc idx (idx k) := by
    simp only [Caller.rc, Caller.reads, List.countP_append]
    have := count_le_countP idx k c.stack
    omega
  have hpos : 0 < c.stack.count k := List.count_pos_iff.mpr hk
  simp only [St.R] at *
  rcases hI.locks (idx k) with hl | hl
  · simp only [St.R] at hl; constructor <;> omega
  · simp only [St.R] at hl; omega

def nestProgs (n : Nat) : List (List (List Instr)) := [[List.replicate n (.getSet 0 (.ok 1))]]

theorem lstep_tn {idx arr cache c ev a' ch' c'} (h : LStep idx arr cache c ev a' ch' c') : c'.tn = c.tn := by
  cases h
  all_goals (try rcases toUnwind_eq _ with hu | hu <;> rw [hu])
  all_goals rfl

/-- a caller of the repaired code that spins holds nothing -/
theorem spin_repaired {idx arr cache c a' ch' c'} (h : LStep idx arr cache c .spin a' ch' c') (ht : c.tn = true) :
    c.pc.writeKey = none ∧
    ((c.reads = [] ∧ ∃ k, arr (idx k) ≠ 0) ∨ (∃ k g, c.pc = .gsAcqR k g ∧ arr (idx k) < 0)) := by
  cases h <;> simp_all [Pc.writeKey, Pc.readKey, Caller.reads]
  all_goals (first | omega | exact ⟨_, by assumption⟩)

theorem inv_initR (idx : Nat → Nat) (progs : List (List (List Instr))) : Inv idx (initR progs) := by
  have hmem : ∀ (j : Nat) (c : Caller), (initR progs).cs[j]? = some c → ∃ p, c = mkCallerT true p := by
    intro j c hj
    simp only [initR] at hj
    have := List.mem_of_getElem? hj
    simp at this
    obtain ⟨p, _, hp⟩ := this
    exact ⟨p, hp.symm⟩
  have hz : ∀ i, St.R idx (initR progs) i = 0 ∧ St.W idx (initR progs) i = 0 := by
    intro i
    constructor
    · apply sumBy_zero; intro c hc; simp [initR] at hc; obtain ⟨p, _, rfl⟩ := hc
      simp [mkCallerT, Caller.rc, Caller.reads, Pc.readKey]
    · apply sumBy_zero; intro c hc; simp [initR] at hc; obtain ⟨p, _, rfl⟩ := hc
      simp [mkCallerT, Caller.wc, Pc.writeKey]
  refine ⟨?_, ?_, ?_, ?_⟩
  · intro i; have hzi := hz i; refine Or.inl ⟨hzi.2, ?_⟩; rw [hzi.1]; simp [initR]
  · intro j c hj; obtain ⟨p, rfl⟩ := hmem j c hj; intro k; simp [mkCallerT, Caller.reads, Pc.readKey, Pc.writeKey]
  · intro j c hj; obtain ⟨p, rfl⟩ := hmem j c hj; simp [mkCallerT]
  · intro j c hj; obtain ⟨p, rfl⟩ := hmem j c hj; simp [mkCallerT, pcOK]

theorem tn_step {idx : Nat → Nat} {s s' : St} {i : Nat} {ev : Ev} (hI : Inv idx s)
    (hT : ∀ (j : Nat) (c : Caller), s.cs[j]? = some c → c.tn = true)
    (h : step idx s i = some (ev, s')) : ∀ (j : Nat) (c : Caller), s'.cs[j]? = some c → c.tn = true := by
  obtain ⟨c, a', ch', c', hi, hc, rfl⟩ := step_iff.mp h
  have hL := stepC_sound idx s.arr s.cache c c' ev a' ch' hc (hI.book i c hi) (hI.pc i c hi) (hI.stack i c hi)
  intro j d hj
  by_cases hji : j = i
  · subst hji
    have hlen : j < s.cs.length := by
      rcases Nat.lt_or_ge j s.cs.length with h | h
      · exact h
      · simp [List.getElem?_eq_none h] at hi
    simp [List.getElem?_set_self hlen] at hj
    subst hj
    rw [lstep_tn hL]; exact hT j c hi
  · simp only [] at hj
    rw [List.getElem?_set_ne (Ne.symm hji)] at hj
    exact hT j d hj

theorem reachableR_inv {idx : Nat → Nat} {progs : List (List (List Instr))} {s : St}
    (h : ReachableR idx progs s) : Inv idx s ∧ ∀ (j : Nat) (c : Caller), s.cs[j]? = some c → c.tn = true := by
  induction h with
  | init =>
    refine ⟨inv_initR idx progs, ?_⟩
    intro j c hj
    have := List.mem_of_getElem? hj
    simp [initR] at this
    obtain ⟨p, _, rfl⟩ := this
    rfl
  | step _ hs ih => exact ⟨inv_step ih.1 hs, tn_step ih.1 ih.2 hs⟩

/-- the repaired code cannot deadlock, whatever the programs nest -/
theorem deadlock_free_repaired_core {idx : Nat → Nat} {s : St} (hI : Inv idx s)
    (hT : ∀ (j : Nat) (c : Caller), s.cs[j]? = some c → c.tn = true)
    (hnt : s.allTerminal = false) : ∃ i ev s', step idx s i = some (ev, s') ∧ ev ≠ .spin := by
  apply Classical.byContradiction
  intro hno
  have hall : ∀ i ev s', step idx s i = some (ev, s') → ev = .spin := by
    intro i ev s' h
    apply Classical.byContradiction
    intro hne
    exact hno ⟨i, ev, s', h, hne⟩
  have hspin : ∀ (j : Nat) (c : Caller), s.cs[j]? = some c → c.terminal = false →
      c.pc.writeKey = none ∧
      ((c.reads = [] ∧ ∃ k, s.arr (idx k) ≠ 0) ∨ (∃ k g, c.pc = .gsAcqR k g ∧ s.arr (idx k) < 0)) := by
    intro j c hj hnt
    have hsome := no_stuckC (idx := idx) (arr := s.arr) (hI.pc j c hj) hnt
    cases hc : stepC idx s.arr s.cache c with
    | none => simp [hc] at hsome
    | some r =>
      obtain ⟨ev, a', ch', c'⟩ := r
      have hst : step idx s j = some (ev, { arr := a', cache := ch', cs := s.cs.set j c' }) :=
        step_iff.mpr ⟨c, a', ch', c', hj, hc, rfl⟩
      have hev := hall _ _ _ hst
      subst hev
      exact spin_repaired (stepC_sound idx s.arr s.cache c c' _ a' ch' hc (hI.book j c hj) (hI.pc j c hj) (hI.stack j c hj)) (hT j c hj)
  have hnow : ∀ (j : Nat) (c : Caller), s.cs[j]? = some c → c.pc.writeKey = none := by
    intro j c hj
    cases ht : c.terminal with
    | true => rw [(terminal_pc ht).1]; rfl
    | false => exact (hspin j c hj ht).1
  have hW0 : ∀ i, s.W idx i = 0 := by
    intro i
    apply sumBy_zero
    intro c hc
    obtain ⟨j, hj⟩ := List.getElem?_of_mem hc
    simp [Caller.wc, hnow j c hj]
  have harr : ∀ i, s.arr i = (s.R idx i : Int) := by
    intro i
    rcases hI.locks i with h | h
    · exact h.2
    · have := hW0 i; omega
  have hreads : ∀ (j : Nat) (c : Caller), s.cs[j]? = some c → c.reads = [] := by
    intro j c hj
    cases ht : c.terminal with
    | true => have := terminal_pc ht; simp [Caller.reads, this.1, this.2, Pc.readKey]
    | false =>
      rcases (hspin j c hj ht).2 with h | ⟨k, g, _, hlt⟩
      · exact h.1
      · have := harr (idx k); omega
  have hR0 : ∀ i, s.R idx i = 0 := by
    intro i
    apply sumBy_zero
    intro c hc
    obtain ⟨j, hj⟩ := List.getElem?_of_mem hc
    simp [Caller.rc, hreads j c hj]
  -- some caller is not terminal; its guard is then true
  have hex : ∃ c ∈ s.cs, c.terminal = false := by
    simp only [St.allTerminal] at hnt
    obtain ⟨c, hc, hct⟩ := List.all_eq_false.mp hnt
    exact ⟨c, hc, by simpa using hct⟩
  obtain ⟨c, hc, hct⟩ := hex
  obtain ⟨j, hj⟩ := List.getElem?_of_mem hc
  rcases (hspin j c hj hct).2 with ⟨_, k, hk⟩ | ⟨k, g, _, hlt⟩
  · have := harr (idx k); have := hR0 (idx k); omega
  · have := harr (idx k); omega

theorem deadlock_free_repaired' {idx : Nat → Nat} {progs : List (List (List Instr))} {s : St}
    (h : ReachableR idx progs s) (hnt : s.allTerminal = false) :
    ∃ i ev s', step idx s i = some (ev, s') ∧ ev ≠ .spin :=
  deadlock_free_repaired_core (reachableR_inv h).1 (reachableR_inv h).2 hnt

theorem step_length {idx : Nat → Nat} {s s' : St} {i : Nat} {ev : Ev} (h : step idx s i = some (ev, s')) :
    s'.cs.length = s.cs.length := by
  obtain ⟨c, a', ch', c', _, _, rfl⟩ := step_iff.mp h
  simp

theorem runN_succ_some {idx : Nat → Nat} {s : St} {σ : Nat → Nat} {t : Nat} {ev : Ev} {s' : St}
    (h : step idx (runN idx s σ t) (σ t) = some (ev, s')) : runN idx s σ (t + 1) = s' := by
  simp [runN, h]

theorem fair_termination_core {idx : Nat → Nat} (G : St → Prop)
    (hstep : ∀ s i ev s', G s → step idx s i = some (ev, s') → G s')
    (hinv : ∀ s, G s → Inv idx s)
    (hdf : ∀ s, G s → s.allTerminal = false → ∃ i ev s', step idx s i = some (ev, s') ∧ ev ≠ .spin)
    (s0 : St) (h0 : G s0) (σ : Nat → Nat) (hfair : FairSched s0.cs.length σ) :
    ∃ n, (runN idx s0 σ n).allTerminal = true := by
  have hG : ∀ t, G (runN idx s0 σ t) := by
    intro t
    induction t with
    | zero => exact h0
    | succ t ih =>
      simp only [runN]
      cases hs : step idx (runN idx s0 σ t) (σ t) with
      | none => simpa [hs] using ih
      | some r => obtain ⟨ev, s'⟩ := r; simpa [hs] using hstep _ _ _ _ ih hs
  have hlen : ∀ t, (runN idx s0 σ t).cs.length = s0.cs.length := by
    intro t
    induction t with
    | zero => rfl
    | succ t ih =>
      simp only [runN]
      cases hs : step idx (runN idx s0 σ t) (σ t) with
      | none => simpa [hs] using ih
      | some r => obtain ⟨ev, s'⟩ := r; simp only [hs]; rw [step_length hs]; exact ih
  -- one tick: nothing changes, or the variant decreases
  have hA : ∀ t, runN idx s0 σ (t + 1) = runN idx s0 σ t ∨
      (runN idx s0 σ (t + 1)).measure < (runN idx s0 σ t).measure := by
    intro t
    cases hs : step idx (runN idx s0 σ t) (σ t) with
    | none => left; simp [runN, hs]
    | some r =>
      obtain ⟨ev, s'⟩ := r
      have hp := progress_core (hinv _ (hG t)) hs
      rw [runN_succ_some hs]
      by_cases he : ev = .spin
      · left; exact hp.2 he
      · right; exact hp.1 he
  -- an enabled non-spin step of caller i is taken at the latest when i gets its next turn
  have hC : ∀ d t i ev s', step idx (runN idx s0 σ t) i = some (ev, s') → ev ≠ .spin → σ (t + d) = i →
      ∃ t'', (runN idx s0 σ t'').measure < (runN idx s0 σ t).measure := by
    intro d
    induction d with
    | zero =>
      intro t i ev s' hs hne hσ
      simp only [Nat.add_zero] at hσ
      subst hσ
      exact ⟨t + 1, by rw [runN_succ_some hs]; exact (progress_core (hinv _ (hG t)) hs).1 hne⟩
    | succ d ih =>
      intro t i ev s' hs hne hσ
      rcases hA t with heq | hlt
      · have hσ' : σ (t + 1 + d) = i := by rw [← hσ]; congr 1; omega
        obtain ⟨t'', ht''⟩ := ih (t + 1) i ev s' (by rw [heq]; exact hs) hne hσ'
        exact ⟨t'', by rw [heq] at ht''; exact ht''⟩
      · exact ⟨t + 1, hlt⟩
  have hmain : ∀ m t, (runN idx s0 σ t).measure ≤ m → ∃ n, (runN idx s0 σ n).allTerminal = true := by
    intro m
    induction m with
    | zero =>
      intro t hm
      cases hT : (runN idx s0 σ t).allTerminal with
      | true => exact ⟨t, hT⟩
      | false =>
        obtain ⟨i, ev, s', hs, hne⟩ := hdf _ (hG t) hT
        have hi : i < s0.cs.length := by
          rw [← hlen t]
          obtain ⟨c, _, _, _, hc, _, _⟩ := step_iff.mp hs
          rcases Nat.lt_or_ge i (runN idx s0 σ t).cs.length with h | h
          · exact h
          · simp [List.getElem?_eq_none h] at hc
        obtain ⟨t', ht', hσ⟩ := hfair i hi t
        obtain ⟨t'', hlt⟩ := hC (t' - t) t i ev s' hs hne (by rw [← hσ]; congr 1; omega)
        omega
    | succ m ih =>
      intro t hm
      cases hT : (runN idx s0 σ t).allTerminal with
      | true => exact ⟨t, hT⟩
      | false =>
        obtain ⟨i, ev, s', hs, hne⟩ := hdf _ (hG t) hT
        have hi : i < s0.cs.length := by
          rw [← hlen t]
          obtain ⟨c, _, _, _, hc, _, _⟩ := step_iff.mp hs
          rcases Nat.lt_or_ge i (runN idx s0 σ t).cs.length with h | h
          · exact h
          · simp [List.getElem?_eq_none h] at hc
        obtain ⟨t', ht', hσ⟩ := hfair i hi t
        obtain ⟨t'', hlt⟩ := hC (t' - t) t i ev s' hs hne (by rw [← hσ]; congr 1; omega)
        exact ih t'' (by omega)
  exact hmain _ 0 (Nat.le_refl _)

/-- a terminal state stays as it is: no caller has a step -/
theorem terminal_no_step {idx : Nat → Nat} {s : St} (ht : s.allTerminal = true) (i : Nat) : step idx s i = none := by
  cases hs : step idx s i with
  | none => rfl
  | some r =>
    obtain ⟨ev, s'⟩ := r
    obtain ⟨c, a', ch', c', hi, hc, _⟩ := step_iff.mp hs
    simp only [St.allTerminal, List.all_eq_true] at ht
    have hct := ht c (List.mem_of_getElem? hi)
    rcases c with ⟨pc, cur, rest, stack, book, tn⟩
    cases pc <;> simp_all [Caller.terminal, stepC]

theorem runN_terminal_stable {idx : Nat → Nat} {s0 : St} {σ : Nat → Nat} {n : Nat}
    (ht : (runN idx s0 σ n).allTerminal = true) : ∀ d, runN idx s0 σ (n + d) = runN idx s0 σ n := by
  intro d
  induction d with
  | zero => rfl
  | succ d ih =>
    show runN idx s0 σ (n + d + 1) = _
    simp only [runN]
    rw [ih, terminal_no_step ht]

theorem fair_termination' {idx : Nat → Nat} {progs : List (List (List Instr))} (hH : ∀ p ∈ progs, Hier idx p = true)
    (σ : Nat → Nat) (hfair : FairSched progs.length σ) :
    ∃ n, ∀ m, n ≤ m → (runN idx (init progs) σ m).allTerminal = true := by
  obtain ⟨n, hn⟩ := fair_termination_core (Reachable idx progs) (fun s i ev s' h hs => Reachable.step h hs)
    (fun s h => inv_reachable h) (fun s h hnt => deadlock_free_partial' hH h hnt) (init progs) Reachable.init σ
    (by simpa [init] using hfair)
  refine ⟨n, fun m hm => ?_⟩
  have := runN_terminal_stable hn (m - n)
  rw [show n + (m - n) = m by omega] at this
  rw [this]; exact hn

theorem fair_termination_repaired' {idx : Nat → Nat} {progs : List (List (List Instr))}
    (σ : Nat → Nat) (hfair : FairSched progs.length σ) :
    ∃ n, ∀ m, n ≤ m → (runN idx (initR progs) σ m).allTerminal = true := by
  obtain ⟨n, hn⟩ := fair_termination_core (ReachableR idx progs) (fun s i ev s' h hs => ReachableR.step h hs)
    (fun s h => (reachableR_inv h).1) (fun s h hnt => deadlock_free_repaired' h hnt) (initR progs) ReachableR.init σ
    (by simpa [initR] using hfair)
  refine ⟨n, fun m hm => ?_⟩
  have := runN_terminal_stable hn (m - n)
  rw [show n + (m - n) = m by omega] at this
  rw [this]; exact hn

/-- pigeonhole: n+1 values below n contain a repetition -/
theorem pigeonhole : ∀ (n : Nat) (f : Nat → Nat), (∀ t, t ≤ n → f t < n) → ∃ a b, a < b ∧ b ≤ n ∧ f a = f b := by
  intro n
  induction n with
  | zero => intro f h; have := h 0 (Nat.le_refl 0); omega
  | succ n ih =>
    intro f h
    by_cases h2 : ∃ a b, a < b ∧ b ≤ n + 1 ∧ f a = n ∧ f b = n
    · obtain ⟨a, b, hab, hb, ha1, hb1⟩ := h2
      exact ⟨a, b, hab, hb, by omega⟩
    · by_cases h1 : ∃ p, p ≤ n + 1 ∧ f p = n
      · obtain ⟨p, hp, hfp⟩ := h1
        have hother : ∀ t, t ≤ n + 1 → t ≠ p → f t ≠ n := by
          intro t ht htp hft
          rcases Nat.lt_or_gt_of_ne htp with hlt | hgt
          · exact h2 ⟨t, p, hlt, hp, hft, hfp⟩
          · exact h2 ⟨p, t, hgt, ht, hfp, hft⟩
        let g : Nat → Nat := fun t => if t < p then f t else f (t + 1)
        have hg : ∀ t, t ≤ n → g t < n := by
          intro t ht
          simp only [g]
          split
          · have := h t (by omega); have := hother t (by omega) (by omega); omega
          · have := h (t + 1) (by omega); have := hother (t + 1) (by omega) (by omega); omega
        obtain ⟨a, b, hab, hb, hgab⟩ := ih g hg
        simp only [g] at hgab
        by_cases ha : a < p <;> by_cases hbp : b < p <;> simp only [ha, hbp, if_true, if_false] at hgab
        · exact ⟨a, b, hab, by omega, hgab⟩
        · exact ⟨a, b + 1, by omega, by omega, hgab⟩
        · omega
        · exact ⟨a + 1, b + 1, by omega, by omega, hgab⟩
      · have hno : ∀ t, t ≤ n + 1 → f t ≠ n := fun t ht hft => h1 ⟨t, ht, hft⟩
        obtain ⟨a, b, hab, hb, hfab⟩ := ih f (fun t ht => by have := h t (by omega); have := hno t (by omega); omega)
        exact ⟨a, b, hab, by omega, hfab⟩

theorem WaitPath.snoc {idx : Nat → Nat} {s : St} {i j k : Nat} (h : WaitPath idx s i j) (e : waitsFor idx s j k = true) :
    WaitPath idx s i k := by
  induction h with
  | one h1 => exact .cons h1 (.one e)
  | cons h1 _ ih => exact .cons h1 (ih e)

/-- in a finite graph in which every node of a non-empty set `P` has a successor in `P` there is a cycle -/
theorem cycle_of_successors {idx : Nat → Nat} {s : St} (P : Nat → Prop) (hlt : ∀ i, P i → i < s.cs.length)
    (hnext : ∀ i, P i → ∃ j, P j ∧ waitsFor idx s i j = true) (i0 : Nat) (h0 : P i0) :
    ∃ i, P i ∧ WaitPath idx s i i := by
  let w : Nat → { i // P i } := fun t => Nat.rec ⟨i0, h0⟩ (fun _ x => ⟨Classical.choose (hnext x.1 x.2), (Classical.choose_spec (hnext x.1 x.2)).1⟩) t
  have hw : ∀ t, waitsFor idx s (w t).1 (w (t + 1)).1 = true := fun t => (Classical.choose_spec (hnext (w t).1 (w t).2)).2
  have hpath : ∀ d a, WaitPath idx s (w a).1 (w (a + d + 1)).1 := by
    intro d
    induction d with
    | zero => intro a; exact .one (hw a)
    | succ d ih => intro a; exact (ih a).snoc (hw (a + d + 1))
  obtain ⟨a, b, hab, _, heq⟩ := pigeonhole s.cs.length (fun t => (w t).1) (fun t _ => hlt _ (w t).2)
  refine ⟨(w a).1, (w a).2, ?_⟩
  have := hpath (b - a - 1) a
  rw [show a + (b - a - 1) + 1 = b by omega] at this
  have heq : (w a).1 = (w b).1 := heq
  rw [← heq] at this
  exact this

theorem deadlocked_iff {idx : Nat → Nat} {s : St} :
    s.deadlocked idx = true ↔ s.allTerminal = false ∧ ∀ i ev s', step idx s i = some (ev, s') → ev = .spin := by
  simp only [St.deadlocked, Bool.and_eq_true, Bool.not_eq_true', List.all_eq_true, List.mem_range]
  constructor
  · rintro ⟨h1, h2⟩
    refine ⟨h1, ?_⟩
    intro i ev s' hs
    have hlt : i < s.cs.length := by
      obtain ⟨c, _, _, _, hi, _, _⟩ := step_iff.mp hs
      rcases Nat.lt_or_ge i s.cs.length with h | h
      · exact h
      · simp [List.getElem?_eq_none h] at hi
    have := h2 i hlt
    simpa [hs] using this
  · rintro ⟨h1, h2⟩
    refine ⟨h1, ?_⟩
    intro i _
    cases hs : step idx s i with
    | none => rfl
    | some r => obtain ⟨ev, s'⟩ := r; simp [h2 i ev s' hs]

/-- what a state without an enabled non-spin step looks like: nobody writes, the array counts the
readers, and every caller that has not finished sits at a false lock guard -/
theorem stuck_analysis {idx : Nat → Nat} {s : St} (hI : Inv idx s)
    (hall : ∀ i ev s', step idx s i = some (ev, s') → ev = .spin) :
    (∀ i, s.arr i = (s.R idx i : Int)) ∧
    ∀ (j : Nat) (c : Caller), s.cs[j]? = some c → c.terminal = false →
      ∃ k, c.pc.wantW = some k ∧ s.arr (idx k) ≠ 0 := by
  have hspin : ∀ (j : Nat) (c : Caller), s.cs[j]? = some c → c.terminal = false →
      ((∃ k g, c.pc = .gsAcqR k g ∧ s.arr (idx k) < 0) ∨ (∃ k g, c.pc = .gsAcqW k g ∧ s.arr (idx k) ≠ 0) ∨
       (∃ k f, c.pc = .rmAcqW k f ∧ s.arr (idx k) ≠ 0)) := by
    intro j c hj hnt
    have hsome := no_stuckC (idx := idx) (arr := s.arr) (hI.pc j c hj) hnt
    cases hc : stepC idx s.arr s.cache c with
    | none => simp [hc] at hsome
    | some r =>
      obtain ⟨ev, a', ch', c'⟩ := r
      have hst : step idx s j = some (ev, { arr := a', cache := ch', cs := s.cs.set j c' }) :=
        step_iff.mpr ⟨c, a', ch', c', hj, hc, rfl⟩
      have hev := hall _ _ _ hst
      subst hev
      exact (spin_pc (stepC_sound idx s.arr s.cache c c' _ a' ch' hc (hI.book j c hj) (hI.pc j c hj) (hI.stack j c hj))).2.2.2
  have hnow : ∀ (j : Nat) (c : Caller), s.cs[j]? = some c → c.pc.writeKey = none := by
    intro j c hj
    cases ht : c.terminal with
    | true => rw [(terminal_pc ht).1]; rfl
    | false =>
      rcases hspin j c hj ht with ⟨k, g, hp, _⟩ | ⟨k, g, hp, _⟩ | ⟨k, f, hp, _⟩ <;> rw [hp] <;> rfl
  have hW0 : ∀ i, s.W idx i = 0 := by
    intro i
    apply sumBy_zero
    intro c hc
    obtain ⟨j, hj⟩ := List.getElem?_of_mem hc
    simp [Caller.wc, hnow j c hj]
  have harr : ∀ i, s.arr i = (s.R idx i : Int) := by
    intro i
    rcases hI.locks i with h | h
    · exact h.2
    · have := hW0 i; omega
  refine ⟨harr, ?_⟩
  intro j c hj hct
  rcases hspin j c hj hct with ⟨k, g, hp, hlt⟩ | ⟨k, g, hp, hne⟩ | ⟨k, f, hp, hne⟩
  · have := harr (idx k); omega
  · exact ⟨k, by simp [hp, Pc.wantW], hne⟩
  · exact ⟨k, by simp [hp, Pc.wantW], hne⟩

/-- in such a state every unfinished caller waits for another unfinished caller -/
theorem stuck_wait {idx : Nat → Nat} {s : St} (hI : Inv idx s)
    (hall : ∀ i ev s', step idx s i = some (ev, s') → ev = .spin)
    {j : Nat} {c : Caller} (hj : s.cs[j]? = some c) (hct : c.terminal = false) :
    ∃ j', (∃ d, s.cs[j']? = some d ∧ d.terminal = false) ∧ waitsFor idx s j j' = true := by
  obtain ⟨harr, hw⟩ := stuck_analysis hI hall
  obtain ⟨k, hwk, hne⟩ := hw j c hj hct
  have hRpos : 0 < s.R idx (idx k) := by have := harr (idx k); omega
  obtain ⟨d, hd, hdpos⟩ := sumBy_pos _ _ hRpos
  obtain ⟨jd, hjd⟩ := List.getElem?_of_mem hd
  have hdt : d.terminal = false := by
    cases ht : d.terminal with
    | false => rfl
    | true =>
      have := terminal_pc ht
      simp [Caller.rc, Caller.reads, this.1, this.2, Pc.readKey] at hdpos
  refine ⟨jd, ⟨d, hjd, hdt⟩, ?_⟩
  simp only [waitsFor, hj, hjd, hwk]
  simp [hdpos]

/-- a deadlock is a cycle of callers each waiting for a lock the next one holds -/
theorem deadlock_has_cycle_core {idx : Nat → Nat} {s : St} (hI : Inv idx s) (hd : s.deadlocked idx = true) :
    ∃ i, WaitPath idx s i i := by
  obtain ⟨hnt, hall⟩ := deadlocked_iff.mp hd
  have hex : ∃ c ∈ s.cs, c.terminal = false := by
    simp only [St.allTerminal] at hnt
    obtain ⟨c, hc, hct⟩ := List.all_eq_false.mp hnt
    exact ⟨c, hc, by simpa using hct⟩
  obtain ⟨c, hc, hct⟩ := hex
  obtain ⟨j, hj⟩ := List.getElem?_of_mem hc
  let P : Nat → Prop := fun i => ∃ d, s.cs[i]? = some d ∧ d.terminal = false
  have hlt : ∀ i, P i → i < s.cs.length := by
    rintro i ⟨d, hi, _⟩
    rcases Nat.lt_or_ge i s.cs.length with h | h
    · exact h
    · simp [List.getElem?_eq_none h] at hi
  have hnext : ∀ i, P i → ∃ j, P j ∧ waitsFor idx s i j = true := by
    rintro i ⟨d, hi, hdt⟩
    exact stuck_wait hI hall hi hdt
  obtain ⟨i, _, hp⟩ := cycle_of_successors P hlt hnext j ⟨c, hj, hct⟩
  exact ⟨i, hp⟩

/-- conversely a caller with an outgoing wait-for edge cannot take an effective step: its lock
guard is false (it spins; the repaired code refuses a nested request instead) -/
theorem waiter_blocked_core {idx : Nat → Nat} {s : St} (hI : Inv idx s) {i j : Nat} (hw : waitsFor idx s i j = true)
    {ev : Ev} {s' : St} (hs : step idx s i = some (ev, s')) : ev = .spin ∨ ∃ k, ev = .refuse k := by
  obtain ⟨c, a', ch', c', hi, hc, rfl⟩ := step_iff.mp hs
  have hL := stepC_sound idx s.arr s.cache c c' ev a' ch' hc (hI.book i c hi) (hI.pc i c hi) (hI.stack i c hi)
  cases hjd : s.cs[j]? with
  | none => simp [waitsFor, hi, hjd] at hw
  | some d =>
    have gR : ∀ x, d.rc idx x ≤ s.R idx x := fun x => sumBy_ge (fun c => c.rc idx x) s.cs j d hjd
    have gW : ∀ x, d.wc idx x ≤ s.W idx x := fun x => sumBy_ge (fun c => c.wc idx x) s.cs j d hjd
    simp only [waitsFor, hi, hjd, Bool.or_eq_true] at hw
    rcases hw with hw | hw
    · cases hk : c.pc.wantW with
      | none => simp [hk] at hw
      | some k =>
        simp only [hk, Bool.or_eq_true, decide_eq_true_eq] at hw
        have hne : s.arr (idx k) ≠ 0 := by
          have := gR (idx k); have := gW (idx k)
          rcases hI.locks (idx k) with h | h <;> omega
        cases hL <;> simp_all [Pc.wantW]
    · cases hk : c.pc.wantR with
      | none => simp [hk] at hw
      | some k =>
        simp only [hk, decide_eq_true_eq] at hw
        have hlt : s.arr (idx k) < 0 := by
          have := gW (idx k)
          rcases hI.locks (idx k) with h | h <;> omega
        cases hL <;> simp_all [Pc.wantR]
        all_goals omega

theorem tn_step_false {idx : Nat → Nat} {s s' : St} {i : Nat} {ev : Ev} (hI : Inv idx s)
    (hT : ∀ (j : Nat) (c : Caller), s.cs[j]? = some c → c.tn = false)
    (h : step idx s i = some (ev, s')) : ∀ (j : Nat) (c : Caller), s'.cs[j]? = some c → c.tn = false := by
  obtain ⟨c, a', ch', c', hi, hc, rfl⟩ := step_iff.mp h
  have hL := stepC_sound idx s.arr s.cache c c' ev a' ch' hc (hI.book i c hi) (hI.pc i c hi) (hI.stack i c hi)
  intro j d hj
  by_cases hji : j = i
  · subst hji
    have hlen : j < s.cs.length := by
      rcases Nat.lt_or_ge j s.cs.length with h | h
      · exact h
      · simp [List.getElem?_eq_none h] at hi
    simp [List.getElem?_set_self hlen] at hj
    subst hj
    rw [lstep_tn hL]; exact hT j c hi
  · simp only [] at hj
    rw [List.getElem?_set_ne (Ne.symm hji)] at hj
    exact hT j d hj

theorem reachable_tn_false {idx : Nat → Nat} {progs : List (List (List Instr))} {s : St}
    (h : Reachable idx progs s) : ∀ (j : Nat) (c : Caller), s.cs[j]? = some c → c.tn = false := by
  induction h with
  | init =>
    intro j c hj
    have := List.mem_of_getElem? hj
    simp [init] at this
    obtain ⟨p, _, rfl⟩ := this
    rfl
  | step hr hs ih => exact tn_step_false (inv_reachable hr) ih hs

theorem refuse_needs_switch {idx arr cache c a' ch' c' k} (h : LStep idx arr cache c (.refuse k) a' ch' c') : c.tn = true := by
  cases h <;> rfl

theorem waiter_blocked' {idx : Nat → Nat} {progs : List (List (List Instr))} {s s' : St} {i j : Nat} {ev : Ev}
    (h : Reachable idx progs s) (hw : waitsFor idx s i j = true) (hs : step idx s i = some (ev, s')) : ev = .spin := by
  have hI := inv_reachable h
  rcases waiter_blocked_core hI hw hs with h1 | ⟨k, rfl⟩
  · exact h1
  · obtain ⟨c, a', ch', c', hi, hc, _⟩ := step_iff.mp hs
    have hL := stepC_sound idx s.arr s.cache c c' _ a' ch' hc (hI.book i c hi) (hI.pc i c hi) (hI.stack i c hi)
    have := refuse_needs_switch hL
    rw [reachable_tn_false h i c hi] at this
    cases this

theorem deadlock_has_cycle' {idx : Nat → Nat} {progs : List (List (List Instr))} {s : St}
    (h : Reachable idx progs s) (hd : s.deadlocked idx = true) : ∃ i, WaitPath idx s i i :=
  deadlock_has_cycle_core (inv_reachable h) hd

theorem terminal_stepC_none {idx arr cache} {c : Caller} (ht : c.terminal = true) : stepC idx arr cache c = none := by
  rcases c with ⟨pc, cur, rest, stack, book, tn⟩
  cases pc <;> simp_all [Caller.terminal, stepC]

/-- a reachable state is deadlocked exactly when somebody is unfinished and every unfinished caller
has an outgoing wait-for edge (to an unfinished caller) -/
theorem deadlock_iff_all_wait' {idx : Nat → Nat} {progs : List (List (List Instr))} {s : St}
    (h : Reachable idx progs s) :
    s.deadlocked idx = true ↔
      s.allTerminal = false ∧ ∀ (i : Nat) (c : Caller), s.cs[i]? = some c → c.terminal = false →
        ∃ j, waitsFor idx s i j = true := by
  have hI := inv_reachable h
  constructor
  · intro hd
    obtain ⟨hnt, hall⟩ := deadlocked_iff.mp hd
    refine ⟨hnt, fun i c hi hct => ?_⟩
    obtain ⟨j, _, hw⟩ := stuck_wait hI hall hi hct
    exact ⟨j, hw⟩
  · rintro ⟨hnt, hw⟩
    refine deadlocked_iff.mpr ⟨hnt, ?_⟩
    intro i ev s' hs
    obtain ⟨c, a', ch', c', hi, hc, _⟩ := step_iff.mp hs
    cases hct : c.terminal with
    | true => rw [terminal_stepC_none hct] at hc; cases hc
    | false =>
      obtain ⟨j, hwj⟩ := hw i c hi hct
      exact waiter_blocked' h hwj hs

theorem locks_released_repaired' {idx : Nat → Nat} {progs : List (List (List Instr))} {s : St}
    (h : ReachableR idx progs s) (ht : s.allTerminal = true) :
    (∀ i, s.arr i = 0) ∧ ∀ (j : Nat) (c : Caller), s.cs[j]? = some c → ∀ k, c.book k = 0 :=
  locks_released_core (reachableR_inv h).1 ht

theorem f1_is_two_cycle' :
    waitsFor cexIdx (run cexIdx (init cexProgs) cexSched).1 0 1 = true ∧
    waitsFor cexIdx (run cexIdx (init cexProgs) cexSched).1 1 0 = true := by decide

/-- the same programs and schedule on the repaired code: caller 0's nested rmv is refused, nobody is left waiting -/
theorem f1_repaired' :
    (run cexIdx (initR cexProgs) cexSched).1.deadlocked cexIdx = false ∧
    (run cexIdx (initR cexProgs) (cexSched ++ List.replicate 4 0 ++ List.replicate 12 1)).1.allTerminal = true := by decide

/-- while a writer is between creating and closing the entry's file, the entry does not count as
cached, no other caller has it open (neither in an operation nor in a with-body), no other caller
writes or removes a key of that slot, and no step of another caller opens it -/
theorem disk_no_partial_read' {idx : Nat → Nat} {progs : List (List (List Instr))} {s : St}
    (h : Reachable idx progs s) {i j : Nat} {c d : Caller} {k : Nat} {g : Getter}
    (hi : s.cs[i]? = some c) (hpc : c.pc = .gsPopW k g) (hj : s.cs[j]? = some d) (hne : j ≠ i) :
    s.cache k = none ∧ k ∉ d.reads ∧ d.pc.writeKey ≠ some k ∧
    ∀ ev s', step idx s j = some (ev, s') → ∀ v, ev ≠ .cget k v ∧ ev ≠ .enter k v := by
  have hI := inv_reachable h
  have hw : c.pc.writeKey = some k := by rw [hpc]; rfl
  have hx := mutual_exclusion' h hi hj hne hw
  have hc : s.cache k = none := by
    have := hI.pc i c hi
    simpa [pcOK, hpc] using this
  refine ⟨hc, fun hm => hx.2.1 k hm rfl, fun hm => hx.2.2 k hm rfl, ?_⟩
  intro ev s' hs v
  obtain ⟨d', hd', h1, h2, _⟩ := step_facts hI hs
  rw [hj] at hd'; cases hd'
  exact ⟨fun he => hx.2.1 k (h1 k v he).1 rfl, fun he => hx.2.1 k (h2 k v he).1 rfl⟩

theorem conc_disk_eq' (fs : Fs) (key : Nat) (w : Write) (h : fs key ≠ some []) :
    concDiskGetSet fs key w = diskGetSet fs key w := by
  simp only [concDiskGetSet]
  cases hk : fs key with
  | none => rfl
  | some b =>
    cases b with
    | nil => exact absurd hk h
    | cons x t => simp [diskGetSet, hk]

theorem conc_zero_length_counterexample' (fs : Fs) (key : Nat) (w : Write) (h : fs key = some []) :
    (concDiskGetSet fs key w).2 = .raised ∧ (concDiskGetSet fs key w).1 key = none := by
  simp [concDiskGetSet, diskGetSet, h, upd]

theorem semaphore_balanced' (hasSem cached1 cached2 : Bool) :
    (openmlSem hasSem cached1 cached2).acquires = (openmlSem hasSem cached1 cached2).releases ∧
    (openmlSem hasSem cached1 cached2).acquires ≤ 1 := by
  cases hasSem <;> cases cached1 <;> cases cached2 <;> decide

theorem partialWriter_iff {s : St} {k : Nat} :
    partialWriter s k = true ↔ ∃ (i : Nat) (c : Caller) (g : Getter), s.cs[i]? = some c ∧ c.pc = .gsPopW k g := by
  simp only [partialWriter, List.any_eq_true]
  constructor
  · rintro ⟨c, hc, h⟩
    obtain ⟨i, hi⟩ := List.getElem?_of_mem hc
    cases hpc : c.pc <;> simp [hpc] at h
    subst h
    exact ⟨i, c, _, hi, hpc⟩
  · rintro ⟨i, c, g, hi, hpc⟩
    exact ⟨c, List.mem_of_getElem? hi, by simp [hpc]⟩

/-- no partial entry is ever exposed: whenever a caller opens an entry (`cget`) or receives it
(`enter`), nobody is between creating and closing that entry's file, and the value is the complete
cached one -/
theorem no_partial_exposed' {idx : Nat → Nat} {progs : List (List (List Instr))} {s s' : St} {j : Nat} {ev : Ev} {k v : Nat}
    (h : Reachable idx progs s) (hs : step idx s j = some (ev, s')) (hev : ev = .cget k v ∨ ev = .enter k v) :
    partialWriter s k = false ∧ s.cache k = some v := by
  have hI := inv_reachable h
  obtain ⟨c, hj, h1, h2, _⟩ := step_facts hI hs
  have hk : k ∈ c.reads ∧ s.cache k = some v := by
    rcases hev with rfl | rfl
    · exact h1 k v rfl
    · exact h2 k v rfl
  refine ⟨?_, hk.2⟩
  cases hp : partialWriter s k with
  | false => rfl
  | true =>
    obtain ⟨i, ci, g, hi, hpc⟩ := partialWriter_iff.mp hp
    have hw : ci.pc.writeKey = some k := by rw [hpc]; rfl
    by_cases hij : j = i
    · subst hij
      rw [hj] at hi; cases hi
      exact absurd rfl ((writer_excl hI.locks hj hw).1 k hk.1)
    · exact absurd rfl ((mutual_exclusion' h hi hj hij hw).2.1 k hk.1)

def seenProgs : List (List (List Instr)) := [[[.getSet 0 (.ok 1)]], [[.rmv 0 false true]]]
def seenSched : List Nat := List.replicate 8 0 ++ [1, 1, 1]

/-- the interleaving in which the unlocked `in` of rmv sees a half-written file: caller 0 has created
the file of key 0 and not yet closed it when caller 1's membership test answers True; caller 1 then
waits for the write lock, caller 0 finishes, caller 1 removes the complete entry; nothing is exposed -/
theorem partial_file_seen_by_rmv' :
    partialWriter (run id (init seenProgs) (List.replicate 8 0 ++ [1, 1])).1 0 = true ∧
    (run id (init seenProgs) (List.replicate 8 0 ++ [1, 1])).1.cache 0 = none ∧
    (run id (init seenProgs) seenSched).2.getLast? = some (1, .contains 0 true) ∧
    (run id (init seenProgs) (seenSched ++ [1] ++ List.replicate 5 0 ++ List.replicate 3 1)).1.allTerminal = true ∧
    (run id (init seenProgs) (seenSched ++ [1] ++ List.replicate 5 0 ++ List.replicate 3 1)).1.cache 0 = none ∧
    (run id (init seenProgs) (seenSched ++ [1] ++ List.replicate 5 0 ++ List.replicate 3 1)).1.arr 0 = 0 := by decide

/-- deadlock freedom from an acyclic static lock order: `ord` ranks the keys consistently with the slots
(`idx a = idx b → ord a = ord b`) and every nested operation targets a key already held or a key of
higher rank than everything held (`Hier ord`); `Hier idx` is the special case `ord = idx` -/
theorem deadlock_free_ranked' {idx ord : Nat → Nat} {progs : List (List (List Instr))} {s : St}
    (hord : ∀ a b, idx a = idx b → ord a = ord b) (hH : ∀ p ∈ progs, Hier ord p = true)
    (h : Reachable idx progs s) (hnt : s.allTerminal = false) :
    ∃ i ev s', step idx s i = some (ev, s') ∧ ev ≠ .spin :=
  deadlock_free_core hord (inv_reachable h) (hier_reachable hH h) hnt

theorem fair_termination_ranked' {idx ord : Nat → Nat} {progs : List (List (List Instr))}
    (hord : ∀ a b, idx a = idx b → ord a = ord b) (hH : ∀ p ∈ progs, Hier ord p = true)
    (σ : Nat → Nat) (hfair : FairSched progs.length σ) :
    ∃ n, ∀ m, n ≤ m → (runN idx (init progs) σ m).allTerminal = true := by
  obtain ⟨n, hn⟩ := fair_termination_core (Reachable idx progs) (fun s i ev s' h hs => Reachable.step h hs)
    (fun s h => inv_reachable h) (fun s h hnt => deadlock_free_ranked' hord hH h hnt) (init progs) Reachable.init σ
    (by simpa [init] using hfair)
  refine ⟨n, fun m hm => ?_⟩
  have := runN_terminal_stable hn (m - n)
  rw [show n + (m - n) = m by omega] at this
  rw [this]; exact hn

/-- rank of the key a waiting caller asks for -/
def wantOrd (ord : Nat → Nat) (c : Caller) : Nat :=
  match c.pc.wantW with
  | some k => ord k
  | none => match c.pc.wantR with
    | some k => ord k
    | none => 0

theorem waitsFor_callers {idx : Nat → Nat} {s : St} {i j : Nat} (h : waitsFor idx s i j = true) :
    ∃ c d, s.cs[i]? = some c ∧ s.cs[j]? = some d := by
  simp only [waitsFor] at h
  cases hi : s.cs[i]? with
  | none => simp [hi] at h
  | some c =>
    cases hj : s.cs[j]? with
    | none => simp [hi, hj] at h
    | some d => exact ⟨c, d, rfl, rfl⟩

theorem edge_holder {idx : Nat → Nat} {s : St} {i j : Nat} {ci cj : Caller} (hi : s.cs[i]? = some ci) (hj : s.cs[j]? = some cj)
    (hij : waitsFor idx s i j = true) (hr : cj.pc.readKey = none) (hw : cj.pc.writeKey = none) :
    ∃ ki, ci.pc.wantW = some ki ∧ ∃ k' ∈ cj.stack, idx k' = idx ki := by
  simp only [waitsFor, hi, hj, Bool.or_eq_true] at hij
  have hwc : ∀ x, cj.wc idx x = 0 := by intro x; simp [Caller.wc, hw]
  rcases hij with hij | hij
  · cases hwi : ci.pc.wantW with
    | none => simp [hwi] at hij
    | some ki =>
      simp only [hwi, Bool.or_eq_true, decide_eq_true_eq, hwc] at hij
      rcases hij with h | h
      · simp only [Caller.rc, Caller.reads, hr, Option.toList, List.nil_append] at h
        obtain ⟨k', hk', hkk⟩ := List.countP_pos_iff.mp h
        exact ⟨ki, rfl, k', hk', by simpa using hkk⟩
      · omega
  · cases hri : ci.pc.wantR with
    | none => simp [hri] at hij
    | some ki => simp [hri, hwc] at hij

/-- along a wait-for edge whose target is itself waiting, the rank of the requested key strictly increases -/
theorem edge_rank_lt {idx ord : Nat → Nat} {s : St} (hord : ∀ a b, idx a = idx b → ord a = ord b) (hI : Inv idx s)
    (hH : ∀ (j : Nat) (c : Caller), s.cs[j]? = some c → hierC ord c)
    {i j m : Nat} {ci cj : Caller} (hi : s.cs[i]? = some ci) (hj : s.cs[j]? = some cj)
    (hij : waitsFor idx s i j = true) (hjm : waitsFor idx s j m = true) : wantOrd ord ci < wantOrd ord cj := by
  obtain ⟨_, cm, hj', hm⟩ := waitsFor_callers hjm
  rw [hj] at hj'; cases hj'
  have hHj := hH j cj hj
  have hPj := hI.pc j cj hj
  have gW : ∀ x, cm.wc idx x ≤ s.W idx x := fun x => sumBy_ge (fun c => c.wc idx x) s.cs m cm hm
  have gR : ∀ x, cj.rc idx x ≤ s.R idx x := fun x => sumBy_ge (fun c => c.rc idx x) s.cs j cj hj
  have hjm' := hjm
  simp only [waitsFor, hj, hm, Bool.or_eq_true] at hjm'
  rcases cj with ⟨pcj, curj, restj, stackj, bookj, tnj⟩
  cases pcj <;> simp [Pc.wantW, Pc.wantR] at hjm'
  · -- j waits for a read lock
    rename_i kj g
    obtain ⟨ki, hwi, k', hk', hkk⟩ := edge_holder hi hj hij rfl rfl
    have hoo := hord k' ki hkk
    simp [hierC, hierOk] at hHj
    have hci : wantOrd ord ci = ord ki := by simp [wantOrd, hwi]
    rw [hci]; simp only [wantOrd, Pc.wantW, Pc.wantR]
    rcases hHj.2.1 with hm' | hlt
    · -- j reads kj already, so nobody can hold the write lock it would be waiting for
      exfalso
      have h1 : 0 < Caller.rc idx ⟨.gsAcqR kj g, curj, restj, stackj, bookj, tnj⟩ (idx kj) := by
        simp only [Caller.rc, Caller.reads, Pc.readKey, Option.toList, List.nil_append]
        exact List.countP_pos_iff.mpr ⟨kj, hm', by simp⟩
      have := gR (idx kj); have := gW (idx kj)
      rcases hI.locks (idx kj) with h | h <;> omega
    · have := hlt k' hk'; omega
  · rename_i kj g
    obtain ⟨ki, hwi, k', hk', hkk⟩ := edge_holder hi hj hij rfl rfl
    have hoo := hord k' ki hkk
    simp [hierC, hierOk] at hHj
    simp [pcOK] at hPj
    have hci : wantOrd ord ci = ord ki := by simp [wantOrd, hwi]
    rw [hci]; simp only [wantOrd, Pc.wantW, Pc.wantR]
    rcases hHj.2.1 with hm' | hlt
    · exact absurd hm' hPj
    · have := hlt k' hk'; omega
  · rename_i kj f
    obtain ⟨ki, hwi, k', hk', hkk⟩ := edge_holder hi hj hij rfl rfl
    have hoo := hord k' ki hkk
    simp [hierC, hierOk] at hHj
    simp [pcOK] at hPj
    have hci : wantOrd ord ci = ord ki := by simp [wantOrd, hwi]
    rw [hci]; simp only [wantOrd, Pc.wantW, Pc.wantR]
    rcases hHj.2.1 with hm' | hlt
    · exact absurd hm' hPj
    · have := hlt k' hk'; omega

theorem path_rank_lt {idx ord : Nat → Nat} {s : St} (hord : ∀ a b, idx a = idx b → ord a = ord b) (hI : Inv idx s)
    (hH : ∀ (j : Nat) (c : Caller), s.cs[j]? = some c → hierC ord c) {i j : Nat} (hp : WaitPath idx s i j) :
    ∀ (m : Nat) (ci cj : Caller), s.cs[i]? = some ci → s.cs[j]? = some cj → waitsFor idx s j m = true →
      wantOrd ord ci < wantOrd ord cj := by
  induction hp with
  | one e => intro m ci cj hi hj hjm; exact edge_rank_lt hord hI hH hi hj e hjm
  | cons e p ih =>
    rename_i a b c
    intro m ci cj hi hj hjm
    obtain ⟨_, cb, _, hb⟩ := waitsFor_callers e
    -- b has an outgoing edge: the first edge of the rest of the path
    have hbout : ∃ m', waitsFor idx s b m' = true := by
      cases p with
      | one e' => exact ⟨_, e'⟩
      | cons e' _ => exact ⟨_, e'⟩
    obtain ⟨m', hbm⟩ := hbout
    have h1 := edge_rank_lt hord hI hH hi hb e hbm
    have h2 := ih m cb cj hb hj hjm
    omega

/-- with an acyclic static lock order there is no cycle in the wait-for graph of any reachable state -/
theorem no_wait_cycle_ranked' {idx ord : Nat → Nat} {progs : List (List (List Instr))} {s : St}
    (hord : ∀ a b, idx a = idx b → ord a = ord b) (hH : ∀ p ∈ progs, Hier ord p = true)
    (h : Reachable idx progs s) (i : Nat) : ¬ WaitPath idx s i i := by
  intro hp
  have hI := inv_reachable h
  have hHs := hier_reachable hH h
  have hout : ∃ m, waitsFor idx s i m = true := by
    cases hp with
    | one e => exact ⟨_, e⟩
    | cons e _ => exact ⟨_, e⟩
  obtain ⟨m, him⟩ := hout
  obtain ⟨ci, _, hi, _⟩ := waitsFor_callers him
  have := path_rank_lt hord hI hHs hp m ci ci hi hi him
  omega

theorem semStep_balanced (p : Nat) (r : Bool × Bool × Bool) (hp : 1 ≤ p) : semStep p r = some p := by
  obtain ⟨a, b, c⟩ := r
  have h := semaphore_balanced' a b c
  simp only [semStep]
  split
  · congr 1; omega
  · omega

theorem semaphore_sequence_balanced' (p : Nat) (hp : 1 ≤ p) : ∀ rs, semRun p rs = some p := by
  intro rs
  induction rs with
  | nil => rfl
  | cons r rs ih => simp [semRun, semStep_balanced p r hp, ih]

/-! ### Phase 4: download semaphore as an interleaving system -/

theorem ssum_set (f : SCaller → Nat) : ∀ (l : List SCaller) (i : Nat) (c c' : SCaller),
    l[i]? = some c → ssum f (l.set i c') + f c = ssum f l + f c' := by
  intro l
  induction l with
  | nil => intro i c c' h; simp at h
  | cons a t ih =>
    intro i c c' h
    cases i with
    | zero => simp at h; subst h; simp [ssum]; omega
    | succ n =>
      simp at h
      have := ih n c c' h
      simp [ssum]; omega

theorem ssum_ge (f : SCaller → Nat) : ∀ (l : List SCaller) (i : Nat) (c : SCaller),
    l[i]? = some c → f c ≤ ssum f l := by
  intro l
  induction l with
  | nil => intro i c h; simp at h
  | cons a t ih =>
    intro i c h
    cases i with
    | zero => simp at h; subst h; simp [ssum]
    | succ n => simp at h; have := ih n c h; simp [ssum]; omega

theorem ssum_zero (f : SCaller → Nat) : ∀ (l : List SCaller), (∀ c ∈ l, f c = 0) → ssum f l = 0 := by
  intro l
  induction l with
  | nil => intro _; rfl
  | cons a t ih => intro h; simp [ssum, h a (by simp), ih (fun c hc => h c (by simp [hc]))]

theorem ssum_le (f g : SCaller → Nat) (hfg : ∀ c, f c ≤ g c) : ∀ (l : List SCaller), ssum f l ≤ ssum g l := by
  intro l
  induction l with
  | nil => simp [ssum]
  | cons a t ih => have := hfg a; simp [ssum]; omega

theorem ssum_init_zero (f : SCaller → Nat) (hf : ∀ p, f { pc := .idle, todo := p } = 0) (progs : List (List SRead)) :
    ssum f (progs.map (fun p => { pc := .idle, todo := p })) = 0 := by
  apply ssum_zero
  intro c hc
  simp at hc
  obtain ⟨p, _, rfl⟩ := hc
  exact hf p

/-- local effect of one step on the permit accounting -/
theorem semStepC_account {free : Nat} {c c' : SCaller} {ev : SEv} {f : Nat}
    (h : semStepC free c = some (ev, f, c')) : f + c'.holds = free + c.holds := by
  unfold semStepC at h
  rcases c with ⟨pc, todo⟩
  cases pc with
  | idle =>
    cases todo with
    | nil => simp at h
    | cons r t =>
      simp at h
      split at h <;> simp at h <;> obtain ⟨_, rfl, rfl⟩ := h <;> simp [SCaller.holds]
  | want r =>
    simp at h
    split at h <;> simp at h <;> obtain ⟨_, rfl, rfl⟩ := h <;> simp [SCaller.holds]
    omega
  | recheck r =>
    simp at h
    split at h <;> simp at h <;> obtain ⟨_, rfl, rfl⟩ := h <;> simp [SCaller.holds]
  | inside r => simp at h; obtain ⟨_, rfl, rfl⟩ := h; simp [SCaller.holds]
  | fin b => cases b <;> simp at h <;> obtain ⟨_, rfl, rfl⟩ := h <;> simp [SCaller.holds]

theorem sem_account_reachable {permits : Nat} {progs : List (List SRead)} {s : SSt}
    (h : SReachable permits progs s) : s.free + s.holders = permits := by
  induction h with
  | init => simp [sinit, SSt.holders]; exact ssum_init_zero _ (fun p => rfl) progs
  | step hr hs ih =>
    rename_i s s' i ev
    unfold sstep at hs
    cases hc : s.cs[i]? with
    | none => simp [hc] at hs
    | some c =>
      simp [hc] at hs
      cases hq : semStepC s.free c with
      | none => simp [hq] at hs
      | some r =>
        obtain ⟨ev', f, c'⟩ := r
        simp [hq] at hs
        obtain ⟨_, rfl⟩ := hs
        have h1 := semStepC_account hq
        have h2 := ssum_set SCaller.holds s.cs i c c' hc
        simp [SSt.holders] at ih ⊢
        omega

theorem downloading_le_holds (c : SCaller) : c.downloading ≤ c.holds := by
  rcases c with ⟨pc, todo⟩
  cases pc <;> simp [SCaller.downloading, SCaller.holds]

theorem semaphore_bound' {permits : Nat} {progs : List (List SRead)} {s : SSt}
    (h : SReachable permits progs s) :
    s.free + s.holders = permits ∧ s.downloads ≤ s.holders ∧ s.holders ≤ permits := by
  have := sem_account_reachable h
  refine ⟨this, ssum_le _ _ downloading_le_holds _, by omega⟩

theorem terminal_holds_zero (c : SCaller) (h : c.terminal = true) : c.holds = 0 := by
  rcases c with ⟨pc, todo⟩
  cases pc <;> simp [SCaller.terminal, SCaller.holds] at h ⊢

theorem semaphore_all_released' {permits : Nat} {progs : List (List SRead)} {s : SSt}
    (h : SReachable permits progs s) (ht : s.allTerminal = true) : s.free = permits := by
  have := sem_account_reachable h
  have hz : s.holders = 0 := by
    apply ssum_zero
    intro c hc
    simp [SSt.allTerminal] at ht
    exact terminal_holds_zero c (ht c hc)
  omega

/-- a caller that is not waiting in `acquire()` and not finished has a non-wait step -/
theorem sem_nonwait_step (free : Nat) (c : SCaller) (hnt : c.terminal = false) (hw : ∀ r, c.pc ≠ .want r) :
    ∃ ev f c', semStepC free c = some (ev, f, c') ∧ ev ≠ .wait := by
  rcases c with ⟨pc, todo⟩
  cases pc with
  | idle =>
    cases todo with
    | nil => simp [SCaller.terminal] at hnt
    | cons r t =>
      by_cases hr : r.c1 <;> simp [semStepC, hr]
  | want r => exact absurd rfl (hw r)
  | recheck r => by_cases hr : r.c2 <;> simp [semStepC, hr]
  | inside r => by_cases hr : r.exc <;> simp [semStepC, hr]
  | fin b => cases b <;> simp [semStepC]

theorem semaphore_deadlock_free' {permits : Nat} {progs : List (List SRead)} {s : SSt} (hp : 1 ≤ permits)
    (h : SReachable permits progs s) (hnt : s.allTerminal = false) :
    ∃ i ev s', sstep s i = some (ev, s') ∧ ev ≠ .wait := by
  have hacc := sem_account_reachable h
  by_cases hex : ∃ (i : Nat) (c : SCaller), s.cs[i]? = some c ∧ c.terminal = false ∧ ∀ r, c.pc ≠ .want r
  · obtain ⟨i, c, hc, hct, hw⟩ := hex
    obtain ⟨ev, f, c', hs, hne⟩ := sem_nonwait_step s.free c hct hw
    exact ⟨i, ev, { free := f, cs := s.cs.set i c' }, by simp [sstep, hc, hs], hne⟩
  · -- every unfinished caller waits in acquire(): nobody holds a permit, so all permits are free
    have hall : ∀ c ∈ s.cs, c.holds = 0 := by
      intro c hc
      obtain ⟨i, hi, hci⟩ := List.mem_iff_getElem.mp hc
      have hci' : s.cs[i]? = some c := by simp [List.getElem?_eq_getElem hi, hci]
      by_cases hct : c.terminal = true
      · exact terminal_holds_zero c hct
      · have : ∃ r, c.pc = .want r := by
          apply Classical.byContradiction; intro hcon
          exact hex ⟨i, c, hci', by simpa using hct, fun r hr => hcon ⟨r, hr⟩⟩
        obtain ⟨r, hr⟩ := this
        simp [SCaller.holds, hr]
    have hz : s.holders = 0 := ssum_zero _ _ hall
    simp [SSt.allTerminal] at hnt
    obtain ⟨c, hc, hct⟩ := hnt
    obtain ⟨i, hi, hci⟩ := List.mem_iff_getElem.mp hc
    have hci' : s.cs[i]? = some c := by simp [List.getElem?_eq_getElem hi, hci]
    have : ∃ r, c.pc = .want r := by
      apply Classical.byContradiction; intro hcon
      exact hex ⟨i, c, hci', hct, fun r hr => hcon ⟨r, hr⟩⟩
    obtain ⟨r, hr⟩ := this
    have hfree : 0 < s.free := by omega
    refine ⟨i, .acquire, { free := s.free - 1, cs := s.cs.set i { c with pc := .recheck r } }, ?_, by simp⟩
    simp [sstep, hci', semStepC, hr, hfree]

theorem semStepC_measure {free : Nat} {c c' : SCaller} {ev : SEv} {f : Nat}
    (h : semStepC free c = some (ev, f, c')) :
    (ev ≠ .wait → c'.measure < c.measure) ∧ (ev = .wait → f = free ∧ c' = c) := by
  unfold semStepC at h
  rcases c with ⟨pc, todo⟩
  cases pc with
  | idle =>
    cases todo with
    | nil => simp at h
    | cons r t =>
      simp at h
      split at h <;> simp at h <;> obtain ⟨rfl, rfl, rfl⟩ := h <;> simp [SCaller.measure, SPc.rank] <;> omega
  | want r =>
    simp at h
    split at h <;> simp at h <;> obtain ⟨rfl, rfl, rfl⟩ := h <;> simp [SCaller.measure, SPc.rank]
  | recheck r =>
    simp at h
    split at h <;> simp at h <;> obtain ⟨rfl, rfl, rfl⟩ := h <;> simp [SCaller.measure, SPc.rank]
  | inside r =>
    simp at h; obtain ⟨rfl, rfl, rfl⟩ := h
    by_cases hr : r.exc <;> simp [SCaller.measure, SPc.rank, hr]
  | fin b => cases b <;> simp at h <;> obtain ⟨rfl, rfl, rfl⟩ := h <;> simp [SCaller.measure, SPc.rank]

theorem semaphore_progress' {s s' : SSt} {i : Nat} {ev : SEv} (hs : sstep s i = some (ev, s')) :
    (ev ≠ .wait → s'.measure < s.measure) ∧ (ev = .wait → s' = s) := by
  unfold sstep at hs
  cases hc : s.cs[i]? with
  | none => simp [hc] at hs
  | some c =>
    simp [hc] at hs
    cases hq : semStepC s.free c with
    | none => simp [hq] at hs
    | some r =>
      obtain ⟨ev', f, c'⟩ := r
      simp [hq] at hs
      obtain ⟨rfl, rfl⟩ := hs
      have hm := semStepC_measure hq
      have h2 := ssum_set SCaller.measure s.cs i c c' hc
      constructor
      · intro hne
        have := hm.1 hne
        simp [SSt.measure]; omega
      · intro he
        obtain ⟨rfl, rfl⟩ := hm.2 he
        have : s.cs.set i c' = s.cs := by
          apply List.ext_getElem? ; intro n
          by_cases hn : i = n
          · subst hn; rw [List.getElem?_set_self' ]; simp [hc]
          · rw [List.getElem?_set_ne hn]
        simp [this]



/-! ### Phase 4: file-level system -/

theorem lstep_popW {idx arr cache c ev a' ch' c'} (h : LStep idx arr cache c ev a' ch' c') :
    (∀ k g, c'.pc = .gsPopW k g → ev = .ccreate k) ∧
    (∀ k g, c.pc = .gsPopW k g → (∃ v, ev = .cpop k v) ∨ ev = .cpopFail k) ∧
    (∀ k, ev = .ccreate k → ∃ g, c'.pc = .gsPopW k g) := by
  cases h
  all_goals (simp [toUnwind]; try (split <;> simp))

theorem lstep_cache_frame {idx arr cache c ev a' ch' c'} (h : LStep idx arr cache c ev a' ch' c') (k : Nat)
    (h1 : ∀ v, ev ≠ .cpop k v) (h2 : ∀ b, ev ≠ .crmv k b) : ch' k = cache k := by
  cases h
  all_goals (try rfl)
  all_goals (simp at h1 h2; simp [upd]; intro hk; first | exact absurd hk.symm h1 | exact absurd hk.symm h2)

theorem step_lstep {idx : Nat → Nat} {s s' : St} {i : Nat} {ev : Ev} (hI : Inv idx s) (h : step idx s i = some (ev, s')) :
    ∃ c a' ch' c', s.cs[i]? = some c ∧ LStep idx s.arr s.cache c ev a' ch' c' ∧
      s' = { arr := a', cache := ch', cs := s.cs.set i c' } := by
  obtain ⟨c, a', ch', c', hi, hc, rfl⟩ := step_iff.mp h
  exact ⟨c, a', ch', c', hi, stepC_sound idx s.arr s.cache c c' ev a' ch' hc (hI.book i c hi) (hI.pc i c hi) (hI.stack i c hi), rfl⟩

theorem getElem?_set_cases {l : List Caller} {i j : Nat} {c' d : Caller} (h : (l.set i c')[j]? = some d) :
    (j = i ∧ d = c') ∨ (j ≠ i ∧ l[j]? = some d) := by
  by_cases hij : i = j
  · subst hij
    rw [List.getElem?_set_self'] at h
    cases hl : l[i]? with
    | none => simp [hl] at h
    | some x => simp [hl] at h; exact Or.inl ⟨rfl, h.symm⟩
  · rw [List.getElem?_set_ne hij] at h
    exact Or.inr ⟨fun e => hij e.symm, h⟩

/-- how `partialWriter` changes along one step -/
theorem step_partialWriter {idx : Nat → Nat} {s s' : St} {i : Nat} {ev : Ev} (hI : Inv idx s)
    (h : step idx s i = some (ev, s')) (k : Nat) :
    (ev = .ccreate k → partialWriter s' k = true) ∧
    (partialWriter s' k = true → partialWriter s k = true ∨ ev = .ccreate k) ∧
    (partialWriter s k = true → partialWriter s' k = true ∨ (∃ v, ev = .cpop k v) ∨ ev = .cpopFail k) := by
  obtain ⟨c, a', ch', c', hi, hL, rfl⟩ := step_lstep hI h
  have hp := lstep_popW hL
  have hlen : i < s.cs.length := by
    cases hq : s.cs[i]? with
    | none => simp [hq] at hi
    | some x => exact (List.getElem?_eq_some_iff.mp hq).1
  refine ⟨?_, ?_, ?_⟩
  · intro he
    obtain ⟨g, hg⟩ := hp.2.2 k he
    exact partialWriter_iff.mpr ⟨i, c', g, by simp [List.getElem?_set_self hlen], hg⟩
  · intro hw
    obtain ⟨j, d, g, hj, hd⟩ := partialWriter_iff.mp hw
    rcases getElem?_set_cases hj with ⟨_, rfl⟩ | ⟨_, hj'⟩
    · exact Or.inr (hp.1 k g hd)
    · exact Or.inl (partialWriter_iff.mpr ⟨j, d, g, hj', hd⟩)
  · intro hw
    obtain ⟨j, d, g, hj, hd⟩ := partialWriter_iff.mp hw
    by_cases hji : j = i
    · subst hji
      rw [hi] at hj; cases hj
      exact Or.inr (hp.2.1 k g hd)
    · left
      refine partialWriter_iff.mpr ⟨j, d, g, ?_, hd⟩
      simp [List.getElem?_set_ne (fun e => hji e.symm), hj]

theorem step_cache_frame {idx : Nat → Nat} {s s' : St} {i : Nat} {ev : Ev} (hI : Inv idx s)
    (h : step idx s i = some (ev, s')) (k : Nat) (h1 : ∀ v, ev ≠ .cpop k v) (h2 : ∀ b, ev ≠ .crmv k b) :
    s'.cache k = s.cache k := by
  obtain ⟨c, a', ch', c', hi, hL, rfl⟩ := step_lstep hI h
  exact lstep_cache_frame hL k h1 h2

theorem ccreate_uncached {idx : Nat → Nat} {s s' : St} {i : Nat} {k : Nat} (hI : Inv idx s)
    (h : step idx s i = some (.ccreate k, s')) : s.cache k = none := by
  obtain ⟨c, a', ch', c', hi, hL, rfl⟩ := step_lstep hI h
  have := hI.pc i c hi
  cases hL
  simpa [pcOK] using this

theorem dreachable_base {enc : Nat → List Nat} {idx : Nat → Nat} {progs : List (List (List Instr))} {s : DSt}
    (h : DReachable enc idx progs s) : Reachable idx progs s.base := by
  induction h with
  | init => exact Reachable.init
  | step hr hs ih =>
    rename_i s s' i a ev
    cases a with
    | base =>
      simp only [dstep] at hs
      cases hb : step idx s.base i with
      | none => simp [hb] at hs
      | some r =>
        obtain ⟨e, b'⟩ := r
        simp only [hb] at hs
        split at hs
        · simp at hs; obtain ⟨_, rfl⟩ := hs; exact Reachable.step ih hb
        · simp at hs
    | chunk b =>
      simp only [dstep] at hs
      split at hs
      · simp at hs
      · split at hs
        · split at hs
          · split at hs
            · simp at hs; obtain ⟨_, rfl⟩ := hs; exact ih
            · simp at hs
          · simp at hs
        · simp at hs
    | close =>
      simp only [dstep] at hs
      split at hs
      · simp at hs
      · split at hs
        · split at hs
          · split at hs
            · simp at hs; obtain ⟨_, rfl⟩ := hs; exact ih
            · simp at hs
          · simp at hs
        · simp at hs

/-- a chunk / close step: the stepping caller is the writer of `k`, only the file of `k` changes -/
theorem dstep_write_facts {enc : Nat → List Nat} {idx : Nat → Nat} {s s' : DSt} {i : Nat} {a : DAct} {ev : DEv}
    (ha : a ≠ .base) (hs : dstep enc idx s i a = some (ev, s')) :
    ∃ c k g w f', s.base.cs[i]? = some c ∧ c.pc = .gsPopW k g ∧ s.file k = .opened w ∧
      s' = { base := s.base, file := upd s.file k f' } ∧
      ((∃ b, a = .chunk b ∧ ev = .chunk k b ∧ chunkOk enc g w b = true ∧ f' = .opened (w ++ [b])) ∨
       (a = .close ∧ ev = .close k ∧ closeOk enc g w = true ∧ f' = .closed w)) := by
  cases a with
  | base => exact absurd rfl ha
  | chunk b =>
    simp only [dstep] at hs
    cases hc : s.base.cs[i]? with
    | none => simp [hc] at hs
    | some c =>
      simp only [hc] at hs
      cases hpc : c.pc <;> simp [hpc] at hs
      rename_i k g
      cases hf : s.file k <;> simp [hf] at hs
      rename_i w
      obtain ⟨hok, rfl, rfl⟩ := hs
      exact ⟨c, k, g, w, _, rfl, hpc, hf, rfl, Or.inl ⟨b, rfl, rfl, hok, rfl⟩⟩
  | close =>
    simp only [dstep] at hs
    cases hc : s.base.cs[i]? with
    | none => simp [hc] at hs
    | some c =>
      simp only [hc] at hs
      cases hpc : c.pc <;> simp [hpc] at hs
      rename_i k g
      cases hf : s.file k <;> simp [hf] at hs
      rename_i w
      obtain ⟨hok, rfl, rfl⟩ := hs
      exact ⟨c, k, g, w, _, rfl, hpc, hf, rfl, Or.inr ⟨rfl, rfl, hok, rfl⟩⟩

theorem dstep_base_facts {enc : Nat → List Nat} {idx : Nat → Nat} {s s' : DSt} {i : Nat} {ev : DEv}
    (hs : dstep enc idx s i .base = some (ev, s')) :
    ∃ e b', step idx s.base i = some (e, b') ∧ baseOk enc s.file e = true ∧ ev = .base e (obsOf s.file e) ∧
      s' = { base := b', file := fileAfter s.file e } := by
  simp only [dstep] at hs
  cases hb : step idx s.base i with
  | none => simp [hb] at hs
  | some r =>
    obtain ⟨e, b'⟩ := r
    simp only [hb] at hs
    split at hs
    · rename_i hok
      simp at hs; obtain ⟨rfl, rfl⟩ := hs
      exact ⟨e, b', rfl, hok, rfl, rfl⟩
    · simp at hs

theorem dinv_step {enc : Nat → List Nat} {idx : Nat → Nat} {s s' : DSt} {i : Nat} {a : DAct} {ev : DEv}
    (hI : Inv idx s.base) (hD : DInv enc s) (hs : dstep enc idx s i a = some (ev, s')) : DInv enc s' := by
  by_cases ha : a = .base
  · subst ha
    obtain ⟨e, b', hb, hok, rfl, rfl⟩ := dstep_base_facts hs
    obtain ⟨c, hi, _, _, f3, f4, f5⟩ := step_facts hI hb
    intro k
    have hpw := step_partialWriter hI hb k
    have hD' := hD k
    -- which event, relative to key k
    by_cases e1 : ∃ v, e = .cpop k v
    · obtain ⟨v, rfl⟩ := e1
      have := f3 k v rfl
      simp [baseOk] at hok
      simp [this.2.2, upd, fileAfter, hok]
    by_cases e2 : ∃ b, e = .crmv k b
    · obtain ⟨b, rfl⟩ := e2
      have := f5 k b rfl
      simp [this.2.2, upd, fileAfter]
    by_cases e3 : e = .cpopFail k
    · subst e3
      have := f4 k rfl
      simp [this.2.2, this.2.1, fileAfter, upd]
    by_cases e4 : e = .ccreate k
    · subst e4
      have hc := ccreate_uncached hI hb
      have hcf := step_cache_frame hI hb k (by simp) (by simp)
      simp [hcf, hc, hpw.1 rfl]
    -- no event on key k: cache k and file k unchanged
    have hcf := step_cache_frame hI hb k (fun v h => e1 ⟨v, h⟩) (fun b h => e2 ⟨b, h⟩)
    have hff : fileAfter s.file e k = s.file k := by
      cases e <;> simp [fileAfter, upd] <;> (intro hk; subst hk; simp at e1 e2 e3 e4)
    simp only [hcf, hff]
    refine ⟨hD'.1, fun hn hp' => hD'.2 hn ?_⟩
    cases hp : partialWriter s.base k with
    | false => rfl
    | true =>
      rcases hpw.2.2 hp with h | ⟨v, h⟩ | h
      · rw [h] at hp'; cases hp'
      · exact absurd ⟨v, h⟩ e1
      · exact absurd h e3
  · obtain ⟨c, k, g, w, f', hi, hpc, hf, rfl, _⟩ := dstep_write_facts ha hs
    have hck : s.base.cache k = none := by
      have := hI.pc i c hi
      simpa [pcOK, hpc] using this
    have hpwk : partialWriter s.base k = true := partialWriter_iff.mpr ⟨i, c, g, hi, hpc⟩
    intro k'
    by_cases hk : k' = k
    · subst hk; simp [hck, hpwk]
    · simpa [upd, hk] using hD k'

theorem dinv_reachable {enc : Nat → List Nat} {idx : Nat → Nat} {progs : List (List (List Instr))} {s : DSt}
    (h : DReachable enc idx progs s) : DInv enc s := by
  induction h with
  | init => intro k; simp [dinit, init]
  | step hr hs ih => exact dinv_step (inv_reachable (dreachable_base hr)) ih hs

theorem chunked_no_partial_read' {enc : Nat → List Nat} {idx : Nat → Nat} {progs : List (List (List Instr))}
    {s s' : DSt} {j : Nat} {ev : Ev} {obs : Option DiskRead} {k v : Nat}
    (h : DReachable enc idx progs s) (hs : dstep enc idx s j .base = some (.base ev obs, s'))
    (hev : ev = .cget k v ∨ ev = .enter k v) :
    s.file k = .closed (enc v) ∧ partialWriter s.base k = false ∧ (ev = .cget k v → obs = some (.complete (enc v))) := by
  obtain ⟨e, b', hb, _, he, _⟩ := dstep_base_facts hs
  simp at he
  obtain ⟨rfl, rfl⟩ := he
  have hx := no_partial_exposed' (dreachable_base h) hb hev
  have hf := ((dinv_reachable h) k).1 v hx.2
  refine ⟨hf, hx.1, ?_⟩
  rintro rfl
  simp [obsOf, hf, diskRead]

/-- between the writer's steps nobody else touches the file: a chunk / close step is taken by the one writer
of the entry, while the entry is not cached and no other caller holds it open or writes / removes its slot -/
theorem chunk_steps_exclusive' {enc : Nat → List Nat} {idx : Nat → Nat} {progs : List (List (List Instr))}
    {s s' : DSt} {i : Nat} {a : DAct} {ev : DEv} (h : DReachable enc idx progs s) (ha : a ≠ .base)
    (hs : dstep enc idx s i a = some (ev, s')) :
    ∃ k, (ev = .close k ∨ ∃ b, ev = .chunk k b) ∧ s'.base = s.base ∧ (∀ k', k' ≠ k → s'.file k' = s.file k') ∧
      s.base.cache k = none ∧
      ∀ j d, s.base.cs[j]? = some d → j ≠ i → k ∉ d.reads ∧ d.pc.writeKey ≠ some k := by
  obtain ⟨c, k, g, w, f', hi, hpc, hf, rfl, hcase⟩ := dstep_write_facts ha hs
  refine ⟨k, ?_, rfl, fun k' hk => by simp [upd, hk], ?_, ?_⟩
  · rcases hcase with ⟨b, _, rfl, _, _⟩ | ⟨_, rfl, _, _⟩
    · exact Or.inr ⟨b, rfl⟩
    · exact Or.inl rfl
  · have := (inv_reachable (dreachable_base h)).pc i c hi
    simpa [pcOK, hpc] using this
  · intro j d hj hne
    have := disk_no_partial_read' (dreachable_base h) hi hpc hj hne
    exact ⟨this.2.1, this.2.2.1⟩



def chunkProgs : List (List (List Instr)) := [[[.getSet 0 (.ok 7)]], [[.getSet 0 (.ok 9)]]]
def chunkEnc : Nat → List Nat := fun v => if v = 7 then [1, 2] else []
/-- writer reaches `gsPopW` (file created, zero-length); the reader starts and is refused the read lock -/
def chunkSched1 : List (Nat × DAct) := List.replicate 8 (0, DAct.base) ++ List.replicate 3 (1, DAct.base)
/-- … the writer writes chunk 1, the reader tries again, chunk 2, close, return, switch; then the reader gets in -/
def chunkSched2 : List (Nat × DAct) :=
  chunkSched1 ++ [(0, .chunk 1), (1, .base), (0, .chunk 2), (1, .base), (0, .close), (1, .base), (0, .base), (0, .base)] ++ List.replicate 3 (1, DAct.base)

theorem chunked_write_example' :
    (drun chunkEnc id (dinit chunkProgs) chunkSched1).1.file 0 = .opened [] ∧
    diskRead ((drun chunkEnc id (dinit chunkProgs) chunkSched1).1.file 0) = .zeroLength ∧
    (drun chunkEnc id (dinit chunkProgs) chunkSched1).2.getLast? = some (1, .base .spin none) ∧
    ((drun chunkEnc id (dinit chunkProgs) chunkSched2).2.filter (fun e => e.1 == 1)).map (·.2) =
      [.base .nextSeg none, .base .begin none, .base .spin none, .base .spin none, .base .spin none, .base .spin none,
       .base (.acqR 0) none, .base (.contains 0 true) none, .base (.cget 0 7) (some (.complete [1, 2]))] ∧
    -- a chunk that is not the next one of the value, or closing early, is not a step of a successful writer
    (dstep chunkEnc id (drun chunkEnc id (dinit chunkProgs) chunkSched1).1 0 (.chunk 2)).isNone = true ∧
    (dstep chunkEnc id (drun chunkEnc id (dinit chunkProgs) chunkSched1).1 0 .close).isNone = true ∧
    -- `get_set` cannot return before the file is closed
    (dstep chunkEnc id (drun chunkEnc id (dinit chunkProgs) chunkSched1).1 0 .base).isNone = true := by
  decide

def semProgs : List (List SRead) := [[⟨false, false, false⟩, ⟨true, false, false⟩], [⟨false, true, false⟩], [⟨false, false, true⟩]]

theorem semaphore_example' :
    (srun (sinit 1 semProgs) [0, 1, 2, 0, 1, 2, 0, 0, 0, 1, 1, 1, 2, 2, 2, 2, 0, 0, 0, 0]).1.free = 1 ∧
    (srun (sinit 1 semProgs) [0, 1, 2, 0, 1, 2, 0, 0, 0, 1, 1, 1, 2, 2, 2, 2, 0, 0, 0, 0]).1.allTerminal = true ∧
    (srun (sinit 1 semProgs) [0, 1, 2, 0, 1, 2]).2 = [(0, .request), (1, .request), (2, .request), (0, .acquire), (1, .wait), (2, .wait)] ∧
    (srun (sinit 1 semProgs) [0, 1, 2, 0, 1, 2]).1.holders = 1 := by decide

/-- with no permit at all every reader waits forever: `1 ≤ permits` is necessary -/
theorem semaphore_zero_permits_counterexample' :
    (srun (sinit 0 [[⟨false, false, false⟩]]) [0, 0, 0]).2 = [(0, .request), (0, .wait), (0, .wait)] ∧
    (srun (sinit 0 [[⟨false, false, false⟩]]) [0, 0, 0]).1.allTerminal = false := by decide



/-! ### Phase 5: ghost clock -/

def noRmvPc : Pc → Prop
  | .rmChk _ _ _ => False | .rmAcqW _ _ => False | .rmRemove _ _ => False | .rmRelW _ => False | .rmHRelW _ => False
  | _ => True

def noRmvC (c : Caller) : Prop :=
  (∀ ins ∈ c.cur, ins.isRmv = false) ∧ (∀ seg ∈ c.rest, ∀ ins ∈ seg, ins.isRmv = false) ∧ noRmvPc c.pc

theorem noRmv_toUnwind (c : Caller) (h : ∀ seg ∈ c.rest, ∀ ins ∈ seg, ins.isRmv = false) : noRmvC (toUnwind c) := by
  rcases toUnwind_eq c with hu | hu <;> rw [hu] <;> simp [noRmvC, noRmvPc] <;> exact h

theorem lstep_noRmv {idx arr cache c ev a' ch' c'} (h : LStep idx arr cache c ev a' ch' c') (hc : noRmvC c) :
    noRmvC c' ∧ (∀ k b, ev ≠ .crmv k b) := by
  cases h
  all_goals (refine ⟨?_, ?_⟩)
  all_goals (first
    | (intro k b; simp; done)
    | (exfalso; simp [noRmvC, noRmvPc] at hc; done)
    | exact noRmv_toUnwind _ hc.2.1
    | (simp [noRmvC, noRmvPc, Instr.isRmv] at hc ⊢; done)
    | (simp [noRmvC, noRmvPc, Instr.isRmv] at hc ⊢; grind))

/-- a step that leaves the caller at a miss point: either the miss itself, or the caller was there already -/
theorem lstep_miss {idx arr cache c ev a' ch' c'} (h : LStep idx arr cache c ev a' ch' c') {k : Nat}
    (hm : c'.pc.missKey = some k) :
    evPopKey ev = none ∧ c'.stack = c.stack ∧ ch' = cache ∧
    ((evMiss ev = true ∧ cache k = none) ∨ (evMiss ev = false ∧ c.pc.missKey = some k)) := by
  cases h
  all_goals (try (rcases toUnwind_eq _ with hu | hu <;> rw [hu] at hm))
  all_goals (simp [Pc.missKey, evMiss, evPopKey] at hm ⊢)
  all_goals (try (first | assumption | (obtain ⟨rfl, _⟩ := hm; assumption) | (subst hm; assumption)))

/-- the cache of a system without rmv only grows, and only at the key of a `cpop` -/
theorem lstep_cache_mono {idx arr cache c ev a' ch' c'} (h : LStep idx arr cache c ev a' ch' c') (hc : noRmvC c)
    (hp : pcOK cache c) :
    (evPopKey ev = none ∧ ch' = cache) ∨ (∃ k v, evPopKey ev = some k ∧ cache k = none ∧ ch' = upd cache k (some v)) := by
  cases h
  all_goals (first
    | exact Or.inl ⟨rfl, rfl⟩
    | (right; simp [pcOK] at hp; exact ⟨_, _, rfl, hp, rfl⟩)
    | (simp [noRmvC, noRmvPc] at hc))


structure GInv (g : GSt) : Prop where
  /-- a cached key was populated in the past -/
  pop : ∀ k v, g.base.cache k = some v → g.tp k < g.clock
  /-- a caller between its miss of `k` and the write lock of `k`: the miss is in the past, later than the populate of every
  key of its with-stack, and earlier than the populate of `k` if `k` got cached meanwhile -/
  miss : ∀ (j : Nat) (c : Caller), g.base.cs[j]? = some c → ∀ k, c.pc.missKey = some k →
      g.tm j < g.clock ∧ (∀ k' ∈ c.stack, g.tp k' < g.tm j) ∧ (∀ v, g.base.cache k = some v → g.tm j < g.tp k)

theorem gstep_iff {idx : Nat → Nat} {g g' : GSt} {i : Nat} {ev : Ev} :
    gstep idx g i = some (ev, g') ↔ ∃ s', step idx g.base i = some (ev, s') ∧
      g' = { base := s', clock := g.clock + 1,
             tm := if evMiss ev then upd g.tm i g.clock else g.tm,
             tp := match evPopKey ev with | some k => upd g.tp k g.clock | none => g.tp } := by
  unfold gstep
  cases hs : step idx g.base i with
  | none => simp
  | some r =>
    obtain ⟨e, s1⟩ := r
    constructor
    · intro h; simp at h; obtain ⟨rfl, rfl⟩ := h; exact ⟨s1, rfl, rfl⟩
    · rintro ⟨s', h1, rfl⟩; simp at h1; obtain ⟨rfl, rfl⟩ := h1; rfl

theorem ginv_step {idx : Nat → Nat} {g g' : GSt} {i : Nat} {ev : Ev} (hI : Inv idx g.base)
    (hN : ∀ (j : Nat) (c : Caller), g.base.cs[j]? = some c → noRmvC c) (hG : GInv g)
    (h : gstep idx g i = some (ev, g')) : GInv g' := by
  obtain ⟨s', hs, rfl⟩ := gstep_iff.mp h
  obtain ⟨c, a', ch', c', hi, hL, rfl⟩ := step_lstep hI hs
  have hmono := lstep_cache_mono hL (hN i c hi) (hI.pc i c hi)
  constructor
  · intro k v hkv
    simp only at hkv ⊢
    rcases hmono with ⟨hpk, rfl⟩ | ⟨k0, v0, hpk, hnone, rfl⟩
    · simp only [hpk]; have := hG.pop k v hkv; omega
    · simp only [hpk, upd] at hkv ⊢
      split
      · omega
      · rename_i hne; simp [hne] at hkv; have := hG.pop k v hkv; omega
  · intro j d hj k hm
    simp only at hj ⊢
    rcases getElem?_set_cases hj with ⟨rfl, rfl⟩ | ⟨hne, hj0⟩
    · obtain ⟨hpk, hst, rfl, hcase⟩ := lstep_miss hL hm
      simp only [hpk]
      rcases hcase with ⟨hmiss, hnone⟩ | ⟨hmiss, hm0⟩
      · simp only [hmiss, upd, if_true]
        refine ⟨by omega, ?_, ?_⟩
        · intro k' hk'
          rw [hst] at hk'
          obtain ⟨v, hv⟩ := Option.isSome_iff_exists.mp (hI.stack j c hi k' hk')
          exact hG.pop k' v hv
        · intro v hv; simp [hnone] at hv
      · obtain ⟨h1, h2, h3⟩ := hG.miss j c hi k hm0
        simp only [hmiss]
        exact ⟨by simp; omega, by rw [hst]; simpa using h2, by simpa using h3⟩
    · obtain ⟨h1, h2, h3⟩ := hG.miss j d hj0 k hm
      have htm : (if evMiss ev then upd g.tm i g.clock else g.tm) j = g.tm j := by
        split <;> simp [upd, hne]
      rw [htm]
      rcases hmono with ⟨hpk, rfl⟩ | ⟨k0, v0, hpk, hnone, rfl⟩
      · simp only [hpk]; exact ⟨by omega, h2, h3⟩
      · simp only [hpk, upd]
        refine ⟨by omega, ?_, ?_⟩
        · intro k' hk'
          have hc := hI.stack j d hj0 k' hk'
          have hne' : k' ≠ k0 := by rintro rfl; simp [hnone] at hc
          simp [hne']; exact h2 k' hk'
        · intro v hv
          split
          · exact h1
          · rename_i hkk; simp [hkk] at hv; exact h3 v hv


theorem ginv_init (progs : List (List (List Instr))) : GInv (ginit progs) := by
  constructor
  · intro k v h; simp [ginit, init] at h
  · intro j c hj k hm
    have := List.mem_of_getElem? hj
    simp [ginit, init] at this
    obtain ⟨p, _, rfl⟩ := this
    simp [mkCaller, mkCallerT, Pc.missKey] at hm

theorem noRmv_reachable {idx : Nat → Nat} {progs : List (List (List Instr))} {s : St}
    (hP : ∀ p ∈ progs, GetSetOnly p = true) (h : Reachable idx progs s) :
    ∀ (j : Nat) (c : Caller), s.cs[j]? = some c → noRmvC c := by
  induction h with
  | init =>
    intro j c hj
    have := List.mem_of_getElem? hj
    simp [init] at this
    obtain ⟨p, hpm, rfl⟩ := this
    have := hP p hpm
    simp [GetSetOnly] at this
    simp [noRmvC, noRmvPc, mkCaller, mkCallerT]
    exact this
  | step hr hs ih =>
    rename_i s0 s1 i ev
    have hI := inv_reachable hr
    obtain ⟨c, a', ch', c', hi, hL, rfl⟩ := step_lstep hI hs
    intro j d hj
    rcases getElem?_set_cases hj with ⟨rfl, rfl⟩ | ⟨_, hj0⟩
    · exact (lstep_noRmv hL (ih j c hi)).1
    · exact ih j d hj0

/-- the instrumented system takes exactly the steps of the plain one -/
theorem ghost_projects' {idx : Nat → Nat} {progs : List (List (List Instr))} {g : GSt}
    (h : GReachable idx progs g) : Reachable idx progs g.base := by
  induction h with
  | init => exact Reachable.init
  | step _ hs ih =>
    obtain ⟨s', hs', rfl⟩ := gstep_iff.mp hs
    exact Reachable.step ih hs'

theorem ghost_lifts' {idx : Nat → Nat} {progs : List (List (List Instr))} {s : St}
    (h : Reachable idx progs s) : ∃ g, GReachable idx progs g ∧ g.base = s := by
  induction h with
  | init => exact ⟨ginit progs, GReachable.init, rfl⟩
  | step _ hs ih =>
    obtain ⟨g, hg, rfl⟩ := ih
    exact ⟨_, GReachable.step hg (gstep_iff.mpr ⟨_, hs, rfl⟩), rfl⟩

theorem ginv_reachable {idx : Nat → Nat} {progs : List (List (List Instr))} {g : GSt}
    (hP : ∀ p ∈ progs, GetSetOnly p = true) (h : GReachable idx progs g) : GInv g := by
  induction h with
  | init => exact ginv_init progs
  | step hr hs ih =>
    have hb := ghost_projects' hr
    exact ginv_step (inv_reachable hb) (noRmv_reachable hP hb) ih hs

def Pc.key? : Pc → Option Nat
  | .idle => none | .exRel => none | .unwind => none
  | .gsAcqR k _ => some k | .gsChk1 k _ => some k | .gsGet1 k => some k | .gsRelR k _ => some k | .gsAcqW k _ => some k
  | .gsChk2 k _ => some k | .gsSwA k => some k | .gsGet2 k => some k | .gsPop k _ => some k | .gsPopW k _ => some k
  | .gsSwB k _ => some k | .gsEnter k _ => some k | .gsHRelR k => some k | .gsHRelW k => some k
  | .rmChk k _ _ => some k | .rmAcqW k _ => some k | .rmRemove k _ => some k | .rmRelW k => some k | .rmHRelW k => some k

/-- every key the caller still mentions (program, operation in flight, with-stack) satisfies `K` -/
def keysC (K : Nat → Prop) (c : Caller) : Prop :=
  (∀ ins ∈ c.cur, ∀ k, ins.key? = some k → K k) ∧ (∀ seg ∈ c.rest, ∀ ins ∈ seg, ∀ k, ins.key? = some k → K k) ∧
  (∀ k ∈ c.stack, K k) ∧ (∀ k, c.pc.key? = some k → K k)

theorem keys_toUnwind (K : Nat → Prop) (c : Caller) (h : ∀ seg ∈ c.rest, ∀ ins ∈ seg, ∀ k, ins.key? = some k → K k)
    (hs : ∀ k ∈ c.stack, K k) : keysC K (toUnwind c) := by
  rcases toUnwind_eq c with hu | hu <;> rw [hu] <;> simp [keysC, Pc.key?] <;> exact ⟨h, hs⟩

theorem lstep_keys {K : Nat → Prop} {idx arr cache c ev a' ch' c'} (h : LStep idx arr cache c ev a' ch' c') (hc : keysC K c) :
    keysC K c' := by
  cases h
  all_goals (first
    | (exact keys_toUnwind K _ hc.2.1 hc.2.2.1)
    | (exact keys_toUnwind K _ hc.2.1 (fun k hk => hc.2.2.1 k (List.mem_cons_of_mem _ hk)))
    | (simp [keysC, Pc.key?, Instr.key?] at hc ⊢; done)
    | (simp [keysC, Pc.key?, Instr.key?] at hc ⊢; grind))

theorem keys_reachable {K : Nat → Prop} {idx : Nat → Nat} {progs : List (List (List Instr))} {s : St}
    (hP : ∀ p ∈ progs, ∀ seg ∈ p, ∀ ins ∈ seg, ∀ k, ins.key? = some k → K k) (h : Reachable idx progs s) :
    ∀ (j : Nat) (c : Caller), s.cs[j]? = some c → keysC K c := by
  induction h with
  | init =>
    intro j c hj
    have := List.mem_of_getElem? hj
    simp [init] at this
    obtain ⟨p, hpm, rfl⟩ := this
    simp [keysC, Pc.key?, mkCaller, mkCallerT]
    exact hP p hpm
  | step hr hs ih =>
    rename_i s0 s1 i ev
    have hI := inv_reachable hr
    obtain ⟨c, a', ch', c', hi, hL, rfl⟩ := step_lstep hI hs
    intro j d hj
    rcases getElem?_set_cases hj with ⟨rfl, rfl⟩ | ⟨_, hj0⟩
    · exact lstep_keys hL (ih j c hi)
    · exact ih j d hj0

theorem collisionFree_inj {idx : Nat → Nat} {progs : List (List (List Instr))} (h : CollisionFree idx progs = true) :
    ∀ a b, a ∈ progKeys progs → b ∈ progKeys progs → idx a = idx b → a = b := by
  intro a b ha hb hab
  simp only [CollisionFree, List.all_eq_true] at h
  have := h a ha b hb
  simpa [hab] using this

theorem progKeys_mem {progs : List (List (List Instr))} :
    ∀ p ∈ progs, ∀ seg ∈ p, ∀ ins ∈ seg, ∀ k, ins.key? = some k → k ∈ progKeys progs := by
  intro p hp seg hseg ins hins k hk
  simp only [progKeys, List.mem_flatMap, List.mem_filterMap]
  exact ⟨p, hp, seg, hseg, ins, hins, hk⟩

/-- clock rank of a caller: the time of its miss while it waits for a write lock -/
def gRank (g : GSt) (j : Nat) : Nat :=
  match g.base.cs[j]? with
  | some c => (match c.pc with | .gsAcqW _ _ => g.tm j | _ => g.clock + 1)
  | none => 0

theorem wantW_miss {c : Caller} {k : Nat} (hN : noRmvC c) (h : c.pc.wantW = some k) : ∃ gt, c.pc = .gsAcqW k gt := by
  rcases c with ⟨pc, cur, rest, stack, book, tn⟩
  cases pc <;> simp [Pc.wantW] at h
  · subst h; exact ⟨_, rfl⟩
  · simp [noRmvC, noRmvPc] at hN

/-- along a wait-for edge whose target is itself waiting, the miss time strictly increases -/
theorem ghost_edge_lt {idx : Nat → Nat} {g : GSt} {K : Nat → Prop} (hinj : ∀ a b, K a → K b → idx a = idx b → a = b)
    (hK : ∀ (j : Nat) (c : Caller), g.base.cs[j]? = some c → keysC K c) (hI : Inv idx g.base)
    (hN : ∀ (j : Nat) (c : Caller), g.base.cs[j]? = some c → noRmvC c) (hG : GInv g)
    {i j m : Nat} (hij : waitsFor idx g.base i j = true) (hjm : waitsFor idx g.base j m = true) :
    gRank g i < gRank g j := by
  obtain ⟨ci, cj, hi, hj⟩ := waitsFor_callers hij
  obtain ⟨_, cm, hj', hm⟩ := waitsFor_callers hjm
  rw [hj] at hj'; cases hj'
  have hjm' := hjm
  simp only [waitsFor, hj, hm, Bool.or_eq_true] at hjm'
  have hNj := hN j cj hj
  have key : ∀ (hr : cj.pc.readKey = none) (hw : cj.pc.writeKey = none),
      ∃ ki, gRank g i = g.tm i ∧ g.tm i < g.clock ∧ ki ∈ cj.stack ∧ g.tm i < g.tp ki := by
    intro hr hw
    obtain ⟨ki, hwi, k', hk', hkk⟩ := edge_holder hi hj hij hr hw
    obtain ⟨gt, hpc⟩ := wantW_miss (hN i ci hi) hwi
    have := hinj k' ki ((hK j cj hj).2.2.1 k' hk') ((hK i ci hi).2.2.2 ki (by simp [hpc, Pc.key?])) hkk; subst this
    obtain ⟨h1, _, h3⟩ := hG.miss i ci hi k' (by simp [hpc, Pc.missKey])
    obtain ⟨v, hv⟩ := Option.isSome_iff_exists.mp (hI.stack j cj hj k' hk')
    exact ⟨k', by simp [gRank, hi, hpc], h1, hk', h3 v hv⟩
  rcases cj with ⟨pcj, curj, restj, stackj, bookj, tnj⟩
  cases pcj <;> simp [Pc.wantW, Pc.wantR] at hjm'
  · obtain ⟨ki, hr, h1, _, _⟩ := key rfl rfl
    rw [hr]; simp [gRank, hj]; omega
  · rename_i kj gt
    obtain ⟨ki, hr, h1, hk, h3⟩ := key rfl rfl
    obtain ⟨_, h2, _⟩ := hG.miss j _ hj kj (by simp [Pc.missKey])
    have := h2 ki hk
    rw [hr]; simp [gRank, hj]; omega
  · simp [noRmvC, noRmvPc] at hNj

theorem ghost_path_lt {idx : Nat → Nat} {g : GSt} {K : Nat → Prop} (hinj : ∀ a b, K a → K b → idx a = idx b → a = b)
    (hK : ∀ (j : Nat) (c : Caller), g.base.cs[j]? = some c → keysC K c) (hI : Inv idx g.base)
    (hN : ∀ (j : Nat) (c : Caller), g.base.cs[j]? = some c → noRmvC c) (hG : GInv g) {i j : Nat}
    (hp : WaitPath idx g.base i j) : ∀ m, waitsFor idx g.base j m = true → gRank g i < gRank g j := by
  induction hp with
  | one e => intro m hjm; exact ghost_edge_lt hinj hK hI hN hG e hjm
  | cons e p ih =>
    rename_i a b c
    intro m hjm
    have hbout : ∃ m', waitsFor idx g.base b m' = true := by
      cases p with
      | one e' => exact ⟨_, e'⟩
      | cons e' _ => exact ⟨_, e'⟩
    obtain ⟨m', hbm⟩ := hbout
    have h1 := ghost_edge_lt hinj hK hI hN hG e hbm
    have h2 := ih m hjm
    omega

theorem ghost_no_cycle {idx : Nat → Nat} {progs : List (List (List Instr))} {g : GSt}
    (hcf : CollisionFree idx progs = true) (hP : ∀ p ∈ progs, GetSetOnly p = true)
    (h : GReachable idx progs g) (i : Nat) : ¬ WaitPath idx g.base i i := by
  intro hp
  have hb := ghost_projects' h
  have hout : ∃ m, waitsFor idx g.base i m = true := by
    cases hp with
    | one e => exact ⟨_, e⟩
    | cons e _ => exact ⟨_, e⟩
  obtain ⟨m, him⟩ := hout
  have := ghost_path_lt (collisionFree_inj hcf) (keys_reachable progKeys_mem hb) (inv_reachable hb) (noRmv_reachable hP hb) (ginv_reachable hP h) hp m him
  omega

/-- goal 3 of phase 4: get_set-only programs on collision-free keys never have a wait-for cycle -/
theorem no_wait_cycle_getset_only' {idx : Nat → Nat} {progs : List (List (List Instr))} {s : St}
    (hcf : CollisionFree idx progs = true) (hP : ∀ p ∈ progs, GetSetOnly p = true)
    (h : Reachable idx progs s) (i : Nat) : ¬ WaitPath idx s i i := by
  obtain ⟨g, hg, rfl⟩ := ghost_lifts' h
  exact ghost_no_cycle hcf hP hg i

theorem deadlock_free_getset_only' {idx : Nat → Nat} {progs : List (List (List Instr))} {s : St}
    (hcf : CollisionFree idx progs = true) (hP : ∀ p ∈ progs, GetSetOnly p = true)
    (h : Reachable idx progs s) : s.deadlocked idx = false := by
  cases hd : s.deadlocked idx with
  | false => rfl
  | true =>
    obtain ⟨i, hc⟩ := deadlock_has_cycle' h hd
    exact absurd hc (no_wait_cycle_getset_only' hcf hP h i)


theorem deadlock_free_getset_only_step' {idx : Nat → Nat} {progs : List (List (List Instr))} {s : St}
    (hcf : CollisionFree idx progs = true) (hP : ∀ p ∈ progs, GetSetOnly p = true)
    (h : Reachable idx progs s) (hnt : s.allTerminal = false) :
    ∃ i ev s', step idx s i = some (ev, s') ∧ ev ≠ .spin := by
  refine Classical.byContradiction (fun hno => ?_)
  have hall : ∀ i ev s', step idx s i = some (ev, s') → ev = .spin := by
    intro i ev s' hs
    refine Classical.byContradiction (fun hne => hno ⟨i, ev, s', hs, hne⟩)
  have hd := deadlocked_iff.mpr ⟨hnt, hall⟩
  have := deadlock_free_getset_only' hcf hP h
  rw [hd] at this; cases this

theorem fair_termination_getset_only' {idx : Nat → Nat} {progs : List (List (List Instr))}
    (hcf : CollisionFree idx progs = true) (hP : ∀ p ∈ progs, GetSetOnly p = true)
    (σ : Nat → Nat) (hfair : FairSched progs.length σ) :
    ∃ n, ∀ m, n ≤ m → (runN idx (init progs) σ m).allTerminal = true := by
  obtain ⟨n, hn⟩ := fair_termination_core (Reachable idx progs) (fun s i ev s' h hs => Reachable.step h hs)
    (fun s h => inv_reachable h) (fun s h hnt => deadlock_free_getset_only_step' hcf hP h hnt) (init progs) Reachable.init σ
    (by simpa [init] using hfair)
  refine ⟨n, fun m hm => ?_⟩
  have := runN_terminal_stable hn (m - n)
  rw [show n + (m - n) = m by omega] at this
  rw [this]; exact hn

/-- the classic crossing: A `with gs 0: with gs 1`, B `with gs 1: with gs 0` — cyclic static lock order, not `Hier` for any rank -/
def crossProgs : List (List (List Instr)) :=
  [[[.getSet 0 (.ok 1), .getSet 1 (.ok 2), .exit, .exit]], [[.getSet 1 (.ok 3), .getSet 0 (.ok 4), .exit, .exit]]]

/-- collision-freeness is necessary: keys 0,1 share slot 0 and keys 2,3 share slot 1; A reads 0 and wants to populate 3,
B reads 2 and wants to populate 1 (every caller `WellNested`, get_set only) -/
def collIdx : Nat → Nat := fun k => k / 2
def collProgs : List (List (List Instr)) :=
  [[[.getSet 0 (.ok 1), .getSet 3 (.ok 2)]], [[.getSet 2 (.ok 3), .getSet 1 (.ok 4)]]]
def collSched : List Nat := List.replicate 11 0 ++ List.replicate 11 1 ++ [0, 0, 0, 0, 1, 1, 1, 1]

theorem getset_only_collision_counterexample' :
    (∀ p ∈ collProgs, GetSetOnly p = true ∧ WellNested collIdx p = true) ∧ CollisionFree collIdx collProgs = false ∧
    (run collIdx (init collProgs) collSched).1.deadlocked collIdx = true ∧
    waitsFor collIdx (run collIdx (init collProgs) collSched).1 0 1 = true ∧
    waitsFor collIdx (run collIdx (init collProgs) collSched).1 1 0 = true := by
  refine ⟨by decide, by decide, by decide, by decide, by decide⟩

/-- the crossing programs under the schedule that lets both enter their first key and then miss / hit the other one:
the instrumented run ends with everybody terminal, stamps consistent -/
theorem ghost_example' :
    (∀ p ∈ crossProgs, GetSetOnly p = true) ∧ CollisionFree id crossProgs = true ∧ (∀ ord : Nat → Nat, ¬ (∀ p ∈ crossProgs, Hier ord p = true)) ∧
    (grun id (ginit crossProgs) (List.replicate 11 0 ++ List.replicate 11 1 ++ List.replicate 12 0 ++ List.replicate 12 1)).base.allTerminal = true ∧
    (grun id (ginit crossProgs) (List.replicate 11 0 ++ List.replicate 11 1 ++ [0, 0, 0, 1, 1, 1])).stampsOK [0, 1] = true := by
  refine ⟨by decide, by decide, ?_, by decide, by decide⟩
  intro ord h
  have h0 := h _ (List.mem_cons_self ..)
  have h1 := h _ (List.mem_cons_of_mem _ (List.mem_cons_self ..))
  simp [Hier, segOk, hierOk] at h0 h1
  omega


/-! ### Phase 5: writer progress in the file-level system -/

/-- the writer invariant of the file-level system: while a successful getter's entry is being written its file is open with a
prefix of the entry's chunks, or already closed with all of them -/
def WInv (enc : Nat → List Nat) (s : DSt) : Prop :=
  ∀ (j : Nat) (c : Caller) (k v : Nat), s.base.cs[j]? = some c → c.pc = .gsPopW k (.ok v) →
    (∃ w, s.file k = .opened w ∧ w.isPrefixOf (enc v) = true) ∨ s.file k = .closed (enc v)

/-- a base step touches only the file of a key whose write lock the stepping caller holds -/
theorem lstep_file_frame {idx arr cache c ev a' ch' c'} (h : LStep idx arr cache c ev a' ch' c') (file : Nat → FileSt) (k : Nat)
    (hk : c.pc.writeKey ≠ some k) : fileAfter file ev k = file k := by
  cases h
  all_goals (first | rfl | (simp [Pc.writeKey] at hk; simp [fileAfter, upd]; intro h; exact absurd h.symm hk))

theorem winv_step {enc : Nat → List Nat} {idx : Nat → Nat} {s s' : DSt} {i : Nat} {a : DAct} {ev : DEv}
    (hI : Inv idx s.base) (hW : WInv enc s) (hs : dstep enc idx s i a = some (ev, s')) : WInv enc s' := by
  by_cases ha : a = .base
  · subst ha
    obtain ⟨e, b', hb, hok, rfl, rfl⟩ := dstep_base_facts hs
    obtain ⟨c, a', ch', c', hi, hL, rfl⟩ := step_lstep hI hb
    intro j d k v hj hpc
    simp only at hj ⊢
    rcases getElem?_set_cases hj with ⟨rfl, rfl⟩ | ⟨hne, hj0⟩
    · have := (lstep_popW hL).1 k _ hpc
      subst this
      exact Or.inl ⟨[], by simp [fileAfter, upd], by simp [List.isPrefixOf]⟩
    · have hx := writer_excl hI.locks hj0 (k := k) (by simp [hpc, Pc.writeKey])
      have hne' : c.pc.writeKey ≠ some k := by
        intro hw
        exact ((hx.2 i c (fun e => hne e.symm) hi).2 k hw) rfl
      rw [lstep_file_frame hL s.file k hne']
      exact hW j d k v hj0 hpc
  · obtain ⟨c, k0, g, w, f', hi, hpc0, hf, rfl, hcase⟩ := dstep_write_facts ha hs
    intro j d k v hj hpc
    simp only at hj ⊢
    by_cases hk : k = k0
    · subst hk
      have hji : j = i := by
        refine Classical.byContradiction (fun hne => ?_)
        have hx := writer_excl hI.locks hj (k := k) (by simp [hpc, Pc.writeKey])
        exact ((hx.2 i c (fun e => hne e.symm) hi).2 k (by simp [hpc0, Pc.writeKey])) rfl
      subst hji
      rw [hi] at hj; cases hj
      rw [hpc0] at hpc; cases hpc
      simp only [upd, if_true]
      rcases hcase with ⟨b, _, _, hok, rfl⟩ | ⟨_, _, hok, rfl⟩
      · exact Or.inl ⟨_, rfl, by simpa [chunkOk] using hok⟩
      · right; simp [closeOk] at hok; rw [hok]
    · simp only [upd, hk, if_false]
      exact hW j d k v hj hpc

theorem winv_reachable {enc : Nat → List Nat} {idx : Nat → Nat} {progs : List (List (List Instr))} {s : DSt}
    (h : DReachable enc idx progs s) : WInv enc s := by
  induction h with
  | init =>
    intro j c k v hj hpc
    have := List.mem_of_getElem? hj
    simp [dinit, init] at this
    obtain ⟨p, _, rfl⟩ := this
    simp [mkCaller, mkCallerT] at hpc
  | step hr hs ih => exact winv_step (inv_reachable (dreachable_base hr)) ih hs

theorem prefix_next {w l : List Nat} (h : w.isPrefixOf l = true) (hne : w ≠ l) : ∃ b, (w ++ [b]).isPrefixOf l = true := by
  rw [List.isPrefixOf_iff_prefix] at h
  obtain ⟨t, rfl⟩ := h
  cases t with
  | nil => simp at hne
  | cons b t' => exact ⟨b, by rw [List.isPrefixOf_iff_prefix]; exact ⟨t', by simp⟩⟩

/-- goal 2: the writer of an entry always has an enabled step — the next chunk, the close, or the return / the failure -/
theorem writer_progress' {enc : Nat → List Nat} {idx : Nat → Nat} {progs : List (List (List Instr))} {s : DSt}
    {i : Nat} {c : Caller} {k : Nat} {g : Getter} (h : DReachable enc idx progs s)
    (hi : s.base.cs[i]? = some c) (hpc : c.pc = .gsPopW k g) :
    ∃ a ev s', dstep enc idx s i a = some (ev, s') ∧ (∀ e o, ev = .base e o → e ≠ .spin) := by
  rcases c with ⟨pc, cur, rest, stack, book, tn⟩
  simp only at hpc; subst hpc
  cases g with
  | fail =>
    refine ⟨.base, _, _, by simp [dstep, step, hi, stepC, baseOk]; exact ⟨rfl, rfl⟩, ?_⟩
    intro e o he; simp at he; rw [← he.1]; simp
  | ok v =>
    rcases winv_reachable h i _ k v hi rfl with ⟨w, hf, hp⟩ | hf
    · by_cases hw : w = enc v
      · refine ⟨.close, _, _, by simp [dstep, hi, hf, closeOk, hw]; exact ⟨rfl, rfl⟩, by simp⟩
      · obtain ⟨b, hb⟩ := prefix_next hp hw
        refine ⟨.chunk b, _, _, by simp [dstep, hi, hf, chunkOk, hb]; exact ⟨rfl, rfl⟩, by simp⟩
    · refine ⟨.base, _, _, by simp [dstep, step, hi, stepC, baseOk, hf]; exact ⟨rfl, rfl⟩, ?_⟩
      intro e o he; simp at he; rw [← he.1]; simp


theorem lstep_baseOk {idx arr cache c ev a' ch' c'} (h : LStep idx arr cache c ev a' ch' c') (enc : Nat → List Nat)
    (file : Nat → FileSt) (hpc : ∀ k g, c.pc ≠ .gsPopW k g) : baseOk enc file ev = true := by
  cases h
  all_goals (first | rfl | (exfalso; exact hpc _ _ rfl))

/-- a base step of a caller that is not the writer of an entry is a step of the file-level system too -/
theorem dstep_of_step {enc : Nat → List Nat} {idx : Nat → Nat} {s : DSt} {i : Nat} {ev : Ev} {b' : St} {c : Caller}
    (hI : Inv idx s.base) (hi : s.base.cs[i]? = some c) (hpc : ∀ k g, c.pc ≠ .gsPopW k g)
    (hb : step idx s.base i = some (ev, b')) :
    dstep enc idx s i .base = some (.base ev (obsOf s.file ev), { base := b', file := fileAfter s.file ev }) := by
  obtain ⟨c0, a', ch', c', hi0, hL, rfl⟩ := step_lstep hI hb
  rw [hi] at hi0; cases hi0
  simp [dstep, hb, lstep_baseOk hL enc s.file hpc]

theorem pc_popW_dec (c : Caller) : (∃ k g, c.pc = .gsPopW k g) ∨ (∀ k g, c.pc ≠ .gsPopW k g) := by
  rcases c with ⟨pc, cur, rest, stack, book, tn⟩
  cases pc <;> simp

/-- nobody is ever stuck in the file-level system: every unfinished caller has an enabled action -/
theorem chunked_no_caller_stuck' {enc : Nat → List Nat} {idx : Nat → Nat} {progs : List (List (List Instr))} {s : DSt}
    {i : Nat} {c : Caller} (h : DReachable enc idx progs s) (hi : s.base.cs[i]? = some c) (hnt : c.terminal = false) :
    ∃ a ev s', dstep enc idx s i a = some (ev, s') := by
  have hI := inv_reachable (dreachable_base h)
  rcases pc_popW_dec c with ⟨k, g, hpc⟩ | hpc
  · obtain ⟨a, ev, s', hs, _⟩ := writer_progress' h hi hpc
    exact ⟨a, ev, s', hs⟩
  · have hsome := no_stuck_core hI hi hnt
    cases hb : step idx s.base i with
    | none => simp [hb] at hsome
    | some r => obtain ⟨ev, b'⟩ := r; exact ⟨.base, _, _, dstep_of_step hI hi hpc hb⟩

/-- deadlock freedom lifts from the lock protocol to the file-level system: an enabled non-spin protocol step is either a
step of the file-level system as it is, or its caller is a writer, which always has a chunk / close / return step -/
theorem chunked_deadlock_free_core {enc : Nat → List Nat} {idx : Nat → Nat} {progs : List (List (List Instr))} {s : DSt}
    (h : DReachable enc idx progs s) (hstep : ∃ i ev s', step idx s.base i = some (ev, s') ∧ ev ≠ .spin) :
    ∃ i a ev s', dstep enc idx s i a = some (ev, s') ∧ (∀ e o, ev = .base e o → e ≠ .spin) := by
  have hI := inv_reachable (dreachable_base h)
  obtain ⟨i, ev, b', hb, hne⟩ := hstep
  obtain ⟨c, _, _, _, hi, _, _⟩ := step_lstep hI hb
  rcases pc_popW_dec c with ⟨k, g, hpc⟩ | hpc
  · obtain ⟨a, ev', s', hs, hns⟩ := writer_progress' h hi hpc
    exact ⟨i, a, ev', s', hs, hns⟩
  · refine ⟨i, .base, _, _, dstep_of_step hI hi hpc hb, ?_⟩
    intro e o he; simp at he; rw [← he.1]; exact hne

theorem chunked_deadlock_free' {enc : Nat → List Nat} {idx ord : Nat → Nat} {progs : List (List (List Instr))} {s : DSt}
    (hord : ∀ a b, idx a = idx b → ord a = ord b) (hH : ∀ p ∈ progs, Hier ord p = true)
    (h : DReachable enc idx progs s) (hnt : s.base.allTerminal = false) :
    ∃ i a ev s', dstep enc idx s i a = some (ev, s') ∧ (∀ e o, ev = .base e o → e ≠ .spin) :=
  chunked_deadlock_free_core h (deadlock_free_ranked' hord hH (dreachable_base h) hnt)

theorem chunked_deadlock_free_getset_only' {enc : Nat → List Nat} {idx : Nat → Nat} {progs : List (List (List Instr))} {s : DSt}
    (hcf : CollisionFree idx progs = true) (hP : ∀ p ∈ progs, GetSetOnly p = true)
    (h : DReachable enc idx progs s) (hnt : s.base.allTerminal = false) :
    ∃ i a ev s', dstep enc idx s i a = some (ev, s') ∧ (∀ e o, ev = .base e o → e ≠ .spin) :=
  chunked_deadlock_free_core h (deadlock_free_getset_only_step' hcf hP (dreachable_base h) hnt)

theorem prefix_length {w l : List Nat} (h : w.isPrefixOf l = true) : w.length ≤ l.length := by
  rw [List.isPrefixOf_iff_prefix] at h
  exact h.length_le

/-- the variant of the file-level system: a protocol step that is not a failed guard decreases `St.measure`; a chunk / close
step leaves the protocol state alone and, for a successful getter, decreases what is left to write -/
theorem chunked_progress_bounded' {enc : Nat → List Nat} {idx : Nat → Nat} {progs : List (List (List Instr))} {s s' : DSt}
    {i : Nat} {a : DAct} {ev : DEv} (h : DReachable enc idx progs s) (hs : dstep enc idx s i a = some (ev, s')) :
    (∀ e o, ev = .base e o → e ≠ .spin → s'.base.measure < s.base.measure) ∧
    (a ≠ .base → s'.base = s.base ∧
      ∀ c k v, s.base.cs[i]? = some c → c.pc = .gsPopW k (.ok v) → writeLeft enc s' i < writeLeft enc s i) := by
  have hI := inv_reachable (dreachable_base h)
  constructor
  · intro e o he hne
    cases a with
    | base =>
      obtain ⟨e', b', hb, _, rfl, rfl⟩ := dstep_base_facts hs
      simp at he; obtain ⟨rfl, _⟩ := he
      exact (progress_core hI hb).1 hne
    | chunk b => obtain ⟨_, _, _, _, _, _, _, _, _, hc⟩ := dstep_write_facts (by simp) hs; rcases hc with ⟨_, _, rfl, _⟩ | ⟨_, rfl, _⟩ <;> simp at he
    | close => obtain ⟨_, _, _, _, _, _, _, _, _, hc⟩ := dstep_write_facts (by simp) hs; rcases hc with ⟨_, _, rfl, _⟩ | ⟨_, rfl, _⟩ <;> simp at he
  · intro ha
    obtain ⟨c, k, g, w, f', hi, hpc, hf, rfl, hcase⟩ := dstep_write_facts ha hs
    refine ⟨rfl, ?_⟩
    intro c0 k0 v hi0 hpc0
    rw [hi] at hi0; cases hi0
    rw [hpc] at hpc0; cases hpc0
    simp only [writeLeft, hi, hpc, hf, upd, if_true]
    rcases hcase with ⟨b, _, _, hok, rfl⟩ | ⟨_, _, hok, rfl⟩
    · have := prefix_length (by simpa [chunkOk] using hok : (w ++ [b]).isPrefixOf (enc v) = true)
      simp at this ⊢; omega
    · simp [closeOk] at hok; subst hok; simp


/-! ### translator obligations: constants extracted from the current source = the model's -/
theorem generated_consts_match' :
    Generated.openmlPermits = modelPermits ∧ Generated.digestBytes = modelDigestBytes ∧ Generated.lockTableSize = modelSlots ∧
    256 ^ Generated.digestBytes ≤ Generated.lockTableSize ∧ 1 ≤ Generated.openmlPermits := by decide


/-! ### translator obligations (phase 5): call order and lock blocks of ConcurrentCacher as extracted from the current source -/
theorem generated_call_order' :
    (∀ in1 in2 fails, Generated.getSetPath in1 in2 fails = modelGetSetPath in1 in2 fails) ∧
    (∀ inSelf fails, Generated.rmvPath inSelf fails = modelRmvPath inSelf fails) ∧ Generated.protocolExtracted = true := by
  refine ⟨?_, ?_, rfl⟩
  · intro a b c; cases a <;> cases b <;> cases c <;> decide
  · intro a b; cases a <;> cases b <;> decide

/-- the five lock blocks of `stepC` are the extracted ones: guard and updates of `_array[index]` and `_locks[(thread,key)]` -/
theorem generated_lock_blocks' (idx : Nat → Nat) (arr : Nat → Int) (cache : Nat → Option Nat)
    (k : Nat) (g : Getter) (v : Nat) (cur : List Instr) (rest : List (List Instr)) (stack : List Nat) (book : Nat → Int) (tn : Bool) :
    stepC idx arr cache ⟨.gsAcqR k g, cur, rest, stack, book, tn⟩ =
      (if guardHolds Generated.acqReadGuard (arr (idx k)) then
        some (.acqR k, upd arr (idx k) (applyUpd Generated.acqReadArray (arr (idx k))), cache,
              ⟨.gsChk1 k g, cur, rest, stack, upd book k (applyUpd Generated.acqReadLocks (book k)), tn⟩)
       else some (.spin, arr, cache, ⟨.gsAcqR k g, cur, rest, stack, book, tn⟩)) ∧
    (guardHolds Generated.acqWriteGuard (arr (idx k)) = true →
      stepC idx arr cache ⟨.gsAcqW k g, cur, rest, stack, book, tn⟩ =
        some (.acqW k, upd arr (idx k) (applyUpd Generated.acqWriteArray (arr (idx k))), cache,
              ⟨.gsChk2 k g, cur, rest, stack, upd book k (applyUpd Generated.acqWriteLocks (book k)), tn⟩)) ∧
    (guardHolds Generated.acqWriteGuard (arr (idx k)) = false → tn = false →
      stepC idx arr cache ⟨.gsAcqW k g, cur, rest, stack, book, tn⟩ = some (.spin, arr, cache, ⟨.gsAcqW k g, cur, rest, stack, book, tn⟩)) ∧
    stepC idx arr cache ⟨.gsSwB k v, cur, rest, stack, book, tn⟩ =
      some (.sw k, upd arr (idx k) (applyUpd Generated.switchArray (arr (idx k))), cache,
            ⟨.gsEnter k v, cur, rest, stack, upd book k (applyUpd Generated.switchLocks (book k)), tn⟩) ∧
    stepC idx arr cache ⟨.rmRelW k, cur, rest, stack, book, tn⟩ =
      some (.relW k, upd arr (idx k) (applyUpd Generated.relWriteArray (arr (idx k))), cache,
            ⟨.idle, cur, rest, stack, upd book k (applyUpd Generated.relWriteLocks (book k)), tn⟩) ∧
    stepC idx arr cache ⟨.exRel, cur, rest, k :: stack, book, tn⟩ =
      some (.relR k, upd arr (idx k) (applyUpd Generated.relReadArray (arr (idx k))), cache,
            ⟨.idle, cur, rest, stack, upd book k (applyUpd Generated.relReadLocks (book k)), tn⟩) := by
  -- the extracted guards / updates, semantically (so `>= 0` and `> -1` in the source are the same obligation)
  have gR : ∀ x : Int, guardHolds Generated.acqReadGuard x = decide (x ≥ 0) := by
    intro x; by_cases h : x ≥ 0 <;> simp [guardHolds, Generated.acqReadGuard, h] <;> omega
  have gW : ∀ x : Int, guardHolds Generated.acqWriteGuard x = decide (x = 0) := by
    intro x; by_cases h : x = 0 <;> simp [guardHolds, Generated.acqWriteGuard, h] <;> omega
  have u1 : ∀ x : Int, applyUpd Generated.acqReadArray x = x + 1 ∧ applyUpd Generated.acqReadLocks x = x + 1 := by
    intro x; simp [applyUpd, Generated.acqReadArray, Generated.acqReadLocks] <;> omega
  have u2 : ∀ x : Int, applyUpd Generated.relReadArray x = x - 1 ∧ applyUpd Generated.relReadLocks x = x - 1 := by
    intro x; simp [applyUpd, Generated.relReadArray, Generated.relReadLocks] <;> omega
  have u3 : ∀ x : Int, applyUpd Generated.acqWriteArray x = -1 ∧ applyUpd Generated.acqWriteLocks x = -1 := by
    intro x; simp [applyUpd, Generated.acqWriteArray, Generated.acqWriteLocks] <;> omega
  have u4 : ∀ x : Int, applyUpd Generated.relWriteArray x = 0 ∧ applyUpd Generated.relWriteLocks x = 0 := by
    intro x; simp [applyUpd, Generated.relWriteArray, Generated.relWriteLocks] <;> omega
  have u5 : ∀ x : Int, applyUpd Generated.switchArray x = 1 ∧ applyUpd Generated.switchLocks x = 1 := by
    intro x; simp [applyUpd, Generated.switchArray, Generated.switchLocks] <;> omega
  refine ⟨?_, ?_, ?_, ?_, ?_, ?_⟩
  · simp only [gR, (u1 _).1, (u1 _).2]; simp [stepC]
  · intro h; rw [gW] at h; simp at h
    simp only [(u3 _).1, (u3 _).2]; simp [stepC, h]
  · intro h ht; rw [gW] at h; simp at h
    simp [stepC, h, ht]
  · simp only [(u5 _).1, (u5 _).2]; simp [stepC]
  · simp only [(u4 _).1, (u4 _).2]; simp [stepC]
  · simp only [(u2 _).1, (u2 _).2]; simp [stepC]

/-- round h: file name and lock slot are both functions of the key itself (no normalisation on either side) -/
theorem generated_key_identity' :
    Generated.cacheNameKeyExpr = modelCacheNameKeyExpr ∧ Generated.cacheNameSuffix = modelCacheNameSuffix ∧
    Generated.indexKeyExpr = modelIndexKeyExpr := by decide


/-! ## Phase 6: typed keys -/
theorem idxOf_slot' {h : Nat → Nat} {reps : List KeyRep} (hr : slotsRespectEq h reps = true) :
    ∀ r ∈ reps, idxOf h reps r.ident = slotOf h r := by
  intro r hm
  unfold idxOf slotOf
  cases hf : reps.find? (fun x => x.ident == r.ident) with
  | none =>
    have := List.find?_eq_none.mp hf r hm
    simp at this
  | some a =>
    have ha := List.mem_of_find?_eq_some hf
    have hp := List.find?_some hf
    simp at hp
    simp only [slotsRespectEq, List.all_eq_true] at hr
    have := hr a ha r hm
    simp [hp] at this
    simpa using this

theorem typed_keys_exclusion' {h : Nat → Nat} {reps : List KeyRep} (hr : slotsRespectEq h reps = true)
    {progs : List (List (List Instr))} {s : St} (hs : Reachable (idxOf h reps) progs s)
    {i j : Nat} {c d : Caller} {a : KeyRep} (ha : a ∈ reps)
    (hi : s.cs[i]? = some c) (hj : s.cs[j]? = some d) (hne : j ≠ i) (hw : c.pc.writeKey = some a.ident) :
    ∀ b ∈ reps, (b.ident ∈ d.reads ∨ d.pc.writeKey = some b.ident ∨ b.ident ∈ c.reads) → slotOf h b ≠ slotOf h a ∧ b.ident ≠ a.ident := by
  intro b hb hor
  have me := mutual_exclusion' hs hi hj hne hw
  have e1 := idxOf_slot' hr a ha
  have e2 := idxOf_slot' hr b hb
  have key : idxOf h reps b.ident ≠ idxOf h reps a.ident := by
    rcases hor with h1 | h1 | h1
    · exact me.2.1 _ h1
    · exact me.2.2 _ h1
    · exact me.1 _ h1
  refine ⟨by rw [← e1, ← e2]; exact key, ?_⟩
  intro he; rw [he] at key; exact key rfl

theorem typed_keys_counterexample' :
    slotsRespectEq id [⟨1, 1⟩, ⟨1, 2⟩] = false ∧
    ¬ ∃ idx : Nat → Nat, ∀ r ∈ [(⟨1, 1⟩ : KeyRep), ⟨1, 2⟩], idx r.ident = slotOf id r := by
  refine ⟨by decide, ?_⟩
  rintro ⟨idx, hx⟩
  have h1 := hx ⟨1, 1⟩ (by simp)
  have h2 := hx ⟨1, 2⟩ (by simp)
  simp [slotOf] at h1 h2
  omega


theorem generated_memory_key_identity' :
    Generated.memoryKeysExtracted = true ∧ Generated.memoryKeyExprs ≠ [] ∧ ∀ e ∈ Generated.memoryKeyExprs, e = modelMemoryKeyExpr := by decide

end Coba.C19
