/-
C02 helper lemmas.  Order: byte level (serialize / splitNL / take), the bracket scanner, decoding of clean
logs, the repair step on a cut log, MakeTasks (filter form, characterisation of the emitted tasks, no
duplicates), keys/universe, restore, `finish_correct` (the core invariant step), the table codec, and the
primed statements referenced one-to-one by Props/C02.lean.  `Ex` at the end holds the concrete witnesses.
-/
import CobaVerif.Model.C02
import CobaVerif.Generated.C02GzPredicates
import Mathlib.Data.List.Basic
import Mathlib.Data.List.Perm.Basic
import Mathlib.Data.List.Nodup

namespace Coba.C02

theorem serialize_append (a b : List Bytes) : serialize (a ++ b) = serialize a ++ serialize b := by
  induction a with
  | nil => rfl
  | cons r rs ih => simp [serialize, ih]

theorem serialize_eq_nil {a : List Bytes} : serialize a = [] ↔ a = [] := by
  cases a <;> simp [serialize]

theorem splitNL_noNL {t : Bytes} (h : NoNL t) : splitNL t = ([], t) := by
  induction t with
  | nil => rfl
  | cons b bs ih =>
    have hb : b ≠ NL := fun e => h (by simp [e])
    have hbs : NoNL bs := fun m => h (List.mem_cons_of_mem _ m)
    simp [splitNL, hb, ih hbs]

theorem splitNL_line (r : Bytes) (h : NoNL r) (rest : Bytes) :
    splitNL (r ++ NL :: rest) = (r :: (splitNL rest).1, (splitNL rest).2) := by
  induction r with
  | nil => simp [splitNL]
  | cons b bs ih =>
    have hb : b ≠ NL := fun e => h (by simp [e])
    have hbs : NoNL bs := fun m => h (List.mem_cons_of_mem _ m)
    simp [splitNL, hb, ih hbs]

theorem splitNL_serialize_append (rs : List Bytes) (h : ∀ r ∈ rs, NoNL r) (t : Bytes) :
    splitNL (serialize rs ++ t) = (rs ++ (splitNL t).1, (splitNL t).2) := by
  induction rs with
  | nil => simp [serialize]
  | cons r rs ih =>
    have h1 := h r (by simp)
    have h2 : ∀ r ∈ rs, NoNL r := fun x hx => h x (List.mem_cons_of_mem _ hx)
    simp only [serialize, List.append_assoc, List.cons_append]
    rw [splitNL_line r h1, ih h2]

theorem serialize_splitNL (f : Bytes) : serialize (splitNL f).1 ++ (splitNL f).2 = f := by
  induction f with
  | nil => rfl
  | cons b bs ih =>
    simp only [splitNL]
    split
    · rename_i hb; subst hb; simp [serialize, ih]
    · split
      · rename_i h1; rw [h1] at ih; simp [serialize] at ih ⊢; exact ih
      · rename_i l ls h1; rw [h1] at ih; simp [serialize] at ih ⊢; exact ih

/-- the cut: a `k`-byte prefix of a log is some complete records followed by a (possibly
complete, possibly empty) prefix of the next one -/
theorem take_serialize (rs : List Bytes) (k : Nat) :
    ∃ j p, (serialize rs).take k = serialize (rs.take j) ++ p ∧
      (p = [] ∨ ∃ r, rs[j]? = some r ∧ p <+: r) := by
  induction rs generalizing k with
  | nil => exact ⟨0, [], by simp [serialize], Or.inl rfl⟩
  | cons r rs ih =>
    by_cases hk : k ≤ r.length
    · refine ⟨0, r.take k, ?_, Or.inr ⟨r, by simp, List.take_prefix _ _⟩⟩
      simp [serialize, List.take_append, hk]
    · obtain ⟨j, p, h1, h2⟩ := ih (k - r.length - 1)
      refine ⟨j + 1, p, ?_, ?_⟩
      · have : k - r.length = (k - r.length - 1) + 1 := by omega
        simp only [serialize, List.take_append, List.take_succ_cons, List.append_assoc]
        rw [this, List.take_succ_cons, h1]
        have : r.take k = r := List.take_of_length_le (by omega)
        simp [this]
      · simpa using h2

theorem closes_prefix_free (s : St) (l p : Bytes) (h : closes s l = true) (hp : p <+: l) (hne : p ≠ l) :
    closes s p = false := by
  induction l generalizing s p with
  | nil => simp [closes] at h
  | cons b bs ih =>
    cases p with
    | nil => rfl
    | cons c cs =>
      obtain ⟨t, ht⟩ := hp
      simp only [List.cons_append, List.cons.injEq] at ht
      obtain ⟨rfl, ht⟩ := ht
      simp only [closes] at h ⊢
      split at h
      · rename_i h0
        simp only [h0, if_true]
        simp at h
        subst h
        simp at ht
        exact absurd (by rw [ht.1]) hne
      · rename_i h0
        simp only [h0, if_false]
        apply ih _ _ h ⟨t, ht⟩
        intro e; exact hne (by rw [e])

theorem balanced_prefix_free (r p : Bytes) (h : balanced r = true) (hp : p <+: r) (hne : p ≠ r) :
    balanced p = false := by
  cases r with
  | nil => simp [balanced] at h
  | cons b bs =>
    cases p with
    | nil => rfl
    | cons c cs =>
      obtain ⟨t, ht⟩ := hp
      simp only [List.cons_append, List.cons.injEq] at ht
      obtain ⟨rfl, ht⟩ := ht
      simp only [balanced, Bool.and_eq_true, decide_eq_true_eq] at h
      simp only [balanced]
      rw [closes_prefix_free _ bs cs h.2 ⟨t, ht⟩ (fun e => hne (by rw [e]))]
      simp

theorem NoNL_prefix {p r : Bytes} (h : NoNL r) (hp : p <+: r) : NoNL p :=
  fun m => h (hp.subset m)

theorem lines_serialize (rs : List Bytes) (h1 : ∀ r ∈ rs, NoNL r) (h2 : ∀ r ∈ rs, r ≠ []) :
    lines (serialize rs) = rs := by
  have := splitNL_serialize_append rs h1 []
  simp only [List.append_nil] at this
  simp only [lines, this, splitNL]
  simp only [List.append_nil, List.filter_append]
  rw [List.filter_eq_self.mpr]
  · simp
  · intro r hr
    have := h2 r hr
    cases r <;> simp_all

theorem decodeLines_map_enc (c : Codec) (K : List Rec) (h : ∀ r ∈ K, c.dec (c.enc r) = some r) :
    decodeLines c (K.map c.enc) = some K := by
  induction K with
  | nil => rfl
  | cons r rs ih =>
    have h1 := h r (by simp)
    have h2 := ih (fun x hx => h x (List.mem_cons_of_mem _ hx))
    simp [decodeLines, h1, h2]

theorem decodeAll_serialize (c : Codec) (U K : List Rec) (hc : c.Lawful U) (hK : ∀ r ∈ K, r ∈ U)
    (r0 : Rec) (K' : List Rec) (hhead : K = r0 :: K') (hver : r0.key = Key.ver) :
    decodeAll c (serialize (K.map c.enc)) = some K := by
  have hl : lines (serialize (K.map c.enc)) = K.map c.enc := by
    apply lines_serialize
    · intro r hr
      obtain ⟨x, hx, rfl⟩ := List.mem_map.mp hr
      exact hc.noNL x (hK x hx)
    · intro r hr
      obtain ⟨x, hx, rfl⟩ := List.mem_map.mp hr
      exact hc.ne x (hK x hx)
  have hd := decodeLines_map_enc c K (fun r hr => hc.dec_enc r (hK r hr))
  simp only [decodeAll, hl, hd]
  subst hhead
  simp [hver]

/-- the repair step on a cut log: the file becomes a clean log of `A`, or of `A ++ [r]` when the
tail is the complete text of `r` -/
theorem repair_cut (c : Codec) (U A : List Rec) (hc : c.Lawful U) (hA : ∀ r ∈ A, r ∈ U) (p : Bytes)
    (hp : p = [] ∨ ∃ r ∈ U, p <+: c.enc r) :
    (repair c (serialize (A.map c.enc) ++ p) = serialize (A.map c.enc) ∧ (p = [] ∨ ∃ r ∈ U, p <+: c.enc r ∧ p ≠ c.enc r)) ∨
    (∃ r ∈ U, p = c.enc r ∧ repair c (serialize (A.map c.enc) ++ p) = serialize ((A ++ [r]).map c.enc)) := by
  have hNo : NoNL p := by
    rcases hp with rfl | ⟨r, hr, hpr⟩
    · simp [NoNL]
    · exact NoNL_prefix (hc.noNL r hr) hpr
  have hsplit : splitNL (serialize (A.map c.enc) ++ p) = (A.map c.enc, p) := by
    rw [splitNL_serialize_append _ _ p, splitNL_noNL hNo]
    · simp
    · intro r hr
      obtain ⟨x, hx, rfl⟩ := List.mem_map.mp hr
      exact hc.noNL x (hA x hx)
  rcases hp with rfl | ⟨r, hr, hpr⟩
  · left
    simp only [List.append_nil] at hsplit ⊢
    simp [repair, hsplit]
  · by_cases hpe : p = []
    · subst hpe
      left
      simp only [List.append_nil] at hsplit ⊢
      simp [repair, hsplit]
    · by_cases hfull : p = c.enc r
      · right
        refine ⟨r, hr, hfull, ?_⟩
        have hd : (c.dec p).isSome = true := by rw [hfull, hc.dec_enc r hr]; rfl
        have hpe' : p.isEmpty = false := by cases p <;> simp_all
        simp only [repair, hsplit, hpe', hd]
        simp [serialize_append, serialize, hfull]
      · left
        have hd : (c.dec p).isSome = false := by rw [hc.torn r hr p hpr hfull]; rfl
        have hpe' : p.isEmpty = false := by cases p <;> simp_all
        refine ⟨?_, Or.inr ⟨r, hr, hpr, hfull⟩⟩
        simp [repair, hsplit, hpe', hd]

theorem done_nil (fx : Bool) (t : Task) : done fx [] t = false := rfl

theorem mkAux_filter (fx : Bool) (K : List Rec) (ts : List (Nat × Nat × Nat)) (E L V : List Nat) :
    mkAux fx K ts E L V = (mkAux false [] ts E L V).filter (fun t => !done fx K t) := by
  induction ts generalizing E L V with
  | nil => rfl
  | cons t ts ih =>
    obtain ⟨e, l, v⟩ := t
    simp only [mkAux, done_nil, List.filter_append, ih]
    congr 1
    · by_cases h : e ∈ E <;> by_cases h2 : done fx K (Task.penv E.length) = true <;> simp [h, h2]
    congr 1
    · by_cases h : l ∈ L <;> by_cases h2 : done fx K (Task.plrn L.length) = true <;> simp [h, h2]
    congr 1
    · by_cases h : v ∈ V <;> by_cases h2 : done fx K (Task.pval V.length) = true <;> simp [h, h2]
    congr 1
    · generalize Task.eval _ _ _ = tt
      by_cases h2 : done fx K tt = true <;> simp [h2]

theorem makeTasks_filter (fx : Bool) (K : List Rec) (ts : List (Nat × Nat × Nat)) :
    makeTasks fx K ts = (makeTasks false [] ts).filter (fun t => !done fx K t) := mkAux_filter fx K ts [] [] []

/-- with nothing restored the switch does not matter -/
theorem makeTasks_nil (fx : Bool) (ts : List (Nat × Nat × Nat)) : makeTasks fx [] ts = makeTasks false [] ts := by
  rw [makeTasks_filter fx [] ts]
  simp [done_nil]

theorem Task.key_inj {a b : Task} (h : a.key = b.key) : a = b := by
  cases a <;> cases b <;> simp_all [Task.key]

theorem eq_of_key_eq {L : List Rec} (h : (L.map (·.key)).Nodup) {a b : Rec} (ha : a ∈ L) (hb : b ∈ L)
    (hk : a.key = b.key) : a = b :=
  List.inj_on_of_nodup_map h ha hb hk

theorem filterMap_out_keys_nodup (out : Task → Option Rec) (hout : ∀ t r, out t = some r → r.key = t.key)
    (ts : List Task) (h : ts.Nodup) : ((ts.filterMap out).map (·.key)).Nodup := by
  induction ts with
  | nil => simp
  | cons t ts ih =>
    have ⟨hnot, hts⟩ := List.nodup_cons.mp h
    cases ho : out t with
    | none => simpa [List.filterMap_cons, ho] using ih hts
    | some r =>
      simp only [List.filterMap_cons, ho, List.map_cons, List.nodup_cons]
      refine ⟨?_, ih hts⟩
      intro hm
      obtain ⟨r', hr', hk⟩ := List.mem_map.mp hm
      obtain ⟨t', ht', ho'⟩ := List.mem_filterMap.mp hr'
      have : t'.key = t.key := by rw [← hout t' r' ho', ← hout t r ho, hk]
      exact hnot (Task.key_inj this ▸ ht')

theorem Task.key_ne_ver (t : Task) : t.key ≠ Key.ver := by cases t <;> simp [Task.key]
theorem Task.key_ne_exp (t : Task) : t.key ≠ Key.exp := by cases t <;> simp [Task.key]

theorem mem_universe_iff (w : World) (r : Rec) :
    r ∈ w.universe ↔ r = w.ver ∨ r = w.exp ∨ ∃ t ∈ makeTasks false [] w.triples, w.out t = some r := by
  simp [World.universe, List.mem_filterMap]

theorem universe_keys_nodup (w : World) (hw : w.OK) (hT : (makeTasks false [] w.triples).Nodup) :
    (w.universe.map (·.key)).Nodup := by
  have hF := filterMap_out_keys_nodup w.out hw.out_key _ hT
  have hk : ∀ k ∈ ((makeTasks false [] w.triples).filterMap w.out).map (·.key), k ≠ Key.ver ∧ k ≠ Key.exp := by
    intro k hk
    obtain ⟨r, hr, rfl⟩ := List.mem_map.mp hk
    obtain ⟨t, _, ho⟩ := List.mem_filterMap.mp hr
    rw [hw.out_key t r ho]
    exact ⟨t.key_ne_ver, t.key_ne_exp⟩
  simp only [World.universe, List.map_cons, List.nodup_cons, List.mem_cons, hw.ver_key, hw.exp_key]
  refine ⟨?_, ?_, hF⟩
  · rintro (h | h)
    · cases h
    · exact (hk _ h).1 rfl
  · intro h
    exact (hk _ h).2 rfl

theorem done_iff (w : World) (fx : Bool) (K : List Rec) (hI : fx = true ∨ NonEmptyI w ∨ K = [])
    (hK : ∀ r ∈ K, r ∈ w.universe) (t : Task) :
    done fx K t = true ↔ ∃ r ∈ K, r.key = t.key := by
  simp only [done, List.any_eq_true, Bool.and_eq_true, decide_eq_true_eq]
  constructor
  · rintro ⟨r, hr, hk, _⟩
    exact ⟨r, hr, hk⟩
  · rintro ⟨r, hr, hk⟩
    refine ⟨r, hr, hk, ?_⟩
    rcases hI with h | h | h
    · simp [h]
    · cases t with
      | eval e l v => have := h r (hK r hr) e l v hk; simp [this]
      | _ => simp [Task.isEval]
    · subst h; simp at hr

/-- shape of a cut log, at record level -/
theorem cut_shape (w : World) (L : List Rec) (k : Nat) :
    ∃ j p, (serialize (L.map w.c.enc)).take k = serialize ((L.take j).map w.c.enc) ++ p ∧
      (p = [] ∨ ∃ x, L[j]? = some x ∧ p <+: w.c.enc x) := by
  obtain ⟨j, p, h1, h2⟩ := take_serialize (L.map w.c.enc) k
  refine ⟨j, p, by rw [h1, List.map_take], ?_⟩
  rcases h2 with h | ⟨r, hr, hp⟩
  · exact Or.inl h
  · right
    rw [List.getElem?_map] at hr
    cases hx : L[j]? with
    | none => simp [hx] at hr
    | some x =>
      simp [hx] at hr
      exact ⟨x, rfl, hr ▸ hp⟩

theorem mem_of_getElem? {α} {l : List α} {j : Nat} {x : α} (h : l[j]? = some x) : x ∈ l :=
  List.mem_of_getElem? h

/-- after the repair step the file is the clean log of a prefix `K` of `L` that contains every
complete line of the cut -/
theorem repair_prefix (w : World) (hw : w.OK) (L : List Rec) (hL : ∀ r ∈ L, r ∈ w.universe) (k : Nat) :
    ∃ j p K, (serialize (L.map w.c.enc)).take k = serialize ((L.take j).map w.c.enc) ++ p ∧
      (p = [] ∨ ∃ x, L[j]? = some x ∧ p <+: w.c.enc x) ∧
      repair w.c ((serialize (L.map w.c.enc)).take k) = serialize (K.map w.c.enc) ∧
      K <+: L ∧ L.take j <+: K := by
  obtain ⟨j, p, h1, h2⟩ := cut_shape w L k
  have hA : ∀ r ∈ L.take j, r ∈ w.universe := fun r hr => hL r (List.mem_of_mem_take hr)
  have hp' : p = [] ∨ ∃ r ∈ w.universe, p <+: w.c.enc r := by
    rcases h2 with h | ⟨x, hx, hp⟩
    · exact Or.inl h
    · exact Or.inr ⟨x, hL x (mem_of_getElem? hx), hp⟩
  rcases repair_cut w.c w.universe (L.take j) hw.codec hA p hp' with ⟨hr, _⟩ | ⟨r, hr, hpr, hrep⟩
  · exact ⟨j, p, L.take j, h1, h2, by rw [h1, hr], List.take_prefix _ _, List.prefix_refl _⟩
  · -- the tail is the complete text of a record: it is the next record of the log
    rcases h2 with h | ⟨x, hx, hp⟩
    · exact absurd (hpr ▸ h) (hw.codec.ne r hr)
    · have hxU := hL x (mem_of_getElem? hx)
      have hrx : r = x := by
        by_contra hne
        have hpx : p ≠ w.c.enc x := by
          intro e
          have := hw.codec.dec_enc r hr
          rw [← hpr, e, hw.codec.dec_enc x hxU] at this
          exact hne (Option.some.inj this).symm
        have := hw.codec.torn x hxU p hp hpx
        rw [hpr, hw.codec.dec_enc r hr] at this
        cases this
      subst hrx
      refine ⟨j, p, L.take (j + 1), h1, Or.inr ⟨r, hx, hp⟩, ?_, List.take_prefix _ _, ?_⟩
      · rw [h1, hrep, List.take_add_one, hx]; rfl
      · rw [List.take_add_one]; exact List.prefix_append _ _

theorem restore_fixed (fl : Flags) (hr : fl.repairPlain = true) (w : World) (hw : w.OK) (L : List Rec) (hL : ValidLog w L) (k : Nat) :
    ∃ j p K, (serialize (L.map w.c.enc)).take k = serialize ((L.take j).map w.c.enc) ++ p ∧
      (p = [] ∨ ∃ x, L[j]? = some x ∧ p <+: w.c.enc x) ∧
      restore fl w.c (some ((serialize (L.map w.c.enc)).take k)) = some ⟨serialize (K.map w.c.enc), K⟩ ∧
      K <+: L ∧ L.take j <+: K := by
  obtain ⟨j, p, K, h1, h2, hrep, hKL, hjK⟩ := repair_prefix w hw L hL.2.1 k
  refine ⟨j, p, K, h1, h2, ?_, hKL, hjK⟩
  simp only [restore, hr, if_true, hrep, Bool.true_and]
  cases hK : K with
  | nil => simp [serialize]
  | cons r0 K' =>
    have hne : (serialize ((r0 :: K').map w.c.enc)).isEmpty = false := by
      simp [serialize]
    rw [hne]
    have hKU : ∀ r ∈ r0 :: K', r ∈ w.universe := fun r hr => hL.2.1 r (hKL.subset (hK ▸ hr))
    have hhead : r0 = w.ver := by
      apply hL.2.2
      obtain ⟨t, ht⟩ := hKL
      rw [← ht, hK]; rfl
    have := decodeAll_serialize w.c w.universe (r0 :: K') hw.codec hKU r0 K' rfl (hhead ▸ hw.ver_key)
    simp only [List.map_cons] at this ⊢
    rw [this]
    simp

theorem ValidLog.prefix {w : World} {L K : List Rec} (h : ValidLog w L) (hK : K <+: L) : ValidLog w K := by
  refine ⟨?_, fun r hr => h.2.1 r (hK.subset hr), ?_⟩
  · exact (h.1.sublist ((hK.sublist).map _))
  · intro r hr
    apply h.2.2
    obtain ⟨t, rfl⟩ := hK
    cases K with
    | nil => simp at hr
    | cons a K' => simpa using hr

theorem ValidLog.nil (w : World) : ValidLog w [] := ⟨by simp, by simp, by simp⟩

theorem any_exp_iff (w : World) (hw : w.OK) (hT : (makeTasks false [] w.triples).Nodup)
    (K : List Rec) (hK : ∀ r ∈ K, r ∈ w.universe) :
    K.any (fun r => decide (r.key = Key.exp)) = true ↔ w.exp ∈ K := by
  simp only [List.any_eq_true, decide_eq_true_eq]
  constructor
  · rintro ⟨r, hr, hk⟩
    have : r = w.exp := eq_of_key_eq (universe_keys_nodup w hw hT) (hK r hr)
      (by simp [World.universe]) (by rw [hk, hw.exp_key])
    exact this ▸ hr
  · intro h
    exact ⟨w.exp, h, hw.exp_key⟩

/-- what `preamble` writes, under the repaired rule or when the rule does not matter -/
theorem preamble_spec (w : World) (hw : w.OK) (hT : (makeTasks false [] w.triples).Nodup) (fl : Flags)
    (K : List Rec) (hK : ∀ r ∈ K, r ∈ w.universe)
    (hpre : fl.preambleFix = true ∨ K = [] ∨ w.exp ∈ K) :
    (K = [] ∧ preamble fl w.ver w.exp K = [w.ver, w.exp]) ∨
    (K ≠ [] ∧ w.exp ∈ K ∧ preamble fl w.ver w.exp K = []) ∨
    (K ≠ [] ∧ w.exp ∉ K ∧ preamble fl w.ver w.exp K = [w.exp]) := by
  cases K with
  | nil => left; simp [preamble]
  | cons a K' =>
    right
    have hany := any_exp_iff w hw hT (a :: K') hK
    by_cases he : w.exp ∈ a :: K'
    · left
      refine ⟨by simp, he, ?_⟩
      simp only [preamble, List.isEmpty_cons, hany.mpr he]
      simp
    · right
      refine ⟨by simp, he, ?_⟩
      have hf : fl.preambleFix = true := by
        rcases hpre with h | h | h
        · exact h
        · cases h
        · exact absurd h he
      have : (a :: K').any (fun r => decide (r.key = Key.exp)) = false := by
        cases h : (a :: K').any (fun r => decide (r.key = Key.exp)) with
        | false => rfl
        | true => exact absurd (hany.mp h) he
      simp only [preamble, List.isEmpty_cons, this, hf]
      simp

theorem finish_correct (w : World) (hw : w.OK) (hT : (makeTasks false [] w.triples).Nodup) (fx : Bool)
    (K : List Rec) (hI : fx = true ∨ NonEmptyI w ∨ K = []) (hKv : ValidLog w K) (fl : Flags)
    (hpre : fl.preambleFix = true ∨ K = [] ∨ w.exp ∈ K)
    (app : List Rec) (happ : app.Perm ((makeTasks fx K w.triples).filterMap w.out)) :
    let o := finish w.c ⟨serialize (K.map w.c.enc), K⟩ (makeTasks fx K w.triples) (preamble fl w.ver w.exp K) app
    o.file = serialize ((K ++ o.appended).map w.c.enc) ∧
    o.final = some (K ++ o.appended) ∧
    ValidLog w (K ++ o.appended) ∧
    (K ++ o.appended).Perm w.universe ∧
    (∀ t ∈ o.tasks, ∀ r ∈ K, r.key ≠ t.key) := by
  intro o
  have hUk := universe_keys_nodup w hw hT
  have hKU := hKv.2.1
  have hverU : w.ver ∈ w.universe := by simp [World.universe]
  have hexpU : w.exp ∈ w.universe := by simp [World.universe]
  -- tasks of the resumed run
  have hTf := makeTasks_filter fx K w.triples
  have hTn : (makeTasks fx K w.triples).Nodup := hTf ▸ hT.filter _
  have hmem_app : ∀ r, r ∈ app ↔ ∃ t ∈ makeTasks false [] w.triples, done fx K t = false ∧ w.out t = some r := by
    intro r
    rw [happ.mem_iff, List.mem_filterMap]
    constructor
    · rintro ⟨t, ht, ho⟩
      rw [hTf, List.mem_filter] at ht
      exact ⟨t, ht.1, by simpa using ht.2, ho⟩
    · rintro ⟨t, ht, hd, ho⟩
      exact ⟨t, by rw [hTf, List.mem_filter]; exact ⟨ht, by simp [hd]⟩, ho⟩
  have happU : ∀ r ∈ app, r ∈ w.universe := by
    intro r hr
    obtain ⟨t, ht, _, ho⟩ := (hmem_app r).mp hr
    exact (mem_universe_iff w r).mpr (Or.inr (Or.inr ⟨t, ht, ho⟩))
  have happk : (app.map (·.key)).Nodup :=
    (happ.map _).nodup_iff.mpr (filterMap_out_keys_nodup w.out hw.out_key _ hTn)
  have happ_task : ∀ r ∈ app, ∃ t, r.key = t.key ∧ done fx K t = false := by
    intro r hr
    obtain ⟨t, _, hd, ho⟩ := (hmem_app r).mp hr
    exact ⟨t, hw.out_key t r ho, hd⟩
  have hnot_done : ∀ t, done fx K t = false → ∀ r ∈ K, r.key ≠ t.key := by
    intro t hd r hr hk
    have := (done_iff w fx K hI hKU t).mpr ⟨r, hr, hk⟩
    rw [hd] at this; cases this
  -- the preamble
  have hP := preamble_spec w hw hT fl K hKU hpre
  have hpreU : ∀ r ∈ preamble fl w.ver w.exp K, r ∈ w.universe := by
    intro r hr
    rcases hP with ⟨_, h⟩ | ⟨_, _, h⟩ | ⟨_, _, h⟩ <;> rw [h] at hr <;> simp at hr
    · rcases hr with rfl | rfl <;> assumption
    · rw [hr]; exact hexpU
  have hFU : ∀ r ∈ K ++ (preamble fl w.ver w.exp K ++ app), r ∈ w.universe := by
    intro r hr
    simp only [List.mem_append] at hr
    rcases hr with h | h | h
    · exact hKU r h
    · exact hpreU r h
    · exact happU r h
  -- head of the final log is the version line
  have hhead : ∀ r, (K ++ (preamble fl w.ver w.exp K ++ app)).head? = some r → r = w.ver := by
    intro r hr
    cases hK : K with
    | nil =>
      rcases hP with ⟨_, h⟩ | ⟨hne, _⟩ | ⟨hne, _⟩
      · rw [hK] at hr h; rw [h] at hr; simpa using hr.symm
      · exact absurd hK hne
      · exact absurd hK hne
    | cons a K' =>
      rw [hK] at hr
      apply hKv.2.2
      rw [hK]; simpa using hr
  -- keys of the final log are pairwise distinct
  have hkeys : ((K ++ (preamble fl w.ver w.exp K ++ app)).map (·.key)).Nodup := by
    simp only [List.map_append]
    rw [List.nodup_append, List.nodup_append]
    refine ⟨hKv.1, ⟨?_, happk, ?_⟩, ?_⟩
    · rcases hP with ⟨_, h⟩ | ⟨_, _, h⟩ | ⟨_, _, h⟩ <;> rw [h] <;> simp [hw.ver_key, hw.exp_key]
    · intro a ha b hb hab
      subst hab
      obtain ⟨r, hr, rfl⟩ := List.mem_map.mp hb
      obtain ⟨t, hk, _⟩ := happ_task r hr
      rcases hP with ⟨_, h⟩ | ⟨_, _, h⟩ | ⟨_, _, h⟩ <;> rw [h] at ha <;>
        simp [hw.ver_key, hw.exp_key] at ha
      · rcases ha with ha | ha
        · exact t.key_ne_ver (hk ▸ ha)
        · exact t.key_ne_exp (hk ▸ ha)
      · exact t.key_ne_exp (hk ▸ ha)
    · intro a ha b hb hab
      subst hab
      obtain ⟨r, hr, rfl⟩ := List.mem_map.mp ha
      rcases List.mem_append.mp hb with hb | hb
      · rcases hP with ⟨hK, _⟩ | ⟨_, _, h⟩ | ⟨_, hne, h⟩
        · rw [hK] at hr; simp at hr
        · rw [h] at hb; simp at hb
        · rw [h] at hb
          simp only [List.map_cons, List.map_nil, List.mem_singleton, hw.exp_key] at hb
          have : r = w.exp := eq_of_key_eq hUk (hKU r hr) hexpU (by rw [hb, hw.exp_key])
          exact hne (this ▸ hr)
      · obtain ⟨r', hr', hk'⟩ := List.mem_map.mp hb
        obtain ⟨t, hk, hd⟩ := happ_task r' hr'
        exact hnot_done t hd r hr (by rw [← hk, hk'])
  have hvalid : ValidLog w (K ++ (preamble fl w.ver w.exp K ++ app)) := ⟨hkeys, hFU, hhead⟩
  -- the final file and its decoding
  have hfile : o.file = serialize ((K ++ (preamble fl w.ver w.exp K ++ app)).map w.c.enc) := by
    simp only [o, finish, List.map_append, serialize_append]
  have hfinal : o.final = some (K ++ (preamble fl w.ver w.exp K ++ app)) := by
    have hf : o.final = decodeAll w.c o.file := rfl
    rw [hf, hfile]
    have hne : K ++ (preamble fl w.ver w.exp K ++ app) ≠ [] := by
      rcases hP with ⟨_, h⟩ | ⟨hne, _⟩ | ⟨hne, _⟩
      · rw [h]; simp
      · simp [hne]
      · simp [hne]
    obtain ⟨r0, F', hF⟩ := List.exists_cons_of_ne_nil hne
    have h0 : r0 = w.ver := hhead r0 (by rw [hF]; rfl)
    exact decodeAll_serialize w.c w.universe _ hw.codec hFU r0 F' hF (h0 ▸ hw.ver_key)
  -- nothing lost, nothing twice
  have hperm : (K ++ (preamble fl w.ver w.exp K ++ app)).Perm w.universe := by
    rw [List.perm_ext_iff_of_nodup (List.Nodup.of_map _ hkeys) (List.Nodup.of_map _ hUk)]
    intro r
    constructor
    · exact hFU r
    · intro hr
      simp only [List.mem_append]
      rcases (mem_universe_iff w r).mp hr with rfl | rfl | ⟨t, ht, ho⟩
      · rcases hP with ⟨_, h⟩ | ⟨hne, _, _⟩ | ⟨hne, _, _⟩
        · right; left; rw [h]; simp
        · left
          cases hK : K with
          | nil => exact absurd hK hne
          | cons a K' =>
            have : a = w.ver := hKv.2.2 a (by rw [hK]; rfl)
            rw [this]; simp
        · left
          cases hK : K with
          | nil => exact absurd hK hne
          | cons a K' =>
            have : a = w.ver := hKv.2.2 a (by rw [hK]; rfl)
            rw [this]; simp
      · rcases hP with ⟨_, h⟩ | ⟨_, he, _⟩ | ⟨_, _, h⟩
        · right; left; rw [h]; simp
        · left; exact he
        · right; left; rw [h]; simp
      · cases hd : done fx K t with
        | true =>
          left
          obtain ⟨r', hr', hk'⟩ := (done_iff w fx K hI hKU t).mp hd
          have : r' = r := eq_of_key_eq hUk (hKU r' hr') hr (by rw [hk', hw.out_key t r ho])
          exact this ▸ hr'
        | false =>
          right; right
          exact (hmem_app r).mpr ⟨t, ht, hd, ho⟩
  refine ⟨hfile, hfinal, hvalid, hperm, ?_⟩
  intro t ht r hr
  have ht' : t ∈ makeTasks fx K w.triples := ht
  rw [hTf, List.mem_filter] at ht'
  exact hnot_done t (by simpa using ht'.2) r hr

/-- the dict of objects after the whole loop -/
def grow : List Nat → List Nat → List Nat
  | [], E => E
  | x :: xs, E => grow xs (ins E x)

theorem prefix_ins (E : List Nat) (x : Nat) : E <+: ins E x := by
  unfold ins; split
  · exact List.prefix_refl _
  · exact List.prefix_append E [x]

theorem prefix_grow (xs E : List Nat) : E <+: grow xs E := by
  induction xs generalizing E with
  | nil => exact List.prefix_refl _
  | cons x xs ih => exact (prefix_ins E x).trans (ih _)

theorem idxOf_prefix {E E2 : List Nat} {x : Nat} (hx : x ∈ E) (h : E <+: E2) : E2.idxOf x = E.idxOf x := by
  obtain ⟨t, rfl⟩ := h
  exact List.idxOf_append_of_mem hx

theorem mem_ins (E : List Nat) (x : Nat) : x ∈ ins E x := by
  unfold ins; split
  · rename_i h; simpa using h
  · simp

theorem length_ins (E : List Nat) (x : Nat) : E.length ≤ (ins E x).length := (prefix_ins E x).length_le

theorem length_ins_new (E : List Nat) (x : Nat) (h : E.contains x = false) : (ins E x).length = E.length + 1 := by
  have : x ∉ E := by simpa using h
  simp [ins, this]

theorem mem_ite_singleton {α} {c : Prop} [Decidable c] {x t : α} (h : t ∈ (if c then [x] else [])) : t = x ∧ c := by
  split at h
  · simp at h; exact ⟨h, ‹_›⟩
  · simp at h

theorem ite_singleton_nodup {α} {c : Prop} [Decidable c] {x : α} : (if c then [x] else []).Nodup := by
  by_cases h : c <;> simp [h]

def TaskSpec (ts : List (Nat × Nat × Nat)) (E L V : List Nat) : Task → Prop
  | .penv i => E.length ≤ i
  | .plrn i => L.length ≤ i
  | .pval i => V.length ≤ i
  | .eval a b c => ∃ e l v, (e, l, v) ∈ ts ∧ a = (grow (ts.map (·.1)) E).idxOf e ∧
      b = (grow (ts.map (·.2.1)) L).idxOf l ∧ c = (grow (ts.map (·.2.2)) V).idxOf v

theorem mem_mkAux_nil (ts : List (Nat × Nat × Nat)) (E L V : List Nat) (t : Task)
    (h : t ∈ mkAux false [] ts E L V) : TaskSpec ts E L V t := by
  induction ts generalizing E L V with
  | nil => simp [mkAux] at h
  | cons tr ts ih =>
    obtain ⟨e, l, v⟩ := tr
    simp only [mkAux, done_nil, List.mem_append] at h
    rcases h with h | h | h | h | h
    · obtain ⟨rfl, _⟩ := mem_ite_singleton h; simp [TaskSpec]
    · obtain ⟨rfl, _⟩ := mem_ite_singleton h; simp [TaskSpec]
    · obtain ⟨rfl, _⟩ := mem_ite_singleton h; simp [TaskSpec]
    · obtain ⟨rfl, _⟩ := mem_ite_singleton h
      refine ⟨e, l, v, by simp, ?_, ?_, ?_⟩
      · exact (idxOf_prefix (mem_ins E e) (prefix_grow _ _)).symm
      · exact (idxOf_prefix (mem_ins L l) (prefix_grow _ _)).symm
      · exact (idxOf_prefix (mem_ins V v) (prefix_grow _ _)).symm
    · have := ih _ _ _ h
      cases t with
      | penv i => exact Nat.le_trans (length_ins E e) this
      | plrn i => exact Nat.le_trans (length_ins L l) this
      | pval i => exact Nat.le_trans (length_ins V v) this
      | eval a b c =>
        obtain ⟨e2, l2, v2, hm, ha, hb, hc⟩ := this
        exact ⟨e2, l2, v2, List.mem_cons_of_mem _ hm, ha, hb, hc⟩

theorem mem_grow_of_mem (xs E : List Nat) (x : Nat) (h : x ∈ xs) : x ∈ grow xs E := by
  induction xs generalizing E with
  | nil => simp at h
  | cons y ys ih =>
    rcases List.mem_cons.mp h with rfl | h
    · exact (prefix_grow ys _).subset (mem_ins E x)
    · exact ih _ h

theorem mkAux_nil_nodup (ts : List (Nat × Nat × Nat)) (hts : ts.Nodup) (E L V : List Nat) :
    (mkAux false [] ts E L V).Nodup := by
  induction ts generalizing E L V with
  | nil => simp [mkAux]
  | cons tr ts ih =>
    obtain ⟨e, l, v⟩ := tr
    have ⟨hnot, hts'⟩ := List.nodup_cons.mp hts
    have hrest := ih hts' (ins E e) (ins L l) (ins V v)
    have hspec := fun t ht => mem_mkAux_nil ts (ins E e) (ins L l) (ins V v) t ht
    simp only [mkAux, done_nil]
    rw [List.nodup_append]
    refine ⟨ite_singleton_nodup, ?_, ?_⟩
    · rw [List.nodup_append]
      refine ⟨ite_singleton_nodup, ?_, ?_⟩
      · rw [List.nodup_append]
        refine ⟨ite_singleton_nodup, ?_, ?_⟩
        · rw [List.nodup_append]
          refine ⟨ite_singleton_nodup, hrest, ?_⟩
          intro a ha b hb hab
          obtain ⟨rfl, _⟩ := mem_ite_singleton ha
          subst hab
          obtain ⟨e2, l2, v2, hm, h1, h2, h3⟩ := hspec _ hb
          have he : e = e2 := by
            have hx := idxOf_prefix (mem_ins E e) (prefix_grow (ts.map (·.1)) (ins E e))
            rw [← hx] at h1
            exact (List.idxOf_inj ((prefix_grow _ _).subset (mem_ins E e))).mp h1
          have hl : l = l2 := by
            have hx := idxOf_prefix (mem_ins L l) (prefix_grow (ts.map (·.2.1)) (ins L l))
            rw [← hx] at h2
            exact (List.idxOf_inj ((prefix_grow _ _).subset (mem_ins L l))).mp h2
          have hv : v = v2 := by
            have hx := idxOf_prefix (mem_ins V v) (prefix_grow (ts.map (·.2.2)) (ins V v))
            rw [← hx] at h3
            exact (List.idxOf_inj ((prefix_grow _ _).subset (mem_ins V v))).mp h3
          subst he hl hv
          exact hnot hm
        · intro a ha b hb hab
          obtain ⟨rfl, hc⟩ := mem_ite_singleton ha
          subst hab
          rcases List.mem_append.mp hb with hb | hb
          · obtain ⟨h, _⟩ := mem_ite_singleton hb; cases h
          · have := hspec _ hb
            simp only [TaskSpec] at this
            have hl := length_ins_new V v (by simpa using hc)
            omega
      · intro a ha b hb hab
        obtain ⟨rfl, hc⟩ := mem_ite_singleton ha
        subst hab
        rcases List.mem_append.mp hb with hb | hb
        · obtain ⟨h, _⟩ := mem_ite_singleton hb; cases h
        rcases List.mem_append.mp hb with hb | hb
        · obtain ⟨h, _⟩ := mem_ite_singleton hb; cases h
        · have := hspec _ hb
          simp only [TaskSpec] at this
          have hl := length_ins_new L l (by simpa using hc)
          omega
    · intro a ha b hb hab
      obtain ⟨rfl, hc⟩ := mem_ite_singleton ha
      subst hab
      rcases List.mem_append.mp hb with hb | hb
      · obtain ⟨h, _⟩ := mem_ite_singleton hb; cases h
      rcases List.mem_append.mp hb with hb | hb
      · obtain ⟨h, _⟩ := mem_ite_singleton hb; cases h
      rcases List.mem_append.mp hb with hb | hb
      · obtain ⟨h, _⟩ := mem_ite_singleton hb; cases h
      · have := hspec _ hb
        simp only [TaskSpec] at this
        have hl := length_ins_new E e (by simpa using hc)
        omega

theorem makeTasks_nodup' (ts : List (Nat × Nat × Nat)) (hts : ts.Nodup) : (makeTasks false [] ts).Nodup :=
  mkAux_nil_nodup ts hts [] [] []

theorem find?_of_nodup_map {α β} [DecidableEq β] (f : α → β) (l : List α) (h : (l.map f).Nodup)
    (p : α) (hp : p ∈ l) : l.find? (fun q => decide (f q = f p)) = some p := by
  induction l with
  | nil => simp at hp
  | cons a l ih =>
    simp only [List.map_cons, List.nodup_cons] at h
    rcases List.mem_cons.mp hp with rfl | hp
    · simp
    · have hne : f a ≠ f p := fun e => h.1 (e ▸ List.mem_map_of_mem hp)
      simp [hne, ih h.2 hp]

theorem balanced_ne_nil {b : Bytes} (h : balanced b = true) : b ≠ [] := by
  rintro rfl; simp [balanced] at h

theorem tableCodec_lawful (tbl : List (Rec × Bytes)) (h : tableOK tbl = true) :
    (tableCodec tbl).Lawful (tbl.map (·.1)) := by
  simp only [tableOK, Bool.and_eq_true, List.all_eq_true, decide_eq_true_eq] at h
  obtain ⟨⟨hall, h1⟩, h2⟩ := h
  have henc : ∀ p ∈ tbl, tableEnc tbl p.1 = p.2 := by
    intro p hp
    simp only [tableEnc, find?_of_nodup_map (·.1) tbl h1 p hp]
  constructor
  · intro r hr
    obtain ⟨p, hp, rfl⟩ := List.mem_map.mp hr
    simp only [tableCodec, henc p hp, tableDec, (hall p hp).1, if_true,
      find?_of_nodup_map (·.2) tbl h2 p hp, Option.map_some]
  · intro r hr
    obtain ⟨p, hp, rfl⟩ := List.mem_map.mp hr
    simp only [tableCodec, henc p hp]
    exact (hall p hp).2
  · intro r hr
    obtain ⟨p, hp, rfl⟩ := List.mem_map.mp hr
    simp only [tableCodec, henc p hp]
    exact balanced_ne_nil (hall p hp).1
  · intro r hr q hq hne
    obtain ⟨p, hp, rfl⟩ := List.mem_map.mp hr
    simp only [tableCodec, henc p hp] at hq hne ⊢
    simp [tableDec, balanced_prefix_free p.2 q (hall p hp).1 hq hne]

theorem prefix_lines' (rs : List Bytes) (h : ∀ r ∈ rs, NoNL r) (k : Nat) :
    ∃ j p, (serialize rs).take k = serialize (rs.take j) ++ p ∧
      splitNL ((serialize rs).take k) = (rs.take j, p) ∧ NoNL p ∧
      (p = [] ∨ ∃ r, rs[j]? = some r ∧ p <+: r) := by
  obtain ⟨j, p, h1, h2⟩ := take_serialize rs k
  have hp : NoNL p := by
    rcases h2 with rfl | ⟨r, hr, hpr⟩
    · simp [NoNL]
    · exact NoNL_prefix (h r (List.mem_of_getElem? hr)) hpr
  refine ⟨j, p, h1, ?_, hp, h2⟩
  rw [h1, splitNL_serialize_append _ (fun r hr => h r (List.mem_of_mem_take hr)), splitNL_noNL hp]
  simp

theorem filter_key_length_le_one (U : List Rec) (hU : (U.map (·.key)).Nodup) (k : Key) :
    (bodies U k).length ≤ 1 := by
  induction U with
  | nil => simp [bodies]
  | cons a U ih =>
    simp only [List.map_cons, List.nodup_cons] at hU
    by_cases ha : a.key = k
    · have : bodies U k = [] := by
        simp only [bodies, List.filter_eq_nil_iff, decide_eq_true_eq]
        intro b hb hk
        exact hU.1 (ha ▸ hk ▸ List.mem_map_of_mem hb)
      simp only [bodies] at this ⊢
      simp [ha, this]
    · simp only [bodies] at ih ⊢
      simp only [List.filter_cons, ha, decide_false]
      exact ih hU.2

theorem bodies_eq_of_perm' {F U : List Rec} (hp : F.Perm U) (hU : (U.map (·.key)).Nodup) (k : Key) :
    bodies F k = bodies U k := by
  have hperm : (bodies F k).Perm (bodies U k) := hp.filter _
  have hlen := filter_key_length_le_one U hU k
  match hb : bodies U k with
  | [] => rw [hb] at hperm; exact hperm.eq_nil
  | [x] => rw [hb] at hperm; exact List.perm_singleton.mp hperm
  | _ :: _ :: _ => rw [hb] at hlen; simp at hlen

theorem serialize_take_eq_take (rs : List Bytes) (j : Nat) :
    serialize (rs.take j) = (serialize rs).take (serialize (rs.take j)).length := by
  conv_rhs => rw [← List.take_append_drop j rs, serialize_append]
  simp

theorem Codec.Lawful.mono {c : Codec} {U V : List Rec} (h : c.Lawful U) (hV : ∀ r ∈ V, r ∈ U) : c.Lawful V :=
  ⟨fun r hr => h.dec_enc r (hV r hr), fun r hr => h.noNL r (hV r hr), fun r hr => h.ne r (hV r hr),
   fun r hr => h.torn r (hV r hr)⟩

theorem tableWorld_OK (tbl : List (Rec × Bytes)) (ver exp : Rec) (triples : List (Nat × Nat × Nat))
    (h : tableWorldOK tbl ver exp triples = true) : (tableWorld tbl ver exp triples).OK := by
  simp only [tableWorldOK, Bool.and_eq_true, decide_eq_true_eq] at h
  obtain ⟨⟨⟨⟨⟨h1, h2⟩, h3⟩, h4⟩, h5⟩, h6⟩ := h
  have hout : ∀ t r, tableOut tbl t = some r → r.key = t.key ∧ r ∈ tbl.map (·.1) := by
    intro t r ho
    simp only [tableOut, Option.map_eq_some_iff] at ho
    obtain ⟨p, hp, rfl⟩ := ho
    have := List.find?_some hp
    exact ⟨by simpa using this, List.mem_map_of_mem (List.mem_of_find?_eq_some hp)⟩
  refine ⟨h2, h3, fun t r ho => (hout t r ho).1, ?_, h6⟩
  apply (tableCodec_lawful tbl h1).mono
  intro r hr
  rcases (mem_universe_iff _ r).mp hr with rfl | rfl | ⟨t, _, ho⟩
  · exact h4
  · exact h5
  · exact (hout t r ho).2

theorem restore_none (fl : Flags) (c : Codec) : restore fl c none = some ⟨[], []⟩ := rfl

/-- the code as it is restores a clean, non-empty log exactly like the repaired code -/
theorem restore_boundary (fl : Flags) (w : World) (hw : w.OK) (K : List Rec) (hK : ValidLog w K) (hne : K ≠ []) :
    restore fl w.c (some (serialize (K.map w.c.enc))) = some ⟨serialize (K.map w.c.enc), K⟩ := by
  obtain ⟨r0, K', rfl⟩ := List.exists_cons_of_ne_nil hne
  have hhead : r0 = w.ver := hK.2.2 r0 rfl
  have hdec := decodeAll_serialize w.c w.universe (r0 :: K') hw.codec hK.2.1 r0 K' rfl (hhead ▸ hw.ver_key)
  have hrep : repair w.c (serialize ((r0 :: K').map w.c.enc)) = serialize ((r0 :: K').map w.c.enc) := by
    have := repair_cut w.c w.universe (r0 :: K') hw.codec hK.2.1 [] (Or.inl rfl)
    simp only [List.append_nil] at this
    rcases this with ⟨h, _⟩ | ⟨r, hr, he, _⟩
    · exact h
    · exact absurd he.symm (hw.codec.ne r hr)
  have hne' : (serialize ((r0 :: K').map w.c.enc)).isEmpty = false := by simp [serialize]
  simp only [restore]
  cases fl.repairPlain
  · simp only [Bool.false_and, Bool.false_eq_true, if_false, hdec]
  · simp only [if_true, hrep, Bool.true_and, hne', hdec]
    simp

/-- one resumption under any version of the code that has the torn-tail and the preamble repair; row-less evaluations
need either the finished-triples repair or the hypothesis that there are none -/
theorem resume_correct_gen' (fl : Flags) (hr : fl.repairPlain = true) (hp : fl.preambleFix = true) (w : World) (hw : w.OK)
    (hI : fl.finishedFix = true ∨ NonEmptyI w) (L : List Rec) (hL : ValidLog w L) (k : Nat) :
    ∃ j p K, (serialize (L.map w.c.enc)).take k = serialize ((L.take j).map w.c.enc) ++ p ∧
      (p = [] ∨ ∃ x, L[j]? = some x ∧ p <+: w.c.enc x) ∧ K <+: L ∧ L.take j <+: K ∧
      restore fl w.c (some ((serialize (L.map w.c.enc)).take k)) = some ⟨serialize (K.map w.c.enc), K⟩ ∧
      ∀ app, app.Perm ((makeTasks fl.finishedFix K w.triples).filterMap w.out) →
        let o := finish w.c ⟨serialize (K.map w.c.enc), K⟩ (makeTasks fl.finishedFix K w.triples)
          (preamble fl w.ver w.exp K) app
        o.file = serialize ((K ++ o.appended).map w.c.enc) ∧
        o.final = some (K ++ o.appended) ∧
        ValidLog w (K ++ o.appended) ∧
        (K ++ o.appended).Perm w.universe ∧
        (∀ t ∈ o.tasks, ∀ r ∈ K, r.key ≠ t.key) := by
  obtain ⟨j, p, K, h1, h2, hres, hKL, hjK⟩ := restore_fixed fl hr w hw L hL k
  refine ⟨j, p, K, h1, h2, hKL, hjK, hres, ?_⟩
  intro app happ
  have hI' : fl.finishedFix = true ∨ NonEmptyI w ∨ K = [] := hI.elim Or.inl (fun h => Or.inr (Or.inl h))
  exact finish_correct w hw (makeTasks_nodup' _ hw.triples_nodup) fl.finishedFix K hI' (hL.prefix hKL) fl
    (Or.inl hp) app happ

theorem resume_correct' (w : World) (hw : w.OK) (L : List Rec) (hL : ValidLog w L) (k : Nat) :
    ∃ j p K, (serialize (L.map w.c.enc)).take k = serialize ((L.take j).map w.c.enc) ++ p ∧
      (p = [] ∨ ∃ x, L[j]? = some x ∧ p <+: w.c.enc x) ∧ K <+: L ∧ L.take j <+: K ∧
      restore Flags.fixed w.c (some ((serialize (L.map w.c.enc)).take k)) = some ⟨serialize (K.map w.c.enc), K⟩ ∧
      ∀ app, app.Perm ((makeTasks true K w.triples).filterMap w.out) →
        let o := finish w.c ⟨serialize (K.map w.c.enc), K⟩ (makeTasks true K w.triples)
          (preamble Flags.fixed w.ver w.exp K) app
        o.file = serialize ((K ++ o.appended).map w.c.enc) ∧
        o.final = some (K ++ o.appended) ∧
        ValidLog w (K ++ o.appended) ∧
        (K ++ o.appended).Perm w.universe ∧
        (∀ t ∈ o.tasks, ∀ r ∈ K, r.key ≠ t.key) :=
  resume_correct_gen' Flags.fixed rfl rfl w hw (Or.inl rfl) L hL k

theorem resume_correct_committed' (w : World) (hw : w.OK) (hI : NonEmptyI w) (L : List Rec) (hL : ValidLog w L) (k : Nat) :
    ∃ j p K, (serialize (L.map w.c.enc)).take k = serialize ((L.take j).map w.c.enc) ++ p ∧
      (p = [] ∨ ∃ x, L[j]? = some x ∧ p <+: w.c.enc x) ∧ K <+: L ∧ L.take j <+: K ∧
      restore Flags.committed w.c (some ((serialize (L.map w.c.enc)).take k)) = some ⟨serialize (K.map w.c.enc), K⟩ ∧
      ∀ app, app.Perm ((makeTasks false K w.triples).filterMap w.out) →
        let o := finish w.c ⟨serialize (K.map w.c.enc), K⟩ (makeTasks false K w.triples)
          (preamble Flags.committed w.ver w.exp K) app
        o.file = serialize ((K ++ o.appended).map w.c.enc) ∧
        o.final = some (K ++ o.appended) ∧
        ValidLog w (K ++ o.appended) ∧
        (K ++ o.appended).Perm w.universe ∧
        (∀ t ∈ o.tasks, ∀ r ∈ K, r.key ≠ t.key) :=
  resume_correct_gen' Flags.committed rfl rfl w hw (Or.inr hI) L hL k

/-- complete lines of a cut log, decoded -/
theorem complete_lines_of_cut (w : World) (hw : w.OK) (L : List Rec) (hL : ∀ r ∈ L, r ∈ w.universe)
    (j : Nat) (p : Bytes) (hp : p = [] ∨ ∃ x, L[j]? = some x ∧ p <+: w.c.enc x) :
    (splitNL (serialize ((L.take j).map w.c.enc) ++ p)).1 = (L.take j).map w.c.enc := by
  have hNo : NoNL p := by
    rcases hp with rfl | ⟨x, hx, hpx⟩
    · simp [NoNL]
    · exact NoNL_prefix (hw.codec.noNL x (hL x (List.mem_of_getElem? hx))) hpx
  rw [splitNL_serialize_append _ _ p, splitNL_noNL hNo]
  · simp
  · intro r hr
    obtain ⟨x, hx, rfl⟩ := List.mem_map.mp hr
    exact hw.codec.noNL x (hL x (List.mem_of_mem_take hx))

theorem no_reeval_gen' (fl : Flags) (hr : fl.repairPlain = true) (hp : fl.preambleFix = true) (w : World) (hw : w.OK)
    (hI : fl.finishedFix = true ∨ NonEmptyI w) (L : List Rec) (hL : ValidLog w L) (k : Nat) :
    ∃ R, restore fl w.c (some (cut w L k)) = some R ∧
      ∀ l ∈ (splitNL (cut w L k)).1, ∀ r, w.c.dec l = some r →
        ∀ t ∈ makeTasks fl.finishedFix R.K w.triples, t.key ≠ r.key := by
  obtain ⟨j, p, K, h1, h2, hKL, hjK, hres, hfin⟩ := resume_correct_gen' fl hr hp w hw hI L hL k
  refine ⟨_, hres, ?_⟩
  intro l hl r hr t ht
  have hno := (hfin _ (List.Perm.refl _)).2.2.2.2
  simp only [cut, logFile] at hl
  rw [h1, complete_lines_of_cut w hw L hL.2.1 j p h2] at hl
  obtain ⟨x, hx, rfl⟩ := List.mem_map.mp hl
  have hxU := hL.2.1 x (List.mem_of_mem_take hx)
  rw [hw.codec.dec_enc x hxU] at hr
  have hxr : x = r := Option.some.inj hr
  exact fun e => hno t ht x (hjK.subset hx) (by rw [hxr]; exact e.symm)

theorem no_reeval' (w : World) (hw : w.OK) (L : List Rec) (hL : ValidLog w L) (k : Nat) :
    ∃ R, restore Flags.fixed w.c (some (cut w L k)) = some R ∧
      ∀ l ∈ (splitNL (cut w L k)).1, ∀ r, w.c.dec l = some r →
        ∀ t ∈ makeTasks true R.K w.triples, t.key ≠ r.key :=
  no_reeval_gen' Flags.fixed rfl rfl w hw (Or.inl rfl) L hL k

theorem no_reeval_committed' (w : World) (hw : w.OK) (hI : NonEmptyI w) (L : List Rec) (hL : ValidLog w L) (k : Nat) :
    ∃ R, restore Flags.committed w.c (some (cut w L k)) = some R ∧
      ∀ l ∈ (splitNL (cut w L k)).1, ∀ r, w.c.dec l = some r →
        ∀ t ∈ makeTasks false R.K w.triples, t.key ≠ r.key :=
  no_reeval_gen' Flags.committed rfl rfl w hw (Or.inr hI) L hL k

theorem resume_eq_gen' (fl : Flags) (hr : fl.repairPlain = true) (hp : fl.preambleFix = true) (w : World) (hw : w.OK)
    (hI : fl.finishedFix = true ∨ NonEmptyI w) (L : List Rec) (hL : ValidLog w L) (k : Nat) :
    ∃ o F, resume fl w (some (cut w L k)) = some o ∧ o.final = some F ∧
      o.file = logFile w F ∧ F = o.restored.K ++ o.appended ∧ o.restored.K <+: L ∧
      ValidLog w F ∧ F.Perm w.universe ∧ (∀ key, bodies F key = bodies w.universe key) ∧
      (∀ t ∈ o.tasks, ∀ r ∈ o.restored.K, r.key ≠ t.key) := by
  obtain ⟨j, p, K, h1, h2, hKL, hjK, hres, hfin⟩ := resume_correct_gen' fl hr hp w hw hI L hL k
  obtain ⟨hfile, hfinal, hvalid, hperm, hno⟩ := hfin _ (List.Perm.refl _)
  refine ⟨_, _, ?_, hfinal, hfile, rfl, hKL, hvalid, hperm, ?_, hno⟩
  · simp only [resume, cut, logFile, hres]
  · intro key
    exact bodies_eq_of_perm' hperm (universe_keys_nodup w hw (makeTasks_nodup' _ hw.triples_nodup)) key

theorem resume_eq' (w : World) (hw : w.OK) (L : List Rec) (hL : ValidLog w L) (k : Nat) :
    ∃ o F, resume Flags.fixed w (some (cut w L k)) = some o ∧ o.final = some F ∧
      o.file = logFile w F ∧ F = o.restored.K ++ o.appended ∧ o.restored.K <+: L ∧
      ValidLog w F ∧ F.Perm w.universe ∧ (∀ key, bodies F key = bodies w.universe key) ∧
      (∀ t ∈ o.tasks, ∀ r ∈ o.restored.K, r.key ≠ t.key) :=
  resume_eq_gen' Flags.fixed rfl rfl w hw (Or.inl rfl) L hL k

theorem resume_eq_committed' (w : World) (hw : w.OK) (hI : NonEmptyI w) (L : List Rec) (hL : ValidLog w L) (k : Nat) :
    ∃ o F, resume Flags.committed w (some (cut w L k)) = some o ∧ o.final = some F ∧
      o.file = logFile w F ∧ F = o.restored.K ++ o.appended ∧ o.restored.K <+: L ∧
      ValidLog w F ∧ F.Perm w.universe ∧ (∀ key, bodies F key = bodies w.universe key) ∧
      (∀ t ∈ o.tasks, ∀ r ∈ o.restored.K, r.key ≠ t.key) :=
  resume_eq_gen' Flags.committed rfl rfl w hw (Or.inr hI) L hL k

/-- an uninterrupted run (no result file yet), under every version of the code; no hypothesis on row-less evaluations -/
theorem fresh_run' (fl : Flags) (w : World) (hw : w.OK)
    (app : List Rec) (happ : app.Perm ((makeTasks fl.finishedFix [] w.triples).filterMap w.out)) :
    restore fl w.c none = some ⟨[], []⟩ ∧
    let o := finish w.c ⟨[], []⟩ (makeTasks fl.finishedFix [] w.triples) (preamble fl w.ver w.exp []) app
    o.file = logFile w o.appended ∧ o.final = some o.appended ∧ ValidLog w o.appended ∧
    o.appended.Perm w.universe := by
  refine ⟨rfl, ?_⟩
  have := finish_correct w hw (makeTasks_nodup' _ hw.triples_nodup) fl.finishedFix [] (Or.inr (Or.inr rfl))
    (ValidLog.nil w) fl (Or.inr (Or.inl rfl)) app happ
  simp only [List.map_nil, serialize, List.nil_append] at this
  exact ⟨this.1, this.2.1, this.2.2.1, this.2.2.2.1⟩

/-- the code as it was, on a cut that falls on a record boundary after the experiment line -/
theorem resume_cur_partial' (w : World) (hw : w.OK) (hI : NonEmptyI w) (K : List Rec) (hK : ValidLog w K)
    (hexp : w.exp ∈ K) (app : List Rec) (happ : app.Perm ((makeTasks false K w.triples).filterMap w.out)) :
    restore Flags.cur w.c (some (logFile w K)) = some ⟨logFile w K, K⟩ ∧
    let o := finish w.c ⟨logFile w K, K⟩ (makeTasks false K w.triples) (preamble Flags.cur w.ver w.exp K) app
    o.file = logFile w (K ++ o.appended) ∧ o.final = some (K ++ o.appended) ∧
    ValidLog w (K ++ o.appended) ∧ (K ++ o.appended).Perm w.universe ∧
    (∀ t ∈ o.tasks, ∀ r ∈ K, r.key ≠ t.key) := by
  have hne : K ≠ [] := by rintro rfl; simp at hexp
  exact ⟨restore_boundary Flags.cur w hw K hK hne,
    finish_correct w hw (makeTasks_nodup' _ hw.triples_nodup) false K (Or.inr (Or.inl hI)) hK Flags.cur
      (Or.inr (Or.inr hexp)) app happ⟩

/-- a `.gz` log with an incomplete trailing member is, after the repair, a log cut on a record boundary -/
theorem gz_cut' (w : World) (L : List Rec) (j : Nat) (torn : Bool) :
    ∃ k, gzView Flags.fixed (L.map w.c.enc) j torn = some (cut w L k) := by
  refine ⟨(serialize ((L.map w.c.enc).take j)).length, ?_⟩
  simp only [gzView, Flags.fixed, Bool.not_true, Bool.and_false, Bool.false_eq_true, if_false, cut, logFile]
  rw [← serialize_take_eq_take]
/-! ### concrete witnesses (replayed on the real code by the harness corpus) -/
namespace Ex

/-- a one-triple experiment; record texts `[v]`, `[x]`, `[L]`, `[V]`, `[E]`, `[I]` -/
def rVer : Rec := ⟨.ver, 0, 0⟩
def rExp : Rec := ⟨.exp, 0, 1⟩
def rL : Rec := ⟨.lrn 0, 0, 2⟩
def rV : Rec := ⟨.val 0, 0, 3⟩
def rE : Rec := ⟨.env 0, 0, 4⟩
def rI : Rec := ⟨.int 0 0 0, 2, 5⟩
def tbl : List (Rec × Bytes) :=
  [(rVer, [91, 118, 93]), (rExp, [91, 120, 93]), (rL, [91, 76, 93]), (rV, [91, 86, 93]), (rE, [91, 69, 93]),
   (rI, [91, 73, 93])]
def w : World := tableWorld tbl rVer rExp [(0, 0, 0)]
/-- the uninterrupted log -/
def log : List Rec := [rVer, rExp, rE, rL, rV, rI]
def full : Bytes := serialize (log.map w.c.enc)

/-- the same experiment whose evaluation yields no rows: `["I",[0,0,0],{"_packed":{}}]` -/
def rI0 : Rec := ⟨.int 0 0 0, 0, 5⟩
def tbl0 : List (Rec × Bytes) :=
  [(rVer, [91, 118, 93]), (rExp, [91, 120, 93]), (rL, [91, 76, 93]), (rV, [91, 86, 93]), (rE, [91, 69, 93]),
   (rI0, [91, 73, 93])]
def w0 : World := tableWorld tbl0 rVer rExp [(0, 0, 0)]
def log0 : List Rec := [rVer, rExp, rE, rL, rV, rI0]
def full0 : Bytes := serialize (log0.map w0.c.enc)

end Ex


theorem validLog_of_subperm (w : World) (hw : w.OK) (full : List Rec) (hfull : full.Perm w.universe)
    (rest : List Rec) (hsub : (w.ver :: rest).Subperm full) : ValidLog w (w.ver :: rest) := by
  have hUk := universe_keys_nodup w hw (makeTasks_nodup' _ hw.triples_nodup)
  have hfk : (full.map (·.key)).Nodup := (hfull.map _).nodup_iff.mpr hUk
  refine ⟨?_, ?_, ?_⟩
  · obtain ⟨l, hl, hls⟩ := hsub
    exact (hl.map _).nodup_iff.mp (hfk.sublist (hls.map _))
  · intro r hr
    exact hfull.subset (hsub.subset hr)
  · intro r hr
    simpa using hr.symm

theorem resume_from_any_sublog' (w : World) (hw : w.OK) (full : List Rec) (hfull : full.Perm w.universe)
    (rest : List Rec) (hsub : (w.ver :: rest).Subperm full) (k : Nat) :
    ValidLog w (w.ver :: rest) ∧
    ∃ o F, resume Flags.fixed w (some (cut w (w.ver :: rest) k)) = some o ∧ o.final = some F ∧
      o.restored.K <+: (w.ver :: rest) ∧ F.Perm full ∧ (∀ key, bodies F key = bodies full key) ∧
      (∀ t ∈ o.tasks, ∀ r ∈ o.restored.K, r.key ≠ t.key) := by
  have hv := validLog_of_subperm w hw full hfull rest hsub
  refine ⟨hv, ?_⟩
  obtain ⟨o, F, h1, h2, _, _, h5, _, h7, _, h9⟩ := resume_eq' w hw (w.ver :: rest) hv k
  have hUk := universe_keys_nodup w hw (makeTasks_nodup' _ hw.triples_nodup)
  have hfk : (full.map (·.key)).Nodup := (hfull.map _).nodup_iff.mpr hUk
  have hp : F.Perm full := h7.trans hfull.symm
  exact ⟨o, F, h1, h2, h5, hp, fun key => bodies_eq_of_perm' hp hfk key, h9⟩

theorem resumeStep_spec (fl : Flags) (hr : fl.repairPlain = true) (hp : fl.preambleFix = true) (w : World) (hw : w.OK)
    (hI : fl.finishedFix = true ∨ NonEmptyI w) (L : List Rec) (hL : ValidLog w L) (k : Nat) :
    (∃ M, ResumeStep fl w L k M) ∧ ∀ M, ResumeStep fl w L k M → ValidLog w M ∧ M.Perm w.universe := by
  obtain ⟨j, p, K, h1, h2, hKL, hjK, hres, hfin⟩ := resume_correct_gen' fl hr hp w hw hI L hL k
  constructor
  · have := hfin _ (List.Perm.refl _)
    exact ⟨_, ⟨_, _, hres, List.Perm.refl _, this.2.1⟩⟩
  · rintro M ⟨R, app, hR, happ, hM⟩
    have hRK : R = ⟨serialize (K.map w.c.enc), K⟩ := by
      have : some R = some (⟨serialize (K.map w.c.enc), K⟩ : Restore) := by
        rw [← hR, ← hres]; rfl
      exact Option.some.inj this
    subst hRK
    have := hfin app happ
    have hMe : M = K ++ (preamble fl w.ver w.exp K ++ app) := by
      have h2 := this.2.1
      rw [hM] at h2
      exact Option.some.inj h2
    rw [hMe]
    exact ⟨this.2.2.1, this.2.2.2.1⟩

theorem resume_chain_gen' (fl : Flags) (hr : fl.repairPlain = true) (hp : fl.preambleFix = true) (w : World) (hw : w.OK)
    (hI : fl.finishedFix = true ∨ NonEmptyI w) (L : List Rec) (hL : ValidLog w L) :
    (∀ ks, ∃ F, Chain fl w ks L F) ∧
    (∀ ks F, Chain fl w ks L F → ValidLog w F ∧
      (ks ≠ [] → F.Perm w.universe ∧ ∀ key, bodies F key = bodies w.universe key)) := by
  have hUk := universe_keys_nodup w hw (makeTasks_nodup' _ hw.triples_nodup)
  constructor
  · intro ks
    induction ks generalizing L with
    | nil => exact ⟨L, Chain.nil L⟩
    | cons k ks ih =>
      obtain ⟨⟨M, hM⟩, hall⟩ := resumeStep_spec fl hr hp w hw hI L hL k
      obtain ⟨F, hF⟩ := ih M (hall M hM).1
      exact ⟨F, Chain.cons hM hF⟩
  · intro ks F hc
    induction hc with
    | nil L => exact ⟨hL, fun h => absurd rfl h⟩
    | @cons k ks L M F hstep hrest ih =>
      obtain ⟨hMv, hMp⟩ := (resumeStep_spec fl hr hp w hw hI L hL k).2 M hstep
      obtain ⟨hFv, hFp⟩ := ih hMv
      refine ⟨hFv, fun _ => ?_⟩
      cases hrest with
      | nil => exact ⟨hMp, fun key => bodies_eq_of_perm' hMp hUk key⟩
      | cons h1 h2 => exact hFp (by simp)

theorem flatM_append (a b : List Member) : flatM (a ++ b) = flatM a ++ flatM b := by
  induction a with
  | nil => rfl
  | cons m ms ih => simp [flatM, ih]

theorem payloadsM_append (a b : List Member) : payloadsM (a ++ b) = payloadsM a ++ payloadsM b := by
  induction a with
  | nil => rfl
  | cons m ms ih => simp [payloadsM, ih]

theorem MLaws.mono {scan : MScan} {a b : List Member} (h : MLaws scan a) (hb : ∀ m ∈ b, m ∈ a) : MLaws scan b :=
  ⟨fun m hm => h.complete m (hb m hm), fun m hm => h.torn m (hb m hm), fun m hm => h.ne m (hb m hm)⟩

/-- a `k`-byte prefix of a `.gz` file: complete members followed by a strictly torn one (or nothing) -/
theorem take_flatM (ms : List Member) (k : Nat) :
    ∃ j q, (flatM ms).take k = flatM (ms.take j) ++ q ∧
      (q = [] ∨ ∃ m, ms[j]? = some m ∧ q <+: m.bytes ∧ q ≠ m.bytes) := by
  induction ms generalizing k with
  | nil => exact ⟨0, [], by simp [flatM], Or.inl rfl⟩
  | cons m ms ih =>
    by_cases hk : k < m.bytes.length
    · refine ⟨0, m.bytes.take k, ?_, Or.inr ⟨m, by simp, List.take_prefix _ _, ?_⟩⟩
      · simp [flatM, List.take_append, Nat.sub_eq_zero_of_le (Nat.le_of_lt hk)]
      · intro e
        have := congrArg List.length e
        simp at this
        omega
    · obtain ⟨j, q, h1, h2⟩ := ih (k - m.bytes.length)
      refine ⟨j + 1, q, ?_, by simpa using h2⟩
      have : m.bytes.take k = m.bytes := List.take_of_length_le (by omega)
      simp [flatM, List.take_append, this, h1]

/-- what the scan loop does on complete members followed by a torn one -/
theorem scanLoop_spec (scan : MScan) (all : List Member) (hl : MLaws scan all) (ms : List Member)
    (hms : ∀ m ∈ ms, m ∈ all) (q : Bytes) (hq : q = [] ∨ ∃ m ∈ all, q <+: m.bytes ∧ q ≠ m.bytes)
    (fuel pos : Nat) (hf : ms.length < fuel) :
    scanLoop scan fuel (flatM ms ++ q) pos = pos + (flatM ms).length := by
  induction ms generalizing fuel pos with
  | nil =>
    obtain ⟨f, rfl⟩ : ∃ f, fuel = f + 1 := ⟨fuel - 1, by simp at hf; omega⟩
    simp only [flatM, List.nil_append, scanLoop, List.length_nil, Nat.add_zero]
    rcases hq with rfl | ⟨m, hm, hp, hne⟩
    · simp
    · rw [hl.torn m hm q hp hne]
      by_cases h : q.isEmpty = true <;> simp [h]
  | cons m ms ih =>
    obtain ⟨f, rfl⟩ : ∃ f, fuel = f + 1 := ⟨fuel - 1, by simp at hf; omega⟩
    have hm := hms m (by simp)
    have hne := hl.ne m hm
    have hdata : (flatM (m :: ms) ++ q).isEmpty = false := by
      cases hb : m.bytes with
      | nil => exact absurd hb hne
      | cons b bs => simp [flatM, hb]
    have hlen : m.bytes.length ≠ 0 := by
      intro h; exact hne (List.eq_nil_of_length_eq_zero h)
    simp only [scanLoop, hdata]
    have : flatM (m :: ms) ++ q = m.bytes ++ (flatM ms ++ q) := by simp [flatM]
    rw [this, hl.complete m hm]
    simp only [Bool.false_eq_true, if_false, hlen, List.drop_left]
    rw [ih (fun x hx => hms x (List.mem_cons_of_mem _ hx)) f (pos + m.bytes.length) (by simp at hf; omega)]
    simp [flatM]; omega

theorem flatM_length_ge (all : List Member) (scan : MScan) (hl : MLaws scan all) (ms : List Member)
    (hms : ∀ m ∈ ms, m ∈ all) : ms.length ≤ (flatM ms).length := by
  induction ms with
  | nil => simp
  | cons m ms ih =>
    have hne := hl.ne m (hms m (by simp))
    have : 0 < m.bytes.length := List.length_pos_iff.mpr hne
    have := ih (fun x hx => hms x (List.mem_cons_of_mem _ hx))
    simp [flatM]; omega

theorem memberScan_spec' (scan : MScan) (all : List Member) (hl : MLaws scan all) (ms : List Member)
    (hms : ∀ m ∈ ms, m ∈ all) (q : Bytes) (hq : q = [] ∨ ∃ m ∈ all, q <+: m.bytes ∧ q ≠ m.bytes) :
    memberScan scan (flatM ms ++ q) = (flatM ms).length ∧ gzRepair scan (flatM ms ++ q) = flatM ms := by
  have h1 : memberScan scan (flatM ms ++ q) = (flatM ms).length := by
    unfold memberScan
    rw [scanLoop_spec scan all hl ms hms q hq _ 0 (by
      have := flatM_length_ge all scan hl ms hms
      simp; omega)]
    simp
  exact ⟨h1, by simp [gzRepair, h1]⟩

theorem gunzipLoop_spec (scan : MScan) (all : List Member) (hl : MLaws scan all) (ms : List Member)
    (hms : ∀ m ∈ ms, m ∈ all) (fuel : Nat) (hf : ms.length < fuel) :
    gunzipLoop scan fuel (flatM ms) = some (payloadsM ms) := by
  induction ms generalizing fuel with
  | nil =>
    obtain ⟨f, rfl⟩ : ∃ f, fuel = f + 1 := ⟨fuel - 1, by simp at hf; omega⟩
    simp [gunzipLoop, flatM, payloadsM]
  | cons m ms ih =>
    obtain ⟨f, rfl⟩ : ∃ f, fuel = f + 1 := ⟨fuel - 1, by simp at hf; omega⟩
    have hm := hms m (by simp)
    have hne := hl.ne m hm
    have hdata : (flatM (m :: ms)).isEmpty = false := by
      cases hb : m.bytes with
      | nil => exact absurd hb hne
      | cons b bs => simp [flatM, hb]
    have hlen : m.bytes.length ≠ 0 := fun h => hne (List.eq_nil_of_length_eq_zero h)
    have hfl : flatM (m :: ms) = m.bytes ++ flatM ms := rfl
    simp only [gunzipLoop, hdata]
    rw [hfl, hl.complete m hm]
    simp only [Bool.false_eq_true, if_false, hlen, List.drop_left]
    rw [ih (fun x hx => hms x (List.mem_cons_of_mem _ hx)) f (by simp at hf; omega)]
    simp [payloadsM]

theorem gunzip_spec' (scan : MScan) (all : List Member) (hl : MLaws scan all) (ms : List Member)
    (hms : ∀ m ∈ ms, m ∈ all) : gunzip scan (flatM ms) = some (payloadsM ms) := by
  unfold gunzip
  exact gunzipLoop_spec scan all hl ms hms _ (by
    have := flatM_length_ge all scan hl ms hms
    omega)

/-- reading a file that ends in a torn member raises -/
theorem gunzipLoop_torn (scan : MScan) (all : List Member) (hl : MLaws scan all) (ms : List Member)
    (hms : ∀ m ∈ ms, m ∈ all) (q : Bytes) (hq : ∃ m ∈ all, q <+: m.bytes ∧ q ≠ m.bytes) (hqne : q ≠ [])
    (fuel : Nat) : gunzipLoop scan fuel (flatM ms ++ q) = none := by
  obtain ⟨mq, hmq, hp, hne⟩ := hq
  have hqe : q.isEmpty = false := by cases q <;> simp_all
  induction ms generalizing fuel with
  | nil =>
    cases fuel with
    | zero => simp [gunzipLoop, flatM, hqe]
    | succ f => simp [gunzipLoop, flatM, hqe, hl.torn mq hmq q hp hne]
  | cons m ms ih =>
    have hm := hms m (by simp)
    have hne' := hl.ne m hm
    have hdata : (flatM (m :: ms) ++ q).isEmpty = false := by
      cases hb : m.bytes with
      | nil => exact absurd hb hne'
      | cons b bs => simp [flatM, hb]
    cases fuel with
    | zero => simp [gunzipLoop, hdata]
    | succ f =>
      have hlen : m.bytes.length ≠ 0 := fun h => hne' (List.eq_nil_of_length_eq_zero h)
      have : flatM (m :: ms) ++ q = m.bytes ++ (flatM ms ++ q) := by simp [flatM]
      simp only [gunzipLoop, hdata]
      rw [this, hl.complete m hm]
      simp only [Bool.false_eq_true, if_false, hlen, List.drop_left]
      rw [ih (fun x hx => hms x (List.mem_cons_of_mem _ hx)) f]
      rfl

theorem payloadLog_payloads (c : Codec) (ms : List Member) (L : List Rec) (h : PayloadLog c ms L) :
    payloadsM ms = serialize (L.map c.enc) := by
  induction h with
  | nil => rfl
  | line hp _ ih => simp [payloadsM, serialize, hp, ih]
  | empty hp _ ih => simp [payloadsM, hp, ih]

/-- the first `j` members hold a prefix of the log -/
theorem payloadLog_take (c : Codec) (ms : List Member) (L : List Rec) (h : PayloadLog c ms L) (j : Nat) :
    ∃ i, PayloadLog c (ms.take j) (L.take i) := by
  induction h generalizing j with
  | nil => exact ⟨0, by simpa using PayloadLog.nil⟩
  | @line m ms r L hp _ ih =>
    cases j with
    | zero => exact ⟨0, by simpa using PayloadLog.nil⟩
    | succ j =>
      obtain ⟨i, hi⟩ := ih j
      exact ⟨i + 1, by simpa using PayloadLog.line hp hi⟩
  | @empty m ms L hp _ ih =>
    cases j with
    | zero => exact ⟨0, by simpa using PayloadLog.nil⟩
    | succ j =>
      obtain ⟨i, hi⟩ := ih j
      exact ⟨i, by simpa using PayloadLog.empty hp hi⟩

theorem payloadLog_append (c : Codec) (a b : List Member) (A B : List Rec) (ha : PayloadLog c a A) (hb : PayloadLog c b B) :
    PayloadLog c (a ++ b) (A ++ B) := by
  induction ha with
  | nil => simpa using hb
  | line hp _ ih => exact PayloadLog.line hp ih
  | empty hp _ ih => exact PayloadLog.empty hp ih

theorem tableScan_laws (tbl : List Member) (h : memberTableOK tbl = true) : MLaws (tableScan tbl) tbl := by
  simp only [memberTableOK, Bool.and_eq_true, List.all_eq_true, Bool.not_eq_true', Bool.or_eq_true,
    decide_eq_true_eq] at h
  obtain ⟨hne, hpf⟩ := h
  have hpf' : ∀ a ∈ tbl, ∀ b ∈ tbl, a.bytes <+: b.bytes → a = b := by
    intro a ha b hb hp
    rcases hpf a ha b hb with h | h
    · exact h
    · rw [List.isPrefixOf_iff_prefix.mpr hp] at h; cases h
  refine ⟨?_, ?_, ?_⟩
  · intro m hm rest
    have hex : ∃ e, tbl.find? (fun e => e.bytes.isPrefixOf (m.bytes ++ rest)) = some e := by
      cases hf : tbl.find? (fun e => e.bytes.isPrefixOf (m.bytes ++ rest)) with
      | some e => exact ⟨e, rfl⟩
      | none =>
        have := List.find?_eq_none.mp hf m hm
        simp at this
    obtain ⟨e, he⟩ := hex
    have hemem := List.mem_of_find?_eq_some he
    have hep : e.bytes <+: m.bytes ++ rest := by
      have := List.find?_some he
      exact List.isPrefixOf_iff_prefix.mp this
    have hmp : m.bytes <+: m.bytes ++ rest := List.prefix_append _ _
    have : e = m := by
      rcases List.prefix_or_prefix_of_prefix hep hmp with h | h
      · exact hpf' e hemem m hm h
      · exact (hpf' m hm e hemem h).symm
    simp [tableScan, he, this]
  · intro m hm q hq hne'
    cases hf : tbl.find? (fun e => e.bytes.isPrefixOf q) with
    | none => simp [tableScan, hf]
    | some e =>
      exfalso
      have hemem := List.mem_of_find?_eq_some hf
      have hep : e.bytes <+: q := by
        have := List.find?_some hf
        exact List.isPrefixOf_iff_prefix.mp this
      have : e = m := hpf' e hemem m hm (hep.trans hq)
      subst this
      exact hne' (List.IsPrefix.eq_of_length_le hq hep.length_le)
  · intro m hm hb
    have := hne m hm
    simp [hb] at this

/-- restoring a clean log (also the empty one) under the torn-tail repair -/
theorem restore_clean (fl : Flags) (hr : fl.repairPlain = true) (w : World) (hw : w.OK) (K : List Rec) (hK : ValidLog w K) :
    restore fl w.c (some (logFile w K)) = some ⟨logFile w K, K⟩ := by
  cases K with
  | nil => simp [restore, hr, logFile, serialize, repair, splitNL]
  | cons r K' => exact restore_boundary fl w hw (r :: K') hK (by simp)

theorem gz_resume_correct_gen' (fl : Flags) (hr : fl.repairPlain = true) (hp : fl.preambleFix = true)
    (hg : fl.repairGz = true) (w : World) (hw : w.OK) (hI : fl.finishedFix = true ∨ NonEmptyI w)
    (L : List Rec) (hL : ValidLog w L) (scan : MScan) (ms : List Member) (hlaws : MLaws scan ms)
    (hpl : PayloadLog w.c ms L) (k : Nat) :
    ∃ j i, memberScan scan ((flatM ms).take k) = (flatM (ms.take j)).length ∧
      gzRepair scan ((flatM ms).take k) = flatM (ms.take j) ∧
      gzText fl scan ((flatM ms).take k) = some (logFile w (L.take i)) ∧
      restore fl w.c (some (logFile w (L.take i))) = some ⟨logFile w (L.take i), L.take i⟩ ∧
      ∀ app, app.Perm ((makeTasks fl.finishedFix (L.take i) w.triples).filterMap w.out) →
        ∀ msNew, PayloadLog w.c msNew (preamble fl w.ver w.exp (L.take i) ++ app) →
          MLaws scan (ms.take j ++ msNew) →
          let o := finish w.c ⟨logFile w (L.take i), L.take i⟩ (makeTasks fl.finishedFix (L.take i) w.triples)
            (preamble fl w.ver w.exp (L.take i)) app
          gunzip scan (flatM (ms.take j) ++ flatM msNew) = some o.file ∧
          o.final = some (L.take i ++ o.appended) ∧
          ValidLog w (L.take i ++ o.appended) ∧
          (L.take i ++ o.appended).Perm w.universe ∧
          (∀ t ∈ o.tasks, ∀ r ∈ L.take i, r.key ≠ t.key) := by
  obtain ⟨j, q, h1, h2⟩ := take_flatM ms k
  have hsub : ∀ m ∈ ms.take j, m ∈ ms := fun m hm => List.mem_of_mem_take hm
  have hq : q = [] ∨ ∃ m ∈ ms, q <+: m.bytes ∧ q ≠ m.bytes := by
    rcases h2 with h | ⟨m, hm, hp1, hp2⟩
    · exact Or.inl h
    · exact Or.inr ⟨m, List.mem_of_getElem? hm, hp1, hp2⟩
  obtain ⟨hscan, hrep⟩ := memberScan_spec' scan ms hlaws (ms.take j) hsub q hq
  obtain ⟨i, hi⟩ := payloadLog_take w.c ms L hpl j
  have hpay := payloadLog_payloads w.c _ _ hi
  have hKv : ValidLog w (L.take i) := hL.prefix (List.take_prefix _ _)
  refine ⟨j, i, by rw [h1]; exact hscan, by rw [h1]; exact hrep, ?_, restore_clean fl hr w hw _ hKv, ?_⟩
  · simp only [gzText, hg, if_true]
    rw [h1, hrep, gunzip_spec' scan ms hlaws (ms.take j) hsub, hpay]
    rfl
  · intro app happ msNew hnew hlaws2
    have hI' : fl.finishedFix = true ∨ NonEmptyI w ∨ L.take i = [] := hI.elim Or.inl (fun h => Or.inr (Or.inl h))
    have hfin := finish_correct w hw (makeTasks_nodup' _ hw.triples_nodup) fl.finishedFix (L.take i) hI' hKv fl
      (Or.inl hp) app happ
    refine ⟨?_, hfin.2.1, hfin.2.2.1, hfin.2.2.2.1, hfin.2.2.2.2⟩
    rw [← flatM_append, gunzip_spec' scan _ hlaws2 _ (fun m hm => hm), payloadsM_append, hpay,
      payloadLog_payloads w.c _ _ hnew]
    rfl

/-- the code without the gz repair can not read a file that ends in a torn member -/
theorem gz_torn_unreadable' (fl : Flags) (hg : fl.repairGz = false) (scan : MScan) (ms : List Member)
    (hlaws : MLaws scan ms) (k : Nat) (j : Nat) (q : Bytes) (h1 : (flatM ms).take k = flatM (ms.take j) ++ q)
    (hq : ∃ m, ms[j]? = some m ∧ q <+: m.bytes ∧ q ≠ m.bytes) (hqne : q ≠ []) :
    gzText fl scan ((flatM ms).take k) = none := by
  obtain ⟨m, hm, hp1, hp2⟩ := hq
  simp only [gzText, hg, Bool.false_eq_true, if_false, gunzip]
  rw [h1]
  exact gunzipLoop_torn scan ms hlaws (ms.take j) (fun x hx => List.mem_of_mem_take hx) q
    ⟨m, List.mem_of_getElem? hm, hp1, hp2⟩ hqne _
open Coba.Generated.C02Gz

theorem gz_preds_equal' : sinkPred = sourcePred ∧ sourcePred = repairPred := by decide

theorem gz_decision_consistent' (name : Bytes) :
    sinkPred.eval name = sourcePred.eval name ∧ sourcePred.eval name = repairPred.eval name := by
  rw [gz_preds_equal'.1, gz_preds_equal'.2]; exact ⟨rfl, rfl⟩

theorem gz_decision_table' :
    nameShapes.map sourcePred.eval = nameShapes.map sinkPred.eval ∧
    nameShapes.map repairPred.eval = nameShapes.map sinkPred.eval := by decide

theorem gz_contains_table' :
    nameShapes.map (GzPred.contains [46, 103, 122]).eval = [false, true, true, true, true, false, true, false, true] ∧
    nameShapes.map (GzPred.endsWith [46, 103, 122]).eval = [false, true, false, false, false, false, true, false, true] := by
  decide

theorem nCompleteB_nil_data (c : Codec) (U : List Rec) (hc : c.Lawful U) (L : List Rec) (hL : ∀ r ∈ L, r ∈ U) :
    nCompleteB c L [] = 0 := by
  cases L with
  | nil => rfl
  | cons x rs =>
    have hne := hc.ne x (hL x (by simp))
    have : (c.enc x).isPrefixOf ([] : Bytes) = false := by
      cases h : c.enc x with
      | nil => exact absurd h hne
      | cons b bs => rfl
    simp [nCompleteB, this]

/-- counting the complete records of a cut file: `j` complete lines, plus one when the tail is a whole record text -/
theorem nCompleteB_shape (c : Codec) (U : List Rec) (hc : c.Lawful U) (L : List Rec) (hL : ∀ r ∈ L, r ∈ U)
    (j : Nat) (p : Bytes) :
    ((p = [] ∨ ∃ x, L[j]? = some x ∧ p <+: c.enc x ∧ p ≠ c.enc x) →
      nCompleteB c L (serialize ((L.take j).map c.enc) ++ p) = (L.take j).length) ∧
    ((∃ x, L[j]? = some x ∧ p = c.enc x) →
      nCompleteB c L (serialize ((L.take j).map c.enc) ++ p) = (L.take j).length + 1) := by
  induction j generalizing L with
  | zero =>
    cases L with
    | nil =>
      constructor
      · intro _; simp [nCompleteB]
      · rintro ⟨x, hx, _⟩; simp at hx
    | cons x rs =>
      have hxU := hL x (by simp)
      have hne := hc.ne x hxU
      constructor
      · intro h
        have hnp : (c.enc x).isPrefixOf p = false := by
          cases hb : (c.enc x).isPrefixOf p with
          | false => rfl
          | true =>
            exfalso
            have hpre := List.isPrefixOf_iff_prefix.mp hb
            rcases h with rfl | ⟨y, hy, hp1, hp2⟩
            · exact hne (List.prefix_nil.mp hpre)
            · simp at hy; subst hy
              exact hp2 (List.IsPrefix.eq_of_length_le hp1 hpre.length_le)
        simp [serialize, nCompleteB, hnp]
      · rintro ⟨y, hy, hp⟩
        simp at hy; subst hy
        have : (c.enc x).isPrefixOf p = true := by rw [hp]; exact List.isPrefixOf_iff_prefix.mpr (List.prefix_refl _)
        have hd : p.drop ((c.enc x).length + 1) = [] := by rw [hp]; exact List.drop_eq_nil_of_le (by omega)
        simp [serialize, nCompleteB, this, hd, nCompleteB_nil_data c U hc rs (fun r hr => hL r (List.mem_cons_of_mem _ hr))]
  | succ j ih =>
    cases L with
    | nil =>
      constructor
      · intro _; simp [nCompleteB]
      · rintro ⟨x, hx, _⟩; simp at hx
    | cons x rs =>
      have hrs : ∀ r ∈ rs, r ∈ U := fun r hr => hL r (List.mem_cons_of_mem _ hr)
      have hdata : serialize (((x :: rs).take (j + 1)).map c.enc) ++ p
          = c.enc x ++ NL :: (serialize ((rs.take j).map c.enc) ++ p) := by
        simp [serialize]
      have hpre : (c.enc x).isPrefixOf (c.enc x ++ NL :: (serialize ((rs.take j).map c.enc) ++ p)) = true :=
        List.isPrefixOf_iff_prefix.mpr (List.prefix_append _ _)
      have hdrop : (c.enc x ++ NL :: (serialize ((rs.take j).map c.enc) ++ p)).drop ((c.enc x).length + 1)
          = serialize ((rs.take j).map c.enc) ++ p := by
        have : c.enc x ++ NL :: (serialize ((rs.take j).map c.enc) ++ p) = (c.enc x ++ [NL]) ++ (serialize ((rs.take j).map c.enc) ++ p) := by simp
        rw [this]
        exact List.drop_left' (by simp)
      obtain ⟨ih1, ih2⟩ := ih rs hrs
      constructor
      · intro h
        rw [hdata]
        simp only [nCompleteB, hpre, if_true, hdrop]
        rw [ih1 (by simpa using h)]
        simp; omega
      · intro h
        rw [hdata]
        simp only [nCompleteB, hpre, if_true, hdrop]
        rw [ih2 (by simpa using h)]
        simp; omega

/-- `_drop_torn_tail` + decoding restores EXACTLY the maximal prefix of complete records, for every cut point -/
theorem restore_maximal_prefix' (fl : Flags) (hr : fl.repairPlain = true) (w : World) (hw : w.OK) (L : List Rec)
    (hL : ValidLog w L) (k : Nat) :
    restore fl w.c (some (cut w L k)) =
      some ⟨logFile w (L.take (nCompleteB w.c L (cut w L k))), L.take (nCompleteB w.c L (cut w L k))⟩ := by
  obtain ⟨j, p, K, h1, h2, hres, hKL, hjK⟩ := restore_fixed fl hr w hw L hL k
  -- which of the two shapes? decided by whether the tail is the whole text of record j
  have hn : nCompleteB w.c L (cut w L k) = K.length := by
    simp only [cut, logFile]
    rw [h1]
    obtain ⟨s1, s2⟩ := nCompleteB_shape w.c w.universe hw.codec L hL.2.1 j p
    -- K is `L.take j` or `L.take (j+1)`; recover it from the repaired file
    have hrep : repair w.c (serialize ((L.take j).map w.c.enc) ++ p) = serialize (K.map w.c.enc) := by
      have := hres
      simp only [restore, hr, if_true, Bool.true_and] at this
      rw [h1] at this
      split at this
      · rename_i he
        have hK : K = [] := by
          have := Option.some.inj this
          exact (congrArg Restore.K this).symm
        rw [hK]; simpa [serialize] using he
      · split at this
        · have := Option.some.inj this
          exact congrArg Restore.file1 this
        · cases this
    have hA : ∀ r ∈ L.take j, r ∈ w.universe := fun r hr => hL.2.1 r (List.mem_of_mem_take hr)
    have hp' : p = [] ∨ ∃ r ∈ w.universe, p <+: w.c.enc r := by
      rcases h2 with h | ⟨x, hx, hp⟩
      · exact Or.inl h
      · exact Or.inr ⟨x, hL.2.1 x (List.mem_of_getElem? hx), hp⟩
    have hinj : ∀ A B : List Rec, (∀ r ∈ A, r ∈ w.universe) → (∀ r ∈ B, r ∈ w.universe) →
        serialize (A.map w.c.enc) = serialize (B.map w.c.enc) → A = B := by
      intro A B hAU hBU he
      have ha := decodeLines_map_enc w.c A (fun r hr => hw.codec.dec_enc r (hAU r hr))
      have hb := decodeLines_map_enc w.c B (fun r hr => hw.codec.dec_enc r (hBU r hr))
      have la := lines_serialize (A.map w.c.enc)
        (fun r hr => by obtain ⟨x, hx, rfl⟩ := List.mem_map.mp hr; exact hw.codec.noNL x (hAU x hx))
        (fun r hr => by obtain ⟨x, hx, rfl⟩ := List.mem_map.mp hr; exact hw.codec.ne x (hAU x hx))
      have lb := lines_serialize (B.map w.c.enc)
        (fun r hr => by obtain ⟨x, hx, rfl⟩ := List.mem_map.mp hr; exact hw.codec.noNL x (hBU x hx))
        (fun r hr => by obtain ⟨x, hx, rfl⟩ := List.mem_map.mp hr; exact hw.codec.ne x (hBU x hx))
      rw [he, lb] at la
      rw [← la, hb] at ha
      exact (Option.some.inj ha).symm
    have hKU : ∀ r ∈ K, r ∈ w.universe := fun r hr => hL.2.1 r (hKL.subset hr)
    rcases repair_cut w.c w.universe (L.take j) hw.codec hA p hp' with ⟨hr1, hcase⟩ | ⟨r, hrU, hpr, hrep2⟩
    · have hK : K = L.take j := (hinj _ _ hA hKU (by rw [← hr1, hrep])).symm
      rw [hK]
      apply s1
      rcases h2 with h | ⟨x, hx, hp⟩
      · exact Or.inl h
      · by_cases hpe : p = []
        · exact Or.inl hpe
        · right
          refine ⟨x, hx, hp, ?_⟩
          intro hpx
          rcases hcase with h | ⟨r, hrU, hp1, hp2⟩
          · exact hpe h
          · have hxU := hL.2.1 x (List.mem_of_getElem? hx)
            have := hw.codec.torn r hrU p hp1 hp2
            rw [hpx, hw.codec.dec_enc x hxU] at this
            cases this
    · rcases h2 with h | ⟨x, hx, hp⟩
      · exact absurd (hpr ▸ h) (hw.codec.ne r hrU)
      · have hxU := hL.2.1 x (List.mem_of_getElem? hx)
        have hpx : p = w.c.enc x := by
          by_contra hne
          have := hw.codec.torn x hxU p hp hne
          rw [hpr, hw.codec.dec_enc r hrU] at this
          cases this
        have hrx : r = x := by
          have := hw.codec.dec_enc r hrU
          rw [← hpr, hpx, hw.codec.dec_enc x hxU] at this
          exact (Option.some.inj this).symm
        subst hrx
        have hK : K = L.take j ++ [r] := by
          refine (hinj _ _ ?_ hKU (by rw [← hrep2, hrep])).symm
          intro y hy
          rcases List.mem_append.mp hy with h | h
          · exact hA y h
          · simp at h; rw [h]; exact hrU
        rw [hK, s2 ⟨r, hx, hpx⟩]
        simp
  have hK : K = L.take K.length := List.prefix_iff_eq_take.mp hKL
  rw [hn]
  simp only [cut, logFile] at hres ⊢
  rw [← hK]
  exact hres

/-- resuming a COMPLETE log: nothing that has a record is run again, nothing is appended, the file is byte-identical -/
theorem resume_idempotent_gen' (fl : Flags) (hr : fl.repairPlain = true) (w : World) (hw : w.OK)
    (hI : fl.finishedFix = true ∨ NonEmptyI w) (L : List Rec) (hL : ValidLog w L) (hfull : L.Perm w.universe) :
    ∃ o, resume fl w (some (logFile w L)) = some o ∧ o.restored.K = L ∧ o.appended = [] ∧
      o.file = logFile w L ∧ o.final = some L ∧ (∀ t ∈ o.tasks, w.out t = none) := by
  have hres := restore_clean fl hr w hw L hL
  have hverL : w.ver ∈ L := hfull.symm.subset (by simp [World.universe])
  have hexpL : w.exp ∈ L := hfull.symm.subset (by simp [World.universe])
  have hne : L ≠ [] := by rintro rfl; simp at hverL
  have hI' : fl.finishedFix = true ∨ NonEmptyI w ∨ L = [] := hI.elim Or.inl (fun h => Or.inr (Or.inl h))
  have hT := makeTasks_nodup' _ hw.triples_nodup
  -- every task that is still run has no record
  have htasks : ∀ t ∈ makeTasks fl.finishedFix L w.triples, w.out t = none := by
    intro t ht
    rw [makeTasks_filter, List.mem_filter] at ht
    cases ho : w.out t with
    | none => rfl
    | some r =>
      exfalso
      have hrU : r ∈ w.universe := (mem_universe_iff w r).mpr (Or.inr (Or.inr ⟨t, ht.1, ho⟩))
      have hrL : r ∈ L := hfull.symm.subset hrU
      have hd := (done_iff w fl.finishedFix L hI' hL.2.1 t).mpr ⟨r, hrL, hw.out_key t r ho⟩
      simp [hd] at ht
  have happ : (makeTasks fl.finishedFix L w.triples).filterMap w.out = [] := by
    rw [List.filterMap_eq_nil_iff]
    exact htasks
  have hpre : preamble fl w.ver w.exp L = [] := by
    rcases preamble_spec w hw hT fl L hL.2.1 (Or.inr (Or.inr hexpL)) with ⟨h, _⟩ | ⟨_, _, h⟩ | ⟨_, h, _⟩
    · exact absurd h hne
    · exact h
    · exact absurd hexpL h
  have hfin := finish_correct w hw hT fl.finishedFix L hI' hL fl (Or.inr (Or.inr hexpL)) [] (by rw [happ])
  refine ⟨_, by simp only [resume, hres]; rfl, rfl, ?_, ?_, ?_, htasks⟩
  · simp [finish, hpre, happ]
  · simp [finish, hpre, happ, serialize, logFile]
  · have := hfin.2.1
    simp only [finish, hpre, happ, List.append_nil] at this ⊢
    simpa [happ, logFile] using this

/-- `.gz`: a complete file loses no byte in the repair, reads as the same text, and still does after the run has appended
its end-of-run member with an empty payload -/
theorem resume_idempotent_gz' (fl : Flags) (hg : fl.repairGz = true) (w : World) (L : List Rec) (scan : MScan)
    (ms : List Member) (e : Member) (he : e.payload = []) (hlaws : MLaws scan (ms ++ [e])) (hpl : PayloadLog w.c ms L) :
    gzRepair scan (flatM ms) = flatM ms ∧ gzText fl scan (flatM ms) = some (logFile w L) ∧
    gunzip scan (flatM ms ++ e.bytes) = some (logFile w L) := by
  have hl1 : MLaws scan ms := hlaws.mono (fun m hm => List.mem_append_left _ hm)
  have h1 := (memberScan_spec' scan ms hl1 ms (fun m hm => hm) [] (Or.inl rfl)).2
  simp only [List.append_nil] at h1
  have hpay := payloadLog_payloads w.c ms L hpl
  refine ⟨h1, ?_, ?_⟩
  · simp only [gzText, hg, if_true, h1]
    rw [gunzip_spec' scan ms hl1 ms (fun m hm => hm), hpay]; rfl
  · have : flatM ms ++ e.bytes = flatM (ms ++ [e]) := by simp [flatM_append, flatM]
    rw [this, gunzip_spec' scan _ hlaws _ (fun m hm => hm), payloadsM_append, hpay]
    simp [payloadsM, he, logFile]

theorem byteStep_spec (fl : Flags) (hr : fl.repairPlain = true) (hp : fl.preambleFix = true) (w : World) (hw : w.OK)
    (hI : fl.finishedFix = true ∨ NonEmptyI w) (L : List Rec) (hL : ValidLog w L) (k : Nat) :
    (∃ g, ByteStep fl w (logFile w L) k g) ∧
    ∀ g, ByteStep fl w (logFile w L) k g → ∃ M, g = logFile w M ∧ ValidLog w M ∧ M.Perm w.universe ∧
      decodeAll w.c g = some M := by
  obtain ⟨j, p, K, h1, h2, hKL, hjK, hres, hfin⟩ := resume_correct_gen' fl hr hp w hw hI L hL k
  constructor
  · exact ⟨_, ⟨_, _, hres, List.Perm.refl _, rfl⟩⟩
  · rintro g ⟨R, app, hR, happ, hg⟩
    have hRK : R = ⟨serialize (K.map w.c.enc), K⟩ := by
      have : some R = some (⟨serialize (K.map w.c.enc), K⟩ : Restore) := by
        rw [← hR, ← hres]; rfl
      exact Option.some.inj this
    subst hRK
    obtain ⟨hfile, hfinal, hvalid, hperm, _⟩ := hfin app happ
    refine ⟨_, ?_, hvalid, hperm, ?_⟩
    · rw [← hg]; exact hfile
    · rw [← hg]
      have : (finish w.c ⟨serialize (K.map w.c.enc), K⟩ (makeTasks fl.finishedFix K w.triples)
          (preamble fl w.ver w.exp K) app).final = decodeAll w.c (finish w.c ⟨serialize (K.map w.c.enc), K⟩
          (makeTasks fl.finishedFix K w.triples) (preamble fl w.ver w.exp K) app).file := rfl
      rw [← this]; exact hfinal

theorem cut_resume_end_to_end_gen' (fl : Flags) (hr : fl.repairPlain = true) (hp : fl.preambleFix = true) (w : World)
    (hw : w.OK) (hI : fl.finishedFix = true ∨ NonEmptyI w) (L : List Rec) (hL : ValidLog w L) :
    (∀ ks, ∃ h, ByteChain fl w ks (logFile w L) h) ∧
    (∀ ks h, ByteChain fl w ks (logFile w L) h → ∃ F, h = logFile w F ∧ ValidLog w F ∧
      (ks ≠ [] → decodeAll w.c h = some F ∧ F.Perm w.universe ∧ ∀ key, bodies F key = bodies w.universe key)) := by
  have hUk := universe_keys_nodup w hw (makeTasks_nodup' _ hw.triples_nodup)
  constructor
  · intro ks
    induction ks generalizing L with
    | nil => exact ⟨_, ByteChain.nil _⟩
    | cons k ks ih =>
      obtain ⟨⟨g, hg⟩, hall⟩ := byteStep_spec fl hr hp w hw hI L hL k
      obtain ⟨M, rfl, hMv, _, _⟩ := hall g hg
      obtain ⟨h, hh⟩ := ih M hMv
      exact ⟨h, ByteChain.cons hg hh⟩
  · intro ks h hc
    generalize hf : logFile w L = f at hc
    induction hc generalizing L with
    | nil f => exact ⟨L, hf.symm, hL, fun h => absurd rfl h⟩
    | @cons k ks f g h hstep hrest ih =>
      subst hf
      obtain ⟨M, hgM, hMv, hMp, hMd⟩ := (byteStep_spec fl hr hp w hw hI L hL k).2 g hstep
      obtain ⟨F, hF, hFv, hFp⟩ := ih M hMv hgM.symm
      refine ⟨F, hF, hFv, fun _ => ?_⟩
      cases hrest with
      | nil =>
        have : F = M := by
          have hinj : logFile w F = logFile w M := by rw [← hF, hgM]
          have hd := hMd
          rw [hgM, ← hinj] at hd
          -- decode of the file of a valid log is that log
          cases hFe : F with
          | nil =>
            rw [hFe] at hinj
            have : M = [] := by
              cases M with
              | nil => rfl
              | cons a b => simp [logFile, serialize] at hinj
            exact this.symm
          | cons r0 F' =>
            have h0 : r0 = w.ver := hFv.2.2 r0 (by rw [hFe]; rfl)
            have := decodeAll_serialize w.c w.universe F hw.codec hFv.2.1 r0 F' hFe (h0 ▸ hw.ver_key)
            rw [← hFe]
            simp only [logFile] at hd
            rw [this] at hd
            exact Option.some.inj hd
        subst this
        exact ⟨by rw [hF]; rw [← hgM]; exact hMd, hMp, fun key => bodies_eq_of_perm' hMp hUk key⟩
      | cons h1 h2 => exact hFp (by simp)

/-- the entry point reduces to the protocol on the text of the file: a missing directory raises, a plain name hands the
bytes over as they are, a gzip name hands over the text of the (repaired) members; `Result.from_file` on the file a run
leaves returns the Result the run returned -/
theorem entry_glue' (fl : Flags) (w : World) (isGz : GzPred) (scan : MScan) (name : Bytes) :
    (∀ file, runEntry fl w isGz scan ⟨name, false, file⟩ = none) ∧
    (runEntry fl w isGz scan ⟨name, true, none⟩ = resume fl w none) ∧
    (isGz.eval name = false → ∀ data, runEntry fl w isGz scan ⟨name, true, some data⟩ = resume fl w (some data)) ∧
    (isGz.eval name = true → ∀ data, runEntry fl w isGz scan ⟨name, true, some data⟩ =
        (gzText fl scan data).bind (fun text => resume fl w (some text))) ∧
    (isGz.eval name = false → ∀ R tasks pre app,
        fromFile w.c isGz scan name (finish w.c R tasks pre app).file = (finish w.c R tasks pre app).final) := by
  refine ⟨fun file => by simp [runEntry, entryText], by simp [runEntry, entryText], ?_, ?_, ?_⟩
  · intro h data; simp [runEntry, entryText, h]
  · intro h data
    simp only [runEntry, entryText, h, Bool.not_true, Bool.false_eq_true, if_false, if_true]
    cases gzText fl scan data <;> rfl
  · intro h R tasks pre app
    simp [fromFile, h, finish]

/-! ### Phase 4: the chunked member scan as written, the shape test -/

theorem toMScan_eof {z : ZScan} {b : Bytes} {p : Bytes} {n : Nat} (h : z b = .eof p n) : toMScan z b = some (p, n) := by
  simp [toMScan, h]

theorem toMScan_more {z : ZScan} {b : Bytes} (h : z b = .more) : toMScan z b = none := by
  simp [toMScan, h]

theorem ZLaws.prefix_feed {z : ZScan} (hz : ZLaws z) {d p : Bytes} {n : Nat} (h : z d = .eof p n) (k : Nat) :
    z (d.take k) = .more ∨ z (d.take k) = .eof p n := by
  by_cases hk : k < n
  · exact Or.inl (hz.eof_more d p n h k hk)
  · right
    have h1 : (d.take k).take n = d.take n := by rw [List.take_take]; congr 1; omega
    have h2 : d.take k = d.take n ++ (d.take k).drop n := by rw [← h1, List.take_append_drop]
    rw [h2]; exact hz.eof_ext d p n h _

theorem ZLaws.eof_step {z : ZScan} (hz : ZLaws z) (data : Bytes) (good tell : Nat) (p : Bytes) (n : Nat)
    (htl : tell ≤ data.length) (hg : good ≤ tell)
    (h : z ((data.drop good).take (tell - good)) = .eof p n) :
    0 < n ∧ good + n ≤ tell ∧ tell - (((data.drop good).take (tell - good)).drop n).length = good + n ∧
      z (data.drop good) = .eof p n := by
  obtain ⟨hn0, hnl⟩ := hz.eof_pos _ _ _ h
  have hlen : ((data.drop good).take (tell - good)).length = tell - good := by
    rw [List.length_take, List.length_drop]; omega
  rw [hlen] at hnl
  refine ⟨hn0, by omega, ?_, ?_⟩
  · rw [List.length_drop, hlen]; omega
  · have h1 := hz.eof_ext _ p n h
      (((data.drop good).take (tell - good)).drop n ++ (data.drop good).drop (tell - good))
    rwa [← List.append_assoc, List.take_append_drop, List.take_append_drop] at h1

theorem chunk_facts (c : Nat) (data : Bytes) (pos : Nat) (h : ¬ ((data.drop pos).take c).isEmpty = true) :
    0 < ((data.drop pos).take c).length ∧ pos + ((data.drop pos).take c).length ≤ data.length := by
  have h2 : 0 < ((data.drop pos).take c).length := List.length_pos_iff.mpr (fun e => h (by rw [e]; rfl))
  have h1 : ((data.drop pos).take c).length ≤ data.length - pos := by
    rw [List.length_take, List.length_drop]; exact Nat.min_le_right _ _
  exact ⟨h2, by omega⟩

theorem scanLoop_stop (scan : MScan) (f : Nat) (d : Bytes) (pos : Nat) (h : scan d = none) :
    scanLoop scan (f + 1) d pos = pos := by
  simp only [scanLoop, h]; split <;> rfl

theorem chunkLoop_eq (z : ZScan) (hz : ZLaws z) (c : Nat) (hc : 1 ≤ c) (data : Bytes) (good pos : Nat) :
    ∀ fuel, good ≤ pos → pos ≤ data.length →
    (good < pos → z ((data.drop good).take (pos - good)) = .more) →
    data.length - good < fuel →
    chunkLoop z c data good pos = scanLoop (toMScan z) fuel (data.drop good) good := by
  fun_induction chunkLoop z c data good pos with
  | case1 good pos chunk hch =>
    intro fuel hgp hpl hinv hf
    obtain ⟨f, rfl⟩ : ∃ f, fuel = f + 1 := ⟨fuel - 1, by omega⟩
    have hpos : pos = data.length := by
      have h0 : chunk.length = 0 := by
        have : chunk = [] := List.isEmpty_iff.mp hch
        rw [this]; rfl
      have h1 : chunk.length = min c (data.length - pos) := by
        show ((data.drop pos).take c).length = _
        rw [List.length_take, List.length_drop]
      omega
    by_cases hg : good < pos
    · have h2 : (data.drop good).take (pos - good) = data.drop good :=
        List.take_of_length_le (by rw [List.length_drop]; omega)
      have h3 := hinv hg
      rw [h2] at h3
      exact (scanLoop_stop _ f _ good (toMScan_more h3)).symm
    · have : data.drop good = [] := List.drop_eq_nil_of_le (by omega)
      rw [this]; simp [scanLoop]
  | case2 good pos chunk hch tell fed hzf =>
    intro fuel hgp hpl hinv hf
    obtain ⟨f, rfl⟩ : ∃ f, fuel = f + 1 := ⟨fuel - 1, by omega⟩
    have hcf := chunk_facts c data pos hch
    symm; apply scanLoop_stop
    cases hzd : z (data.drop good) with
    | eof p n =>
      rcases hz.prefix_feed hzd (tell - good) with h | h
      · rw [show (data.drop good).take (tell - good) = fed from rfl, hzf] at h; cases h
      · rw [show (data.drop good).take (tell - good) = fed from rfl, hzf] at h; cases h
    | more => simp [toMScan, hzd]
    | error => simp [toMScan, hzd]
  | case3 good pos chunk hch tell fed hzf ih =>
    intro fuel hgp hpl hinv hf
    have hcf := chunk_facts c data pos hch
    exact ih fuel (by show good ≤ pos + chunk.length; omega) hcf.2 (fun _ => hzf) hf
  | case4 good pos chunk hch tell fed p n hzf unused good' hg ih =>
    intro fuel hgp hpl hinv hf
    obtain ⟨f, rfl⟩ : ∃ f, fuel = f + 1 := ⟨fuel - 1, by omega⟩
    have hcf := chunk_facts c data pos hch
    have htell : good ≤ tell := by show good ≤ pos + chunk.length; omega
    obtain ⟨hn0, hnt, hg', hzd⟩ := hz.eof_step data good tell p n hcf.2 htell hzf
    have hg'' : good' = good + n := hg'
    have hne : (data.drop good).isEmpty = false := by
      have : 0 < (data.drop good).length := by
        rw [List.length_drop]; have : tell ≤ data.length := hcf.2; omega
      cases hd : data.drop good with
      | nil => rw [hd] at this; simp at this
      | cons _ _ => rfl
    rw [scanLoop, hne, toMScan_eof hzd]
    simp only [Bool.false_eq_true, if_false, show n ≠ 0 by omega, List.drop_drop]
    rw [hg'']
    have := ih f (Nat.le_refl _) (by rw [hg'']; have : tell ≤ data.length := hcf.2; omega) (fun h => absurd h (Nat.lt_irrefl _))
      (by rw [hg'']; omega)
    rw [hg''] at this
    rw [this]
  | case5 good pos chunk hch tell fed p n hzf unused good' hg =>
    intro fuel hgp hpl hinv hf
    exfalso
    have hcf := chunk_facts c data pos hch
    have htell : good ≤ tell := by show good ≤ pos + chunk.length; omega
    obtain ⟨hn0, hnt, hg', hzd⟩ := hz.eof_step data good tell p n hcf.2 htell hzf
    have hg'' : good' = good + n := hg'
    apply hg; rw [hg'']; omega

theorem chunk_scan_eq_member_scan' (z : ZScan) (hz : ZLaws z) (c : Nat) (hc : 1 ≤ c) (data : Bytes) :
    chunkScan z c data = memberScan (toMScan z) data := by
  unfold chunkScan memberScan
  have := chunkLoop_eq z hz c hc data 0 0 (data.length + 1) (Nat.le_refl _) (Nat.zero_le _) (fun h => absurd h (Nat.lt_irrefl _)) (by omega)
  simpa using this

theorem chunk_zero' (z : ZScan) (data : Bytes) : chunkScan z 0 data = 0 := by
  unfold chunkScan; rw [chunkLoop]; simp

theorem tableScan_some {tbl : List Member} {data p : Bytes} {n : Nat} (h : tableScan tbl data = some (p, n)) :
    ∃ m ∈ tbl, m.bytes <+: data ∧ p = m.payload ∧ n = m.bytes.length := by
  unfold tableScan at h
  cases hf : tbl.find? (fun m => m.bytes.isPrefixOf data) with
  | none => simp [hf] at h
  | some m =>
    simp [hf] at h
    refine ⟨m, List.mem_of_find?_eq_some hf, ?_, h.1.symm, h.2.symm⟩
    have := List.find?_some hf
    exact List.isPrefixOf_iff_prefix.mp this

theorem tableZ_eof {tbl : List Member} {b p : Bytes} {n : Nat} (hb : tableZ tbl b = .eof p n) :
    tableScan tbl b = some (p, n) := by
  unfold tableZ at hb
  cases hs : tableScan tbl b with
  | none => rw [hs] at hb; simp only at hb; split at hb <;> cases hb
  | some pn => rw [hs] at hb; obtain ⟨p', n'⟩ := pn; simp only at hb; cases hb; rfl

theorem tableZ_laws' (tbl : List Member) (h : memberTableOK tbl = true) : ZLaws (tableZ tbl) := by
  have hl := tableScan_laws tbl h
  refine ⟨?_, ?_, ?_⟩
  · intro b p n hb
    obtain ⟨m, hm, hpre, rfl, rfl⟩ := tableScan_some (tableZ_eof hb)
    exact ⟨List.length_pos_iff.mpr (hl.ne m hm), hpre.length_le⟩
  · intro b p n hb rest
    obtain ⟨m, hm, hpre, rfl, rfl⟩ := tableScan_some (tableZ_eof hb)
    have : b.take m.bytes.length = m.bytes := by obtain ⟨t, rfl⟩ := hpre; simp
    rw [this]; unfold tableZ; rw [hl.complete m hm rest]
  · intro b p n hb k hk
    obtain ⟨m, hm, hpre, rfl, rfl⟩ := tableScan_some (tableZ_eof hb)
    have e : b.take k = m.bytes.take k := by
      obtain ⟨t, rfl⟩ := hpre; rw [List.take_append_of_le_length (by omega)]
    have hne : m.bytes.take k ≠ m.bytes := by
      intro e2; have := congrArg List.length e2; simp at this; omega
    unfold tableZ
    rw [e, hl.torn m hm _ (List.take_prefix _ _) hne]
    have : tbl.any (fun m' => (m.bytes.take k).isPrefixOf m'.bytes) = true := by
      simp only [List.any_eq_true]; exact ⟨m, hm, List.isPrefixOf_iff_prefix.mpr (List.take_prefix _ _)⟩
    simp [this]

theorem toMScan_tableZ' (tbl : List Member) : toMScan (tableZ tbl) = tableScan tbl := by
  funext b; unfold toMScan tableZ
  cases hs : tableScan tbl b with
  | none =>
    by_cases ha : (tbl.any fun m => List.isPrefixOf b m.bytes) = true <;> simp [ha]
  | some pn => rfl

/-- the scan as written, on what a killed run leaves: complete members ++ a torn one -/
theorem chunk_scan_spec' (z : ZScan) (hz : ZLaws z) (all : List Member) (hl : MLaws (toMScan z) all) (c : Nat) (hc : 1 ≤ c)
    (ms : List Member) (hms : ∀ m ∈ ms, m ∈ all) (q : Bytes) (hq : q = [] ∨ ∃ m ∈ all, q <+: m.bytes ∧ q ≠ m.bytes) :
    chunkScan z c (flatM ms ++ q) = (flatM ms).length ∧ (flatM ms ++ q).take (chunkScan z c (flatM ms ++ q)) = flatM ms := by
  have h1 := chunk_scan_eq_member_scan' z hz c hc (flatM ms ++ q)
  have h2 := memberScan_spec' (toMScan z) all hl ms hms q hq
  rw [h1, h2.1]; simp

/-! ### the shape test -/

theorem exp_rec_unique (w : World) (hw : w.OK) {r : Rec} (hr : r ∈ w.universe) (hk : r.key = Key.exp) : r = w.exp := by
  have hT := makeTasks_nodup' w.triples hw.triples_nodup
  have hU := universe_keys_nodup w hw hT
  have he : w.exp ∈ w.universe := (mem_universe_iff w w.exp).mpr (Or.inr (Or.inl rfl))
  exact eq_of_key_eq hU hr he (by rw [hk, hw.exp_key])

theorem restoredShape_own (w : World) (hw : w.OK) (shapeOf : Rec → Option Nat × Option Nat) (K : List Rec)
    (hK : ∀ r ∈ K, r ∈ w.universe) :
    restoredShape shapeOf K = shapeOf w.exp ∨ restoredShape shapeOf K = (none, none) := by
  unfold restoredShape
  cases hl : (K.filter (fun r => decide (r.key = Key.exp))).getLast? with
  | none => right; rfl
  | some r =>
    left
    have hm : r ∈ K.filter (fun r => decide (r.key = Key.exp)) := List.mem_of_getLast? hl
    have := List.mem_filter.mp hm
    have hk : r.key = Key.exp := by simpa using this.2
    simp only [exp_rec_unique w hw (hK r this.1) hk]

theorem no_mismatch_own' (w : World) (hw : w.OK) (shapeOf : Rec → Option Nat × Option Nat)
    (hs : shapeOf w.exp = (some (givenShape w.triples).1, some (givenShape w.triples).2))
    (K : List Rec) (hK : ∀ r ∈ K, r ∈ w.universe) :
    shapeMismatch shapeOf (givenShape w.triples) K = false := by
  unfold shapeMismatch
  rcases restoredShape_own w hw shapeOf K hK with h | h
  · rw [h, hs]; simp
  · rw [h]; simp

theorem mismatch_raises' (shapeOf : Rec → Option Nat × Option Nat) (given : Nat × Nat) (K : List Rec) (r : Rec)
    (hr : (K.filter (fun r => decide (r.key = Key.exp))).getLast? = some r) (nl ne : Nat)
    (hs : shapeOf r = (some nl, some ne)) (hne : nl ≠ given.1 ∨ ne ≠ given.2) :
    shapeMismatch shapeOf given K = true := by
  have hK : K.isEmpty = false := by
    cases K with
    | nil => simp at hr
    | cons _ _ => rfl
  have hrs : restoredShape shapeOf K = (some nl, some ne) := by
    unfold restoredShape; rw [hr]; exact hs
  unfold shapeMismatch
  rw [hrs, hK]
  rcases hne with h | h <;> simp [h]

theorem resume_never_mismatch' (w : World) (hw : w.OK) (shapeOf : Rec → Option Nat × Option Nat)
    (hs : shapeOf w.exp = (some (givenShape w.triples).1, some (givenShape w.triples).2))
    (L : List Rec) (hL : ValidLog w L) (k : Nat) :
    ∃ o, resume Flags.fixed w (some (cut w L k)) = some o ∧
      resumeChecked Flags.fixed w shapeOf (givenShape w.triples) (some (cut w L k)) = some (false, o) := by
  obtain ⟨j, p, K, h1, h2, hrest, hKL, hjK⟩ := restore_fixed Flags.fixed rfl w hw L hL k
  have hKU : ∀ r ∈ K, r ∈ w.universe := fun r hr => hL.2.1 r (hKL.subset hr)
  have hm := no_mismatch_own' w hw shapeOf hs K hKU
  refine ⟨finish w.c ⟨serialize (K.map w.c.enc), K⟩ (makeTasks Flags.fixed.finishedFix K w.triples)
    (preamble Flags.fixed w.ver w.exp K) ((makeTasks Flags.fixed.finishedFix K w.triples).filterMap w.out), ?_, ?_⟩
  · simp only [resume, cut, logFile, hrest]
  · simp only [resumeChecked, cut, logFile, hrest, hm]
    rfl

/-! ### Phase 4: `Result.from_file` on a cut file without resuming -/

theorem lines_cut_tail (c : Codec) (U A : List Rec) (hc : c.Lawful U) (hA : ∀ r ∈ A, r ∈ U) (p : Bytes)
    (hNo : NoNL p) (hne : p ≠ []) :
    lines (serialize (A.map c.enc) ++ p) = A.map c.enc ++ [p] := by
  have hsplit : splitNL (serialize (A.map c.enc) ++ p) = (A.map c.enc, p) := by
    rw [splitNL_serialize_append _ _ p, splitNL_noNL hNo]
    · simp
    · intro r hr
      obtain ⟨x, hx, rfl⟩ := List.mem_map.mp hr
      exact hc.noNL x (hA x hx)
  unfold lines; rw [hsplit]
  apply List.filter_eq_self.mpr
  intro l hl
  rcases List.mem_append.mp hl with h | h
  · obtain ⟨x, hx, rfl⟩ := List.mem_map.mp h
    have := hc.ne x (hA x hx)
    cases hx' : c.enc x with
    | nil => exact absurd hx' this
    | cons _ _ => rfl
  · have : l = p := by simpa using h
    subst this
    cases l with
    | nil => exact absurd rfl hne
    | cons _ _ => rfl

theorem decodeLines_append_none (c : Codec) (A : List Bytes) (p : Bytes) (h : c.dec p = none) :
    decodeLines c (A ++ [p]) = none := by
  induction A with
  | nil => simp [decodeLines, h]
  | cons a A ih => simp only [List.cons_append, decodeLines, ih]; cases c.dec a <;> rfl

/-- `Result.from_file` (plain) on a file that ends inside a record raises -/
theorem from_file_torn' (w : World) (hw : w.OK) (A : List Rec) (hA : ∀ r ∈ A, r ∈ w.universe) (r : Rec)
    (hr : r ∈ w.universe) (p : Bytes) (hp : p <+: w.c.enc r) (hne : p ≠ []) (hpr : p ≠ w.c.enc r) :
    decodeAll w.c (logFile w A ++ p) = none := by
  have hNo := NoNL_prefix (hw.codec.noNL r hr) hp
  unfold decodeAll logFile
  rw [lines_cut_tail w.c _ A hw.codec hA p hNo hne, decodeLines_append_none _ _ _ (hw.codec.torn r hr p hp hpr)]

/-- … and on a file whose last record is complete but lacks its newline it reads every record -/
theorem from_file_unterminated' (w : World) (hw : w.OK) (A : List Rec) (hA : ∀ r ∈ A, r ∈ w.universe) (r : Rec)
    (hr : r ∈ w.universe) (hver : ∀ x, (A ++ [r]).head? = some x → x.key = Key.ver) :
    decodeAll w.c (logFile w A ++ w.c.enc r) = some (A ++ [r]) := by
  have hl := lines_cut_tail w.c _ A hw.codec hA (w.c.enc r) (hw.codec.noNL r hr) (hw.codec.ne r hr)
  have hAr : ∀ x ∈ A ++ [r], x ∈ w.universe := by
    intro x hx; rcases List.mem_append.mp hx with h | h
    · exact hA x h
    · have : x = r := by simpa using h
      subst this; exact hr
  have hd := decodeLines_map_enc w.c (A ++ [r]) (fun x hx => hw.codec.dec_enc x (hAr x hx))
  have e : A.map w.c.enc ++ [w.c.enc r] = (A ++ [r]).map w.c.enc := by simp
  unfold decodeAll logFile
  rw [hl, e, hd]
  cases hh : A ++ [r] with
  | nil => simp at hh
  | cons x xs => simp [hver x (by rw [hh]; rfl)]

/-! ### Phase 4: ChunkTasks / ProcessTasks order is a permutation -/

theorem insertOrd_perm (lt : Task → Task → Bool) (t : Task) (l : List Task) : (insertOrd lt t l).Perm (t :: l) := by
  induction l with
  | nil => exact List.Perm.refl _
  | cons u us ih =>
    simp only [insertOrd]
    split
    · exact ((List.Perm.cons u ih).trans (List.Perm.swap t u us))
    · exact List.Perm.refl _

theorem sortOrd_perm (lt : Task → Task → Bool) (l : List Task) : (sortOrd lt l).Perm l := by
  induction l with
  | nil => exact List.Perm.refl _
  | cons t ts ih => exact (insertOrd_perm lt t _).trans (List.Perm.cons t ih)

theorem insertGrp_perm (key : List Task → Nat) (g : List Task) (l : List (List Task)) : (insertGrp key g l).Perm (g :: l) := by
  induction l with
  | nil => exact List.Perm.refl _
  | cons u us ih =>
    simp only [insertGrp]
    split
    · exact ((List.Perm.cons u ih).trans (List.Perm.swap g u us))
    · exact List.Perm.refl _

theorem sortGrp_perm (key : List Task → Nat) (l : List (List Task)) : (sortGrp key l).Perm l := by
  induction l with
  | nil => exact List.Perm.refl _
  | cons t ts ih => exact (insertGrp_perm key t _).trans (List.Perm.cons t ih)

theorem groupsOf_flatten (ck : Task → Nat) (l : List Task) : (groupsOf ck l).flatten.Perm l := by
  fun_induction groupsOf ck l with
  | case1 => exact List.Perm.refl _
  | case2 t ts ih =>
    simp only [List.flatten_cons]
    have h1 : (t :: ts).filter (fun u => !(ck u == ck t)) = dropGroup ck (ck t) ts := by
      simp [List.filter_cons, dropGroup]
    have h2 := List.filter_append_perm (fun u => ck u == ck t) (t :: ts)
    rw [h1] at h2
    exact (List.Perm.append_left _ ih).trans h2

theorem batches_go_flatten (m : Nat) (hm : m ≠ 0) (l : List Task) (f : Nat) (hf : l.length ≤ f) :
    (batches.go m l f).flatten = l := by
  induction f generalizing l with
  | zero =>
    have : l = [] := List.eq_nil_of_length_eq_zero (by omega)
    subst this; rfl
  | succ f ih =>
    simp only [batches.go]
    cases l with
    | nil => rfl
    | cons a as =>
      simp only [List.isEmpty_cons, Bool.false_eq_true, if_false, List.flatten_cons]
      rw [ih _ (by simp only [List.length_drop, List.length_cons] at hf ⊢; omega), List.take_append_drop]

theorem batches_flatten (m : Nat) (l : List Task) : (batches m l).flatten = l := by
  unfold batches
  by_cases hm : m = 0
  · simp only [hm, if_true]
    cases l <;> simp
  · simp only [hm, if_false]
    exact batches_go_flatten m hm l _ (Nat.le_refl _)

theorem flatMap_singleton_flatten (l : List Task) : (l.map (fun t => [t])).flatten = l := by
  induction l with
  | nil => rfl
  | cons a as ih => simp [ih]

theorem chunkTasks_flatten_perm (chunkOf : Nat → Option Nat) (m : Nat) (tasks : List Task) :
    (chunkTasks chunkOf m tasks).flatten.Perm tasks := by
  unfold chunkTasks
  simp only [List.flatten_append, flatMap_singleton_flatten]
  have hg : ∀ gs : List (List Task),
      (gs.flatMap (fun g => batches m (sortOrd (fun a b => ordLt a.ord b.ord) g))).flatten.Perm gs.flatten := by
    intro gs
    induction gs with
    | nil => exact List.Perm.refl _
    | cons g gs ih =>
      simp only [List.flatMap_cons, List.flatten_append, List.flatten_cons, batches_flatten]
      exact List.Perm.append (sortOrd_perm _ g) ih
  have hsome : ∀ (f : Task → Option Nat), (fun t => (f t).isSome) = (fun t => !(f t).isNone) := by
    intro f; funext t; cases f t <;> rfl
  have h3 := (hg _).trans (((sortGrp_perm minEnv (groupsOf (fun t => (t.envId.bind chunkOf).getD 0)
    ((tasks.filter (fun t => t.envId.isSome)).filter (fun t => (t.envId.bind chunkOf).isSome)))).flatten).trans (groupsOf_flatten _ _))
  have h4 := List.filter_append_perm (fun t => (t.envId.bind chunkOf).isNone) (tasks.filter (fun t => t.envId.isSome))
  rw [← hsome (fun t => t.envId.bind chunkOf)] at h4
  have h5 := List.filter_append_perm (fun t => t.envId.isNone) tasks
  rw [← hsome (fun t => t.envId)] at h5
  exact (List.Perm.append_left _ ((List.Perm.append_left _ h3).trans h4)).trans h5

theorem processOrder_perm (c : List Task) : (processOrder c).Perm c :=
  (sortOrd_perm _ _).trans (List.reverse_perm c)

theorem runOrder_perm' (chunkOf : Nat → Option Nat) (m : Nat) (tasks : List Task) : (runOrder chunkOf m tasks).Perm tasks := by
  unfold runOrder
  have : ∀ cs : List (List Task), (cs.flatMap processOrder).Perm cs.flatten := by
    intro cs
    induction cs with
    | nil => exact List.Perm.refl _
    | cons c cs ih => simp only [List.flatMap_cons, List.flatten_cons]; exact List.Perm.append (processOrder_perm c) ih
  exact (this _).trans (chunkTasks_flatten_perm chunkOf m tasks)

theorem resume_correct_run_order' (w : World) (hw : w.OK) (L : List Rec) (hL : ValidLog w L) (k : Nat)
    (chunkOf : Nat → Option Nat) (m : Nat) :
    ∃ K, restore Flags.fixed w.c (some (cut w L k)) = some ⟨logFile w K, K⟩ ∧ K <+: L ∧
        let o := finish w.c ⟨logFile w K, K⟩ (makeTasks true K w.triples) (preamble Flags.fixed w.ver w.exp K)
          ((runOrder chunkOf m (makeTasks true K w.triples)).filterMap w.out)
        o.file = logFile w (K ++ o.appended) ∧ o.final = some (K ++ o.appended) ∧ ValidLog w (K ++ o.appended) ∧
        (K ++ o.appended).Perm w.universe ∧ (∀ t ∈ o.tasks, ∀ r ∈ K, r.key ≠ t.key) := by
  obtain ⟨j, p, K, _, _, hKL, _, hrest, hall⟩ := resume_correct' w hw L hL k
  exact ⟨K, hrest, hKL, hall _ ((runOrder_perm' chunkOf m _).filterMap w.out)⟩

/-! ### Phase 4: universal newlines -/

theorem univ_of_noCR (f : Bytes) (h : CR ∉ f) : univ f = f := by
  unfold univ
  induction f with
  | nil => rfl
  | cons b bs ih =>
    have hb : b ≠ CR := fun e => h (by simp [e])
    have hbs : CR ∉ bs := fun m => h (List.mem_cons_of_mem _ m)
    simp [univAux, hb, ih hbs]

theorem decodeAllU_eq' (c : Codec) (f : Bytes) (h : CR ∉ f) : decodeAllU c f = decodeAll c f := by
  unfold decodeAllU linesU
  rw [univ_of_noCR f h]
  rfl

theorem noCR_serialize (rs : List Bytes) (h : ∀ r ∈ rs, CR ∉ r) : CR ∉ serialize rs := by
  induction rs with
  | nil => simp [serialize]
  | cons r rs ih =>
    simp only [serialize, List.mem_append, List.mem_cons, not_or]
    exact ⟨h r (by simp), by decide, ih (fun x hx => h x (List.mem_cons_of_mem _ hx))⟩

/-- every cut of a log whose record texts hold no raw `\r` is read the same with and without universal newlines -/
theorem universal_newlines_irrelevant' (w : World) (L : List Rec) (h : ∀ r ∈ L, CR ∉ w.c.enc r) (k : Nat) :
    decodeAllU w.c (cut w L k) = decodeAll w.c (cut w L k) := by
  apply decodeAllU_eq'
  intro hm
  have : CR ∈ logFile w L := List.mem_of_mem_take hm
  exact noCR_serialize (L.map w.c.enc) (by
    intro r hr; obtain ⟨x, hx, rfl⟩ := List.mem_map.mp hr; exact h x hx) this

/-- a record text with a raw `\r` (which `json.dumps` never produces) IS split in two: the hypothesis is necessary -/
theorem cr_counterexample' :
    let c := tableCodec [(⟨.ver, 0, 0⟩, [91, 13, 93])]
    decodeAll c (serialize [[91, 13, 93]]) = some [⟨.ver, 0, 0⟩] ∧ decodeAllU c (serialize [[91, 13, 93]]) = none := by
  decide

/-! ### Phase 5: `_max_chunker` (batches + the extracted program), DiskSink's write loop, windowed torn-tail repair, shape test -/

theorem batches_go_nil (m f : Nat) : batches.go m [] f = [] := by cases f <;> simp [batches.go]

theorem batches_go_bounds (m : Nat) (hm : 1 ≤ m) (l : List Task) (f : Nat) :
    ∀ b ∈ batches.go m l f, b ≠ [] ∧ b.length ≤ m := by
  induction f generalizing l with
  | zero => intro b hb; simp [batches.go] at hb
  | succ f ih =>
    intro b hb
    cases l with
    | nil => simp [batches.go] at hb
    | cons a as =>
      simp only [batches.go, List.isEmpty_cons, Bool.false_eq_true, if_false, List.mem_cons] at hb
      rcases hb with rfl | hb
      · refine ⟨?_, List.length_take_le _ _⟩
        obtain ⟨k, rfl⟩ : ∃ k, m = k + 1 := ⟨m - 1, by omega⟩
        simp
      · exact ih _ b hb

theorem batches_go_full (m : Nat) (l : List Task) (f : Nat) :
    ∀ b ∈ (batches.go m l f).dropLast, b.length = m := by
  induction f generalizing l with
  | zero => intro b hb; simp [batches.go] at hb
  | succ f ih =>
    intro b hb
    cases l with
    | nil => simp [batches.go] at hb
    | cons a as =>
      simp only [batches.go, List.isEmpty_cons, Bool.false_eq_true, if_false] at hb
      by_cases hx : batches.go m ((a :: as).drop m) f = []
      · rw [hx] at hb; simp at hb
      · rw [List.dropLast_cons_of_ne_nil hx, List.mem_cons] at hb
        rcases hb with rfl | hb
        · have h1 : (a :: as).drop m ≠ [] := fun e => hx (by rw [e]; exact batches_go_nil m f)
          have h2 : m < (a :: as).length := by
            by_contra h; exact h1 (List.drop_eq_nil_of_le (by omega))
          rw [List.length_take]; omega
        · exact ih _ b hb

theorem resume_chunking_complete' (k : Nat) (hk : 1 ≤ k) (l : List Task) :
    (batches k l).flatten = l ∧ (∀ b ∈ batches k l, b ≠ [] ∧ b.length ≤ k) ∧ (∀ b ∈ (batches k l).dropLast, b.length = k) := by
  refine ⟨batches_flatten k l, ?_, ?_⟩
  · have : k ≠ 0 := by omega
    unfold batches; simp only [this, if_false]; exact batches_go_bounds k hk l _
  · have : k ≠ 0 := by omega
    unfold batches; simp only [this, if_false]; exact batches_go_full k l _

theorem resume_chunks_nodup' (chunkOf : Nat → Option Nat) (k : Nat) (K : List Rec) (triples : List (Nat × Nat × Nat))
    (h : (makeTasks true K triples).Nodup) :
    (chunkTasks chunkOf k (makeTasks true K triples)).flatten.Perm (makeTasks true K triples) ∧
    (chunkTasks chunkOf k (makeTasks true K triples)).flatten.Nodup :=
  ⟨chunkTasks_flatten_perm _ _ _, (chunkTasks_flatten_perm _ _ _).nodup_iff.mpr h⟩

theorem execWhile_go (m : Nat) (hm : m ≠ 0) (f : Nat) (r : List Task) (out : List (List Task)) :
    (execWhile m [.yieldBatch, .takeBatch] f ⟨r.drop m, r.take m, out⟩).out = out ++ batches.go m r f := by
  induction f generalizing r out with
  | zero => simp [execWhile, batches.go]
  | succ f ih =>
    cases r with
    | nil => simp [execWhile, batches.go]
    | cons a as =>
      obtain ⟨k, rfl⟩ : ∃ k, m = k + 1 := ⟨m - 1, by omega⟩
      have := ih ((a :: as).drop (k+1)) (out ++ [(a :: as).take (k+1)])
      simp only [execWhile, batches.go, List.take_succ_cons, List.isEmpty_cons, Bool.false_eq_true, if_false,
        execBody, List.foldl_cons, List.foldl_nil, stepSimple, hm] at this ⊢
      rw [this]; simp

theorem max_chunker_prog_eq_batches' (m : Nat) (l : List Task) : runChunker maxChunkerProg m l = batches m l := by
  unfold runChunker maxChunkerProg batches
  by_cases hm : m = 0
  · subst hm
    cases l with
    | nil => simp [execProg, stepSimple, execWhile]
    | cons a as =>
      simp [execProg, stepSimple, execWhile, execBody]
      cases as.length <;> simp [execWhile]
  · simp only [execProg, stepSimple, hm, if_false]
    exact (execWhile_go m hm l.length l []).trans (by simp)

theorem sinkWrite_go_one (f : Nat) (l : List Bytes) (h : l.length < f) :
    sinkWrite.go 1 f l = l.map (fun x => [x]) ++ [[]] := by
  induction f generalizing l with
  | zero => omega
  | succ f ih =>
    cases l with
    | nil => simp [sinkWrite.go]
    | cons a as =>
      simp [sinkWrite.go]
      exact ih as (by simpa using h)

theorem gz_member_per_record' (lines : List Bytes) : sinkWrite 1 lines = lines.map (fun x => [x]) ++ [[]] := by
  simp only [sinkWrite, Nat.one_ne_zero, if_false]
  exact sinkWrite_go_one _ _ (by omega)

theorem sinkWrite_go_flatten (b : Nat) (hb : b ≠ 0) (f : Nat) (l : List Bytes) (h : l.length < f) :
    (sinkWrite.go b f l).flatten = l := by
  induction f generalizing l with
  | zero => omega
  | succ f ih =>
    simp only [sinkWrite.go]
    split
    · rename_i ht
      rw [List.length_take] at ht
      simp only [List.flatten_cons]
      rw [ih _ (by rw [List.length_drop]; omega), List.take_append_drop]
    · rename_i ht
      rw [List.length_take] at ht
      simp only [List.flatten_cons, List.flatten_nil, List.append_nil]
      exact List.take_of_length_le (by omega)

theorem sink_write_complete' (b : Nat) (lines : List Bytes) : (sinkWrite b lines).flatten = lines := by
  unfold sinkWrite
  by_cases hb : b = 0
  · simp [hb]
  · simp only [hb, if_false]; exact sinkWrite_go_flatten b hb _ _ (by omega)

theorem splitNL_lines_ne_nil (X : Bytes) (h : NL ∈ X) : (splitNL X).1 ≠ [] := by
  induction X with
  | nil => simp at h
  | cons b bs ih =>
    simp only [splitNL]
    by_cases hb : b = NL
    · simp [hb]
    · have : NL ∈ bs := by
        rcases List.mem_cons.mp h with e | e
        · exact absurd e.symm hb
        · exact e
      have := ih this
      simp only [hb, if_false]
      cases h1 : (splitNL bs).1 with
      | nil => exact absurd h1 this
      | cons l ls => simp

theorem splitNL_cons_of_mem (a : Nat) (X : Bytes) (h : NL ∈ X) :
    (splitNL (a :: X)).2 = (splitNL X).2 ∧ serialize (splitNL (a :: X)).1 = a :: serialize (splitNL X).1 := by
  have hne := splitNL_lines_ne_nil X h
  simp only [splitNL]
  by_cases ha : a = NL
  · simp [ha, serialize]
  · simp only [ha, if_false]
    cases h1 : (splitNL X).1 with
    | nil => exact absurd h1 hne
    | cons l ls => simp [serialize]

theorem repair_cons_of_mem (c : Codec) (a : Nat) (X : Bytes) (h : NL ∈ X) : repair c (a :: X) = a :: repair c X := by
  obtain ⟨h1, h2⟩ := splitNL_cons_of_mem a X h
  unfold repair
  simp only [h1, h2]
  split
  · rfl
  · split
    · rfl
    · rfl

theorem repair_append_of_mem (c : Codec) (A B : Bytes) (h : NL ∈ B) : repair c (A ++ B) = A ++ repair c B := by
  induction A with
  | nil => rfl
  | cons a as ih =>
    rw [List.cons_append, repair_cons_of_mem c a (as ++ B) (List.mem_append_right _ h), ih]; rfl

theorem drop_torn_tail_window_independent' (c : Codec) (W : Nat) (file : Bytes)
    (h : NL ∈ file.drop (file.length - W) ∨ file.length ≤ W) : repairWin c W file = repair c file := by
  unfold repairWin
  rcases h with h | h
  · rw [← repair_append_of_mem c _ _ h, List.take_append_drop]
  · have : file.length - W = 0 := by omega
    simp [this]

theorem window_counterexample' :
    let c := tableCodec [(⟨.ver, 0, 0⟩, [91, 93])]
    let file : Bytes := [91, 93, 10, 91, 91, 91, 91]
    repair c file = [91, 93, 10] ∧ decodeAll c (repair c file) = some [⟨.ver, 0, 0⟩] ∧
    repairWin c 2 file = [91, 93, 10, 91, 91] ∧ decodeAll c (repairWin c 2 file) = none ∧
    repairWin c 5 file = repair c file := by
  decide

theorem shape_ignores_evaluators' (ts : List (Nat × Nat × Nat)) (g : Nat × Nat × Nat → Nat) :
    givenShape (ts.map (fun t => (t.1, t.2.1, g t))) = givenShape ts := by
  simp [givenShape, List.map_map, Function.comp_def]

/-! ### Phase 5: multi-process order — interleavings of the per-chunk sequences -/

theorem flatten_all_nil {α : Type} (ls : List (List α)) (h : ∀ l ∈ ls, l = []) : ls.flatten = [] := by
  induction ls with
  | nil => rfl
  | cons a as ih =>
    have := h a (by simp); subst this
    simpa using ih (fun l hl => h l (List.mem_cons_of_mem _ hl))

theorem merge_perm' {α : Type} (ls : List (List α)) (out : List α) (h : Merge ls out) : out.Perm ls.flatten := by
  induction h with
  | done ls hn => rw [flatten_all_nil ls hn]
  | step pre post x l out _ ih =>
    simp only [List.flatten_append, List.flatten_cons, List.cons_append] at ih ⊢
    exact (List.Perm.cons x ih).trans List.perm_middle.symm

theorem merge_sublist' {α : Type} (ls : List (List α)) (out : List α) (h : Merge ls out) : ∀ l ∈ ls, l.Sublist out := by
  induction h with
  | done ls hn => intro l hl; rw [hn l hl]
  | step pre post x l out _ ih =>
    intro l' hl'
    rcases List.mem_append.mp hl' with hp | hp
    · exact (ih l' (List.mem_append_left _ hp)).cons x
    · rcases List.mem_cons.mp hp with rfl | hp
      · exact (ih l (List.mem_append_right _ (List.mem_cons_self))).cons_cons x
      · exact (ih l' (List.mem_append_right _ (List.mem_cons_of_mem _ hp))).cons x

/-- the sequential run is one of the interleavings -/
theorem merge_flatten' {α : Type} (ls : List (List α)) : Merge ls ls.flatten := by
  induction ls with
  | nil => exact Merge.done [] (by simp)
  | cons a as ih =>
    induction a with
    | nil =>
      simp only [List.flatten_cons, List.nil_append]
      -- adding an empty sequence in front
      have : ∀ (ls : List (List α)) (out : List α), Merge ls out → Merge ([] :: ls) out := by
        intro ls out h
        induction h with
        | done ls hn => exact Merge.done _ (by intro l hl; rcases List.mem_cons.mp hl with rfl | hl; rfl; exact hn l hl)
        | step pre post x l out _ ih2 => exact Merge.step ([] :: pre) post x l out ih2
      exact this _ _ ih
    | cons x xs ihx =>
      simp only [List.flatten_cons, List.cons_append] at ihx ⊢
      exact Merge.step [] as x xs _ ihx

theorem multiprocess_order' (w : World) (hw : w.OK) (L : List Rec) (hL : ValidLog w L) (k : Nat)
    (chunkOf : Nat → Option Nat) (m : Nat) :
    ∃ K, restore Flags.fixed w.c (some (cut w L k)) = some ⟨logFile w K, K⟩ ∧ K <+: L ∧
      ∀ app, Merge ((chunkTasks chunkOf m (makeTasks true K w.triples)).map (fun c => (processOrder c).filterMap w.out)) app →
        (∀ c ∈ chunkTasks chunkOf m (makeTasks true K w.triples), ((processOrder c).filterMap w.out).Sublist app) ∧
        let o := finish w.c ⟨logFile w K, K⟩ (makeTasks true K w.triples) (preamble Flags.fixed w.ver w.exp K) app
        o.file = logFile w (K ++ o.appended) ∧ o.final = some (K ++ o.appended) ∧ ValidLog w (K ++ o.appended) ∧
        (K ++ o.appended).Perm w.universe ∧ (∀ t ∈ o.tasks, ∀ r ∈ K, r.key ≠ t.key) := by
  obtain ⟨j, p, K, _, _, hKL, _, hrest, hall⟩ := resume_correct' w hw L hL k
  refine ⟨K, hrest, hKL, ?_⟩
  intro app hm
  refine ⟨fun c hc => merge_sublist' _ _ hm _ (List.mem_map_of_mem hc), hall app ?_⟩
  have h1 := merge_perm' _ _ hm
  have h2 : ((chunkTasks chunkOf m (makeTasks true K w.triples)).map (fun c => (processOrder c).filterMap w.out)).flatten
      = ((runOrder chunkOf m (makeTasks true K w.triples)).filterMap w.out) := by
    unfold runOrder
    generalize chunkTasks chunkOf m (makeTasks true K w.triples) = cs
    induction cs with
    | nil => rfl
    | cons c cs ih => simp [List.flatMap_cons, List.filterMap_append, ih]
  rw [h2] at h1
  exact h1.trans ((runOrder_perm' chunkOf m _).filterMap w.out)

/-! ## Phase 6: execution configuration -/

theorem runCfg_eq' (r : CfgRoute) : runCfg r = (match r.arg with | some a => a | none => r.ctx) := by
  cases r with
  | mk s a c => cases a <;> rfl

theorem runCfg_stored_irrelevant' (s1 s2 a : Option Nat) (c : Nat) : runCfg ⟨s1, a, c⟩ = runCfg ⟨s2, a, c⟩ := rfl

theorem resume_correct_any_config' (w : World) (hw : w.OK) (L : List Rec) (hL : ValidLog w L) (k : Nat)
    (chunkOf : Nat → Option Nat) (cfg : RunConfig) :
    ∃ K, restore Flags.fixed w.c (some (cut w L k)) = some ⟨logFile w K, K⟩ ∧ K <+: L ∧
      (∀ app, (app = (runOrderCfg chunkOf cfg (makeTasks true K w.triples)).filterMap w.out ∨
               Merge ((chunkTasks chunkOf (runCfg cfg.mt) (makeTasks true K w.triples)).map
                 (fun c => (processOrder c).filterMap w.out)) app) →
        let o := finish w.c ⟨logFile w K, K⟩ (makeTasks true K w.triples) (preamble Flags.fixed w.ver w.exp K) app
        o.file = logFile w (K ++ o.appended) ∧ o.final = some (K ++ o.appended) ∧ ValidLog w (K ++ o.appended) ∧
        (K ++ o.appended).Perm w.universe ∧ (∀ t ∈ o.tasks, ∀ r ∈ K, r.key ≠ t.key)) := by
  obtain ⟨K, hK, hpre, hall⟩ := multiprocess_order' w hw L hL k chunkOf (runCfg cfg.mt)
  refine ⟨K, hK, hpre, ?_⟩
  intro app happ
  rcases happ with h | h
  · subst h
    obtain ⟨K', hK', _, h2⟩ := resume_correct_run_order' w hw L hL k chunkOf (runCfg cfg.mt)
    have hKK : K' = K := by
      rw [hK] at hK'
      have := Option.some.inj hK'
      exact (congrArg Restore.K this).symm
    subst hKK
    exact h2
  · exact (hall app h).2

end Coba.C02
