import CobaVerif.Model.C02
import Mathlib.Data.List.Basic
import Mathlib.Data.List.Perm.Basic
import Mathlib.Data.List.Nodup

namespace Coba.C02

theorem serialize_append (a b : List Bytes) : serialize (a ++ b) = serialize a ++ serialize b := by
  induction a with
  | nil => rfl
  | cons r rs ih => simp [serialize, ih]

theorem serialize_eq_nil {a : List Bytes} : serialize a = [] ↔ a = [] := by
  cases a <;> simp [serialize]

theorem splitNL_noNL {t : Bytes} (h : NoNL t) : splitNL t = ([], t) := by
  induction t with
  | nil => rfl
  | cons b bs ih =>
    have hb : b ≠ NL := fun e => h (by simp [e])
    have hbs : NoNL bs := fun m => h (List.mem_cons_of_mem _ m)
    simp [splitNL, hb, ih hbs]

theorem splitNL_line (r : Bytes) (h : NoNL r) (rest : Bytes) :
    splitNL (r ++ NL :: rest) = (r :: (splitNL rest).1, (splitNL rest).2) := by
  induction r with
  | nil => simp [splitNL]
  | cons b bs ih =>
    have hb : b ≠ NL := fun e => h (by simp [e])
    have hbs : NoNL bs := fun m => h (List.mem_cons_of_mem _ m)
    simp [splitNL, hb, ih hbs]

theorem splitNL_serialize_append (rs : List Bytes) (h : ∀ r ∈ rs, NoNL r) (t : Bytes) :
    splitNL (serialize rs ++ t) = (rs ++ (splitNL t).1, (splitNL t).2) := by
  induction rs with
  | nil => simp [serialize]
  | cons r rs ih =>
    have h1 := h r (by simp)
    have h2 : ∀ r ∈ rs, NoNL r := fun x hx => h x (List.mem_cons_of_mem _ hx)
    simp only [serialize, List.append_assoc, List.cons_append]
    rw [splitNL_line r h1, ih h2]

theorem serialize_splitNL (f : Bytes) : serialize (splitNL f).1 ++ (splitNL f).2 = f := by
  induction f with
  | nil => rfl
  | cons b bs ih =>
    simp only [splitNL]
    split
    · rename_i hb; subst hb; simp [serialize, ih]
    · split
      · rename_i h1; rw [h1] at ih; simp [serialize] at ih ⊢; exact ih
      · rename_i l ls h1; rw [h1] at ih; simp [serialize] at ih ⊢; exact ih

/-- the cut: a `k`-byte prefix of a log is some complete records followed by a (possibly
complete, possibly empty) prefix of the next one -/
theorem take_serialize (rs : List Bytes) (k : Nat) :
    ∃ j p, (serialize rs).take k = serialize (rs.take j) ++ p ∧
      (p = [] ∨ ∃ r, rs[j]? = some r ∧ p <+: r) := by
  induction rs generalizing k with
  | nil => exact ⟨0, [], by simp [serialize], Or.inl rfl⟩
  | cons r rs ih =>
    by_cases hk : k ≤ r.length
    · refine ⟨0, r.take k, ?_, Or.inr ⟨r, by simp, List.take_prefix _ _⟩⟩
      simp [serialize, List.take_append, hk]
    · obtain ⟨j, p, h1, h2⟩ := ih (k - r.length - 1)
      refine ⟨j + 1, p, ?_, ?_⟩
      · have : k - r.length = (k - r.length - 1) + 1 := by omega
        simp only [serialize, List.take_append, List.take_succ_cons, List.append_assoc]
        rw [this, List.take_succ_cons, h1]
        have : r.take k = r := List.take_of_length_le (by omega)
        simp [this]
      · simpa using h2

theorem closes_prefix_free (s : St) (l p : Bytes) (h : closes s l = true) (hp : p <+: l) (hne : p ≠ l) :
    closes s p = false := by
  induction l generalizing s p with
  | nil => simp [closes] at h
  | cons b bs ih =>
    cases p with
    | nil => rfl
    | cons c cs =>
      obtain ⟨t, ht⟩ := hp
      simp only [List.cons_append, List.cons.injEq] at ht
      obtain ⟨rfl, ht⟩ := ht
      simp only [closes] at h ⊢
      split at h
      · rename_i h0
        simp only [h0, if_true]
        simp at h
        subst h
        simp at ht
        exact absurd (by rw [ht.1]) hne
      · rename_i h0
        simp only [h0, if_false]
        apply ih _ _ h ⟨t, ht⟩
        intro e; exact hne (by rw [e])

theorem balanced_prefix_free (r p : Bytes) (h : balanced r = true) (hp : p <+: r) (hne : p ≠ r) :
    balanced p = false := by
  cases r with
  | nil => simp [balanced] at h
  | cons b bs =>
    cases p with
    | nil => rfl
    | cons c cs =>
      obtain ⟨t, ht⟩ := hp
      simp only [List.cons_append, List.cons.injEq] at ht
      obtain ⟨rfl, ht⟩ := ht
      simp only [balanced, Bool.and_eq_true, decide_eq_true_eq] at h
      simp only [balanced]
      rw [closes_prefix_free _ bs cs h.2 ⟨t, ht⟩ (fun e => hne (by rw [e]))]
      simp

theorem NoNL_prefix {p r : Bytes} (h : NoNL r) (hp : p <+: r) : NoNL p :=
  fun m => h (hp.subset m)

theorem lines_serialize (rs : List Bytes) (h1 : ∀ r ∈ rs, NoNL r) (h2 : ∀ r ∈ rs, r ≠ []) :
    lines (serialize rs) = rs := by
  have := splitNL_serialize_append rs h1 []
  simp only [List.append_nil] at this
  simp only [lines, this, splitNL]
  simp only [List.append_nil, List.filter_append]
  rw [List.filter_eq_self.mpr]
  · simp
  · intro r hr
    have := h2 r hr
    cases r <;> simp_all

theorem decodeLines_map_enc (c : Codec) (K : List Rec) (h : ∀ r ∈ K, c.dec (c.enc r) = some r) :
    decodeLines c (K.map c.enc) = some K := by
  induction K with
  | nil => rfl
  | cons r rs ih =>
    have h1 := h r (by simp)
    have h2 := ih (fun x hx => h x (List.mem_cons_of_mem _ hx))
    simp [decodeLines, h1, h2]

theorem decodeAll_serialize (c : Codec) (U K : List Rec) (hc : c.Lawful U) (hK : ∀ r ∈ K, r ∈ U)
    (r0 : Rec) (K' : List Rec) (hhead : K = r0 :: K') (hver : r0.key = Key.ver) :
    decodeAll c (serialize (K.map c.enc)) = some K := by
  have hl : lines (serialize (K.map c.enc)) = K.map c.enc := by
    apply lines_serialize
    · intro r hr
      obtain ⟨x, hx, rfl⟩ := List.mem_map.mp hr
      exact hc.noNL x (hK x hx)
    · intro r hr
      obtain ⟨x, hx, rfl⟩ := List.mem_map.mp hr
      exact hc.ne x (hK x hx)
  have hd := decodeLines_map_enc c K (fun r hr => hc.dec_enc r (hK r hr))
  simp only [decodeAll, hl, hd]
  subst hhead
  simp [hver]

/-- the repair step on a cut log: the file becomes a clean log of `A`, or of `A ++ [r]` when the
tail is the complete text of `r` -/
theorem repair_cut (c : Codec) (U A : List Rec) (hc : c.Lawful U) (hA : ∀ r ∈ A, r ∈ U) (p : Bytes)
    (hp : p = [] ∨ ∃ r ∈ U, p <+: c.enc r) :
    (repair c (serialize (A.map c.enc) ++ p) = serialize (A.map c.enc) ∧ (p = [] ∨ ∃ r ∈ U, p <+: c.enc r ∧ p ≠ c.enc r)) ∨
    (∃ r ∈ U, p = c.enc r ∧ repair c (serialize (A.map c.enc) ++ p) = serialize ((A ++ [r]).map c.enc)) := by
  have hNo : NoNL p := by
    rcases hp with rfl | ⟨r, hr, hpr⟩
    · simp [NoNL]
    · exact NoNL_prefix (hc.noNL r hr) hpr
  have hsplit : splitNL (serialize (A.map c.enc) ++ p) = (A.map c.enc, p) := by
    rw [splitNL_serialize_append _ _ p, splitNL_noNL hNo]
    · simp
    · intro r hr
      obtain ⟨x, hx, rfl⟩ := List.mem_map.mp hr
      exact hc.noNL x (hA x hx)
  rcases hp with rfl | ⟨r, hr, hpr⟩
  · left
    simp only [List.append_nil] at hsplit ⊢
    simp [repair, hsplit]
  · by_cases hpe : p = []
    · subst hpe
      left
      simp only [List.append_nil] at hsplit ⊢
      simp [repair, hsplit]
    · by_cases hfull : p = c.enc r
      · right
        refine ⟨r, hr, hfull, ?_⟩
        have hd : (c.dec p).isSome = true := by rw [hfull, hc.dec_enc r hr]; rfl
        have hpe' : p.isEmpty = false := by cases p <;> simp_all
        simp only [repair, hsplit, hpe', hd]
        simp [serialize_append, serialize, hfull]
      · left
        have hd : (c.dec p).isSome = false := by rw [hc.torn r hr p hpr hfull]; rfl
        have hpe' : p.isEmpty = false := by cases p <;> simp_all
        refine ⟨?_, Or.inr ⟨r, hr, hpr, hfull⟩⟩
        simp [repair, hsplit, hpe', hd]

theorem done_nil (t : Task) : done [] t = false := rfl

theorem mkAux_filter (K : List Rec) (ts : List (Nat × Nat × Nat)) (E L V : List Nat) :
    mkAux K ts E L V = (mkAux [] ts E L V).filter (fun t => !done K t) := by
  induction ts generalizing E L V with
  | nil => rfl
  | cons t ts ih =>
    obtain ⟨e, l, v⟩ := t
    simp only [mkAux, done_nil, List.filter_append, ih]
    congr 1
    · by_cases h : e ∈ E <;> by_cases h2 : done K (Task.penv E.length) = true <;> simp [h, h2]
    congr 1
    · by_cases h : l ∈ L <;> by_cases h2 : done K (Task.plrn L.length) = true <;> simp [h, h2]
    congr 1
    · by_cases h : v ∈ V <;> by_cases h2 : done K (Task.pval V.length) = true <;> simp [h, h2]
    congr 1
    · generalize Task.eval _ _ _ = tt
      by_cases h2 : done K tt = true <;> simp [h2]

theorem makeTasks_filter (K : List Rec) (ts : List (Nat × Nat × Nat)) :
    makeTasks K ts = (makeTasks [] ts).filter (fun t => !done K t) := mkAux_filter K ts [] [] []

theorem Task.key_inj {a b : Task} (h : a.key = b.key) : a = b := by
  cases a <;> cases b <;> simp_all [Task.key]

theorem eq_of_key_eq {L : List Rec} (h : (L.map (·.key)).Nodup) {a b : Rec} (ha : a ∈ L) (hb : b ∈ L)
    (hk : a.key = b.key) : a = b :=
  List.inj_on_of_nodup_map h ha hb hk

theorem filterMap_out_keys_nodup (out : Task → Option Rec) (hout : ∀ t r, out t = some r → r.key = t.key)
    (ts : List Task) (h : ts.Nodup) : ((ts.filterMap out).map (·.key)).Nodup := by
  induction ts with
  | nil => simp
  | cons t ts ih =>
    have ⟨hnot, hts⟩ := List.nodup_cons.mp h
    cases ho : out t with
    | none => simpa [List.filterMap_cons, ho] using ih hts
    | some r =>
      simp only [List.filterMap_cons, ho, List.map_cons, List.nodup_cons]
      refine ⟨?_, ih hts⟩
      intro hm
      obtain ⟨r', hr', hk⟩ := List.mem_map.mp hm
      obtain ⟨t', ht', ho'⟩ := List.mem_filterMap.mp hr'
      have : t'.key = t.key := by rw [← hout t' r' ho', ← hout t r ho, hk]
      exact hnot (Task.key_inj this ▸ ht')

theorem Task.key_ne_ver (t : Task) : t.key ≠ Key.ver := by cases t <;> simp [Task.key]
theorem Task.key_ne_exp (t : Task) : t.key ≠ Key.exp := by cases t <;> simp [Task.key]

theorem mem_universe_iff (w : World) (r : Rec) :
    r ∈ w.universe ↔ r = w.ver ∨ r = w.exp ∨ ∃ t ∈ makeTasks [] w.triples, w.out t = some r := by
  simp [World.universe, List.mem_filterMap]

theorem universe_keys_nodup (w : World) (hw : w.OK) (hT : (makeTasks [] w.triples).Nodup) :
    (w.universe.map (·.key)).Nodup := by
  have hF := filterMap_out_keys_nodup w.out hw.out_key _ hT
  have hk : ∀ k ∈ ((makeTasks [] w.triples).filterMap w.out).map (·.key), k ≠ Key.ver ∧ k ≠ Key.exp := by
    intro k hk
    obtain ⟨r, hr, rfl⟩ := List.mem_map.mp hk
    obtain ⟨t, _, ho⟩ := List.mem_filterMap.mp hr
    rw [hw.out_key t r ho]
    exact ⟨t.key_ne_ver, t.key_ne_exp⟩
  simp only [World.universe, List.map_cons, List.nodup_cons, List.mem_cons, hw.ver_key, hw.exp_key]
  refine ⟨?_, ?_, hF⟩
  · rintro (h | h)
    · cases h
    · exact (hk _ h).1 rfl
  · intro h
    exact (hk _ h).2 rfl

theorem done_iff (w : World) (hI : NonEmptyI w) (K : List Rec) (hK : ∀ r ∈ K, r ∈ w.universe) (t : Task) :
    done K t = true ↔ ∃ r ∈ K, r.key = t.key := by
  simp only [done, List.any_eq_true, Bool.and_eq_true, decide_eq_true_eq, Bool.or_eq_true,
    Bool.not_eq_true']
  constructor
  · rintro ⟨r, hr, hk, _⟩
    exact ⟨r, hr, hk⟩
  · rintro ⟨r, hr, hk⟩
    refine ⟨r, hr, hk, ?_⟩
    cases t with
    | eval e l v => right; exact hI r (hK r hr) e l v hk
    | _ => left; rfl

/-- shape of a cut log, at record level -/
theorem cut_shape (w : World) (L : List Rec) (k : Nat) :
    ∃ j p, (serialize (L.map w.c.enc)).take k = serialize ((L.take j).map w.c.enc) ++ p ∧
      (p = [] ∨ ∃ x, L[j]? = some x ∧ p <+: w.c.enc x) := by
  obtain ⟨j, p, h1, h2⟩ := take_serialize (L.map w.c.enc) k
  refine ⟨j, p, by rw [h1, List.map_take], ?_⟩
  rcases h2 with h | ⟨r, hr, hp⟩
  · exact Or.inl h
  · right
    rw [List.getElem?_map] at hr
    cases hx : L[j]? with
    | none => simp [hx] at hr
    | some x =>
      simp [hx] at hr
      exact ⟨x, rfl, hr ▸ hp⟩

theorem mem_of_getElem? {α} {l : List α} {j : Nat} {x : α} (h : l[j]? = some x) : x ∈ l :=
  List.mem_of_getElem? h

/-- after the repair step the file is the clean log of a prefix `K` of `L` that contains every
complete line of the cut -/
theorem repair_prefix (w : World) (hw : w.OK) (L : List Rec) (hL : ∀ r ∈ L, r ∈ w.universe) (k : Nat) :
    ∃ j p K, (serialize (L.map w.c.enc)).take k = serialize ((L.take j).map w.c.enc) ++ p ∧
      (p = [] ∨ ∃ x, L[j]? = some x ∧ p <+: w.c.enc x) ∧
      repair w.c ((serialize (L.map w.c.enc)).take k) = serialize (K.map w.c.enc) ∧
      K <+: L ∧ L.take j <+: K := by
  obtain ⟨j, p, h1, h2⟩ := cut_shape w L k
  have hA : ∀ r ∈ L.take j, r ∈ w.universe := fun r hr => hL r (List.mem_of_mem_take hr)
  have hp' : p = [] ∨ ∃ r ∈ w.universe, p <+: w.c.enc r := by
    rcases h2 with h | ⟨x, hx, hp⟩
    · exact Or.inl h
    · exact Or.inr ⟨x, hL x (mem_of_getElem? hx), hp⟩
  rcases repair_cut w.c w.universe (L.take j) hw.codec hA p hp' with ⟨hr, _⟩ | ⟨r, hr, hpr, hrep⟩
  · exact ⟨j, p, L.take j, h1, h2, by rw [h1, hr], List.take_prefix _ _, List.prefix_refl _⟩
  · -- the tail is the complete text of a record: it is the next record of the log
    rcases h2 with h | ⟨x, hx, hp⟩
    · exact absurd (hpr ▸ h) (hw.codec.ne r hr)
    · have hxU := hL x (mem_of_getElem? hx)
      have hrx : r = x := by
        by_contra hne
        have hpx : p ≠ w.c.enc x := by
          intro e
          have := hw.codec.dec_enc r hr
          rw [← hpr, e, hw.codec.dec_enc x hxU] at this
          exact hne (Option.some.inj this).symm
        have := hw.codec.torn x hxU p hp hpx
        rw [hpr, hw.codec.dec_enc r hr] at this
        cases this
      subst hrx
      refine ⟨j, p, L.take (j + 1), h1, Or.inr ⟨r, hx, hp⟩, ?_, List.take_prefix _ _, ?_⟩
      · rw [h1, hrep, List.take_add_one, hx]; rfl
      · rw [List.take_add_one]; exact List.prefix_append _ _

theorem restore_fixed (w : World) (hw : w.OK) (L : List Rec) (hL : ValidLog w L) (k : Nat) :
    ∃ j p K, (serialize (L.map w.c.enc)).take k = serialize ((L.take j).map w.c.enc) ++ p ∧
      (p = [] ∨ ∃ x, L[j]? = some x ∧ p <+: w.c.enc x) ∧
      restore Flags.fixed w.c (some ((serialize (L.map w.c.enc)).take k)) = some ⟨serialize (K.map w.c.enc), K⟩ ∧
      K <+: L ∧ L.take j <+: K := by
  obtain ⟨j, p, K, h1, h2, hrep, hKL, hjK⟩ := repair_prefix w hw L hL.2.1 k
  refine ⟨j, p, K, h1, h2, ?_, hKL, hjK⟩
  simp only [restore, Flags.fixed, if_true, hrep, Bool.true_and]
  cases hK : K with
  | nil => simp [serialize]
  | cons r0 K' =>
    have hne : (serialize ((r0 :: K').map w.c.enc)).isEmpty = false := by
      simp [serialize]
    rw [hne]
    have hKU : ∀ r ∈ r0 :: K', r ∈ w.universe := fun r hr => hL.2.1 r (hKL.subset (hK ▸ hr))
    have hhead : r0 = w.ver := by
      apply hL.2.2
      obtain ⟨t, ht⟩ := hKL
      rw [← ht, hK]; rfl
    have := decodeAll_serialize w.c w.universe (r0 :: K') hw.codec hKU r0 K' rfl (hhead ▸ hw.ver_key)
    simp only [List.map_cons] at this ⊢
    rw [this]
    simp
end Coba.C02
