import CobaVerif.Lemmas.C05

/-! Phase 4 lemmas: module-level generator, re-seeding, pickling, contract clauses for the
remaining argument shapes. -/
namespace Coba.C05

/-! ### module-level functions / re-seeding / pickling -/

theorem crunOne_ops (x : Inst) (ops : List Op) : crunOne x (ops.map .op) = runOne x.g ops := by
  induction ops generalizing x with
  | nil => simp [crunOne, runOne]
  | cons o ops ih =>
    simp only [List.map_cons, crunOne, cstep, runOne]
    rw [ih]

theorem module_call_eq_method' (x : Inst) (o : Op) :
    cstep x (.op o) = ({ x with g := (step x.g o).1 }, some (step x.g o).2) := rfl

theorem crunOne_append (x : Inst) (pre post : List Call) :
    crunOne x (pre ++ post) = crunOne x pre ++ crunOne (cafter x pre) post := by
  induction pre generalizing x with
  | nil => simp [crunOne, cafter]
  | cons c cs ih =>
    simp only [List.cons_append, crunOne, cafter]
    cases h : (cstep x c).2 with
    | none => simp [ih]
    | some out => simp [ih]

theorem seed_then_history' (x : Inst) (s : Nat) (ops : List Op) :
    crunOne x (.reseed s :: ops.map .op) = runOne { s := s } ops := by
  simp only [crunOne, cstep]
  rw [crunOne_ops]; rfl

theorem seed_forgets_past' (x : Inst) (pre : List Call) (s : Nat) (post : List Call) :
    crunOne x (pre ++ .reseed s :: post) = crunOne x pre ++ crunOne (fresh s) post := by
  rw [crunOne_append]
  simp [crunOne, cstep]

/-- method calls never change the remembered seed -/
theorem cafter_ops_seed0 (x : Inst) (ops : List Op) : (cafter x (ops.map .op)).seed0 = x.seed0 := by
  induction ops generalizing x with
  | nil => rfl
  | cons o ops ih =>
    simp only [List.map_cons, cafter, cstep]
    rw [ih]

theorem pickle_restores_seed' (s : Nat) (ops : List Op) (post : List Call) :
    crunOne (fresh s) (ops.map .op ++ .repickle :: post)
      = runOne { s := s } ops ++ crunOne (fresh s) post := by
  rw [crunOne_append, crunOne_ops]
  simp only [crunOne, cstep, cafter_ops_seed0]
  rfl

theorem pickle_fresh_noop' (s : Nat) (post : List Call) :
    crunOne (fresh s) (.repickle :: post) = crunOne (fresh s) post := by
  simp [crunOne, cstep, fresh]

theorem frame_calls' (st : Nat → Inst) (h : List (Nat × Call)) (i : Nat) :
    ((crun st h).filter (·.1 = i)).map (·.2) = crunOne (st i) ((h.filter (·.1 = i)).map (·.2)) := by
  induction h generalizing st with
  | nil => simp [crun, crunOne]
  | cons p h ih =>
    obtain ⟨j, c⟩ := p
    simp only [crun]
    by_cases hji : j = i
    · subst hji
      cases ho : (cstep (st j) c).2 with
      | none => simp [crunOne, ho, ih]
      | some out => simp [crunOne, ho, ih]
    · have hst : (fun k => if k = j then (cstep (st j) c).1 else st k) i = st i := by
        simp [Ne.symm hji]
      cases ho : (cstep (st j) c).2 with
      | none => simp [hji, ih, hst]
      | some out => simp [hji, ih, hst]

theorem crun_ops_eq_run' (st : Nat → Inst) (h : Hist) :
    crun st (h.map (fun p => (p.1, Call.op p.2))) = run (fun i => (st i).g) h := by
  induction h generalizing st with
  | nil => simp [crun, run]
  | cons p h ih =>
    obtain ⟨j, o⟩ := p
    simp only [List.map_cons, crun, cstep, run]
    rw [ih]
    congr 2
    funext k
    by_cases hk : k = j <;> simp [hk]

/-! ### seed normalisation -/

theorem normInt_lt (z : Int) : normInt z < M := by
  unfold normInt
  have hM : (0 : Int) < (M : Int) := by exact_mod_cast M_pos
  have h1 := Int.emod_lt_of_pos z hM
  have h0 := Int.emod_nonneg z hM.ne'
  omega

theorem normBytes_lt (bs : List Nat) : normBytes bs < 1048576 := Nat.mod_lt _ (by decide)

theorem normInt_of_lt (n : Nat) (h : n < M) : normInt (n : Int) = n := by
  unfold normInt
  have : ((n : Int) % (M : Int)) = (n : Int) := Int.emod_eq_of_lt (by positivity) (by exact_mod_cast h)
  rw [this]; simp

/-- `CobaRandom(r._seed)` starts in the state `r` started in: what `__reduce__` stores is enough -/
theorem reduce_seed_roundtrip' (sd : SeedObj) : normInt (seedAttr sd) = seedState sd := by
  cases sd with
  | int z => rfl
  | integralFloat z => rfl
  | other bs =>
    simp only [seedAttr, seedState]
    apply normInt_of_lt
    have := normBytes_lt bs
    have : (1048576 : Nat) < M := by decide
    omega

theorem seedState_lt (sd : SeedObj) : seedState sd < M := by
  cases sd with
  | int z => exact normInt_lt z
  | integralFloat z => exact normInt_lt z
  | other bs =>
    have := normBytes_lt bs
    have : (1048576 : Nat) < M := by decide
    simp only [seedState]; omega

/-- integer seeds that agree modulo 2^30 are the same generator -/
theorem normInt_add_mul (z k : Int) : normInt (z + k * (M : Int)) = normInt z := by
  unfold normInt
  rw [Int.add_mul_emod_self_right]

/-! ### contract clauses for the remaining argument shapes -/

theorem random_degenerate' (s : Nat) (lo : Rat) : (random s lo lo).2 = lo := by
  simp [random]

theorem random_reversed' (s : Nat) (lo hi : Rat) (h : hi < lo) :
    hi < (random s lo hi).2 ∧ (random s lo hi).2 ≤ lo := by
  simp only [random]
  have h0 := u_nonneg s
  have h1 := u_lt_one s
  constructor <;> nlinarith

theorem randint_eq' (s : Nat) (a : Int) : (randint s a a).2 = a := by
  have := randint_mem' s a a (le_refl a)
  omega

/-- `randint(a,b)` with `a > b` does not raise: the value lies in `[b+1,a]` (outside the empty `[a,b]`) -/
theorem randint_reversed' (s : Nat) (a b : Int) (h : b < a) :
    b + 1 ≤ (randint s a b).2 ∧ (randint s a b).2 ≤ a := by
  simp only [randint]
  have hk : (unum s : Int) < (M : Int) := by exact_mod_cast unum_lt s
  have hk0 : (0 : Int) ≤ (unum s : Int) := by positivity
  have hM : (0 : Int) < (M : Int) := by exact_mod_cast M_pos
  have hn : b - a + 1 ≤ 0 := by omega
  have h1 : (b - a + 1) * (unum s : Int) / (M : Int) ≤ 0 := by
    have hx : (b - a + 1) * (unum s : Int) ≤ 0 := by nlinarith
    have := Int.ediv_le_ediv hM hx
    simpa using this
  have h2 : b - a + 1 ≤ (b - a + 1) * (unum s : Int) / (M : Int) := by
    rw [Int.le_ediv_iff_mul_le hM]
    nlinarith
  omega

theorem randoms_zero' (s : Nat) (lo hi : Rat) : randoms s 0 lo hi = (s, []) := rfl
theorem randints_zero' (s : Nat) (a b : Int) : randints s 0 a b = (s, []) := rfl

theorem randoms_draws' (s n : Nat) (lo hi : Rat) : (randoms s n lo hi).1 = next^[n] s := by
  induction n generalizing s with
  | zero => rfl
  | succ n ih =>
    simp only [randoms, random]
    rw [ih]; rfl

theorem randints_draws' (s n : Nat) (a b : Int) : (randints s n a b).1 = next^[n] s := by
  induction n generalizing s with
  | zero => rfl
  | succ n ih =>
    simp only [randints, randint]
    rw [ih]; rfl

/-- `gausses(n)` is `n` times `gauss()`: same values, same final state (incl. the buffered value) -/
theorem gausses_eq_iterated_gauss' (g : Gen) (n : Nat) : gaussIter g n = gausses g n := by
  induction n generalizing g with
  | zero => rfl
  | succ n ih =>
    simp only [gaussIter, gausses, step]
    rw [ih]
    rfl

/-- uniforms consumed by `gausses(n)`: two per started pair (three if the zero uniform is hit). From an
empty buffer an even count `2k` leaves the buffer empty again. -/
theorem gausses_two_buf (g : Gen) (h : g.buf = none) :
    (gausses g 2).1.buf = none ∧ (gausses g 2).1.s = next (next (skipZero g.s)) := by
  simp [gausses, gauss1, h]

theorem gausses_zero' (g : Gen) : gausses g 0 = (g, []) := rfl

theorem gausses_length' (g : Gen) (n : Nat) : (gausses g n).2.length = n := by
  induction n generalizing g with
  | zero => rfl
  | succ n ih => simp [gausses, ih]

/-- one element: `choice`/`choicew` return it (index 0) whatever the positive weight -/
theorem choice_single' (s : Nat) (w : Rat) (hw : 0 < w) :
    choice s 1 (some [w]) = .ok (next s, 0) ∧ choicew s 1 (some [w]) = .ok (next s, 0, w) := by
  have hnn : ∀ x ∈ [w], (0 : Rat) ≤ x := by intro x hx; simp at hx; subst hx; exact hw.le
  have hpos : 0 < sum [w] := by rw [sum_eq]; simpa using hw
  obtain ⟨i, hc, hi, _⟩ := choice_pos_weight' s 1 [w] rfl hnn hpos
  have hi0 : i = 0 := by omega
  subst hi0
  refine ⟨hc, ?_⟩
  simp [choicew, hc]

theorem choice_single_unweighted' (s : Nat) : choice s 1 none = .ok (next s, 0) := by
  obtain ⟨i, hc, hi⟩ := choice_uniform_mem' s 1 (by decide)
  have : i = 0 := by omega
  subst this; exact hc

/-- zero total weight is rejected BEFORE a uniform is drawn (the model's `step` leaves the state) -/
theorem choice_zero_total_keeps_state' (g : Gen) (n : Nat) (ws : List Rat) (h : sum ws = 0) :
    step g (.choice n (some ws)) = (g, .err .valueError) := by
  have := choice_rejects' g.s n ws (Or.inr h)
  simp [step, this]

theorem firstLt_spec_any (r acc : Rat) (ws : List Rat) (k : Nat)
    (h1 : acc ≤ r) (h2 : r < acc + ws.sum) :
    ∃ i w, firstLt r (accumulate acc ws) k = some (k + i) ∧ ws[i]? = some w ∧ 0 < w ∧ i < ws.length := by
  induction ws generalizing acc k with
  | nil => simp at h2; linarith
  | cons w ws ih =>
    simp only [accumulate, firstLt]
    by_cases hlt : r < acc + w
    · refine ⟨0, w, ?_, by simp, by linarith, by simp⟩
      simp [hlt]
    · have h2' : r < (acc + w) + ws.sum := by simp at h2; linarith
      obtain ⟨i, w', hf, hw, hpos, hi⟩ := ih (acc + w) (k+1) (by linarith) h2'
      refine ⟨i+1, w', ?_, by simpa using hw, hpos, by simp; omega⟩
      simp [hlt, hf]; omega

theorem choice_pos_weight_any_sign' (s n : Nat) (ws : List Rat) (hlen : ws.length = n) (hpos : 0 < sum ws) :
    ∃ i, choice s n (some ws) = .ok (next s, i) ∧ i < n ∧ ∃ w, ws[i]? = some w ∧ 0 < w := by
  have hs := sum_eq ws
  have h0 := u_nonneg s
  have h1 := u_lt_one s
  have hr0 : (0 : Rat) ≤ u s * sum ws := by positivity
  have hr1 : u s * sum ws < 0 + ws.sum := by rw [← hs]; nlinarith
  obtain ⟨i, w, hf, hw, hwpos, hi⟩ := firstLt_spec_any (u s * sum ws) 0 ws 0 hr0 hr1
  refine ⟨i, ?_, by omega, w, hw, hwpos⟩
  unfold choice
  simp only [hlen, ne_eq, not_true_eq_false, and_false, ↓reduceIte]
  rw [if_neg (ne_of_gt hpos)]
  simp at hf
  simp [hf, ← hlen, hi]

/-! ### error paths (phase 4 continued) -/

theorem choice_ok_state (s n : Nat) (w : Option (List Rat)) (s' i : Nat)
    (h : choice s n w = .ok (s', i)) : s' = next s ∧ i < n := by
  unfold choice at h
  cases w with
  | none =>
    simp only at h
    split at h
    · cases h
    · rename_i hn
      cases h
      exact ⟨rfl, scaled_lt s n (Nat.pos_of_ne_zero hn)⟩
  | some ws =>
    simp only at h
    split at h
    · cases h
    · split at h
      · cases h
      · split at h
        · rename_i j hj
          split at h
          · rename_i hlt; cases h; exact ⟨rfl, hlt⟩
          · cases h
        · cases h

theorem choice_err_cases (s n : Nat) (w : Option (List Rat)) (e : Err) (h : choice s n w = .error e) :
    (e = .valueError ∧ ∃ ws, w = some ws ∧ ((ws ≠ [] ∧ ws.length ≠ n) ∨ sum ws = 0)) ∨
    (e = .indexError ∧ w = none ∧ n = 0) ∨
    (e = .stopIteration ∧ ∃ ws, w = some ws ∧ ¬ (ws ≠ [] ∧ ws.length ≠ n) ∧ sum ws ≠ 0) := by
  unfold choice at h
  cases w with
  | none =>
    simp only at h
    split at h
    · rename_i hn; cases h; exact Or.inr (Or.inl ⟨rfl, rfl, hn⟩)
    · cases h
  | some ws =>
    simp only at h
    split at h
    · rename_i hc; cases h; exact Or.inl ⟨rfl, ws, rfl, Or.inl hc⟩
    · rename_i hc
      split at h
      · rename_i ht; cases h; exact Or.inl ⟨rfl, ws, rfl, Or.inr ht⟩
      · rename_i ht
        split at h
        · split at h
          · cases h
          · cases h; exact Or.inr (Or.inr ⟨rfl, ws, rfl, hc, ht⟩)
        · cases h; exact Or.inr (Or.inr ⟨rfl, ws, rfl, hc, ht⟩)

theorem choicew_err_is_choice_err (s n : Nat) (w : Option (List Rat)) (e : Err) (h : choicew s n w = .error e) :
    choice s n w = .error e := by
  unfold choicew at h
  cases w with
  | none =>
    simp only at h
    cases hc : choice s n none with
    | error e' => rw [hc] at h; simp only at h; cases h; rfl
    | ok p =>
      obtain ⟨s', i⟩ := p
      rw [hc] at h
      simp only at h
      have := (choice_ok_state s n none s' i hc).2
      split at h
      · omega
      · cases h
  | some ws =>
    simp only at h
    cases hc : choice s n (some ws) with
    | error e' => rw [hc] at h; simp only at h; cases h; rfl
    | ok p =>
      obtain ⟨s', i⟩ := p
      rw [hc] at h
      simp only at h
      have hi := (choice_ok_state s n (some ws) s' i hc).2
      -- a successful weighted choice has matching lengths, so `ws[i]` exists
      have hlen : ws.length = n := by
        unfold choice at hc
        simp only at hc
        split at hc
        · cases hc
        · rename_i hcond
          by_cases hnil : ws = []
          · subst hnil
            have : sum ([] : List Rat) = 0 := by simp [sum]
            simp [this] at hc
          · by_contra hne; exact hcond ⟨hnil, hne⟩
      have : i < ws.length := by omega
      rw [List.getElem?_eq_getElem this] at h
      cases h

theorem choicew_ok_state (s n : Nat) (w : Option (List Rat)) (s' i : Nat) (x : Rat)
    (h : choicew s n w = .ok (s', i, x)) : s' = next s := by
  unfold choicew at h
  cases w with
  | none =>
    simp only at h
    cases hc : choice s n none with
    | error e' => rw [hc] at h; cases h
    | ok p =>
      obtain ⟨s'', j⟩ := p
      rw [hc] at h; simp only at h
      split at h
      · cases h
      · cases h; exact (choice_ok_state s n none _ _ hc).1
  | some ws =>
    simp only at h
    cases hc : choice s n (some ws) with
    | error e' => rw [hc] at h; cases h
    | ok p =>
      obtain ⟨s'', j⟩ := p
      rw [hc] at h; simp only at h
      split at h
      · cases h; exact (choice_ok_state s n (some ws) _ _ hc).1
      · cases h

/-- **which error paths consume a draw:** a `choice` call leaves the generator untouched exactly when it
answers `ValueError` (length mismatch / zero total: rejected before the draw); in every other case —
success, `IndexError` on an empty sequence, `StopIteration` when nothing is found — exactly one uniform
has been consumed (and the gaussian buffer is never touched) -/
theorem choice_error_state' (g : Gen) (n : Nat) (w : Option (List Rat)) :
    ((stepE g (.choice n w)).2 = .err .valueError ∧ (stepE g (.choice n w)).1 = g ∧
        ∃ ws, w = some ws ∧ ((ws ≠ [] ∧ ws.length ≠ n) ∨ sum ws = 0)) ∨
    ((stepE g (.choice n w)).2 ≠ .err .valueError ∧ (stepE g (.choice n w)).1 = { g with s := next g.s }) := by
  simp only [stepE]
  cases hc : choice g.s n w with
  | ok p =>
    obtain ⟨s', i⟩ := p
    right
    have := (choice_ok_state g.s n w s' i hc).1
    subst this
    exact ⟨by simp, rfl⟩
  | error e =>
    rcases choice_err_cases g.s n w e hc with ⟨rfl, hws⟩ | ⟨rfl, _, _⟩ | ⟨rfl, _⟩
    · left; exact ⟨rfl, by simp [errConsumes], hws⟩
    · right; exact ⟨by simp, by simp [errConsumes]⟩
    · right; exact ⟨by simp, by simp [errConsumes]⟩

theorem choicew_error_state' (g : Gen) (n : Nat) (w : Option (List Rat)) :
    ((stepE g (.choicew n w)).2 = .err .valueError ∧ (stepE g (.choicew n w)).1 = g ∧
        ∃ ws, w = some ws ∧ ((ws ≠ [] ∧ ws.length ≠ n) ∨ sum ws = 0)) ∨
    ((stepE g (.choicew n w)).2 ≠ .err .valueError ∧ (stepE g (.choicew n w)).1 = { g with s := next g.s }) := by
  simp only [stepE]
  cases hc : choicew g.s n w with
  | ok p =>
    obtain ⟨s', i, x⟩ := p
    right
    have := choicew_ok_state g.s n w s' i x hc
    subst this
    exact ⟨by simp, rfl⟩
  | error e =>
    have hc' := choicew_err_is_choice_err g.s n w e hc
    rcases choice_err_cases g.s n w e hc' with ⟨rfl, hws⟩ | ⟨rfl, _, _⟩ | ⟨rfl, _⟩
    · left; exact ⟨rfl, by simp [errConsumes], hws⟩
    · right; exact ⟨by simp, by simp [errConsumes]⟩
    · right; exact ⟨by simp, by simp [errConsumes]⟩

/-- `choicew` never fails with an error of its own (`1/len(seq)`, `weights[i]`): its errors are `choice`'s -/
theorem choicew_no_own_error' (s n : Nat) (w : Option (List Rat)) (e : Err) (h : choicew s n w = .error e) :
    e ≠ .zeroDivision := by
  have hc := choicew_err_is_choice_err s n w e h
  rcases choice_err_cases s n w e hc with ⟨rfl, _⟩ | ⟨rfl, _⟩ | ⟨rfl, _⟩ <;> simp

/-- on every call that does not end in `StopIteration` the exact semantics is the old `step` -/
theorem stepE_eq_step' (g : Gen) (o : Op) (h : (stepE g o).2 ≠ .err .stopIteration) : stepE g o = step g o := by
  cases o with
  | choice n w =>
    simp only [stepE, step] at h ⊢
    cases hc : choice g.s n w with
    | ok p => rfl
    | error e => rw [hc] at h; cases e <;> simp_all [errConsumes]
  | choicew n w =>
    simp only [stepE, step] at h ⊢
    cases hc : choicew g.s n w with
    | ok p => rfl
    | error e => rw [hc] at h; cases e <;> simp_all [errConsumes]
  | _ => rfl

/-! generic runners -/

theorem crunOneW_ops (f : Gen → Op → Gen × Out) (x : Inst) (ops : List Op) :
    crunOneW f x (ops.map .op) = runOneW f x.g ops := by
  induction ops generalizing x with
  | nil => simp [crunOneW, runOneW]
  | cons o ops ih =>
    simp only [List.map_cons, crunOneW, cstepW, runOneW]
    rw [ih]

theorem crunOneW_append (f : Gen → Op → Gen × Out) (x : Inst) (pre post : List Call) :
    crunOneW f x (pre ++ post) = crunOneW f x pre ++ crunOneW f (cafterW f x pre) post := by
  induction pre generalizing x with
  | nil => simp [crunOneW, cafterW]
  | cons c cs ih =>
    simp only [List.cons_append, crunOneW, cafterW]
    cases h : (cstepW f x c).2 with
    | none => simp [ih]
    | some out => simp [ih]

theorem cafterW_ops_seed0 (f : Gen → Op → Gen × Out) (x : Inst) (ops : List Op) :
    (cafterW f x (ops.map .op)).seed0 = x.seed0 := by
  induction ops generalizing x with
  | nil => rfl
  | cons o ops ih =>
    simp only [List.map_cons, cafterW, cstepW]
    rw [ih]

theorem seed_then_historyW' (f : Gen → Op → Gen × Out) (x : Inst) (s : Nat) (ops : List Op) :
    crunOneW f x (.reseed s :: ops.map .op) = runOneW f { s := s } ops := by
  simp only [crunOneW, cstepW]
  rw [crunOneW_ops]; rfl

theorem seed_forgets_pastW' (f : Gen → Op → Gen × Out) (x : Inst) (pre : List Call) (s : Nat) (post : List Call) :
    crunOneW f x (pre ++ .reseed s :: post) = crunOneW f x pre ++ crunOneW f (fresh s) post := by
  rw [crunOneW_append]
  simp [crunOneW, cstepW]

theorem pickle_restores_seedW' (f : Gen → Op → Gen × Out) (s : Nat) (ops : List Op) (post : List Call) :
    crunOneW f (fresh s) (ops.map .op ++ .repickle :: post)
      = runOneW f { s := s } ops ++ crunOneW f (fresh s) post := by
  rw [crunOneW_append, crunOneW_ops]
  simp only [crunOneW, cstepW, cafterW_ops_seed0]
  rfl

theorem frame_callsW' (f : Gen → Op → Gen × Out) (st : Nat → Inst) (h : List (Nat × Call)) (i : Nat) :
    ((crunW f st h).filter (·.1 = i)).map (·.2) = crunOneW f (st i) ((h.filter (·.1 = i)).map (·.2)) := by
  induction h generalizing st with
  | nil => simp [crunW, crunOneW]
  | cons p h ih =>
    obtain ⟨j, c⟩ := p
    simp only [crunW]
    by_cases hji : j = i
    · subst hji
      cases ho : (cstepW f (st j) c).2 with
      | none => simp [crunOneW, ho, ih]
      | some out => simp [crunOneW, ho, ih]
    · have hst : (fun k => if k = j then (cstepW f (st j) c).1 else st k) i = st i := by
        simp [Ne.symm hji]
      cases ho : (cstepW f (st j) c).2 with
      | none => simp [hji, ih, hst]
      | some out => simp [hji, ih, hst]

theorem crunW_step' (st : Nat → Inst) (h : List (Nat × Call)) : crunW step st h = crun st h := by
  induction h generalizing st with
  | nil => rfl
  | cons p h ih =>
    obtain ⟨j, c⟩ := p
    cases c <;> simp [crunW, crun, cstepW, cstep, ih]

end Coba.C05
