import CobaVerif.Model.C10
import CobaVerif.Generated.C10Consts
import CobaVerif.Generated.C10ReprModes
import CobaVerif.Generated.C10Options
namespace Coba.C10

theorem distinctB_iff (as : List Val) : distinctB as = true ↔ Distinct as := by
  unfold distinctB Distinct
  constructor
  · intro h i j a b hi hj
    have hi' : i < as.length := by
      rcases Nat.lt_or_ge i as.length with h' | h'
      · exact h'
      · simp [List.getElem?_eq_none h'] at hi
    have hj' : j < as.length := by
      rcases Nat.lt_or_ge j as.length with h' | h'
      · exact h'
      · simp [List.getElem?_eq_none h'] at hj
    rw [List.all_eq_true] at h
    have h1 := h i (List.mem_range.mpr hi')
    rw [List.all_eq_true] at h1
    have h2 := h1 j (List.mem_range.mpr hj')
    simp only [hi, hj] at h2
    simpa using h2
  · intro h
    rw [List.all_eq_true]
    intro i hi
    rw [List.all_eq_true]
    intro j hj
    have hi' := List.mem_range.mp hi
    have hj' := List.mem_range.mp hj
    have e1 : as[i]? = some as[i] := List.getElem?_eq_getElem hi'
    have e2 : as[j]? = some as[j] := List.getElem?_eq_getElem hj'
    simp only [e1, e2]
    have := h i j _ _ e1 e2
    simp [this]

theorem indexOfFrom_spec (a : Val) : ∀ (xs : List Val) (off i : Nat) (x : Val),
    xs[i]? = some x → pyEq x a = true → (∀ j y, j < i → xs[j]? = some y → pyEq y a = false) →
    indexOfFrom a xs off = some (off + i) := by
  intro xs
  induction xs with
  | nil => intro off i x h; simp at h
  | cons y ys ih =>
    intro off i x h hx hlt
    cases i with
    | zero =>
      simp at h
      subst h
      simp [indexOfFrom, hx]
    | succ i =>
      have h0 := hlt 0 y (Nat.succ_pos i) (by simp)
      simp only [indexOfFrom, h0]
      simp at h
      have := ih (off + 1) i x h hx (fun j z hj hz => hlt (j + 1) z (by omega) (by simpa using hz))
      simp [this]; omega

theorem indexOf_of_distinct {as : List Val} (hd : Distinct as) {i : Nat} {a : Val} (h : as[i]? = some a) :
    indexOf as a = some i := by
  have := indexOfFrom_spec a as 0 i a h (by simpa using hd i i a a h h)
    (fun j y hj hy => by have := hd j i y a hy h; simp [this]; omega)
  simpa [indexOf] using this


/-! ### DiscreteReward look-up -/

theorem callRew_discrete_of_distinct {as : List Val} {rs : List Rat} (d : Rat) (hd : Distinct as)
    {i : Nat} {a : Val} {x : Rat} (h : as[i]? = some a) (hx : rs[i]? = some x) :
    callRew (.discrete as rs d false) a = .ok x := by
  simp [callRew, indexOf_of_distinct hd h, hx]

theorem map_discrete_aux (as : List Val) (rs : List Rat) (d : Rat) (hd : Distinct as) :
    ∀ (suf : List Val) (pre : List Val) (rsuf : List Rat), as = pre ++ suf → rs.drop pre.length = rsuf →
      suf.length = rsuf.length →
      suf.map (callRew (.discrete as rs d false)) = rsuf.map Except.ok := by
  intro suf
  induction suf with
  | nil => intro pre rsuf _ _ hl; cases rsuf <;> simp_all
  | cons a suf ih =>
    intro pre rsuf has hrs hl
    cases rsuf with
    | nil => simp at hl
    | cons x rsuf =>
      have hget : as[pre.length]? = some a := by subst has; simp
      have hx : rs[pre.length]? = some x := by
        have : (rs.drop pre.length)[0]? = some x := by rw [hrs]; rfl
        simpa using this
      have hrest := ih (pre ++ [a]) rsuf (by subst has; simp) (by
        have : rs.drop (pre.length + 1) = (rs.drop pre.length).drop 1 := by simp [List.drop_drop]
        simp [this, hrs]) (by simpa using hl)
      simp [callRew_discrete_of_distinct d hd hget hx, hrest]

/-- `[DiscreteReward(as, rs)(a) for a in as] = rs` for pairwise distinct `as` -/
theorem obsOf_discrete {as : List Val} {rs : List Rat} (d : Rat) (hd : Distinct as) (hl : as.length = rs.length) :
    obsOf (.discrete as rs d false) as = rs.map Except.ok := by
  simpa [obsOf] using map_discrete_aux as rs d hd as [] rs rfl rfl hl


/-! ### the observable -/

theorem obsEq_iff (a b : List (Except Err Rat)) :
    obsEq a b = true ↔ ∃ rs : List Rat, a = rs.map Except.ok ∧ b = rs.map Except.ok := by
  induction a generalizing b with
  | nil =>
    cases b with
    | nil => simp [obsEq]
    | cons y ys =>
      simp only [obsEq]
      constructor
      · intro h; cases h
      · rintro ⟨rs, h1, h2⟩
        cases rs <;> simp at h1 h2
  | cons x xs ih =>
    cases b with
    | nil =>
      cases x <;> simp only [obsEq]
      all_goals
        constructor
        · intro h; cases h
        · rintro ⟨rs, h1, h2⟩
          cases rs <;> simp at h1 h2
    | cons y ys =>
      cases x with
      | error e =>
        simp only [obsEq]
        constructor
        · intro h; cases h
        · rintro ⟨rs, h1, _⟩
          cases rs <;> simp at h1
      | ok p =>
        cases y with
        | error e =>
          simp only [obsEq]
          constructor
          · intro h; cases h
          · rintro ⟨rs, _, h2⟩
            cases rs <;> simp at h2
        | ok q =>
          simp only [obsEq, Bool.and_eq_true, beq_iff_eq, ih]
          constructor
          · rintro ⟨hpq, rs, h1, h2⟩
            exact ⟨p :: rs, by simp [h1], by simp [h2, hpq]⟩
          · rintro ⟨rs, h1, h2⟩
            cases rs with
            | nil => simp at h1
            | cons r rs =>
              simp at h1 h2
              exact ⟨by rw [h1.1, h2.1], rs, h1.2, h2.2⟩

theorem obsEq_ok_self (rs : List Rat) : obsEq (rs.map Except.ok) (rs.map Except.ok) = true :=
  (obsEq_iff _ _).mpr ⟨rs, rfl, rfl⟩

theorem map_ok_injective : ∀ {a b : List Rat}, a.map (Except.ok (ε := Err)) = b.map Except.ok → a = b := by
  intro a
  induction a with
  | nil => intro b h; cases b <;> simp_all
  | cons x xs ih =>
    intro b h
    cases b with
    | nil => simp at h
    | cons y ys =>
      simp at h
      rw [h.1, ih h.2]

theorem obsEq_trans {a b c : List (Except Err Rat)} (h1 : obsEq a b = true) (h2 : obsEq b c = true) :
    obsEq a c = true := by
  obtain ⟨r1, ha, hb⟩ := (obsEq_iff _ _).mp h1
  obtain ⟨r2, hb', hc⟩ := (obsEq_iff _ _).mp h2
  have : r1 = r2 := map_ok_injective (by rw [← hb, hb'])
  subst this
  exact (obsEq_iff _ _).mpr ⟨r1, ha, hc⟩

theorem optObsEq_trans {a b c : Option (List (Except Err Rat))} (h1 : optObsEq a b = true) (h2 : optObsEq b c = true) :
    optObsEq a c = true := by
  cases a <;> cases b <;> cases c <;> simp_all [optObsEq]
  exact obsEq_trans h1 h2

theorem mapM'_ok {α β} (f : α → Except Err β) : ∀ (xs : List α) (ys : List β),
    mapM' f xs = .ok ys → xs.map f = ys.map Except.ok := by
  intro xs
  induction xs with
  | nil => intro ys h; simp [mapM'] at h; subst h; rfl
  | cons x xs ih =>
    intro ys h
    simp only [mapM'] at h
    cases hfx : f x with
    | error e => simp [hfx] at h
    | ok b =>
      simp only [hfx] at h
      cases hr : mapM' f xs with
      | error e => simp [hr] at h
      | ok bs =>
        simp only [hr] at h
        cases h
        simp [hfx, ih bs hr]

theorem mapM'_length {α β} (f : α → Except Err β) (xs : List α) (ys : List β) (h : mapM' f xs = .ok ys) :
    ys.length = xs.length := by
  have := congrArg List.length (mapM'_ok f xs ys h)
  simpa using this.symm

theorem obsOf_callable (r : Rew) (h : r.isCallable = true) (acts : List Val) :
    obsOf r acts = acts.map (callRew r) := by
  cases r <;> simp_all [obsOf, Rew.isCallable]

/-- `DiscreteReward(new, [r(a) for a in old])` gives every new action the reward of the old action
at the same position, provided the new actions are pairwise distinct -/
theorem genericRew_aligned {r r' : Rew} {old new : List Val} (h : genericRew r old new = .ok r')
    (hd : Distinct new) : obsEq (obsOf r old) (obsOf r' new) = true := by
  unfold genericRew at h
  have key : ∀ (hc : r.isCallable = true),
      (match mapM' (callRew r) old with
        | .error e => Except.error e
        | .ok vals => if vals.length == new.length then Except.ok (Rew.discrete new vals 0 false) else .error .cobaException) = .ok r' →
      obsEq (obsOf r old) (obsOf r' new) = true := by
    intro hc h
    cases hm : mapM' (callRew r) old with
    | error e => simp [hm] at h
    | ok vals =>
      simp only [hm] at h
      by_cases hl : vals.length = new.length
      · simp [hl] at h
        subst h
        rw [obsOf_callable r hc, mapM'_ok _ _ _ hm, obsOf_discrete 0 hd hl.symm]
        exact obsEq_ok_self vals
      · simp [hl] at h
  cases r with
  | seq _ _ => simp at h
  | binary _ _ => exact key rfl h
  | discrete _ _ _ _ => exact key rfl h
  | hamming _ => exact key rfl h
  | l1 _ => exact key rfl h
  | fn _ _ => exact key rfl h


/-! ### structural identity -/

mutual
theorem Val.same_sound : ∀ (a b : Val), Val.same a b = true → a = b
  | .none, b, h => by cases b <;> simp_all [Val.same]
  | .num a, b, h => by cases b <;> simp_all [Val.same]
  | .str a, b, h => by cases b <;> simp_all [Val.same]
  | .cat a la, b, h => by cases b <;> simp_all [Val.same]
  | .list xs, b, h => by
    cases b <;> simp_all [Val.same]
    exact Val.sameL_sound _ _ h
  | .tuple xs, b, h => by
    cases b <;> simp_all [Val.same]
    exact Val.sameL_sound _ _ h
  | .dict kvs, b, h => by
    cases b <;> simp_all [Val.same]
    exact Val.sameD_sound _ _ h
  | .lazy kvs n, b, h => by
    cases b <;> simp_all [Val.same]
    exact Val.sameZ_sound _ _ h.2
theorem Val.sameL_sound : ∀ (xs ys : List Val), Val.sameL xs ys = true → xs = ys
  | [], ys, h => by cases ys <;> simp_all [Val.sameL]
  | x :: xs, ys, h => by
    cases ys with
    | nil => simp [Val.sameL] at h
    | cons y ys =>
      simp [Val.sameL] at h
      rw [Val.same_sound x y h.1, Val.sameL_sound xs ys h.2]
theorem Val.sameD_sound : ∀ (xs ys : List (String × Val)), Val.sameD xs ys = true → xs = ys
  | [], ys, h => by cases ys <;> simp_all [Val.sameD]
  | (k, x) :: xs, ys, h => by
    cases ys with
    | nil => simp [Val.sameD] at h
    | cons p ys =>
      obtain ⟨k', y⟩ := p
      simp [Val.sameD] at h
      rw [h.1.1, Val.same_sound x y h.1.2, Val.sameD_sound xs ys h.2]
theorem Val.sameZ_sound : ∀ (xs ys : List (Nat × Val)), Val.sameZ xs ys = true → xs = ys
  | [], ys, h => by cases ys <;> simp_all [Val.sameZ]
  | (k, x) :: xs, ys, h => by
    cases ys with
    | nil => simp [Val.sameZ] at h
    | cons p ys =>
      obtain ⟨k', y⟩ := p
      simp [Val.sameZ] at h
      rw [h.1.1, Val.same_sound x y h.1.2, Val.sameZ_sound xs ys h.2]
end


theorem getElem?_of_mem {α} {a : α} : ∀ {l : List α}, a ∈ l → ∃ k : Nat, l[k]? = some a := by
  intro l h
  induction l with
  | nil => cases h
  | cons x xs ih =>
    cases h with
    | head => exact ⟨0, rfl⟩
    | tail _ h' =>
      obtain ⟨k, hk⟩ := ih h'
      exact ⟨k + 1, by simpa using hk⟩

/-! ### Repr's BinaryReward remapping -/

theorem binary_remap_aligned {am : Val} {v : Rat} {old new : List Val} {r' : Rew} {fd : Bool}
    (h : rekey (.reprStyle fd) (.binary am v) old new = .ok r')
    (hdo : Distinct old) (hdn : Distinct new) (hl : old.length = new.length) (hm : am ∈ old) :
    obsEq (obsOf (.binary am v) old) (obsOf r' new) = true := by
  obtain ⟨k, hk⟩ := getElem?_of_mem hm
  have hidx := indexOf_of_distinct hdo hk
  simp only [rekey, hidx] at h
  cases hn : new[k]? with
  | none => simp [hn] at h
  | some a' =>
    simp only [hn] at h
    cases h
    have e1 : obsOf (.binary am v) old = (old.map fun a => if pyEq am a then v else 0).map Except.ok := by
      simp [obsOf, callRew, List.map_map, Function.comp_def]
    have e2 : obsOf (.binary a' v) new = (new.map fun a => if pyEq a' a then v else 0).map Except.ok := by
      simp [obsOf, callRew, List.map_map, Function.comp_def]
    have e3 : (old.map fun a => if pyEq am a then v else 0) = (new.map fun a => if pyEq a' a then v else 0) := by
      apply List.ext_getElem (by simp [hl])
      intro i h1 h2
      simp only [List.length_map] at h1 h2
      simp only [List.getElem_map]
      have ho := hdo k i am old[i] hk (List.getElem?_eq_getElem h1)
      have hn' := hdn k i a' new[i] hn (List.getElem?_eq_getElem h2)
      rw [ho, hn']
    rw [e1, e2, e3]
    exact obsEq_ok_self _

/-! ### every re-keying policy keeps the observable -/

theorem obsOf_seq (b : Bool) (rs : List Rat) (acts : List Val) : obsOf (.seq b rs) acts = rs.map Except.ok := rfl

theorem rekey_aligned {p : Policy} {r r' : Rew} {old new : List Val}
    (hh : targetHypB p (some r) old new = true) (hl : old.length = new.length)
    (h : rekey p r old new = .ok r') : obsEq (obsOf r old) (obsOf r' new) = true := by
  cases p with
  | keep =>
    simp only [rekey] at h
    cases h
    simpa [targetHypB] using hh
  | generic =>
    simp only [targetHypB] at hh
    exact genericRew_aligned (by simpa [rekey] using h) ((distinctB_iff _).mp hh)
  | rotate n => simp [targetHypB] at hh
  | toList =>
    cases r <;> simp [rekey] at h
    subst h
    simp only [obsOf_seq]
    exact obsEq_ok_self _
  | wrapSeq =>
    simp only [targetHypB] at hh
    have hd := (distinctB_iff _).mp hh
    cases r with
    | seq b rs =>
      simp only [rekey] at h
      by_cases hlen : rs.length = new.length
      · simp [hlen] at h
        subst h
        rw [obsOf_seq, obsOf_discrete 0 hd hlen.symm]
        exact obsEq_ok_self _
      · simp [hlen] at h
    | _ => simp [rekey] at h
  | reprStyle fd =>
    cases r with
    | binary am v =>
      simp only [targetHypB, Bool.and_eq_true, List.any_eq_true] at hh
      obtain ⟨⟨hn, ho⟩, a, ha, hs⟩ := hh
      have : a = am := Val.same_sound _ _ hs
      subst this
      exact binary_remap_aligned h ((distinctB_iff _).mp ho) ((distinctB_iff _).mp hn) hl ha
    | discrete as rs d isD =>
      simp only [targetHypB, Bool.and_eq_true, Bool.or_eq_true] at hh
      obtain ⟨hn, hfd⟩ := hh
      have hd := (distinctB_iff _).mp hn
      cases fd with
      | true => exact genericRew_aligned (by simpa [rekey] using h) hd
      | false =>
        simp at hfd
        simp only [rekey] at h
        by_cases hlen : rs.length = new.length
        · simp [hlen] at h
          subst h
          rw [obsOf_discrete 0 hd hlen.symm]
          exact hfd
        · simp [hlen] at h
    | seq b rs =>
      simp [rekey, genericRew] at h
    | hamming am =>
      simp only [targetHypB] at hh
      exact genericRew_aligned (by simpa [rekey] using h) ((distinctB_iff _).mp hh)
    | l1 am =>
      simp only [targetHypB] at hh
      exact genericRew_aligned (by simpa [rekey] using h) ((distinctB_iff _).mp hh)
    | fn t d =>
      simp only [targetHypB] at hh
      exact genericRew_aligned (by simpa [rekey] using h) ((distinctB_iff _).mp hh)


/-! ### the logged action -/

theorem logged_index_kept {old new : List Val} {a a' : Val} {k : Nat}
    (hh : loggedHypB old new (some a) (some a') = true) (hk : indexOf old a = some k) :
    indexOf new a' = some k := by
  simp only [loggedHypB, hk, Bool.and_eq_true] at hh
  obtain ⟨hd, hb⟩ := hh
  cases hn : new[k]? with
  | none => simp [hn] at hb
  | some b =>
    simp only [hn] at hb
    have : b = a' := Val.same_sound _ _ hb
    subst this
    exact indexOf_of_distinct ((distinctB_iff _).mp hd) hn

/-! ### one plan -/

def obsWith (r : Option Rew) (acts : List Val) : Option (List (Except Err Rat)) :=
  match r with
  | some r => some (obsOf r acts)
  | none => none

theorem rekeyOpt_aligned {p : Policy} {r r' : Option Rew} {o n : List Val}
    (hh : targetHypB p r o n = true) (hl : o.length = n.length)
    (h : rekeyOpt p r (some o) (some n) = .ok r') : optObsEq (obsWith r o) (obsWith r' n) = true := by
  have nonkeep : ∀ (r0 : Rew), r = some r0 → (∀ r2, rekey p r0 o n = .ok r2 → r' = some r2 → optObsEq (obsWith r o) (obsWith r' n) = true) := by
    intro r0 hr0 r2 hr hr'
    subst hr0; subst hr'
    simpa [obsWith, optObsEq] using rekey_aligned hh hl hr
  cases p with
  | keep =>
    simp [rekeyOpt] at h
    subst h
    cases r with
    | none => simp [obsWith, optObsEq]
    | some r => simpa [obsWith, optObsEq, targetHypB] using hh
  | generic =>
    cases r with
    | none => simp [rekeyOpt] at h
    | some r0 =>
      simp only [rekeyOpt] at h
      cases hr : rekey .generic r0 o n with
      | error e => simp [hr] at h
      | ok r2 => simp [hr] at h; exact nonkeep r0 rfl r2 hr h.symm
  | reprStyle fd =>
    cases r with
    | none => simp [rekeyOpt] at h
    | some r0 =>
      simp only [rekeyOpt] at h
      cases hr : rekey (.reprStyle fd) r0 o n with
      | error e => simp [hr] at h
      | ok r2 => simp [hr] at h; exact nonkeep r0 rfl r2 hr h.symm
  | wrapSeq =>
    cases r with
    | none => simp [rekeyOpt] at h
    | some r0 =>
      simp only [rekeyOpt] at h
      cases hr : rekey .wrapSeq r0 o n with
      | error e => simp [hr] at h
      | ok r2 => simp [hr] at h; exact nonkeep r0 rfl r2 hr h.symm
  | rotate k =>
    cases r with
    | none => simp [rekeyOpt] at h
    | some r0 => simp [targetHypB] at hh
  | toList =>
    cases r with
    | none => simp [rekeyOpt] at h
    | some r0 =>
      simp only [rekeyOpt] at h
      cases hr : rekey .toList r0 o n with
      | error e => simp [hr] at h
      | ok r2 => simp [hr] at h; exact nonkeep r0 rfl r2 hr h.symm

theorem obsRewards_some (I : Inter) (as : List Val) (h : I.actions = some as) : obsRewards I = obsWith I.rewards as := by
  unfold obsRewards obsWith
  rw [h]
  cases I.rewards <;> rfl

theorem obsFeedbacks_some (I : Inter) (as : List Val) (h : I.actions = some as) : obsFeedbacks I = obsWith I.feedbacks as := by
  unfold obsFeedbacks obsWith
  rw [h]
  cases I.feedbacks <;> rfl

theorem obsRewards_none (I : Inter) (h : I.actions = none) : obsRewards I = none := by
  unfold obsRewards
  rw [h]
  cases I.rewards <;> rfl

theorem obsFeedbacks_none (I : Inter) (h : I.actions = none) : obsFeedbacks I = none := by
  unfold obsFeedbacks
  rw [h]
  cases I.feedbacks <;> rfl

/-- a plan whose run-time hypotheses hold keeps the interaction aligned -/
theorem applyPlan_aligned {I J : Inter} {p : Plan} (hh : planHypB I p = true) (h : applyPlan I p = .ok J) :
    alignedB I J = true := by
  unfold applyPlan at h
  cases hr : rekeyOpt p.polR I.rewards I.actions p.actions with
  | error e => simp [hr] at h
  | ok r' =>
    simp only [hr] at h
    cases hf : rekeyOpt p.polF I.feedbacks I.actions p.actions with
    | error e => simp [hf] at h
    | ok f' =>
      simp only [hf] at h
      cases h
      unfold planHypB at hh
      cases ho : I.actions with
      | none =>
        cases hn : p.actions with
        | some n => simp [ho, hn] at hh
        | none =>
          simp [alignedB, obsRewards_none, obsFeedbacks_none, ho, optObsEq, loggedIndex]
      | some o =>
        cases hn : p.actions with
        | none => simp [ho, hn] at hh
        | some n =>
          simp only [ho, hn, Bool.and_eq_true, beq_iff_eq] at hh
          obtain ⟨⟨⟨hl, hR⟩, hF⟩, hL⟩ := hh
          rw [ho, hn] at hr hf
          have e1 := rekeyOpt_aligned hR hl hr
          have e2 := rekeyOpt_aligned hF hl hf
          have a1 : obsRewards I = obsWith I.rewards o := obsRewards_some I o ho
          have a2 : obsFeedbacks I = obsWith I.feedbacks o := obsFeedbacks_some I o ho
          have b1 : obsRewards { I with context := p.context, actions := some n, action := p.action, rewards := r', feedbacks := f' }
              = obsWith r' n := obsRewards_some _ n rfl
          have b2 : obsFeedbacks { I with context := p.context, actions := some n, action := p.action, rewards := r', feedbacks := f' }
              = obsWith f' n := obsFeedbacks_some _ n rfl
          simp only [alignedB, a1, a2, b1, b2, e1, e2, Bool.true_and, Bool.and_eq_true, beq_self_eq_true, and_true]
          have c1 : loggedIndex I = I.action.map (indexOf o) := by
            unfold loggedIndex; rw [ho]; cases I.action <;> rfl
          have c2 : loggedIndex { I with context := p.context, actions := some n, action := p.action, rewards := r', feedbacks := f' }
              = p.action.map (indexOf n) := by
            unfold loggedIndex; cases p.action <;> rfl
          rw [c1, c2]
          cases ha : I.action with
          | none => simp
          | some a =>
            cases hk : indexOf o a with
            | none => simp [hk]
            | some k =>
              cases ha' : p.action with
              | none => simp [ha, ha', loggedHypB] at hL
              | some a' =>
                rw [ha, ha'] at hL
                simp [hk, logged_index_kept hL hk]


/-! ### composition -/

theorem optObsEq_refl_of_left {a b : Option (List (Except Err Rat))} (h : optObsEq a b = true) : optObsEq a a = true := by
  cases a <;> cases b <;> simp_all [optObsEq]
  obtain ⟨rs, h1, _⟩ := (obsEq_iff _ _).mp h
  exact (obsEq_iff _ _).mpr ⟨rs, h1, h1⟩

theorem alignedB_trans {I J K : Inter} (h1 : alignedB I J = true) (h2 : alignedB J K = true) : alignedB I K = true := by
  simp only [alignedB, Bool.and_eq_true, beq_iff_eq] at h1 h2 ⊢
  obtain ⟨⟨⟨⟨r1, f1⟩, l1⟩, w1⟩, p1⟩ := h1
  obtain ⟨⟨⟨⟨r2, f2⟩, l2⟩, w2⟩, p2⟩ := h2
  refine ⟨⟨⟨⟨optObsEq_trans r1 r2, optObsEq_trans f1 f2⟩, ?_⟩, w1.trans w2⟩, p1.trans p2⟩
  cases hI : loggedIndex I with
  | none => simp
  | some x =>
    cases x with
    | none => simp
    | some k =>
      simp only [hI] at l1
      have hJ : loggedIndex J = some (some k) := by simpa using l1
      simp only [hJ] at l2
      simpa using l2

theorem optObsEq_refl_of_right {a b : Option (List (Except Err Rat))} (h : optObsEq a b = true) : optObsEq b b = true := by
  cases a <;> cases b <;> simp_all [optObsEq]
  obtain ⟨rs, _, h2⟩ := (obsEq_iff _ _).mp h
  exact (obsEq_iff _ _).mpr ⟨rs, h2, h2⟩

theorem alignedB_refl_right {I J : Inter} (h : alignedB I J = true) : alignedB J J = true := by
  simp only [alignedB, Bool.and_eq_true, beq_iff_eq] at h ⊢
  obtain ⟨⟨⟨⟨r1, f1⟩, _⟩, _⟩, _⟩ := h
  refine ⟨⟨⟨⟨optObsEq_refl_of_right r1, optObsEq_refl_of_right f1⟩, ?_⟩, trivial⟩, trivial⟩
  cases hJ : loggedIndex J with
  | none => simp
  | some x => cases x <;> simp

theorem alignedStreamB_refl_right : ∀ {s t : List Inter}, alignedStreamB s t = true → alignedStreamB t t = true := by
  intro s
  induction s with
  | nil =>
    intro t h
    cases t with
    | nil => rfl
    | cons _ _ => simp [alignedStreamB] at h
  | cons i is ih =>
    intro t h
    cases t with
    | nil => simp [alignedStreamB] at h
    | cons j js =>
      simp only [alignedStreamB, Bool.and_eq_true] at h ⊢
      exact ⟨alignedB_refl_right h.1, ih h.2⟩

theorem alignedStreamB_trans : ∀ {s t u : List Inter}, alignedStreamB s t = true → alignedStreamB t u = true →
    alignedStreamB s u = true := by
  intro s
  induction s with
  | nil =>
    intro t u h1 h2
    cases t with
    | nil => exact h2
    | cons _ _ => simp [alignedStreamB] at h1
  | cons i is ih =>
    intro t u h1 h2
    cases t with
    | nil => simp [alignedStreamB] at h1
    | cons j js =>
      cases u with
      | nil => simp [alignedStreamB] at h2
      | cons k ks =>
        simp only [alignedStreamB, Bool.and_eq_true] at h1 h2 ⊢
        exact ⟨alignedB_trans h1.1 h2.1, ih h1.2 h2.2⟩

theorem applyPlans_aligned : ∀ {s : List Inter} {ps : List Plan} {s' : List Inter},
    plansHypB s ps = true → applyPlans s ps = .ok s' → alignedStreamB s s' = true := by
  intro s
  induction s with
  | nil =>
    intro ps s' hh h
    cases ps with
    | nil => simp [applyPlans] at h; subst h; rfl
    | cons _ _ => simp [applyPlans] at h
  | cons i is ih =>
    intro ps s' hh h
    cases ps with
    | nil => simp [applyPlans] at h
    | cons p ps =>
      simp only [plansHypB, Bool.and_eq_true] at hh
      simp only [applyPlans] at h
      cases hj : applyPlan i p with
      | error e => simp [hj] at h
      | ok j =>
        simp only [hj] at h
        cases hjs : applyPlans is ps with
        | error e => simp [hjs] at h
        | ok js =>
          simp only [hjs] at h
          cases h
          simp only [alignedStreamB, Bool.and_eq_true]
          exact ⟨applyPlan_aligned hh.1 hj, ih hh.2 hjs⟩

/-- the stream is aligned with itself as soon as its own reward functions evaluate on its own actions -/
theorem runPrims_aligned (cfg : Cfg) : ∀ (sts : List Step) {s s' : List Inter},
    primsHypB cfg sts s = true → runPrims cfg sts s = .ok s' → alignedStreamB s s = true → alignedStreamB s s' = true := by
  intro sts
  induction sts with
  | nil =>
    intro s s' _ h hs
    simp [runPrims] at h
    subst h
    exact hs
  | cons st rest ih =>
    intro s s' hh h hs
    simp only [runPrims, runPrim] at h
    simp only [primsHypB] at hh
    cases hp : plansOf cfg st s with
    | error e => simp [hp] at h
    | ok ps =>
      simp only [hp] at h hh
      cases ha : applyPlans s ps with
      | error e => simp [ha] at h
      | ok s1 =>
        simp only [ha, Bool.and_eq_true] at h hh
        have h1 := applyPlans_aligned hh.1 ha
        have h11 : alignedStreamB s1 s1 = true := alignedStreamB_refl_right h1
        exact alignedStreamB_trans h1 (ih hh.2 h h11)


theorem runStep_aligned (cfg : Cfg) (st : Step) {S S' : State}
    (hh : (match st with
           | .batch _ => true
           | .unbatch => true
           | _ => primsHypB cfg (expandStep st) S.stream) = true)
    (h : runStep cfg st S = .ok S') (hs : alignedStreamB S.stream S.stream = true) :
    alignedStreamB S.stream S'.stream = true := by
  have prim : ∀ (sts : List Step), primsHypB cfg sts S.stream = true →
      (match runPrims cfg sts S.stream with
       | .error e => Except.error e
       | .ok s' => Except.ok ({ stream := s', sizes := match S.sizes with
                                  | some (k :: _) => some (chunkSizes k s'.length s'.length)
                                  | other => other } : State)) = .ok S' →
      alignedStreamB S.stream S'.stream = true := by
    intro sts hp hr
    cases hrun : runPrims cfg sts S.stream with
    | error e => simp [hrun] at hr
    | ok s' =>
      simp only [hrun] at hr
      cases hr
      exact runPrims_aligned cfg sts hp hrun hs
  cases st with
  | batch n =>
    simp only [runStep] at h
    cases n with
    | none => cases h; exact hs
    | some k =>
      cases k with
      | zero => cases h; exact hs
      | succ k =>
        simp only at h
        cases hsz : S.sizes with
        | some _ => simp [hsz] at h
        | none =>
          simp only [hsz] at h
          split at h <;> (cases h; exact hs)
  | unbatch => simp only [runStep] at h; cases h; exact hs
  | repr cc ca => exact prim _ hh h
  | flatten => exact prim _ hh h
  | sparsify c a => exact prim _ hh h
  | densify n m c a => exact prim _ hh h
  | noise c a o => exact prim _ hh h
  | harden => exact prim _ hh h
  | wrapSeqs => exact prim _ hh h
  | cycle k => exact prim _ hh h
  | finalize => exact prim _ hh h

/-- alignment is preserved along a whole chain -/
theorem runChain_aligned (cfg : Cfg) : ∀ (chain : List Step) {S S' : State},
    chainHypB cfg chain S = true → runChain cfg chain S = .ok S' → alignedStreamB S.stream S.stream = true →
    alignedStreamB S.stream S'.stream = true := by
  intro chain
  induction chain with
  | nil =>
    intro S S' _ h hs
    simp [runChain] at h
    subst h
    exact hs
  | cons st rest ih =>
    intro S S' hh h hs
    simp only [runChain] at h
    simp only [chainHypB, Bool.and_eq_true] at hh
    cases hst : runStep cfg st S with
    | error e => simp [hst] at h
    | ok S1 =>
      simp only [hst] at h hh
      have h1 := runStep_aligned cfg st hh.1 hst hs
      exact alignedStreamB_trans h1 (ih hh.2 h (alignedStreamB_refl_right h1))


/-! ### batching -/
theorem chunkSizes_sum (k : Nat) (hk : 0 < k) : ∀ (fuel len : Nat), len ≤ fuel → (chunkSizes k fuel len).sum = len := by
  intro fuel
  induction fuel with
  | zero => intro len h; have : len = 0 := by omega
            subst this; simp [chunkSizes]
  | succ f ih =>
    intro len h
    cases len with
    | zero => simp [chunkSizes]
    | succ l =>
      simp only [chunkSizes]
      split
      · simp
      · rename_i hgt
        simp only [List.sum_cons]
        rw [ih (l + 1 - k) (by omega)]
        omega

theorem chunkSizes_bound (k : Nat) (hk : 0 < k) : ∀ (fuel len : Nat), ∀ x ∈ chunkSizes k fuel len, 0 < x ∧ x ≤ k := by
  intro fuel
  induction fuel with
  | zero => intro len x hx; simp [chunkSizes] at hx
  | succ f ih =>
    intro len x hx
    cases len with
    | zero => simp [chunkSizes] at hx
    | succ l =>
      simp only [chunkSizes] at hx
      split at hx
      · simp at hx; omega
      · simp at hx
        rcases hx with rfl | hx
        · omega
        · exact ih _ x hx

/-! ### one-hot and string encodings of categoricals are injective -/

theorem levelIndex_lt (s : String) : ∀ (ls : List String) (off i : Nat), levelIndex s ls off = some i → off ≤ i ∧ i < off + ls.length := by
  intro ls
  induction ls with
  | nil => intro off i h; simp [levelIndex] at h
  | cons l ls ih =>
    intro off i h
    simp only [levelIndex] at h
    split at h
    · cases h; simp
    · have := ih (off + 1) i h
      simp; omega

theorem levelIndex_get (s : String) : ∀ (ls : List String) (off i : Nat), levelIndex s ls off = some i → ls[i - off]? = some s := by
  intro ls
  induction ls with
  | nil => intro off i h; simp [levelIndex] at h
  | cons l ls ih =>
    intro off i h
    simp only [levelIndex] at h
    split at h
    · rename_i heq
      cases h
      simp at heq
      simp [heq]
    · have hb := levelIndex_lt s ls (off + 1) i h
      have := ih (off + 1) i h
      have e : i - off = (i - (off + 1)) + 1 := by omega
      rw [e]
      simpa using this

/-- two levels of one level list with the same position are the same level -/
theorem levelIndex_injective {s t : String} {ls : List String} {i : Nat}
    (hs : levelIndex s ls 0 = some i) (ht : levelIndex t ls 0 = some i) : s = t := by
  have a := levelIndex_get s ls 0 i hs
  have b := levelIndex_get t ls 0 i ht
  rw [a] at b
  exact Option.some.inj b

theorem pyEqL_map (f g : Nat → Val) : ∀ xs : List Nat,
    pyEqL (xs.map f) (xs.map g) = xs.all (fun k => pyEq (f k) (g k))
  | [] => by simp [pyEqL]
  | x :: xs => by simp [pyEqL, pyEqL_map f g xs]

theorem pyEqL_onehotVec (n : Nat) (i j : Nat) (hi : i < n) :
    pyEqL (onehotVec i n) (onehotVec j n) = (i == j) := by
  unfold onehotVec
  rw [pyEqL_map]
  by_cases h : i = j
  · subst h
    simp [pyEq]
  · have : (i == j) = false := by simp [h]
    rw [this, List.all_eq_false]
    refine ⟨i, List.mem_range.mpr hi, ?_⟩
    have hji : (i == j) = false := by simp [h]
    simp [pyEq, hji]

/-- every representation `Repr` can give a scalar categorical action compares exactly like the
categorical itself: one-hot tuples and strings are injective encodings of the levels -/
theorem encodeValue_onehot {m : Mode} (hm : m ≠ .string) {s : String} {ls : List String} {a : Val}
    (ha : encodeValue m (.cat s ls) = .ok a) :
    ∃ i, levelIndex s ls 0 = some i ∧ a = .tuple (onehotVec i ls.length) := by
  cases m with
  | string => exact absurd rfl hm
  | onehot =>
    simp only [encodeValue, onehotOf] at ha
    cases hi : levelIndex s ls 0 with
    | none => simp [hi] at ha
    | some i => simp [hi] at ha; exact ⟨i, rfl, ha.symm⟩
  | onehotTuple =>
    simp only [encodeValue, onehotOf] at ha
    cases hi : levelIndex s ls 0 with
    | none => simp [hi] at ha
    | some i => simp [hi] at ha; exact ⟨i, rfl, ha.symm⟩

theorem encodeValue_pyEq {m : Mode} {s t : String} {ls : List String} {a b : Val}
    (ha : encodeValue m (.cat s ls) = .ok a) (hb : encodeValue m (.cat t ls) = .ok b) :
    pyEq a b = pyEq (.cat s ls) (.cat t ls) := by
  by_cases hm : m = .string
  · subst hm
    simp [encodeValue, strOf] at ha hb
    subst ha; subst hb
    simp [pyEq]
  · obtain ⟨i, hi, rfl⟩ := encodeValue_onehot hm ha
    obtain ⟨j, hj, rfl⟩ := encodeValue_onehot hm hb
    have hlt := (levelIndex_lt s ls 0 i hi).2
    simp only [pyEq, pyEqL_onehotVec ls.length i j (by simpa using hlt)]
    by_cases hst : s = t
    · subst hst
      rw [hi] at hj
      cases hj
      simp
    · have hij : i ≠ j := by
        intro e
        subst e
        exact hst (levelIndex_injective hi hj)
      rw [beq_eq_false_iff_ne.mpr hij, beq_eq_false_iff_ne.mpr hst]

theorem getElem?_of_map_eq {α β} {f : α → Except Err β} : ∀ {xs : List α} {ys : List β}, xs.map f = ys.map Except.ok →
    ∀ (i : Nat) (y : β), ys[i]? = some y → ∃ x, xs[i]? = some x ∧ f x = .ok y := by
  intro xs
  induction xs with
  | nil => intro ys h i y hy; cases ys <;> simp_all
  | cons x xs ih =>
    intro ys h i y hy
    cases ys with
    | nil => simp at h
    | cons y0 ys =>
      simp at h
      cases i with
      | zero => simp at hy; subst hy; exact ⟨x, by simp, h.1⟩
      | succ i =>
        simp at hy
        obtain ⟨x', hx', hf⟩ := ih h.2 i y hy
        exact ⟨x', by simpa using hx', hf⟩

/-- scalar categorical actions over one level list stay pairwise distinct under every mode of Repr -/
theorem encodeValues_distinct {m : Mode} {ls : List String} {rows enc : List Val}
    (hcat : ∀ r ∈ rows, ∃ s, r = Val.cat s ls) (h : mapM' (encodeValue m) rows = .ok enc)
    (hd : Distinct rows) : Distinct enc := by
  have hmap := mapM'_ok _ _ _ h
  intro i j a b hi hj
  obtain ⟨x, hx, hfx⟩ := getElem?_of_map_eq hmap i a hi
  obtain ⟨y, hy, hfy⟩ := getElem?_of_map_eq hmap j b hj
  obtain ⟨s, rfl⟩ := hcat x (List.mem_of_getElem? hx)
  obtain ⟨t, rfl⟩ := hcat y (List.mem_of_getElem? hy)
  rw [encodeValue_pyEq hfx hfy]
  exact hd i j _ _ hx hy



/-! ### Sparsify and Finalize, end to end -/

mutual
theorem Val.same_refl : ∀ (a : Val), Val.same a a = true
  | .none => by simp [Val.same]
  | .num a => by simp [Val.same]
  | .str a => by simp [Val.same]
  | .cat a la => by simp [Val.same]
  | .list xs => by simp [Val.same, Val.sameL_refl xs]
  | .tuple xs => by simp [Val.same, Val.sameL_refl xs]
  | .dict kvs => by simp [Val.same, Val.sameD_refl kvs]
  | .lazy kvs n => by simp [Val.same, Val.sameZ_refl kvs]
theorem Val.sameL_refl : ∀ (xs : List Val), Val.sameL xs xs = true
  | [] => by simp [Val.sameL]
  | x :: xs => by simp [Val.sameL, Val.same_refl x, Val.sameL_refl xs]
theorem Val.sameD_refl : ∀ (xs : List (String × Val)), Val.sameD xs xs = true
  | [] => by simp [Val.sameD]
  | (k, x) :: xs => by simp [Val.sameD, Val.same_refl x, Val.sameD_refl xs]
theorem Val.sameZ_refl : ∀ (xs : List (Nat × Val)), Val.sameZ xs xs = true
  | [] => by simp [Val.sameZ]
  | (k, x) :: xs => by simp [Val.sameZ, Val.same_refl x, Val.sameZ_refl xs]
end

theorem makeSparse_id (h : String) (v : Val) (hv : sparseConverts v = false) : makeSparse h v = v := by
  cases v <;> simp_all [sparseConverts, makeSparse]

theorem map_makeSparse_id (h : String) : ∀ (as : List Val), as.any sparseConverts = false → as.map (makeSparse h) = as
  | [], _ => rfl
  | a :: as, hv => by
    simp only [List.any_cons, Bool.or_eq_false_iff] at hv
    simp [makeSparse_id h a hv.1, map_makeSparse_id h as hv.2]

theorem plansHypB_map (f : Inter → Plan) : ∀ (l : List Inter), (∀ I ∈ l, planHypB I (f I) = true) → plansHypB l (l.map f) = true
  | [], _ => rfl
  | I :: l, h => by
    simp only [List.map_cons, plansHypB, Bool.and_eq_true]
    exact ⟨h I (by simp), plansHypB_map f l (fun J hJ => h J (by simp [hJ]))⟩

theorem alignedStreamB_self_mem : ∀ {s : List Inter}, alignedStreamB s s = true → ∀ I ∈ s, alignedB I I = true
  | [], _, I, h => by cases h
  | J :: s, hs, I, h => by
    simp only [alignedStreamB, Bool.and_eq_true] at hs
    cases h with
    | head => exact hs.1
    | tail _ h' => exact alignedStreamB_self_mem hs.2 I h'

/-- **Sparsify** (with the proposed repair) keeps every interaction aligned, provided its encoding is
injective on each action set, functional rewards are functional throughout the stream (the
first interaction decides, as everywhere in coba) and the logged action is literally one of the actions. -/
theorem sparsify_aligned' (c a : Bool) (s s' : List Inter)
    (hself : alignedStreamB s s = true)
    (hhomR : ∀ I ∈ s, ∀ r, I.rewards = some r → r.isCallable = true → firstCallable (·.rewards) s = true)
    (hhomF : ∀ I ∈ s, ∀ r, I.feedbacks = some r → r.isCallable = true → firstCallable (·.feedbacks) s = true)
    (hinj : ∀ I ∈ s, ∀ as, I.actions = some as → Distinct (sparsifyActs a as))
    (hlog : ∀ I ∈ s, ∀ a0 as k, I.action = some a0 → I.actions = some as → indexOf as a0 = some k → as[k]? = some a0)
    (hrun : runPrim Cfg.fixed (.sparsify c a) s = .ok s') : alignedStreamB s s' = true := by
  simp only [runPrim, plansOf, sparsifyPlans] at hrun
  refine applyPlans_aligned (plansHypB_map _ s ?_) hrun
  intro I hI
  have hII := alignedStreamB_self_mem hself I hI
  simp only [alignedB, Bool.and_eq_true] at hII
  obtain ⟨⟨⟨⟨hIr, hIf⟩, _⟩, _⟩, _⟩ := hII
  -- one target
  have target : ∀ (get : Inter → Option Rew) (as : List Val), I.actions = some as →
      optObsEq (obsWith (get I) as) (obsWith (get I) as) = true →
      (∀ r, get I = some r → r.isCallable = true → firstCallable get s = true) →
      targetHypB (if (Cfg.fixed.fixRekey && a && as.any sparseConverts) && firstCallable get s then Policy.generic else Policy.keep)
        (get I) as (sparsifyActs a as) = true := by
    intro get as has hobs hhom
    cases hr : get I with
    | none => simp [targetHypB]
    | some r =>
      have hd := (distinctB_iff _).mpr (hinj I hI as has)
      by_cases hch : (a && as.any sparseConverts) = true
      · by_cases hfc : firstCallable get s = true
        · simp [Cfg.fixed, hch, hfc, targetHypB, hd]
        · have hnc : r.isCallable = false := by
            cases hc : r.isCallable with
            | false => rfl
            | true => exact absurd (hhom r hr hc) hfc
          cases r with
          | seq b rs =>
            simp only [Bool.not_eq_true] at hfc
            simp [Cfg.fixed, hfc, targetHypB, obsOf_seq, obsEq_ok_self]
          | _ => simp [Rew.isCallable] at hnc
      · have hsame : sparsifyActs a as = as := by
          unfold sparsifyActs
          cases a with
          | false => rfl
          | true =>
            simp only [Bool.true_and, Bool.not_eq_true] at hch
            simp [map_makeSparse_id "action" as hch]
        simp only [Bool.not_eq_true] at hch
        rw [hr] at hobs
        simp only [Cfg.fixed, Bool.true_and, hch, Bool.false_and, Bool.false_eq_true, if_false, targetHypB, hsame]
        simpa [obsWith, optObsEq] using hobs
  unfold planHypB
  cases has : I.actions with
  | none => simp
  | some as =>
    have hacts : (if a = true then Option.map (fun x => List.map (makeSparse "action") x) (some as) else some as) = some (sparsifyActs a as) := by
      unfold sparsifyActs; cases a <;> simp
    simp only [hacts, Bool.and_eq_true, beq_iff_eq]
    rw [obsRewards_some I as has] at hIr
    rw [obsFeedbacks_some I as has] at hIf
    refine ⟨⟨⟨?_, ?_⟩, ?_⟩, ?_⟩
    · unfold sparsifyActs; cases a <;> simp
    · have := target (·.rewards) as has hIr (hhomR I hI)
      simpa [Cfg.fixed] using this
    · have := target (·.feedbacks) as has hIf (hhomF I hI)
      simpa [Cfg.fixed] using this
    · unfold loggedHypB
      cases ha0 : I.action with
      | none => cases a <;> simp
      | some a0 =>
        have hact : (if a = true then Option.map (makeSparse "action") (some a0) else some a0) = some (if a then makeSparse "action" a0 else a0) := by
          cases a <;> simp
        simp only [hact]
        cases hk : indexOf as a0 with
        | none => simp
        | some k =>
          have hmem := hlog I hI a0 as k ha0 has hk
          have hd := (distinctB_iff _).mpr (hinj I hI as has)
          simp only [hd, Bool.true_and]
          unfold sparsifyActs
          cases a with
          | false => simp [hmem, Val.same_refl]
          | true => simp [hmem, Val.same_refl]


/-- **Finalize**'s last step, `DiscreteReward(actions, the_list)`, keeps list rewards/feedbacks with their actions -/
theorem finalize_wrap_aligned' (s s' : List Inter)
    (hself : alignedStreamB s s = true)
    (hacts : ∀ I ∈ s, ∃ as, I.actions = some as)
    (hinj : ∀ I ∈ s, ∀ as, I.actions = some as → Distinct as)
    (hlog : ∀ I ∈ s, ∀ a0 as k, I.action = some a0 → I.actions = some as → indexOf as a0 = some k → as[k]? = some a0)
    (hrun : runPrim Cfg.fixed .wrapSeqs s = .ok s') : alignedStreamB s s' = true := by
  simp only [runPrim, plansOf] at hrun
  cases s with
  | nil => simp [wrapPlans, applyPlans] at hrun; subst hrun; rfl
  | cons first rest =>
    simp only [wrapPlans] at hrun
    refine applyPlans_aligned (plansHypB_map _ (first :: rest) ?_) hrun
    intro I hI
    have hII := alignedStreamB_self_mem hself I hI
    simp only [alignedB, Bool.and_eq_true] at hII
    obtain ⟨⟨⟨⟨hIr, hIf⟩, _⟩, _⟩, _⟩ := hII
    have target : ∀ (r : Option Rew) (b : Bool) (as : List Val), Distinct as →
        optObsEq (obsWith r as) (obsWith r as) = true →
        targetHypB (if b then Policy.wrapSeq else Policy.keep) r as as = true := by
      intro r b as hd hobs
      cases r with
      | none => simp [targetHypB]
      | some r =>
        cases b with
        | true => simp [targetHypB, (distinctB_iff _).mpr hd]
        | false => simpa [targetHypB, obsWith, optObsEq] using hobs
    unfold planHypB
    cases has : I.actions with
    | none => obtain ⟨as, h⟩ := hacts I hI; rw [has] at h; cases h
    | some as =>
      have hd := hinj I hI as has
      rw [obsRewards_some I as has] at hIr
      rw [obsFeedbacks_some I as has] at hIf
      simp only [Bool.and_eq_true, beq_iff_eq]
      refine ⟨⟨⟨trivial, target _ _ as hd hIr⟩, target _ _ as hd hIf⟩, ?_⟩
      unfold loggedHypB
      cases ha0 : I.action with
      | none => simp
      | some a0 =>
        cases hk : indexOf as a0 with
        | none => simp [hk]
        | some k =>
          simp [hk, (distinctB_iff _).mpr hd, hlog I hI a0 as k ha0 has hk, Val.same_refl]


theorem batch_unbatch_stream' (cfg : Cfg) (n : Option Nat) (S S1 S2 : State)
    (h1 : runStep cfg (.batch n) S = .ok S1) (h2 : runStep cfg .unbatch S1 = .ok S2) :
    S2.stream = S.stream ∧ S2.sizes = none := by
  simp only [runStep] at h2
  cases h2
  simp only [runStep] at h1
  cases n with
  | none => cases h1; exact ⟨rfl, rfl⟩
  | some k =>
    cases k with
    | zero => cases h1; exact ⟨rfl, rfl⟩
    | succ k =>
      simp only at h1
      cases hsz : S.sizes with
      | some _ => simp [hsz] at h1
      | none =>
        simp only [hsz] at h1
        split at h1 <;> (cases h1; exact ⟨rfl, rfl⟩)


/-- one primitive filter -/
theorem runPrim_aligned (cfg : Cfg) (st : Step) {s s' : List Inter}
    (hh : primsHypB cfg [st] s = true) (h : runPrim cfg st s = .ok s') (hs : alignedStreamB s s = true) :
    alignedStreamB s s' = true := by
  refine runPrims_aligned cfg [st] hh ?_ hs
  simp [runPrims, h]

/-- Finalize = Harden, Repr('onehot','onehot'), wrap list rewards -/
theorem finalize_aligned' (cfg : Cfg) {s s' : List Inter}
    (hh : primsHypB cfg (expandStep .finalize) s = true) (h : runPrims cfg (expandStep .finalize) s = .ok s')
    (hs : alignedStreamB s s = true) : alignedStreamB s s' = true := runPrims_aligned cfg _ hh h hs


/-! ## Phase 2: injectivity of the encodings on rows -/


theorem pyEqL_nil_left (ys : List Val) : pyEqL [] ys = ys.isEmpty := by simp [pyEqL]
theorem pyEqL_cons (x : Val) (xs : List Val) (y : Val) (ys : List Val) :
    pyEqL (x :: xs) (y :: ys) = (pyEq x y && pyEqL xs ys) := by simp [pyEqL]
theorem pyEqL_cons_nil (x : Val) (xs : List Val) : pyEqL (x :: xs) [] = false := by simp [pyEqL]

theorem pyEqL_append : ∀ (a a' b b' : List Val), a.length = a'.length →
    pyEqL (a ++ b) (a' ++ b') = (pyEqL a a' && pyEqL b b')
  | [], a', b, b', h => by
    cases a' with
    | nil => simp [pyEqL]
    | cons _ _ => simp at h
  | x :: a, a', b, b', h => by
    cases a' with
    | nil => simp at h
    | cons y a' =>
      simp only [List.cons_append, pyEqL_cons, pyEqL_append a a' b b' (by simpa using h), Bool.and_assoc]

theorem pyEqL_length_ne : ∀ (a b : List Val), a.length ≠ b.length → pyEqL a b = false
  | [], b, h => by cases b <;> simp_all [pyEqL]
  | x :: a, b, h => by
    cases b with
    | nil => simp [pyEqL]
    | cons y b => simp [pyEqL_cons, pyEqL_length_ne a b (by simpa using h)]


theorem pyEqL_set : ∀ (xs ys : List Val) (n : Nat) (a b a' b' : Val), xs[n]? = some a → ys[n]? = some b →
    pyEq a' b' = pyEq a b → pyEqL (xs.set n a') (ys.set n b') = pyEqL xs ys
  | [], _, n, _, _, _, _, h, _, _ => by simp at h
  | x :: xs, [], n, _, _, _, _, _, h, _ => by simp at h
  | x :: xs, y :: ys, 0, a, b, a', b', hx, hy, he => by
    simp at hx hy; subst hx; subst hy
    simp [pyEqL_cons, he]
  | x :: xs, y :: ys, n + 1, a, b, a', b', hx, hy, he => by
    simp at hx hy
    simp [pyEqL_cons, pyEqL_set xs ys n a b a' b' hx hy he]

theorem onehot_pyEqL {s t : String} {ls : List String} {i j : Nat}
    (hi : levelIndex s ls 0 = some i) (hj : levelIndex t ls 0 = some j) :
    pyEqL (onehotVec i ls.length) (onehotVec j ls.length) = pyEq (.cat s ls) (.cat t ls) := by
  have ha : encodeValue .onehot (.cat s ls) = .ok (.tuple (onehotVec i ls.length)) := by simp [encodeValue, onehotOf, hi]
  have hb : encodeValue .onehot (.cat t ls) = .ok (.tuple (onehotVec j ls.length)) := by simp [encodeValue, onehotOf, hj]
  have := encodeValue_pyEq ha hb
  simpa [pyEq] using this

theorem onehotVec_length (i n : Nat) : (onehotVec i n).length = n := by simp [onehotVec]

theorem list_split_at {α} (xs : List α) (n : Nat) (a : α) (h : xs[n]? = some a) :
    xs = xs.take n ++ a :: xs.drop (n + 1) := by
  induction xs generalizing n with
  | nil => simp at h
  | cons x xs ih =>
    cases n with
    | zero => simp at h; subst h; simp
    | succ n => simp at h; simp; exact ih n h

/-- one categorical cell of two dense rows, encoded by `Repr` in any mode: the rows compare as before -/
theorem encodeAt_dense_pyEq (m : Mode) (xs ys : List Val) (n : Nat) (e1 e2 : Val)
    (hl : xs.length = ys.length) (hc : sameCatAt xs ys n = true)
    (h1 : encodeAt m (.list xs) (.i n) = .ok e1) (h2 : encodeAt m (.list ys) (.i n) = .ok e2) :
    ∃ xs' ys', e1 = .list xs' ∧ e2 = .list ys' ∧ xs'.length = ys'.length ∧ pyEqL xs' ys' = pyEqL xs ys ∧
      (∀ j, j < n → xs'[j]? = xs[j]? ∧ ys'[j]? = ys[j]?) := by
  unfold sameCatAt at hc
  cases hx : xs[n]? with
  | none => simp [hx] at hc
  | some a =>
    cases hy : ys[n]? with
    | none => simp [hx, hy] at hc
    | some b =>
      cases a <;> cases b <;> simp [hx, hy] at hc
      rename_i s l1 t l2
      subst hc
      have hnx : n < xs.length := by
        rcases Nat.lt_or_ge n xs.length with h | h
        · exact h
        · simp [List.getElem?_eq_none h] at hx
      have hny : n < ys.length := hl ▸ hnx
      have hxe : xs[n] = .cat s l1 := by
        have := List.getElem?_eq_getElem hnx; rw [hx] at this; exact (Option.some.inj this).symm
      have hye : ys[n] = .cat t l1 := by
        have := List.getElem?_eq_getElem hny; rw [hy] at this; exact (Option.some.inj this).symm
      cases m with
      | string =>
        simp [encodeAt, getItem, hx, hy, hxe, hye, strOf, setItem, hnx, hny] at h1 h2
        subst h1; subst h2
        refine ⟨_, _, rfl, rfl, by simp [hl], ?_, ?_⟩
        · exact pyEqL_set xs ys n _ _ _ _ hx hy (by simp [pyEq])
        · intro j hj
          have : n ≠ j := by omega
          simp [List.getElem?_set, this]
      | onehotTuple =>
        simp only [encodeAt, getItem, hx, hy, onehotOf] at h1 h2
        cases hi : levelIndex s l1 0 with
        | none => simp [hi] at h1
        | some i =>
          cases hj : levelIndex t l1 0 with
          | none => simp [hj] at h2
          | some j =>
            simp [hi, hj, setItem, hnx, hny] at h1 h2
            subst h1; subst h2
            refine ⟨_, _, rfl, rfl, by simp [hl], ?_, ?_⟩
            · exact pyEqL_set xs ys n _ _ _ _ hx hy (by simpa [pyEq] using onehot_pyEqL hi hj)
            · intro k hk
              have : n ≠ k := by omega
              simp [List.getElem?_set, this]
      | onehot =>
        simp only [encodeAt, hx, hy, onehotOf] at h1 h2
        cases hi : levelIndex s l1 0 with
        | none => simp [hi] at h1
        | some i =>
          cases hj : levelIndex t l1 0 with
          | none => simp [hj] at h2
          | some j =>
            simp [hi, hj] at h1 h2
            subst h1; subst h2
            refine ⟨_, _, rfl, rfl, by simp [onehotVec_length, hl], ?_, ?_⟩
            · have ex := list_split_at xs n _ hx
              have ey := list_split_at ys n _ hy
              have ltk : (xs.take n).length = (ys.take n).length := by simp [hl]
              rw [pyEqL_append _ _ _ _ ltk, pyEqL_append _ _ _ _ (by simp [onehotVec_length]), onehot_pyEqL hi hj]
              conv => rhs; rw [ex, ey, pyEqL_append _ _ _ _ ltk, pyEqL_cons]
            · intro k hk
              have hkx : k < (xs.take n).length := by simp; omega
              have hky : k < (ys.take n).length := by simp; omega
              simp [List.append_assoc, List.getElem?_append_left hkx, List.getElem?_append_left hky, List.getElem?_take, hk]


theorem sameCatAt_iff (xs ys : List Val) (n : Nat) :
    sameCatAt xs ys n = true ↔ ∃ s t l, xs[n]? = some (Val.cat s l) ∧ ys[n]? = some (Val.cat t l) := by
  unfold sameCatAt
  cases hx : xs[n]? with
  | none => simp
  | some x =>
    cases x with
    | cat s l1 =>
      cases hy : ys[n]? with
      | none => simp
      | some y =>
        cases y with
        | cat t l2 =>
          simp only [beq_iff_eq]
          constructor
          · intro h; subst h; exact ⟨s, t, l1, rfl, rfl⟩
          · rintro ⟨s', t', l, h1, h2⟩
            cases h1; cases h2; rfl
        | _ => simp
    | _ => simp

theorem sameCatAt_preserved {xs ys xs' ys' : List Val} {n n' : Nat} (hlt : n' < n)
    (h : ∀ j, j < n → xs'[j]? = xs[j]? ∧ ys'[j]? = ys[j]?) (hc : sameCatAt xs ys n' = true) :
    sameCatAt xs' ys' n' = true := by
  unfold sameCatAt at *
  rw [(h n' hlt).1, (h n' hlt).2]; exact hc

theorem descending_cons {a : Nat} {r : List Nat} (h : descending (a :: r) = true) :
    descending r = true ∧ ∀ b ∈ r, b < a := by
  induction r generalizing a with
  | nil => simp [descending]
  | cons b r ih =>
    simp only [descending, Bool.and_eq_true, decide_eq_true_eq] at h
    refine ⟨h.2, ?_⟩
    intro c hc
    cases hc with
    | head => exact h.1
    | tail _ hc' => exact Nat.lt_trans ((ih h.2).2 c hc') h.1

/-- all categorical cells of two dense rows of one shape, encoded by `Repr` in any mode -/
theorem encodeKeys_dense_pyEq (m : Mode) : ∀ (ns : List Nat) (xs ys : List Val) (e1 e2 : Val),
    descending ns = true → xs.length = ys.length → (∀ n ∈ ns, sameCatAt xs ys n = true) →
    encodeKeys m (.list xs) (ns.map CK.i) = .ok e1 → encodeKeys m (.list ys) (ns.map CK.i) = .ok e2 →
    ∃ xs' ys', e1 = .list xs' ∧ e2 = .list ys' ∧ pyEqL xs' ys' = pyEqL xs ys
  | [], xs, ys, e1, e2, _, _, _, h1, h2 => by
    simp [encodeKeys] at h1 h2
    exact ⟨xs, ys, h1.symm, h2.symm, rfl⟩
  | n :: ns, xs, ys, e1, e2, hd, hl, hc, h1, h2 => by
    simp only [List.map_cons, encodeKeys] at h1 h2
    cases ha : encodeAt m (.list xs) (.i n) with
    | error e => simp [ha] at h1
    | ok a =>
      cases hb : encodeAt m (.list ys) (.i n) with
      | error e => simp [hb] at h2
      | ok b =>
        simp only [ha, hb] at h1 h2
        obtain ⟨xs1, ys1, rfl, rfl, hl1, heq, hpres⟩ := encodeAt_dense_pyEq m xs ys n a b hl (hc n (by simp)) ha hb
        obtain ⟨hd', hlt⟩ := descending_cons hd
        obtain ⟨xs', ys', r1, r2, heq'⟩ := encodeKeys_dense_pyEq m ns xs1 ys1 e1 e2 hd' hl1
          (fun n' hn' => sameCatAt_preserved (hlt n' hn') hpres (hc n' (by simp [hn']))) h1 h2
        exact ⟨xs', ys', r1, r2, heq'.trans heq⟩

theorem catset_flat_keys (m : Mode) (o : Val) (ns : List Nat) :
    catset m o (.l (ns.map CK.i)) = encodeKeys m o (ns.map CK.i) := by
  match ns with
  | [] => simp [catset]
  | [a] => simp [catset]
  | [a, b] => simp [catset]
  | a :: b :: c :: r => simp [catset]

/-- **Repr on dense rows** (tuples or lists with top-level categorical cells, any of the three modes):
two rows of one shape compare after the encoding exactly as before -/
theorem reprRow_pyEq (m : Mode) (ns : List Nat) (first r1 r2 e1 e2 : Val)
    (hd : descending ns = true)
    (s1 : sameDenseCatShape ns first r1 = true) (s2 : sameDenseCatShape ns first r2 = true)
    (h1 : catset m (prepRow r1) (.l (ns.map CK.i)) = .ok e1) (h2 : catset m (prepRow r2) (.l (ns.map CK.i)) = .ok e2) :
    pyEq e1 e2 = pyEq r1 r2 := by
  rw [catset_flat_keys] at h1 h2
  have trans : ∀ (fs xs ys : List Val), fs.length = xs.length → fs.length = ys.length →
      (ns.all (sameCatAt fs xs) = true) → (ns.all (sameCatAt fs ys) = true) → ∀ n ∈ ns, sameCatAt xs ys n = true := by
    intro fs xs ys _ _ a1 a2 n hn
    obtain ⟨_, s, l, hf, hx⟩ := (sameCatAt_iff _ _ _).mp (List.all_eq_true.mp a1 n hn)
    obtain ⟨_, t, l', hf', hy⟩ := (sameCatAt_iff _ _ _).mp (List.all_eq_true.mp a2 n hn)
    rw [hf] at hf'
    cases hf'
    exact (sameCatAt_iff _ _ _).mpr ⟨s, t, l, hx, hy⟩
  cases first with
  | list fs =>
    cases r1 <;> cases r2 <;> simp [sameDenseCatShape] at s1 s2
    rename_i xs ys
    simp only [prepRow] at h1 h2
    obtain ⟨xs', ys', rfl, rfl, heq⟩ := encodeKeys_dense_pyEq m ns xs ys e1 e2 hd (s1.1.symm.trans s2.1)
      (trans fs xs ys s1.1 s2.1 (by simpa using s1.2) (by simpa using s2.2)) h1 h2
    simp [pyEq, heq]
  | tuple fs =>
    cases r1 <;> cases r2 <;> simp [sameDenseCatShape] at s1 s2
    rename_i xs ys
    simp only [prepRow] at h1 h2
    obtain ⟨xs', ys', rfl, rfl, heq⟩ := encodeKeys_dense_pyEq m ns xs ys e1 e2 hd (s1.1.symm.trans s2.1)
      (trans fs xs ys s1.1 s2.1 (by simpa using s1.2) (by simpa using s2.2)) h1 h2
    simp [pyEq, heq]
  | _ => cases r1 <;> simp [sameDenseCatShape] at s1

/-- lifting: an encoder that preserves `==` between any two rows of the stream keeps action sets sets -/
theorem mapM'_distinct {f : Val → Except Err Val} {rows enc : List Val} (h : mapM' f rows = .ok enc)
    (hp : ∀ a b a' b', a ∈ rows → b ∈ rows → f a = .ok a' → f b = .ok b' → pyEq a' b' = pyEq a b)
    (hd : Distinct rows) : Distinct enc := by
  have hmap := mapM'_ok _ _ _ h
  intro i j a b hi hj
  obtain ⟨x, hx, hfx⟩ := getElem?_of_map_eq hmap i a hi
  obtain ⟨y, hy, hfy⟩ := getElem?_of_map_eq hmap j b hj
  rw [hp x y a b (List.mem_of_getElem? hx) (List.mem_of_getElem? hy) hfx hfy]
  exact hd i j _ _ hx hy

theorem isCK_i_of_ckNats {c : CK} {r : List CK} {ns : List Nat} (h : ckNats (c :: r) = some ns) : isCK_i c = true := by
  cases c <;> simp [ckNats, isCK_i] at h ⊢

theorem ckNats_map : ∀ (cks : List CK) (ns : List Nat), ckNats cks = some ns → cks = ns.map CK.i
  | [], ns, h => by simp [ckNats] at h; subst h; rfl
  | .i n :: r, ns, h => by
    simp only [ckNats, Option.map_eq_some_iff] at h
    obtain ⟨ns', h', rfl⟩ := h
    simp [ckNats_map r ns' h']
  | .s _ :: r, ns, h => by simp [ckNats] at h
  | .l _ :: r, ns, h => by simp [ckNats] at h

/-- Repr keeps an action set of dense rows a set (shape hypothesis `denseCatShapeB`) -/
theorem encodeRows_dense_distinct (m : Mode) (rows enc : List Val) (hs : denseCatShapeB rows = true)
    (h : encodeRows (some m) rows = .ok enc) (hd : Distinct rows) : Distinct enc := by
  cases rows with
  | nil => simp [encodeRows] at h; subst h; exact hd
  | cons first rest =>
    simp only [denseCatShapeB] at hs
    cases hk : ckNats (catkey first) with
    | none => simp [hk] at hs
    | some ns =>
      cases ns with
      | nil => simp [hk] at hs
      | cons n ns =>
        simp only [hk, Bool.and_eq_true] at hs
        have hcks := ckNats_map _ _ hk
        have hcoll : isCollection first = true := by
          have := List.all_eq_true.mp hs.2 first (by simp)
          cases first <;> simp [sameDenseCatShape] at this <;> rfl
        simp only [encodeRows, hcoll, if_true, hcks, List.map_cons, isCK_i] at h
        refine mapM'_distinct h ?_ hd
        intro a b a' b' ha hb hfa hfb
        exact reprRow_pyEq m (n :: ns) first a b a' b' hs.1 (List.all_eq_true.mp hs.2 a ha) (List.all_eq_true.mp hs.2 b hb)
          (by simpa using hfa) (by simpa using hfb)



/-- flattening two rows of one nesting shape: the flat rows compare exactly as the nested ones -/
theorem flatterList_pyEq : ∀ (flags : List Bool) (xs ys o1 o2 : List Val),
    flags.length = xs.length → xs.length = ys.length → sameNestShape flags xs ys = true →
    flatterList flags xs = .ok o1 → flatterList flags ys = .ok o2 →
    pyEqL o1 o2 = pyEqL xs ys ∧ o1.length = o2.length
  | [], xs, ys, o1, o2, hf, hl, _, h1, h2 => by
    cases xs with
    | nil => cases ys with
      | nil => simp [flatterList] at h1 h2; subst h1; subst h2; simp
      | cons _ _ => simp at hl
    | cons _ _ => simp at hf
  | f :: fs, [], ys, o1, o2, hf, _, _, _, _ => by simp at hf
  | f :: fs, x :: xs, [], o1, o2, _, hl, _, _, _ => by simp at hl
  | f :: fs, x :: xs, y :: ys, o1, o2, hf, hl, hs, h1, h2 => by
    simp only [flatterList] at h1 h2
    simp only [sameNestShape, Bool.and_eq_true] at hs
    cases hr1 : flatterList fs xs with
    | error e => simp [hr1] at h1
    | ok r1 =>
      cases hr2 : flatterList fs ys with
      | error e => simp [hr2] at h2
      | ok r2 =>
        simp only [hr1, hr2] at h1 h2
        obtain ⟨ih, ihl⟩ := flatterList_pyEq fs xs ys r1 r2 (by simpa using hf) (by simpa using hl) hs.2 hr1 hr2
        cases f with
        | false =>
          simp at h1 h2
          subst h1; subst h2
          simp [pyEqL_cons, ih, ihl]
        | true =>
          have hsh := hs.1
          simp only [if_true] at hsh h1 h2
          cases x with
          | tuple a =>
            cases y with
            | tuple b =>
              simp [iterItems] at h1 h2 hsh
              subst h1; subst h2
              simp [pyEqL_append a b r1 r2 hsh, pyEqL_cons, pyEq, ih, ihl, hsh]
            | _ => simp at hsh
          | list a =>
            cases y with
            | list b =>
              simp [iterItems] at h1 h2 hsh
              subst h1; subst h2
              simp [pyEqL_append a b r1 r2 hsh, pyEqL_cons, pyEq, ih, ihl, hsh]
            | _ => simp at hsh
          | _ => simp at hsh

theorem sameNestShape_trans : ∀ (flags : List Bool) (fs xs ys : List Val),
    sameNestShape flags fs xs = true → sameNestShape flags fs ys = true → xs.length = fs.length → ys.length = fs.length →
    sameNestShape flags xs ys = true
  | [], fs, xs, ys, _, _, _, _ => by simp [sameNestShape]
  | f :: flags, [], xs, ys, _, _, hx, hy => by
    cases xs <;> cases ys <;> simp_all [sameNestShape]
  | f :: flags, a :: fs, [], ys, _, _, hx, _ => by simp at hx
  | f :: flags, a :: fs, x :: xs, [], _, _, _, hy => by simp at hy
  | f :: flags, a :: fs, x :: xs, y :: ys, h1, h2, hx, hy => by
    simp only [sameNestShape, Bool.and_eq_true] at h1 h2 ⊢
    refine ⟨?_, sameNestShape_trans flags fs xs ys h1.2 h2.2 (by simpa using hx) (by simpa using hy)⟩
    cases f with
    | false => simp
    | true =>
      have a1 := h1.1
      have a2 := h2.1
      simp only [if_true] at a1 a2 ⊢
      cases a with
      | tuple u =>
        cases x with
        | tuple v => cases y with
          | tuple w => simp at a1 a2 ⊢; omega
          | _ => simp at a2
        | _ => simp at a1
      | list u =>
        cases x with
        | list v => cases y with
          | list w => simp at a1 a2 ⊢; omega
          | _ => simp at a2
        | _ => simp at a1
      | _ => simp at a1

/-- **Flatten keeps an action set of dense rows a set** when all rows have one shape -/
theorem flattenRows_dense_distinct (rows enc : List Val) (hs : flattenShapeB rows = true)
    (h : flattenRows rows = .ok enc) (hd : Distinct rows) : Distinct enc := by
  cases rows with
  | nil => simp [flattenRows] at h; subst h; exact hd
  | cons first rest =>
    have key : ∀ (asList : Bool) (fs : List Val) (kind : List Val → Val),
        (∀ a b, pyEq (kind a) (kind b) = pyEqL a b) →
        (∀ r ∈ first :: rest, ∃ xs, r = kind xs ∧ xs.length = fs.length ∧ sameNestShape (fs.map isFlattable) fs xs = true) →
        (∀ xs, iterItems (kind xs) = .ok xs) →
        mapM' (fun row => match iterItems row with
          | .error e => Except.error e
          | .ok ritems => match flatterList (fs.map isFlattable) ritems with
            | .error e => .error e
            | .ok out => .ok (if asList then Val.list out else Val.tuple out)) (first :: rest) = .ok enc →
        (∀ a b, pyEq (if asList then Val.list a else Val.tuple a) (if asList then Val.list b else Val.tuple b) = pyEqL a b) →
        Distinct enc := by
      intro asList fs kind hk hrows hit hm hout
      refine mapM'_distinct hm ?_ hd
      intro a b a' b' ha hb hfa hfb
      obtain ⟨xs, rfl, hlx, hsx⟩ := hrows a ha
      obtain ⟨ys, rfl, hly, hsy⟩ := hrows b hb
      simp only [hit] at hfa hfb
      cases ho1 : flatterList (fs.map isFlattable) xs with
      | error e => simp [ho1] at hfa
      | ok o1 =>
        cases ho2 : flatterList (fs.map isFlattable) ys with
        | error e => simp [ho2] at hfb
        | ok o2 =>
          simp [ho1, ho2] at hfa hfb
          subst hfa; subst hfb
          have := flatterList_pyEq (fs.map isFlattable) xs ys o1 o2 (by simp [hlx]) (hlx.trans hly.symm)
            (sameNestShape_trans _ fs xs ys hsx hsy hlx hly) ho1 ho2
          rw [hout, hk, this.1]
    unfold flattenShapeB at hs
    cases first with
    | list fs =>
      simp only [flattenRows, denseItems] at h
      by_cases hany : (fs.map isFlattable).any id = true
      · simp only [hany, Bool.not_true, Bool.false_eq_true, if_false] at h
        refine key true fs Val.list (by intro a b; simp [pyEq]) ?_ (by intro xs; rfl) h (by intro a b; simp [pyEq])
        intro r hr
        have := List.all_eq_true.mp hs r hr
        cases r <;> simp at this
        rename_i xs
        exact ⟨xs, rfl, this.1, this.2⟩
      · simp only [hany, Bool.not_false, if_true] at h
        cases h; exact hd
    | tuple fs =>
      simp only [flattenRows, denseItems] at h
      by_cases hany : (fs.map isFlattable).any id = true
      · simp only [hany, Bool.not_true, Bool.false_eq_true, if_false] at h
        refine key false fs Val.tuple (by intro a b; simp [pyEq]) ?_ (by intro xs; rfl) h (by intro a b; simp [pyEq])
        intro r hr
        have := List.all_eq_true.mp hs r hr
        cases r <;> simp at this
        rename_i xs
        exact ⟨xs, rfl, this.1, this.2⟩
      · simp only [hany, Bool.not_false, if_true] at h
        cases h; exact hd
    | _ => simp at hs




theorem affine_injective (m b x y : Rat) (hm : m ≠ 0) : (x * m + b == y * m + b) = (x == y) := by
  by_cases h : x = y
  · subst h; simp
  · have : x * m + b ≠ y * m + b := by
      intro e
      have e1 := Rat.add_right_cancel b e
      have e2 : x * m / m = y * m / m := by rw [e1]
      rw [Rat.mul_div_cancel hm, Rat.mul_div_cancel hm] at e2
      exact h e2
    rw [beq_eq_false_iff_ne.mpr h, beq_eq_false_iff_ne.mpr this]

/-- an injective (affine, non-zero slope) noiser keeps a set of numeric actions a set -/
theorem noise_affine_scalar_pyEq (m b : Rat) (hm : m ≠ 0) (orc : List Rat) (x y : Rat) (a' b' : Val) (o1 o2 : List Rat)
    (h1 : noises (some (.affine m b)) orc (.num x) = .ok (o1, a')) (h2 : noises (some (.affine m b)) orc (.num y) = .ok (o2, b')) :
    pyEq a' b' = pyEq (.num x) (.num y) := by
  simp [noises, denseItems, noise1] at h1 h2
  obtain ⟨_, rfl⟩ := h1
  obtain ⟨_, rfl⟩ := h2
  simp [pyEq, affine_injective m b x y hm]

theorem noisesList_length (ns : Option NoiseSpec) : ∀ (orc : List Rat) (as : List Val) (o : List Rat) (as' : List Val),
    noisesList ns orc as = .ok (o, as') → as'.length = as.length
  | orc, [], o, as', h => by simp [noisesList] at h; simp [h.2.symm]
  | orc, a :: as, o, as', h => by
    simp only [noisesList] at h
    cases h1 : noises ns orc a with
    | error e => simp [h1] at h
    | ok p =>
      obtain ⟨o1, a1⟩ := p
      simp only [h1] at h
      cases h2 : noisesList ns o1 as with
      | error e => simp [h2] at h
      | ok q =>
        obtain ⟨o2, as2⟩ := q
        simp [h2] at h
        rw [← h.2]
        simp [noisesList_length ns o1 as o2 as2 h2]

theorem indexOfFrom_lt (a : Val) : ∀ (xs : List Val) (off i : Nat), indexOfFrom a xs off = some i → off ≤ i ∧ i < off + xs.length
  | [], off, i, h => by simp [indexOfFrom] at h
  | x :: xs, off, i, h => by
    simp only [indexOfFrom] at h
    split at h
    · cases h; simp
    · have := indexOfFrom_lt a xs (off + 1) i h
      simp; omega

theorem indexOf_lt {as : List Val} {a : Val} {k : Nat} (h : indexOf as a = some k) : k < as.length := by
  have := indexOfFrom_lt a as 0 k h; omega

theorem mapMember_spec (o n : List Val) (a : Val) (k : Nat) (hk : indexOf o a = some k) (b : Val) (hb : n[k]? = some b) :
    mapMember (some o) (some n) (some a) (some a) = some b := by
  simp [mapMember, hk, hb]

/-- every plan Noise (repaired) decides satisfies the plan hypotheses, given only: the noisy action
lists are sets, functional feedbacks are functional from the first interaction on, interactions
that carry rewards carry actions -/
theorem noise_go_hyp (nc na : Option NoiseSpec) (rC fC : Bool) : ∀ (s : List Inter) (orc : List Rat) (ps : List Plan),
    noisePlans.go Cfg.fixed nc na rC fC orc s = .ok ps →
    (∀ I ∈ s, alignedB I I = true) →
    (∀ I ∈ s, ∀ r, I.feedbacks = some r → r.isCallable = true → fC = true) →
    (∀ I ∈ s, I.actions = none → I.rewards = none) →
    (∀ p ∈ ps, ∀ as, p.actions = some as → Distinct as) →
    plansHypB s ps = true
  | [], orc, ps, h, _, _, _, _ => by
    simp [noisePlans.go] at h; subst h; rfl
  | I :: rest, orc, ps, h, hself, hhom, hact, hdist => by
    simp only [noisePlans.go] at h
    cases hc : noises nc orc I.context with
    | error e => simp [hc] at h
    | ok pc =>
      obtain ⟨orc1, ctx⟩ := pc
      simp only [hc] at h
      have hII := hself I (by simp)
      simp only [alignedB, Bool.and_eq_true] at hII
      obtain ⟨⟨⟨⟨hIr, hIf⟩, _⟩, _⟩, _⟩ := hII
      cases hacts : I.actions with
      | none =>
        simp only [hacts] at h
        cases hgo : noisePlans.go Cfg.fixed nc na rC fC orc1 rest with
        | error e => simp [hgo] at h
        | ok ps' =>
          simp [hgo] at h
          subst h
          have hr := hact I (by simp) hacts
          simp only [plansHypB, Bool.and_eq_true]
          refine ⟨?_, noise_go_hyp nc na rC fC rest orc1 ps' hgo (fun J hJ => hself J (by simp [hJ]))
            (fun J hJ => hhom J (by simp [hJ])) (fun J hJ => hact J (by simp [hJ])) (fun p hp => hdist p (by simp [hp]))⟩
          simp [planHypB, hacts, hr]
      | some o =>
        simp only [hacts] at h
        cases hn : noisesList na orc1 o with
        | error e => simp [hn] at h
        | ok pn =>
          obtain ⟨orc2, n⟩ := pn
          simp only [hn] at h
          cases hgo : noisePlans.go Cfg.fixed nc na rC fC orc2 rest with
          | error e => simp [hgo] at h
          | ok ps' =>
            simp [hgo] at h
            subst h
            have hlen := noisesList_length na orc1 o orc2 n hn
            have hd : distinctB n = true := (distinctB_iff _).mpr (hdist _ (List.mem_cons_self ..) n rfl)
            simp only [plansHypB, Bool.and_eq_true]
            refine ⟨?_, noise_go_hyp nc na rC fC rest orc2 ps' hgo (fun J hJ => hself J (by simp [hJ]))
              (fun J hJ => hhom J (by simp [hJ])) (fun J hJ => hact J (by simp [hJ])) (fun p hp => hdist p (by simp [hp]))⟩
            simp only [planHypB, hacts, Bool.and_eq_true, beq_iff_eq]
            refine ⟨⟨⟨hlen.symm, ?_⟩, ?_⟩, ?_⟩
            · cases hr : I.rewards with
              | none => simp [targetHypB]
              | some r => cases rC <;> simp [targetHypB, hd]
            · cases hf : I.feedbacks with
              | none => simp [targetHypB]
              | some f =>
                by_cases hfc : fC = true
                · simp [Cfg.fixed, hfc, targetHypB, hd]
                · have hnc : f.isCallable = false := by
                    cases hcal : f.isCallable with
                    | false => rfl
                    | true => exact absurd (hhom I (by simp) f hf hcal) hfc
                  simp only [Bool.not_eq_true] at hfc
                  cases f with
                  | seq b rs => simp [Cfg.fixed, hfc, targetHypB, obsOf_seq, obsEq_ok_self]
                  | _ => simp [Rew.isCallable] at hnc
            · unfold loggedHypB
              cases ha : I.action with
              | none => simp [Cfg.fixed, mapMember]
              | some a =>
                simp only [Cfg.fixed, if_true]
                cases hk : indexOf o a with
                | none => simp [mapMember, hk]
                | some k =>
                  have hkl : k < n.length := by rw [hlen]; exact indexOf_lt hk
                  have hb : n[k]? = some n[k] := List.getElem?_eq_getElem hkl
                  rw [mapMember_spec o n a k hk n[k] hb]
                  simp only [hd, Bool.true_and, hk, hb, Val.same_refl]



/-! ## Phase 2: filter objects and their state -/


theorem denseIndex_lookup_irrel (p q : List String) (st : DState) (k : String) :
    denseIndex (.lookup p) st k = denseIndex (.lookup q) st k := by simp [denseIndex]

theorem primeKeys_lookup_irrel (p q : List String) : ∀ (ks : List String) (st : DState),
    primeKeys (.lookup p) st ks = primeKeys (.lookup q) st ks
  | [], st => rfl
  | k :: ks, st => by
    simp only [primeKeys, denseIndex_lookup_irrel p q st k]
    cases denseIndex (.lookup q) st k with
    | error e => rfl
    | ok r => exact primeKeys_lookup_irrel p q ks r.1

theorem assocGet_append_left (k : String) (i : Nat) : ∀ (t ext : List (String × Nat)), assocGet k t = some i → assocGet k (t ++ ext) = some i
  | [], ext, h => by simp [assocGet] at h
  | (k', v) :: t, ext, h => by
    simp only [assocGet, List.cons_append] at h ⊢
    by_cases hk : (k' == k) = true
    · simp only [hk, if_true] at h ⊢; exact h
    · simp only [hk, Bool.false_eq_true, if_false] at h ⊢; exact assocGet_append_left k i t ext h

/-- a key that has a slot keeps it: the table only ever grows at the end -/
theorem denseIndex_mono (m : DMethod) (st st' : DState) (k : String) (i : Nat) (h : denseIndex m st k = .ok (st', i)) :
    ∃ ext, st'.table = st.table ++ ext := by
  cases m with
  | hashing tbl =>
    simp only [denseIndex] at h
    cases hg : assocGet k tbl with
    | none => simp [hg] at h
    | some j => simp [hg] at h; exact ⟨[], by simp [h.1]⟩
  | lookup p =>
    simp only [denseIndex] at h
    cases hg : assocGet k st.table with
    | some j => simp [hg] at h; exact ⟨[], by simp [h.1]⟩
    | none =>
      simp only [hg] at h
      cases hf : st.fresh with
      | nil => simp [hf] at h
      | cons j rest =>
        simp [hf] at h
        exact ⟨[(k, j)], by rw [← h.1]⟩

theorem primeKeys_mono (m : DMethod) : ∀ (ks : List String) (st st' : DState), primeKeys m st ks = .ok st' →
    ∃ ext, st'.table = st.table ++ ext
  | [], st, st', h => by simp [primeKeys] at h; exact ⟨[], by simp [h]⟩
  | k :: ks, st, st', h => by
    simp only [primeKeys] at h
    cases hd : denseIndex m st k with
    | error e => simp [hd] at h
    | ok r =>
      obtain ⟨st1, i⟩ := r
      simp only [hd] at h
      obtain ⟨e1, h1⟩ := denseIndex_mono m st st1 k i hd
      obtain ⟨e2, h2⟩ := primeKeys_mono m ks st1 st' h
      exact ⟨e1 ++ e2, by rw [h2, h1, List.append_assoc]⟩

theorem primeKeys_append (m : DMethod) : ∀ (a b : List String) (st : DState),
    primeKeys m st (a ++ b) = (match primeKeys m st a with | .ok st' => primeKeys m st' b | .error e => .error e)
  | [], b, st => by simp [primeKeys]
  | k :: a, b, st => by
    simp only [List.cons_append, primeKeys]
    cases denseIndex m st k with
    | error e => rfl
    | ok r => exact primeKeys_append m a b r.1

theorem denseEntries_state (m : DMethod) : ∀ (st : DState) (kvs : List (String × Val)) (acc : List (Nat × Val)) (st' : DState) (out : List (Nat × Val)),
    denseEntries m st kvs acc = .ok (st', out) → primeKeys m st (kvs.map (·.1)) = .ok st'
  | st, [], acc, st', out, h => by simp [denseEntries] at h; simp [primeKeys, h.1]
  | st, (k, v) :: rest, acc, st', out, h => by
    simp only [denseEntries] at h
    simp only [List.map_cons, primeKeys]
    cases hd : denseIndex m st k with
    | error e => simp [hd] at h
    | ok r =>
      obtain ⟨st1, i⟩ := r
      simp only [hd] at h ⊢
      exact denseEntries_state m st1 rest _ st' out h

theorem makeDense_state (m : DMethod) (n : Nat) (st st' : DState) (v v' : Val) (h : makeDense m n st v = .ok (st', v')) :
    primeKeys m st (keysOfVal v) = .ok st' := by
  cases v with
  | dict kvs =>
    simp only [makeDense] at h
    cases he : denseEntries m st kvs [] with
    | error e => simp [he] at h
    | ok r =>
      obtain ⟨st1, ents⟩ := r
      simp [he] at h
      simpa [keysOfVal, h.1] using denseEntries_state m st kvs [] st1 ents he
  | _ => simp [makeDense] at h; simp [keysOfVal, primeKeys, h.1]

theorem makeDenseList_state (m : DMethod) (n : Nat) : ∀ (st : DState) (vs : List Val) (st' : DState) (vs' : List Val),
    makeDenseList m n st vs = .ok (st', vs') → primeKeys m st (keysOfVals vs) = .ok st'
  | st, [], st', vs', h => by simp [makeDenseList] at h; simp [keysOfVals, primeKeys, h.1]
  | st, v :: vs, st', vs', h => by
    simp only [makeDenseList] at h
    cases h1 : makeDense m n st v with
    | error e => simp [h1] at h
    | ok r =>
      obtain ⟨st1, v1⟩ := r
      simp only [h1] at h
      cases h2 : makeDenseList m n st1 vs with
      | error e => simp [h2] at h
      | ok q =>
        obtain ⟨st2, vs2⟩ := q
        simp [h2] at h
        simp only [keysOfVals, primeKeys_append, makeDense_state m n st st1 v v1 h1]
        rw [← h.1]
        exact makeDenseList_state m n st1 vs st2 vs2 h2

/-- the state a Densify object is left in = its table asked for exactly the keys of the sequence, in order -/
theorem densifyRun_state (cfg : Cfg) (m : DMethod) (n : Nat) (c a rC fC : Bool) : ∀ (s : List Inter) (st : DState) (ps : List Plan) (st' : DState),
    densifyRun cfg m n c a rC fC st s = .ok (ps, st') → primeKeys m st (keysAsked c a s) = .ok st'
  | [], st, ps, st', h => by simp [densifyRun] at h; simp [keysAsked, primeKeys, h.2]
  | I :: rest, st, ps, st', h => by
    simp only [densifyRun] at h
    -- context
    have hctx : ∀ (r : DState × Val), (if c then makeDense m n st I.context else .ok (st, I.context)) = .ok r →
        primeKeys m st (if c then keysOfVal I.context else []) = .ok r.1 := by
      intro r hr
      cases c with
      | true => simp at hr ⊢; exact makeDense_state m n st r.1 _ r.2 hr
      | false => simp at hr ⊢; simp [primeKeys, ← hr]
    cases h1 : (if c then makeDense m n st I.context else .ok (st, I.context)) with
    | error e => simp [h1] at h
    | ok r1 =>
      obtain ⟨st1, ctx⟩ := r1
      simp only [h1] at h
      have k1 := hctx _ h1
      -- the rest of the stream, from whatever state the actions / the logged action leave
      have tail : ∀ (st3 : DState) (p : Plan) (ks : List String),
          primeKeys m st1 ks = .ok st3 →
          (match densifyRun cfg m n c a rC fC st3 rest with
            | .error e => Except.error e
            | .ok (ps', stEnd) => Except.ok (p :: ps', stEnd)) = .ok (ps, st') →
          primeKeys m st ((if c then keysOfVal I.context else []) ++ ks ++ keysAsked c a rest) = .ok st' := by
        intro st3 p ks hks hrun
        cases h4 : densifyRun cfg m n c a rC fC st3 rest with
        | error e => simp [h4] at hrun
        | ok r4 =>
          obtain ⟨ps', stEnd⟩ := r4
          simp [h4] at hrun
          have k4 := densifyRun_state cfg m n c a rC fC rest st3 ps' stEnd h4
          simp only [primeKeys_append, k1, hks]
          rw [← hrun.2]; exact k4
      cases a with
      | false =>
        simp only at h
        have := tail st1 _ [] (by simp [primeKeys]) h
        simpa [keysAsked] using this
      | true =>
        cases hacts : I.actions with
        | none =>
          cases hact : I.action with
          | none =>
            simp only [hacts, hact] at h
            have := tail st1 _ [] (by simp [primeKeys]) h
            simpa [keysAsked, hacts, hact] using this
          | some x =>
            simp only [hacts, hact] at h
            cases hm : makeDense m n st1 x with
            | error e => simp [hm] at h
            | ok q =>
              obtain ⟨sq, xq⟩ := q
              simp only [hm] at h
              have := tail sq _ (keysOfVal x) (makeDense_state m n st1 sq x xq hm) h
              simpa [keysAsked, hacts, hact] using this
        | some as =>
          simp only [hacts] at h
          cases hl : makeDenseList m n st1 as with
          | error e => simp [hl] at h
          | ok ql =>
            obtain ⟨sl, asl⟩ := ql
            simp only [hl] at h
            have kl := makeDenseList_state m n st1 as sl asl hl
            cases hact : I.action with
            | none =>
              simp only [hact] at h
              have := tail sl _ (keysOfVals as) kl h
              simpa [keysAsked, hacts, hact] using this
            | some x =>
              simp only [hact] at h
              cases hm : makeDense m n sl x with
              | error e => simp [hm] at h
              | ok q =>
                obtain ⟨sq, xq⟩ := q
                simp only [hm] at h
                have kx := makeDense_state m n sl sq x xq hm
                have := tail sq _ (keysOfVals as ++ keysOfVal x) (by simp [primeKeys_append, kl, kx]) h
                simpa [keysAsked, hacts, hact, List.append_assoc] using this


/-- a key that once got a slot keeps it for the life of the filter object: the table only grows at its end -/
theorem densify_prior_monotone' (cfg : Cfg) (m : DMethod) (n : Nat) (c a rC fC : Bool) (s : List Inter) (st st' : DState) (ps : List Plan)
    (h : densifyRun cfg m n c a rC fC st s = .ok (ps, st')) :
    (∃ ext, st'.table = st.table ++ ext) ∧ (∀ k i, assocGet k st.table = some i → assocGet k st'.table = some i) := by
  obtain ⟨ext, he⟩ := primeKeys_mono m _ st st' (densifyRun_state cfg m n c a rC fC s st ps st' h)
  exact ⟨⟨ext, he⟩, fun k i hk => by rw [he]; exact assocGet_append_left k i _ ext hk⟩

/-- every filter except Densify(lookup): what the object gives for `B` after it has filtered `A` is what a fresh object gives for `B` -/
theorem filter_stateless_except_lookup' (cfg : Cfg) (st : Step) (T : DState) (A B : List Inter)
    (hst : ∀ n p c a, st ≠ .densify n (.lookup p) c a) (hA : ∃ r, runPrimObj cfg st T A = .ok r) :
    runObjTwice cfg st T A B = runPrim cfg st B := by
  obtain ⟨r, hr⟩ := hA
  have plain : ∀ (s : List Inter), (∀ n p c a, st ≠ .densify n (.lookup p) c a) →
      runPrimObj cfg st T s = (match runPrim cfg st s with | .ok s' => .ok (s', T) | .error e => .error e) := by
    intro s hne
    cases st with
    | densify n m c a =>
      cases m with
      | lookup p => exact absurd rfl (hne n p c a)
      | hashing tbl => rfl
    | _ => rfl
  unfold runObjTwice
  rw [plain A hst] at hr ⊢
  cases hra : runPrim cfg st A with
  | error e => simp [hra] at hr
  | ok a' =>
    simp only [hra]
    rw [plain B hst]
    cases runPrim cfg st B <;> rfl

/-- Densify(lookup): the only thing carried over is the key table — filtering `B` after `A` is filtering `B`
with a table that was first asked for the keys of `A` (this is how the harness drives the model in its reuse cases) -/
theorem densify_reuse_eq_prior' (cfg : Cfg) (n : Nat) (p : List String) (c a : Bool) (T : DState) (A B : List Inter)
    (hT : primeKeys (.lookup []) (initDState n) p = .ok T)
    (hA : ∃ r, runPrimObj cfg (.densify n (.lookup p) c a) T A = .ok r) :
    runObjTwice cfg (.densify n (.lookup p) c a) T A B = runPrim cfg (.densify n (.lookup (p ++ keysAsked c a A)) c a) B := by
  obtain ⟨r, hr⟩ := hA
  unfold runObjTwice
  simp only [runPrimObj] at hr ⊢
  cases hda : densifyRun cfg (.lookup []) n c a (firstCallable (·.rewards) A) (firstCallable (·.feedbacks) A) T A with
  | error e => simp [hda] at hr
  | ok ra =>
    obtain ⟨psA, T1⟩ := ra
    simp only [hda] at hr ⊢
    cases hap : applyPlans A psA with
    | error e => simp [hap] at hr
    | ok a' =>
      simp only [hap]
      have hk := densifyRun_state cfg (.lookup []) n c a _ _ A T psA T1 hda
      have hprime : primeKeys (.lookup []) (initDState n) (p ++ keysAsked c a A) = .ok T1 := by
        rw [primeKeys_append, hT]; exact hk
      simp only [runPrim, plansOf, densifyPlans, hprime, normMethod]
      cases densifyRun cfg (.lookup []) n c a (firstCallable (·.rewards) B) (firstCallable (·.feedbacks) B) T1 B with
      | error e => rfl
      | ok rb =>
        obtain ⟨psB, T2⟩ := rb
        simp only
        cases applyPlans B psB <;> rfl



/-! ## Phase 2: Cycle -/


theorem rotList_map {α β} (f : α → β) (n : Nat) (l : List α) : (rotList n l).map f = rotList n (l.map f) := by
  unfold rotList
  split <;> simp [List.map_drop, List.map_take]

theorem rotList_length {α} (n : Nat) (l : List α) : (rotList n l).length = l.length := by
  unfold rotList
  split
  · rfl
  · simp; omega

/-- **Cycle**: what the re-keying does to the observable — the rewards the actions receive are the
old ones rotated by one place (`rotList`), and they are still a function of the action (the new
object answers for every action of the set) -/
theorem cycle_rekey_spec' {n : Nat} {r r' : Rew} {acts : List Val}
    (h : rekey (.rotate n) r acts acts = .ok r') (hd : Distinct acts) :
    ∃ vals : List Rat, obsOf r acts = vals.map Except.ok ∧ obsOf r' acts = (rotList n vals).map Except.ok := by
  cases r with
  | seq b rs =>
    simp [rekey] at h
    subst h
    exact ⟨rs, rfl, rfl⟩
  | _ =>
    simp only [rekey] at h
    split at h
    · simp at h
    · rename_i vals hm
      split at h
      · rename_i hl
        simp at h hl
        subst h
        refine ⟨vals, ?_, ?_⟩
        · rw [obsOf_callable _ rfl, mapM'_ok _ _ _ hm]
        · exact obsOf_discrete 0 hd (by rw [rotList_length]; exact hl.symm)
      · simp at h

/-- position by position: after Cycle the j-th action earns what the (j-1)-th (cyclically) earned before -/
theorem rotList_getElem? {α} (l : List α) (hl : 0 < l.length) (j : Nat) (hj : j < l.length) :
    (rotList l.length l)[j]? = l[(j + l.length - 1) % l.length]? := by
  unfold rotList
  have hn : (l.length == 0) = false := by
    cases l with
    | nil => simp at hl
    | cons _ _ => simp
  simp only [hn, Bool.false_eq_true, if_false]
  have hdrop : (l.drop (l.length - 1)).length = 1 := by simp; omega
  cases j with
  | zero =>
    rw [List.getElem?_append_left (by rw [hdrop]; omega)]
    simp only [List.getElem?_drop, Nat.add_zero]
    have : (0 + l.length - 1) % l.length = l.length - 1 := by
      rw [Nat.zero_add]; exact Nat.mod_eq_of_lt (by omega)
    rw [this]
  | succ j =>
    rw [List.getElem?_append_right (by rw [hdrop]; omega), hdrop]
    have : (j + 1 + l.length - 1) % l.length = j := by
      have : j + 1 + l.length - 1 = j + l.length := by omega
      rw [this, Nat.add_mod_right]; exact Nat.mod_eq_of_lt (by omega)
    rw [this, List.getElem?_take]
    simp; omega



/-! ## Phase 2: Batch → BatchSafe(Finalize) → Unbatch -/


/-- Batch(k) → BatchSafe(Finalize) → Unbatch, as Environments/experiments run it: the interactions that
come out are exactly Finalize's output on the un-batched stream, un-batched again; rewards, IGL
feedbacks, the logged action's membership, reward and probability stay aligned under Finalize's hypotheses -/
theorem batch_finalize_unbatch' (cfg : Cfg) (k : Nat) (s : List Inter) (S' : State)
    (h : runChain cfg [.batch (some k), .finalize, .unbatch] { stream := s } = .ok S') :
    S'.sizes = none ∧ runPrims cfg (expandStep .finalize) s = .ok S'.stream ∧
    (primsHypB cfg (expandStep .finalize) s = true → alignedStreamB s s = true → alignedStreamB s S'.stream = true) := by
  have hb : ∃ sz, runStep cfg (.batch (some k)) { stream := s } = .ok { stream := s, sizes := sz } := by
    simp only [runStep]
    cases k with
    | zero => exact ⟨none, rfl⟩
    | succ k =>
      simp only
      split
      · exact ⟨none, rfl⟩
      · exact ⟨_, rfl⟩
  obtain ⟨sz, hb⟩ := hb
  simp only [runChain, hb] at h
  cases hf : runStep cfg .finalize { stream := s, sizes := sz } with
  | error e => simp [hf] at h
  | ok S1 =>
    simp only [hf] at h
    simp only [runStep] at h
    cases h
    simp only [runStep] at hf
    cases hr : runPrims cfg (expandStep .finalize) s with
    | error e => simp [hr] at hf
    | ok s' =>
      simp only [hr] at hf
      cases hf
      exact ⟨rfl, rfl, fun hh hs => runPrims_aligned cfg _ hh hr hs⟩



/-! ## Phase 2: pyEq on the dense fragment -/


theorem beq_comm' {α} [BEq α] [LawfulBEq α] (a b : α) : (a == b) = (b == a) := by
  by_cases h : a = b
  · subst h; rfl
  · have h' : b ≠ a := fun e => h e.symm
    rw [beq_eq_false_iff_ne.mpr h, beq_eq_false_iff_ne.mpr h']

mutual
theorem pyEq_refl_dense : ∀ (a : Val), denseOnly a = true → pyEq a a = true
  | .none, _ => by simp [pyEq]
  | .num q, _ => by simp [pyEq]
  | .str s, _ => by simp [pyEq]
  | .cat s l, _ => by simp [pyEq]
  | .list xs, h => by simp only [denseOnly] at h; simp [pyEq, pyEqL_refl_dense xs h]
  | .tuple xs, h => by simp only [denseOnly] at h; simp [pyEq, pyEqL_refl_dense xs h]
  | .dict _, h => by simp [denseOnly] at h
  | .lazy _ _, h => by simp [denseOnly] at h
theorem pyEqL_refl_dense : ∀ (xs : List Val), denseOnlyL xs = true → pyEqL xs xs = true
  | [], _ => by simp [pyEqL]
  | x :: xs, h => by
    simp only [denseOnlyL, Bool.and_eq_true] at h
    simp [pyEqL_cons, pyEq_refl_dense x h.1, pyEqL_refl_dense xs h.2]
end

mutual
theorem pyEq_symm_dense : ∀ (a b : Val), denseOnly a = true → denseOnly b = true → pyEq a b = pyEq b a
  | .none, b, _, hb => by cases b <;> simp_all [pyEq, denseOnly]
  | .num q, b, _, hb => by cases b <;> simp_all [pyEq, denseOnly, beq_comm' q]
  | .str s, b, _, hb => by cases b <;> simp_all [pyEq, denseOnly, beq_comm' s]
  | .cat s l, b, _, hb => by cases b <;> simp_all [pyEq, denseOnly, beq_comm' s]
  | .list xs, b, ha, hb => by
    cases b with
    | list ys => simp only [denseOnly] at ha hb; simp [pyEq, pyEqL_symm_dense xs ys ha hb]
    | dict _ => simp [denseOnly] at hb
    | lazy _ _ => simp [denseOnly] at hb
    | _ => simp [pyEq]
  | .tuple xs, b, ha, hb => by
    cases b with
    | tuple ys => simp only [denseOnly] at ha hb; simp [pyEq, pyEqL_symm_dense xs ys ha hb]
    | dict _ => simp [denseOnly] at hb
    | lazy _ _ => simp [denseOnly] at hb
    | _ => simp [pyEq]
  | .dict _, _, ha, _ => by simp [denseOnly] at ha
  | .lazy _ _, _, ha, _ => by simp [denseOnly] at ha
theorem pyEqL_symm_dense : ∀ (xs ys : List Val), denseOnlyL xs = true → denseOnlyL ys = true → pyEqL xs ys = pyEqL ys xs
  | [], ys, _, _ => by cases ys <;> simp [pyEqL]
  | x :: xs, [], _, _ => by simp [pyEqL]
  | x :: xs, y :: ys, ha, hb => by
    simp only [denseOnlyL, Bool.and_eq_true] at ha hb
    simp [pyEqL_cons, pyEq_symm_dense x y ha.1 hb.1, pyEqL_symm_dense xs ys ha.2 hb.2]
end



/-! ## Phase 2: pyEq reflexive on well-formed lazy-free values -/


theorem lookupS_of_uniq : ∀ (kvs : List (String × Val)), uniqKeys (kvs.map (·.1)) = true →
    ∀ k v, (k, v) ∈ kvs → lookupS k kvs = some v
  | [], _, k, v, h => by cases h
  | (k0, v0) :: r, hu, k, v, h => by
    simp only [List.map_cons, uniqKeys, Bool.and_eq_true, Bool.not_eq_true'] at hu
    simp only [lookupS]
    cases h with
    | head => simp
    | tail _ h' =>
      have hne : (k0 == k) = false := by
        cases hb : (k0 == k) with
        | false => rfl
        | true =>
          have : k0 = k := by simpa using hb
          subst this
          have : (r.map (·.1)).contains k0 = true := by
            simp only [List.contains_iff_mem, List.mem_map]
            exact ⟨(k0, v), h', rfl⟩
          rw [this] at hu; exact absurd hu.1 (by simp)
      simp only [hne, Bool.false_eq_true, if_false]
      exact lookupS_of_uniq r hu.2 k v h'

mutual
theorem pyEq_refl_wf : ∀ (a : Val), wfNoLazy a = true → pyEq a a = true
  | .none, _ => by simp [pyEq]
  | .num q, _ => by simp [pyEq]
  | .str s, _ => by simp [pyEq]
  | .cat s l, _ => by simp [pyEq]
  | .list xs, h => by simp only [wfNoLazy] at h; simp [pyEq, pyEqL_refl_wf xs h]
  | .tuple xs, h => by simp only [wfNoLazy] at h; simp [pyEq, pyEqL_refl_wf xs h]
  | .dict kvs, h => by
    simp only [wfNoLazy, Bool.and_eq_true] at h
    simp [pyEq, pyEqD_refl_wf kvs kvs h.2 (fun k v hm => lookupS_of_uniq kvs h.1 k v hm)]
  | .lazy _ _, h => by simp [wfNoLazy] at h
theorem pyEqL_refl_wf : ∀ (xs : List Val), wfNoLazyL xs = true → pyEqL xs xs = true
  | [], _ => by simp [pyEqL]
  | x :: xs, h => by
    simp only [wfNoLazyL, Bool.and_eq_true] at h
    simp [pyEqL_cons, pyEq_refl_wf x h.1, pyEqL_refl_wf xs h.2]
theorem pyEqD_refl_wf : ∀ (r d : List (String × Val)), wfNoLazyD r = true →
    (∀ k v, (k, v) ∈ r → lookupS k d = some v) → pyEqD r d = true
  | [], d, _, _ => by simp [pyEqD]
  | (k, v) :: r, d, h, hl => by
    simp only [wfNoLazyD, Bool.and_eq_true] at h
    simp [pyEqD, hl k v (by simp), pyEq_refl_wf v h.1, pyEqD_refl_wf r d h.2 (fun k' v' hm => hl k' v' (by simp [hm]))]
end



/-! ## collections of environments: one object per member -/

/-- a freshly constructed Densify object gives what `runPrim` gives: in a collection of environments every member has to be
served by its own object (`Environments.dense` builds one per environment) -/
theorem fresh_densify_object' (cfg : Cfg) (n : Nat) (c a : Bool) (s : List Inter) :
    (match runPrimObj cfg (.densify n (.lookup []) c a) (initDState n) s with
      | .ok (s', _) => Except.ok s'
      | .error e => .error e) = runPrim cfg (.densify n (.lookup []) c a) s := by
  simp only [runPrimObj, runPrim, plansOf, densifyPlans, primeKeys, normMethod]
  cases densifyRun cfg (.lookup []) n c a (firstCallable (·.rewards) s) (firstCallable (·.feedbacks) s) (initDState n) s with
  | error e => rfl
  | ok r =>
    obtain ⟨ps, T⟩ := r
    simp only
    cases applyPlans s ps <;> rfl


/-! ## Phase 3: sets, injective noise -/


/-- with `pyEq_refl` in hand, being a set is just being pairwise different -/
theorem distinct_of_pairwiseNe (as : List Val) (hwf : ∀ a ∈ as, wfNoLazy a = true) (h : pairwiseNeB as = true) : Distinct as := by
  intro i j a b hi hj
  have hi' : i < as.length := by
    rcases Nat.lt_or_ge i as.length with h' | h'
    · exact h'
    · simp [List.getElem?_eq_none h'] at hi
  have hj' : j < as.length := by
    rcases Nat.lt_or_ge j as.length with h' | h'
    · exact h'
    · simp [List.getElem?_eq_none h'] at hj
  unfold pairwiseNeB at h
  have h1 := List.all_eq_true.mp h i (List.mem_range.mpr hi')
  have h2 := List.all_eq_true.mp h1 j (List.mem_range.mpr hj')
  simp only [hi, hj, Bool.or_eq_true, Bool.not_eq_true'] at h2
  by_cases hij : i = j
  · subst hij
    rw [hi] at hj; cases hj
    simp [pyEq_refl_wf a (hwf a (List.mem_of_getElem? hi))]
  · have : (i == j) = false := by simp [hij]
    rw [this] at h2 ⊢
    simpa using h2

/-! ### Noise with an injective noiser on numeric actions -/
theorem noisesList_affine_nums (m b : Rat) : ∀ (orc : List Rat) (xs : List Rat),
    noisesList (some (.affine m b)) orc (xs.map Val.num) = .ok (orc, xs.map fun x => Val.num (x * m + b))
  | orc, [] => by simp [noisesList]
  | orc, x :: xs => by
    simp [noisesList, noises, denseItems, noise1, noisesList_affine_nums m b orc xs]

theorem distinct_nums_map (f : Rat → Rat) (hf : ∀ x y, (f x == f y) = (x == y)) (xs : List Rat)
    (hd : Distinct (xs.map Val.num)) : Distinct (xs.map fun x => Val.num (f x)) := by
  intro i j a b hi hj
  simp only [List.getElem?_map] at hi hj
  cases hx : xs[i]? with
  | none => simp [hx] at hi
  | some x =>
    cases hy : xs[j]? with
    | none => simp [hy] at hj
    | some y =>
      simp [hx] at hi; simp [hy] at hj
      subst hi; subst hj
      have := hd i j (.num x) (.num y) (by simp [hx]) (by simp [hy])
      simp only [pyEq] at this ⊢
      rw [hf]; exact this

/-- **Noise with an injective (affine, slope ≠ 0) noiser keeps a set of numeric actions a set** -/
theorem noise_affine_nums_distinct' (m b : Rat) (hm : m ≠ 0) (orc o' : List Rat) (xs : List Rat) (out : List Val)
    (h : noisesList (some (.affine m b)) orc (xs.map Val.num) = .ok (o', out)) (hd : Distinct (xs.map Val.num)) : Distinct out := by
  rw [noisesList_affine_nums] at h
  cases h
  exact distinct_nums_map (fun x => x * m + b) (fun x y => affine_injective m b x y hm) xs hd



/-! ## Phase 3: batched rewards -/


/-- member `k` of a batched call is member `k`'s function on member `k`'s action -/
theorem batchCall_getElem? : ∀ (fs : List Rew) (as : List Val) (k : Nat) (f : Rew) (a : Val),
    fs[k]? = some f → as[k]? = some a → (batchCall fs as)[k]? = some (callRew f a)
  | [], _, k, f, a, h, _ => by simp at h
  | _ :: _, [], k, f, a, _, h => by simp at h
  | f0 :: fs, a0 :: as, 0, f, a, hf, ha => by
    simp at hf ha; subst hf; subst ha; simp [batchCall]
  | f0 :: fs, a0 :: as, k + 1, f, a, hf, ha => by
    simp at hf ha
    simp [batchCall, batchCall_getElem? fs as k f a hf ha]

theorem column_getElem? (i : Nat) : ∀ (actss : List (List Val)) (col : List Val), column i actss = some col →
    ∀ (k : Nat) (as : List Val), actss[k]? = some as → ∃ a, as[i]? = some a ∧ col[k]? = some a
  | [], col, h, k, as, hk => by simp at hk
  | as0 :: rest, col, h, k, as, hk => by
    simp only [column] at h
    cases ha : as0[i]? with
    | none => simp [ha] at h
    | some a0 =>
      cases hc : column i rest with
      | none => simp [ha, hc] at h
      | some col' =>
        simp [ha, hc] at h
        subst h
        cases k with
        | zero => simp at hk; subst hk; exact ⟨a0, ha, by simp⟩
        | succ k =>
          simp at hk
          obtain ⟨a, h1, h2⟩ := column_getElem? i rest col' hc k as hk
          exact ⟨a, h1, by simpa using h2⟩

/-- the batched reward function, asked for the i-th action of every member, answers member by member with what
each member's own function says about its own i-th action -/
theorem batchObs_member' (get : Inter → Option Rew) (batch : List Inter) (i : Nat) (col : List (Except Err Rat))
    (h : batchObs get batch i = some col) (k : Nat) (I : Inter) (hk : batch[k]? = some I) :
    ∃ r as a, get I = some r ∧ I.actions = some as ∧ as[i]? = some a ∧ col[k]? = some (callRew r a) := by
  unfold batchObs at h
  split at h
  · simp at h
  · rename_i pairs hm
    split at h
    · rename_i cl hc
      simp at h
      subst h
      have hmap := mapM'_ok _ _ _ hm
      have hlen := mapM'_length _ _ _ hm
      have hkl : k < pairs.length := by
        rw [hlen]
        rcases Nat.lt_or_ge k batch.length with h' | h'
        · exact h'
        · simp [List.getElem?_eq_none h'] at hk
      have hp : pairs[k]? = some pairs[k] := List.getElem?_eq_getElem hkl
      obtain ⟨x, hx, hfx⟩ := getElem?_of_map_eq hmap k pairs[k] hp
      rw [hk] at hx; cases hx
      cases hg : get I with
      | none => simp [hg] at hfx
      | some r =>
        cases hacts : I.actions with
        | none => simp [hg, hacts] at hfx
        | some as =>
          simp only [hg, hacts] at hfx
          split at hfx
          · simp at hfx
            obtain ⟨a, h1, h2⟩ := column_getElem? i _ cl hc k as (by simp [hp, ← hfx])
            refine ⟨r, as, a, rfl, rfl, h1, ?_⟩
            exact batchCall_getElem? _ _ k r a (by simp [hp, ← hfx]) h2
          · simp at hfx
    · simp at h

/-- **BatchSafe**: a representation filter applied to a batched stream is the filter applied to the un-batched
stream, batched again with the size of the first batch — batching and un-batching commute with every representation change -/
theorem batchsafe_commutes' (cfg : Cfg) (st : Step) (s : List Inter) (k : Nat) (ks : List Nat)
    (hb : ∀ n, st ≠ .batch n) (hu : st ≠ .unbatch) :
    runStep cfg st { stream := s, sizes := some (k :: ks) } =
      (match runPrims cfg (expandStep st) s with
       | .error e => .error e
       | .ok s' => .ok { stream := s', sizes := some (chunkSizes k s'.length s'.length) }) := by
  cases st with
  | batch n => exact absurd rfl (hb n)
  | unbatch => exact absurd rfl hu
  | _ => rfl



/-! ## Phase 4 -/




/-! ### Noise end to end for scalar (numeric) actions -/

theorem noisesList_none : ∀ (orc : List Rat) (as : List Val), noisesList none orc as = .ok (orc, as)
  | orc, [] => by simp [noisesList]
  | orc, a :: as => by simp [noisesList, noises, noisesList_none orc as]

theorem nums_of_all_isNum : ∀ (as : List Val), as.all isNum = true → ∃ xs : List Rat, as = xs.map Val.num
  | [], _ => ⟨[], rfl⟩
  | a :: as, h => by
    simp only [List.all_cons, Bool.and_eq_true] at h
    obtain ⟨xs, hxs⟩ := nums_of_all_isNum as h.2
    cases a with
    | num x => exact ⟨x :: xs, by simp [hxs]⟩
    | _ => simp [isNum] at h

/-- an injective noiser keeps a set of numbers a set -/
theorem injNoiser_nums_distinct (na : Option NoiseSpec) (hinj : injNoiser na = true) (orc o' : List Rat) (as out : List Val)
    (hnum : as.all isNum = true) (hd : Distinct as) (h : noisesList na orc as = .ok (o', out)) : Distinct out := by
  cases na with
  | none => rw [noisesList_none] at h; cases h; exact hd
  | some ns =>
    cases ns with
    | drawn => simp [injNoiser] at hinj
    | affine m b =>
      have hm : m ≠ 0 := by simpa [injNoiser] using hinj
      obtain ⟨xs, rfl⟩ := nums_of_all_isNum as hnum
      exact noise_affine_nums_distinct' m b hm orc o' xs out h hd

/-- the action lists of Noise's plans are the noisy images of the interactions' action lists -/
theorem noise_go_actions (cfg : Cfg) (nc na : Option NoiseSpec) (rC fC : Bool) : ∀ (s : List Inter) (orc : List Rat) (ps : List Plan),
    noisePlans.go cfg nc na rC fC orc s = .ok ps →
    ∀ p ∈ ps, ∀ as', p.actions = some as' → ∃ I ∈ s, ∃ as o o', I.actions = some as ∧ noisesList na o as = .ok (o', as')
  | [], orc, ps, h => by
    simp [noisePlans.go] at h; subst h; intro p hp; cases hp
  | I :: rest, orc, ps, h => by
    simp only [noisePlans.go] at h
    cases hc : noises nc orc I.context with
    | error e => simp [hc] at h
    | ok pc =>
      obtain ⟨orc1, ctx⟩ := pc
      simp only [hc] at h
      cases hacts : I.actions with
      | none =>
        simp only [hacts] at h
        cases hgo : noisePlans.go cfg nc na rC fC orc1 rest with
        | error e => simp [hgo] at h
        | ok ps' =>
          simp [hgo] at h
          subst h
          intro p hp as' hpa
          rcases List.mem_cons.mp hp with rfl | hp'
          · simp at hpa
          · obtain ⟨J, hJ, r⟩ := noise_go_actions cfg nc na rC fC rest orc1 ps' hgo p hp' as' hpa
            exact ⟨J, by simp [hJ], r⟩
      | some o =>
        simp only [hacts] at h
        cases hn : noisesList na orc1 o with
        | error e => simp [hn] at h
        | ok pn =>
          obtain ⟨orc2, n⟩ := pn
          simp only [hn] at h
          cases hgo : noisePlans.go cfg nc na rC fC orc2 rest with
          | error e => simp [hgo] at h
          | ok ps' =>
            simp [hgo] at h
            subst h
            intro p hp as' hpa
            rcases List.mem_cons.mp hp with rfl | hp'
            · simp at hpa; subst hpa
              exact ⟨I, by simp, o, orc1, orc2, hacts, hn⟩
            · obtain ⟨J, hJ, r⟩ := noise_go_actions cfg nc na rC fC rest orc2 ps' hgo p hp' as' hpa
              exact ⟨J, by simp [hJ], r⟩

theorem noise_scalar_aligned' (nc na : Option NoiseSpec) (orc : List Rat) (s s' : List Inter)
    (hinj : injNoiser na = true) (hh : noiseScalarHypB s = true)
    (hrun : runPrim Cfg.fixed (.noise nc na orc) s = .ok s') : alignedStreamB s s' = true := by
  simp only [noiseScalarHypB, Bool.and_eq_true, List.all_eq_true] at hh
  obtain ⟨hself, hall⟩ := hh
  simp only [runPrim, plansOf, noisePlans] at hrun
  cases hgo : noisePlans.go Cfg.fixed nc na (firstCallable (·.rewards) s) (firstCallable (·.feedbacks) s) orc s with
  | error e => simp [hgo] at hrun
  | ok ps =>
    simp only [hgo] at hrun
    refine applyPlans_aligned ?_ hrun
    refine noise_go_hyp nc na _ _ s orc ps hgo (alignedStreamB_self_mem hself) ?_ ?_ ?_
    · intro I hI r hr hcal
      have := (hall I hI).1
      simp only [hr, hcal, Bool.not_true, Bool.false_or] at this
      exact this
    · intro I hI hacts
      have := (hall I hI).2
      simp only [hacts] at this
      cases hr : I.rewards with
      | none => rfl
      | some r => simp [hr] at this
    · intro p hp as' hpa
      obtain ⟨I, hI, as, o, o', hacts, hn⟩ := noise_go_actions Cfg.fixed nc na _ _ s orc ps hgo p hp as' hpa
      have := (hall I hI).2
      simp only [hacts, Bool.and_eq_true] at this
      exact injNoiser_nums_distinct na hinj o o' as as' this.1 ((distinctB_iff _).mp this.2) hn

/-! ### Cycle: a negative theorem -/

theorem obsEq_map_ok (a b : List Rat) : obsEq (a.map Except.ok) (b.map Except.ok) = true → a = b := by
  intro h
  obtain ⟨rs, h1, h2⟩ := (obsEq_iff _ _).mp h
  rw [map_ok_injective h1, map_ok_injective h2]

theorem cycle_misaligns' {n : Nat} {r r' : Rew} {acts : List Val} (vals : List Rat)
    (h : rekey (.rotate n) r acts acts = .ok r') (hd : Distinct acts)
    (hv : obsOf r acts = vals.map Except.ok) (hne : rotList n vals ≠ vals) :
    obsEq (obsOf r acts) (obsOf r' acts) = false := by
  obtain ⟨vals', h1, h2⟩ := cycle_rekey_spec' h hd
  have : vals' = vals := map_ok_injective (h1.symm.trans hv)
  subst this
  cases hb : obsEq (obsOf r acts) (obsOf r' acts) with
  | false => rfl
  | true =>
    rw [h1, h2] at hb
    exact absurd (obsEq_map_ok _ _ hb).symm hne

theorem cycle_outside_hyp' (n : Nat) (r : Rew) (o nw : List Val) : targetHypB (.rotate n) (some r) o nw = false := by
  simp [targetHypB]



/-! ### Python `==` as an equivalence on well-formed lazy-free values -/

theorem lookupS_mem : ∀ (d : List (String × Val)) (k : String) (w : Val), lookupS k d = some w → (k, w) ∈ d
  | [], k, w, h => by simp [lookupS] at h
  | (k0, v0) :: r, k, w, h => by
    simp only [lookupS] at h
    by_cases hk : (k0 == k) = true
    · simp only [hk, if_true, Option.some.injEq] at h
      have : k0 = k := by simpa using hk
      subst this; subst h; simp
    · simp only [hk] at h
      exact List.mem_cons_of_mem _ (lookupS_mem r k w h)

theorem pyEqD_mem : ∀ (d e : List (String × Val)), pyEqD d e = true → ∀ k w, (k, w) ∈ d →
    ∃ u, lookupS k e = some u ∧ pyEq w u = true
  | [], e, _, k, w, hm => by cases hm
  | (k0, v0) :: r, e, h, k, w, hm => by
    simp only [pyEqD, Bool.and_eq_true] at h
    rcases List.mem_cons.mp hm with heq | hm'
    · have hk : k = k0 := (Prod.mk.inj heq).1
      have hw : w = v0 := (Prod.mk.inj heq).2
      rw [hk, hw]
      cases hl : lookupS k0 e with
      | none => simp [hl] at h
      | some u => simp only [hl] at h; exact ⟨u, rfl, h.1⟩
    · exact pyEqD_mem r e h.2 k w hm'

theorem wfNoLazyD_mem : ∀ (d : List (String × Val)), wfNoLazyD d = true → ∀ k w, (k, w) ∈ d → wfNoLazy w = true
  | [], _, k, w, hm => by cases hm
  | (k0, v0) :: r, h, k, w, hm => by
    simp only [wfNoLazyD, Bool.and_eq_true] at h
    rcases List.mem_cons.mp hm with heq | hm'
    · cases heq; exact h.1
    · exact wfNoLazyD_mem r h.2 k w hm'

mutual
theorem pyEq_trans_wf : ∀ (a b c : Val), wfNoLazy a = true → wfNoLazy b = true → wfNoLazy c = true →
    pyEq a b = true → pyEq b c = true → pyEq a c = true
  | .none, b, c, _, _, _, h1, h2 => by cases b <;> cases c <;> simp_all [pyEq]
  | .num q, b, c, _, _, _, h1, h2 => by cases b <;> cases c <;> simp_all [pyEq]
  | .str s, b, c, _, hb, hc, h1, h2 => by cases b <;> cases c <;> simp_all [pyEq, wfNoLazy]
  | .cat s l, b, c, _, hb, hc, h1, h2 => by cases b <;> cases c <;> simp_all [pyEq, wfNoLazy]
  | .list xs, b, c, ha, hb, hc, h1, h2 => by
    cases b with
    | list ys =>
      cases c with
      | list zs =>
        simp only [wfNoLazy] at ha hb hc
        simp only [pyEq] at h1 h2 ⊢
        exact pyEqL_trans_wf xs ys zs ha hb hc h1 h2
      | lazy _ _ => simp [wfNoLazy] at hc
      | _ => simp [pyEq] at h2
    | lazy _ _ => simp [wfNoLazy] at hb
    | _ => simp [pyEq] at h1
  | .tuple xs, b, c, ha, hb, hc, h1, h2 => by
    cases b with
    | tuple ys =>
      cases c with
      | tuple zs =>
        simp only [wfNoLazy] at ha hb hc
        simp only [pyEq] at h1 h2 ⊢
        exact pyEqL_trans_wf xs ys zs ha hb hc h1 h2
      | lazy _ _ => simp [wfNoLazy] at hc
      | _ => simp [pyEq] at h2
    | lazy _ _ => simp [wfNoLazy] at hb
    | _ => simp [pyEq] at h1
  | .dict kvs, b, c, ha, hb, hc, h1, h2 => by
    cases b with
    | dict d =>
      cases c with
      | dict e =>
        simp only [wfNoLazy, Bool.and_eq_true] at ha hb hc
        simp only [pyEq, Bool.and_eq_true, beq_iff_eq] at h1 h2 ⊢
        refine ⟨h1.1.trans h2.1, ?_⟩
        exact pyEqD_trans_wf kvs d e ha.2 hb.2 hc.2 h1.2 h2.2
      | lazy _ _ => simp [wfNoLazy] at hc
      | _ => simp [pyEq] at h2
    | lazy _ _ => simp [wfNoLazy] at hb
    | _ => simp [pyEq] at h1
  | .lazy _ _, _, _, ha, _, _, _, _ => by simp [wfNoLazy] at ha
theorem pyEqL_trans_wf : ∀ (xs ys zs : List Val), wfNoLazyL xs = true → wfNoLazyL ys = true → wfNoLazyL zs = true →
    pyEqL xs ys = true → pyEqL ys zs = true → pyEqL xs zs = true
  | [], ys, zs, _, _, _, h1, h2 => by
    cases ys with
    | nil => exact h2
    | cons y ys => simp [pyEqL] at h1
  | x :: xs, ys, zs, ha, hb, hc, h1, h2 => by
    cases ys with
    | nil => simp [pyEqL] at h1
    | cons y ys =>
      cases zs with
      | nil => simp [pyEqL] at h2
      | cons z zs =>
        simp only [wfNoLazyL, Bool.and_eq_true] at ha hb hc
        simp only [pyEqL_cons, Bool.and_eq_true] at h1 h2 ⊢
        exact ⟨pyEq_trans_wf x y z ha.1 hb.1 hc.1 h1.1 h2.1, pyEqL_trans_wf xs ys zs ha.2 hb.2 hc.2 h1.2 h2.2⟩
theorem pyEqD_trans_wf : ∀ (r d e : List (String × Val)), wfNoLazyD r = true → wfNoLazyD d = true → wfNoLazyD e = true →
    pyEqD r d = true → pyEqD d e = true → pyEqD r e = true
  | [], d, e, _, _, _, _, _ => by simp [pyEqD]
  | (k, v) :: r, d, e, ha, hb, hc, h1, h2 => by
    simp only [wfNoLazyD, Bool.and_eq_true] at ha
    simp only [pyEqD, Bool.and_eq_true] at h1 ⊢
    cases hl : lookupS k d with
    | none => simp [hl] at h1
    | some w =>
      simp only [hl] at h1
      have hmem := lookupS_mem d k w hl
      obtain ⟨u, hu, hwu⟩ := pyEqD_mem d e h2 k w hmem
      have hwf_w := wfNoLazyD_mem d hb k w hmem
      have hwf_u := wfNoLazyD_mem e hc k u (lookupS_mem e k u hu)
      refine ⟨?_, pyEqD_trans_wf r d e ha.2 hb hc h1.2 h2⟩
      simp only [hu]
      exact pyEq_trans_wf v w u ha.1 hwf_w hwf_u h1.1 hwu
end

theorem pyEq_not_transitive_lazy' :
    pyEq wEqNotTrans.1 wEqNotTrans.2.1 = true ∧ pyEq wEqNotTrans.2.1 wEqNotTrans.2.2 = true ∧ pyEq wEqNotTrans.1 wEqNotTrans.2.2 = false := by
  decide +kernel


/-! ### translator tie: the constants the model hard-wires, as named definitions (the generated file is compared with these) -/

theorem initDState_seed (n : Nat) :
    initDState n = { table := [], fresh := lookupStream n (if n == 0 then 0 else 192 / n + 2) (Coba.C05.normInt densifySeed) } := rfl

theorem rotList_shift {α} (n : Nat) (l : List α) :
    rotList n l = if n == 0 then l else l.drop (n - cycleShift) ++ l.take (n - cycleShift) := rfl

theorem sparsify_headers_used (cfg : Cfg) (c a : Bool) (I : Inter) :
    sparsifyPlans cfg c a [I] = .ok [
      { context := if c then makeSparse (sparsifyHeaders.getD 0 "") I.context else I.context,
        actions := if a then I.actions.map (·.map (makeSparse (sparsifyHeaders.getD 1 ""))) else I.actions,
        action := if a then I.action.map (makeSparse (sparsifyHeaders.getD 2 "")) else I.action,
        polR := if (cfg.fixRekey && a && (match I.actions with | some as => as.any sparseConverts | none => false)) && firstCallable (·.rewards) [I] then .generic else .keep,
        polF := if (cfg.fixRekey && a && (match I.actions with | some as => as.any sparseConverts | none => false)) && firstCallable (·.feedbacks) [I] then .generic else .keep }] := rfl

theorem cycle_after_used :
    (match cyclePlans 1 (wCycle ++ wCycle ++ wCycle) with
     | .ok ps => ps.map (fun p => p.polR == .rotate 3)
     | .error _ => []) = [cycleRotatesAt 1 0, cycleRotatesAt 1 1, cycleRotatesAt 1 2] := by decide +kernel

theorem source_constants_match' :
    Coba.Generated.C10.finalizeReprModes = finalizeReprModes ∧ Coba.Generated.C10.sparsifyHeaders = sparsifyHeaders ∧
    Coba.Generated.C10.densifySeed = densifySeed ∧ Coba.Generated.C10.cycleShifts = [cycleShift, cycleShift] ∧
    Coba.Generated.C10.cycleAfterInclusive = cycleRotatesAt 0 0 := by decide +kernel

theorem cycle_source_getElem? {α} (l : List α) (hl : 0 < l.length) (j : Nat) (hj : j < l.length) :
    (rotList l.length l)[j]? = l[cycleSource l.length j]? := rotList_getElem? l hl j hj


/-! ## Phase 5: `==` symmetric on well-formed lazy-free values (dicts by pigeonhole on unique keys) -/

theorem uniq_subset_length : ∀ (l1 l2 : List String), uniqKeys l1 = true → (∀ k ∈ l1, k ∈ l2) → l1.length ≤ l2.length
  | [], _, _, _ => by simp
  | k :: r, l2, hu, hs => by
    simp only [uniqKeys, Bool.and_eq_true, Bool.not_eq_true', List.contains_eq_mem, decide_eq_false_iff_not] at hu
    have hk : k ∈ l2 := hs k (by simp)
    have hsub : ∀ k' ∈ r, k' ∈ l2.erase k := by
      intro k' hk'
      have hne : k' ≠ k := fun e => hu.1 (e ▸ hk')
      exact (List.mem_erase_of_ne hne).mpr (hs k' (by simp [hk']))
    have ih := uniq_subset_length r (l2.erase k) hu.2 hsub
    have hl := List.length_erase_of_mem hk
    have hpos : 0 < l2.length := List.length_pos_of_mem hk
    simp only [List.length_cons]
    omega

/-- pigeonhole: unique keys ⊆ keys and equal length ⇒ equal key sets -/
theorem uniq_subset_eq_length_superset (l1 l2 : List String) (hu : uniqKeys l1 = true) (hs : ∀ k ∈ l1, k ∈ l2)
    (hl : l1.length = l2.length) : ∀ k ∈ l2, k ∈ l1 := by
  intro k hk
  apply Classical.byContradiction
  intro hn
  have hsub : ∀ k' ∈ l1, k' ∈ l2.erase k := by
    intro k' hk'
    have hne : k' ≠ k := fun e => hn (e ▸ hk')
    exact (List.mem_erase_of_ne hne).mpr (hs k' hk')
  have := uniq_subset_length l1 (l2.erase k) hu hsub
  have hl2 := List.length_erase_of_mem hk
  have hpos : 0 < l2.length := List.length_pos_of_mem hk
  omega

theorem pyEqD_of_forall : ∀ (d e : List (String × Val)),
    (∀ k w, (k, w) ∈ d → ∃ v, lookupS k e = some v ∧ pyEq w v = true) → pyEqD d e = true
  | [], e, _ => by simp [pyEqD]
  | (k, w) :: r, e, h => by
    obtain ⟨v, hv, hwv⟩ := h k w (by simp)
    simp only [pyEqD, hv, hwv, Bool.true_and]
    exact pyEqD_of_forall r e (fun k' w' hm => h k' w' (by simp [hm]))

theorem dict_symm_core (kvs d : List (String × Val)) (hu1 : uniqKeys (kvs.map (·.1)) = true) (hu2 : uniqKeys (d.map (·.1)) = true)
    (hlen : kvs.length = d.length) (h : pyEqD kvs d = true)
    (key : ∀ k v w, (k, v) ∈ kvs → (k, w) ∈ d → pyEq v w = true → pyEq w v = true) : pyEqD d kvs = true := by
  apply pyEqD_of_forall
  intro k w hm
  have hsub : ∀ k' ∈ kvs.map (·.1), k' ∈ d.map (·.1) := by
    intro k' hk'
    obtain ⟨⟨k0, v0⟩, hm0, rfl⟩ := List.mem_map.mp hk'
    obtain ⟨u, hu, _⟩ := pyEqD_mem kvs d h k0 v0 hm0
    exact List.mem_map.mpr ⟨(k0, u), lookupS_mem d k0 u hu, rfl⟩
  have hk : k ∈ kvs.map (·.1) :=
    uniq_subset_eq_length_superset _ _ hu1 hsub (by simpa using hlen) k (List.mem_map.mpr ⟨(k, w), hm, rfl⟩)
  obtain ⟨⟨k1, v⟩, hmv, hk1⟩ := List.mem_map.mp hk
  simp only at hk1
  subst hk1
  obtain ⟨u, hu, hvu⟩ := pyEqD_mem kvs d h k1 v hmv
  have hw : lookupS k1 d = some w := lookupS_of_uniq d hu2 k1 w hm
  rw [hw] at hu
  cases hu
  exact ⟨v, lookupS_of_uniq kvs hu1 k1 v hmv, key k1 v w hmv hm hvu⟩

mutual
theorem pyEq_symm_imp : ∀ (a b : Val), wfNoLazy a = true → wfNoLazy b = true → pyEq a b = true → pyEq b a = true
  | .none, b, _, _, h => by cases b <;> simp_all [pyEq]
  | .num q, b, _, _, h => by cases b <;> simp_all [pyEq]
  | .str s, b, _, hb, h => by cases b <;> simp_all [pyEq, wfNoLazy]
  | .cat s l, b, _, hb, h => by cases b <;> simp_all [pyEq, wfNoLazy]
  | .list xs, b, ha, hb, h => by
    cases b with
    | list ys =>
      simp only [wfNoLazy] at ha hb
      simp only [pyEq] at h ⊢
      exact pyEqL_symm_imp xs ys ha hb h
    | lazy _ _ => simp [wfNoLazy] at hb
    | _ => simp [pyEq] at h
  | .tuple xs, b, ha, hb, h => by
    cases b with
    | tuple ys =>
      simp only [wfNoLazy] at ha hb
      simp only [pyEq] at h ⊢
      exact pyEqL_symm_imp xs ys ha hb h
    | lazy _ _ => simp [wfNoLazy] at hb
    | _ => simp [pyEq] at h
  | .dict kvs, b, ha, hb, h => by
    cases b with
    | dict d =>
      simp only [wfNoLazy, Bool.and_eq_true] at ha hb
      simp only [pyEq, Bool.and_eq_true, beq_iff_eq] at h ⊢
      exact ⟨h.1.symm, dict_symm_core kvs d ha.1 hb.1 h.1 h.2 (pyEqD_symm_imp kvs d ha.2 hb.2)⟩
    | lazy _ _ => simp [wfNoLazy] at hb
    | _ => simp [pyEq] at h
  | .lazy _ _, _, ha, _, _ => by simp [wfNoLazy] at ha
theorem pyEqL_symm_imp : ∀ (xs ys : List Val), wfNoLazyL xs = true → wfNoLazyL ys = true → pyEqL xs ys = true → pyEqL ys xs = true
  | [], ys, _, _, h => by cases ys <;> simp_all [pyEqL]
  | x :: xs, ys, ha, hb, h => by
    cases ys with
    | nil => simp [pyEqL] at h
    | cons y ys =>
      simp only [wfNoLazyL, Bool.and_eq_true] at ha hb
      simp only [pyEqL_cons, Bool.and_eq_true] at h ⊢
      exact ⟨pyEq_symm_imp x y ha.1 hb.1 h.1, pyEqL_symm_imp xs ys ha.2 hb.2 h.2⟩
theorem pyEqD_symm_imp : ∀ (r d : List (String × Val)), wfNoLazyD r = true → wfNoLazyD d = true →
    ∀ k v w, (k, v) ∈ r → (k, w) ∈ d → pyEq v w = true → pyEq w v = true
  | [], _, _, _, _, _, _, hm, _, _ => by cases hm
  | (k0, v0) :: r, d, ha, hb, k, v, w, hm, hd, h => by
    simp only [wfNoLazyD, Bool.and_eq_true] at ha
    rcases List.mem_cons.mp hm with heq | hm'
    · cases heq
      exact pyEq_symm_imp v0 w ha.1 (wfNoLazyD_mem d hb k0 w hd) h
    · exact pyEqD_symm_imp r d ha.2 hb k v w hm' hd h
end

theorem pyEq_symm_wf' (a b : Val) (ha : wfNoLazy a = true) (hb : wfNoLazy b = true) : pyEq a b = pyEq b a := by
  cases h1 : pyEq a b with
  | true => exact (pyEq_symm_imp a b ha hb h1).symm
  | false =>
    cases h2 : pyEq b a with
    | false => rfl
    | true => rw [pyEq_symm_imp b a hb ha h2] at h1; cases h1



/-! ## Phase 5: `==` on SparseDense rows is the element-wise comparison; symmetric on well-formed rows -/

theorem pyEq_num_zero (y : Val) : pyEq (.num 0) y = isZero y := by
  cases y <;> simp [pyEq, isZero, beq_comm' (0 : Rat)]

theorem pyEq_zero_num (x : Val) (hx : wfNoLazy x = true) : pyEq x (.num 0) = isZero x := by
  cases x <;> simp_all [pyEq, isZero, wfNoLazy]

theorem pyEqIdx_iff : ∀ (xs : List Val) (i : Nat) (kvs : List (Nat × Val)),
    pyEqIdx xs i kvs = true ↔ ∀ j x, xs[j]? = some x → pyEq x (lazyAt kvs (i + j)) = true
  | [], i, kvs => by simp [pyEqIdx]
  | x :: xs, i, kvs => by
    simp only [pyEqIdx, Bool.and_eq_true, pyEqIdx_iff xs (i + 1) kvs]
    constructor
    · rintro ⟨h0, h⟩ j y hj
      cases j with
      | zero => simp at hj; subst hj; simpa using h0
      | succ j => simp at hj; have := h j y hj; rwa [show i + 1 + j = i + (j + 1) by omega] at this
    · intro h
      refine ⟨by simpa using h 0 x (by simp), fun j y hj => ?_⟩
      have := h (j + 1) y (by simpa using hj)
      rwa [show i + (j + 1) = i + 1 + j by omega] at this

theorem pyEqZ_iff : ∀ (kvs : List (Nat × Val)) (ys : List Val),
    pyEqZ kvs ys = true ↔ ∀ k v, (k, v) ∈ kvs → ∃ w, ys[k]? = some w ∧ pyEq v w = true
  | [], ys => by simp [pyEqZ]
  | (k0, v0) :: r, ys => by
    simp only [pyEqZ, Bool.and_eq_true, pyEqZ_iff r ys]
    constructor
    · rintro ⟨h0, h⟩ k v hm
      rcases List.mem_cons.mp hm with heq | hm'
      · cases heq
        cases hy : ys[k0]? with
        | none => simp [hy] at h0
        | some w => simp only [hy] at h0; exact ⟨w, rfl, h0⟩
      · exact h k v hm'
    · intro h
      refine ⟨?_, fun k v hm => h k v (List.mem_cons_of_mem _ hm)⟩
      obtain ⟨w, hw, hvw⟩ := h k0 v0 (by simp)
      simp [hw, hvw]

theorem zerosMatch_iff : ∀ (kvs : List (Nat × Val)) (i : Nat) (ys : List Val),
    zerosMatch kvs i ys = true ↔ ∀ j y, ys[j]? = some y → ((lookupN (i + j) kvs).isSome = true ∨ isZero y = true)
  | kvs, i, [] => by simp [zerosMatch]
  | kvs, i, y :: ys => by
    simp only [zerosMatch, Bool.and_eq_true, Bool.or_eq_true, zerosMatch_iff kvs (i + 1) ys]
    constructor
    · rintro ⟨h0, h⟩ j z hj
      cases j with
      | zero => simp at hj; subst hj; simpa using h0
      | succ j => simp at hj; have := h j z hj; rwa [show i + 1 + j = i + (j + 1) by omega] at this
    · intro h
      refine ⟨by simpa using h 0 y (by simp), fun j z hj => ?_⟩
      have := h (j + 1) z (by simpa using hj)
      rwa [show i + (j + 1) = i + 1 + j by omega] at this

theorem lookupN_mem : ∀ (d : List (Nat × Val)) (k : Nat) (w : Val), lookupN k d = some w → (k, w) ∈ d
  | [], k, w, h => by simp [lookupN] at h
  | (k0, v0) :: r, k, w, h => by
    simp only [lookupN] at h
    by_cases hk : (k0 == k) = true
    · simp only [hk, if_true, Option.some.injEq] at h
      have : k0 = k := by simpa using hk
      subst this; subst h; simp
    · simp only [hk] at h
      exact List.mem_cons_of_mem _ (lookupN_mem r k w h)

theorem lookupN_of_uniq : ∀ (kvs : List (Nat × Val)), natKeysUniq (kvs.map (·.1)) = true →
    ∀ k v, (k, v) ∈ kvs → lookupN k kvs = some v
  | [], _, k, v, h => by cases h
  | (k0, v0) :: r, hu, k, v, h => by
    simp only [List.map_cons, natKeysUniq, Bool.and_eq_true, Bool.not_eq_true'] at hu
    simp only [lookupN]
    cases h with
    | head => simp
    | tail _ h' =>
      have hne : (k0 == k) = false := by
        cases hb : (k0 == k) with
        | false => rfl
        | true =>
          have : k0 = k := by simpa using hb
          subst this
          have : (r.map (·.1)).contains k0 = true := by
            simp only [List.contains_iff_mem, List.mem_map]
            exact ⟨(k0, v), h', rfl⟩
          rw [this] at hu; exact absurd hu.1 (by simp)
      simp only [hne, Bool.false_eq_true, if_false]
      exact lookupN_of_uniq r hu.2 k v h'

theorem lazyWf_mem {kvs : List (Nat × Val)} {n : Nat} (h : lazyWf kvs n = true) {k : Nat} {v : Val} (hm : (k, v) ∈ kvs) :
    k < n ∧ wfNoLazy v = true ∧ lookupN k kvs = some v := by
  simp only [lazyWf, Bool.and_eq_true, List.all_eq_true, decide_eq_true_eq] at h
  exact ⟨(h.2 _ hm).1, (h.2 _ hm).2, lookupN_of_uniq kvs h.1 k v hm⟩

theorem lazyAt_wf {kvs : List (Nat × Val)} {n : Nat} (h : lazyWf kvs n = true) (i : Nat) : wfNoLazy (lazyAt kvs i) = true := by
  unfold lazyAt
  cases hl : lookupN i kvs with
  | none => simp [wfNoLazy]
  | some v => simpa using (lazyWf_mem h (lookupN_mem kvs i v hl)).2.1

/-- the right-hand form of `SparseDense == sequence` (stored values + implicit zeros) is the element-wise comparison -/
theorem lazy_rhs_iff (kvs : List (Nat × Val)) (n : Nat) (ys : List Val) (hw : lazyWf kvs n = true) (hl : ys.length = n) :
    (pyEqZ kvs ys && zerosMatch kvs 0 ys) = true ↔ ∀ i y, ys[i]? = some y → pyEq (lazyAt kvs i) y = true := by
  simp only [Bool.and_eq_true, pyEqZ_iff, zerosMatch_iff, Nat.zero_add]
  constructor
  · rintro ⟨hz, h0⟩ i y hy
    unfold lazyAt
    cases hk : lookupN i kvs with
    | some v =>
      obtain ⟨w, hw', hvw⟩ := hz i v (lookupN_mem kvs i v hk)
      rw [hy] at hw'; cases hw'; simpa using hvw
    | none =>
      rcases h0 i y hy with h | h
      · simp [hk] at h
      · simpa [pyEq_num_zero] using h
  · intro h
    refine ⟨fun k v hm => ?_, fun j y hy => ?_⟩
    · obtain ⟨hlt, _, hlk⟩ := lazyWf_mem hw hm
      have hlt' : k < ys.length := by omega
      refine ⟨ys[k], by simp [hlt'], ?_⟩
      have := h k ys[k] (by simp [hlt'])
      simpa [lazyAt, hlk] using this
    · cases hk : lookupN j kvs with
      | some v => simp
      | none =>
        right
        have := h j y hy
        simpa [lazyAt, hk, pyEq_num_zero] using this

theorem expand_getElem? (kvs : List (Nat × Val)) (n i : Nat) : (expand kvs n)[i]? = if i < n then some (lazyAt kvs i) else none := by
  unfold expand
  by_cases h : i < n <;> simp [h]

theorem expand_length (kvs : List (Nat × Val)) (n : Nat) : (expand kvs n).length = n := by simp [expand]

/-- `SparseDense == list/tuple` in both operand orders -/
theorem pyEq_symm_lazy_seq (kvs : List (Nat × Val)) (n : Nat) (xs : List Val) (hw : lazyWf kvs n = true) (hx : wfNoLazyL xs = true) :
    (xs.length == n && pyEqIdx xs 0 kvs) = (xs.length == n && pyEqZ kvs xs && zerosMatch kvs 0 xs) := by
  by_cases hl : xs.length = n
  · have hmem : ∀ (i : Nat) (x : Val), xs[i]? = some x → wfNoLazy x = true := by
      intro i x hi
      have : ∀ (l : List Val), wfNoLazyL l = true → ∀ x ∈ l, wfNoLazy x = true := by
        intro l; induction l with
        | nil => intro _ x hx; cases hx
        | cons a l ih =>
          intro h x hx
          simp only [wfNoLazyL, Bool.and_eq_true] at h
          rcases List.mem_cons.mp hx with rfl | hx'
          · exact h.1
          · exact ih h.2 x hx'
      exact this xs hx x (List.mem_of_getElem? hi)
    have e1 : (xs.length == n) = true := by simpa using hl
    rw [e1, Bool.true_and, Bool.and_assoc, Bool.true_and]
    rw [Bool.eq_iff_iff, pyEqIdx_iff, lazy_rhs_iff kvs n xs hw hl]
    simp only [Nat.zero_add]
    constructor
    · intro h i y hy
      rw [pyEq_symm_wf' _ _ (lazyAt_wf hw i) (hmem i y hy)]; exact h i y hy
    · intro h i y hy
      rw [pyEq_symm_wf' _ _ (hmem i y hy) (lazyAt_wf hw i)]; exact h i y hy
  · have e1 : (xs.length == n) = false := by simpa using hl
    simp [e1]

/-- two SparseDense rows: `==` is the element-wise comparison over the common length -/
theorem pyEq_lazy_lazy_iff (k1 k2 : List (Nat × Val)) (n1 n2 : Nat) (h1 : lazyWf k1 n1 = true) :
    pyEq (.lazy k1 n1) (.lazy k2 n2) = true ↔ n2 = n1 ∧ ∀ i, i < n1 → pyEq (lazyAt k1 i) (lazyAt k2 i) = true := by
  simp only [pyEq, denseItems, expand_length, Bool.and_eq_true, beq_iff_eq, Bool.and_assoc]
  constructor
  · rintro ⟨hn, h⟩
    subst hn
    have := (lazy_rhs_iff k1 n2 (expand k2 n2) h1 (expand_length _ _)).mp (by simpa using h)
    refine ⟨rfl, fun i hi => this i _ (by simp [expand_getElem?, hi])⟩
  · rintro ⟨hn, h⟩
    subst hn
    refine ⟨rfl, ?_⟩
    have := (lazy_rhs_iff k1 n2 (expand k2 n2) h1 (expand_length _ _)).mpr (by
      intro i y hy
      rw [expand_getElem?] at hy
      by_cases hi : i < n2
      · simp only [hi, if_true, Option.some.injEq] at hy; subst hy; exact h i hi
      · simp [hi] at hy)
    simpa using this

theorem pyEq_symm_rows' (a b : Val) (ha : wfRow a = true) (hb : wfRow b = true) : pyEq a b = pyEq b a := by
  cases a with
  | lazy k1 n1 =>
    cases b with
    | lazy k2 n2 =>
      simp only [wfRow] at ha hb
      rw [Bool.eq_iff_iff, pyEq_lazy_lazy_iff k1 k2 n1 n2 ha, pyEq_lazy_lazy_iff k2 k1 n2 n1 hb]
      constructor
      · rintro ⟨hn, h⟩; subst hn
        exact ⟨rfl, fun i hi => by rw [pyEq_symm_wf' _ _ (lazyAt_wf hb i) (lazyAt_wf ha i)]; exact h i hi⟩
      · rintro ⟨hn, h⟩; subst hn
        exact ⟨rfl, fun i hi => by rw [pyEq_symm_wf' _ _ (lazyAt_wf ha i) (lazyAt_wf hb i)]; exact h i hi⟩
    | list xs =>
      simp only [wfRow, wfNoLazy] at ha hb
      have := pyEq_symm_lazy_seq k1 n1 xs ha hb
      simp only [pyEq, denseItems]; rw [this]
    | tuple xs =>
      simp only [wfRow, wfNoLazy] at ha hb
      have := pyEq_symm_lazy_seq k1 n1 xs ha hb
      simp only [pyEq, denseItems]; rw [this]
    | _ => simp [pyEq, denseItems]
  | list xs =>
    cases b with
    | lazy k2 n2 =>
      simp only [wfRow, wfNoLazy] at ha hb
      have := pyEq_symm_lazy_seq k2 n2 xs hb ha
      simp only [pyEq, denseItems]; rw [this]
    | _ => exact pyEq_symm_wf' _ _ (by simpa [wfRow] using ha) (by simpa [wfRow] using hb)
  | tuple xs =>
    cases b with
    | lazy k2 n2 =>
      simp only [wfRow, wfNoLazy] at ha hb
      have := pyEq_symm_lazy_seq k2 n2 xs hb ha
      simp only [pyEq, denseItems]; rw [this]
    | _ => exact pyEq_symm_wf' _ _ (by simpa [wfRow] using ha) (by simpa [wfRow] using hb)
  | _ =>
    cases b with
    | lazy k2 n2 => simp [pyEq, denseItems]
    | _ => exact pyEq_symm_wf' _ _ (by simpa [wfRow] using ha) (by simpa [wfRow] using hb)



/-! ## Phase 5: Densify — distinct slots ⇒ distinct SparseDense rows -/

theorem assocGet_append_none (k : String) : ∀ (t ext : List (String × Nat)), assocGet k t = none → assocGet k (t ++ ext) = assocGet k ext
  | [], ext, _ => by simp
  | (k', v) :: t, ext, h => by
    simp only [assocGet, List.cons_append] at h ⊢
    by_cases hk : (k' == k) = true
    · simp [hk] at h
    · simp only [hk] at h ⊢; exact assocGet_append_none k t ext h

theorem denseIndex_slot (m : DMethod) (st st1 : DState) (k : String) (i : Nat) (h : denseIndex m st k = .ok (st1, i)) :
    assocGet k (tableOf m st1) = some i := by
  cases m with
  | hashing tbl =>
    simp only [denseIndex] at h
    cases hg : assocGet k tbl with
    | none => simp [hg] at h
    | some j => simp [hg] at h; simp [tableOf, hg, h.2]
  | lookup p =>
    simp only [denseIndex] at h
    cases hg : assocGet k st.table with
    | some j => simp [hg] at h; simp [tableOf, ← h.1, hg, h.2]
    | none =>
      simp only [hg] at h
      cases hf : st.fresh with
      | nil => simp [hf] at h
      | cons j rest =>
        simp [hf] at h
        simp [tableOf, ← h.1, assocGet_append_none k _ _ hg, assocGet, h.2]

theorem tableOf_mono (m : DMethod) (ks : List String) (st st' : DState) (h : primeKeys m st ks = .ok st') :
    ∀ k i, assocGet k (tableOf m st) = some i → assocGet k (tableOf m st') = some i := by
  intro k i hk
  cases m with
  | hashing t => simpa [tableOf] using hk
  | lookup p =>
    obtain ⟨ext, he⟩ := primeKeys_mono (.lookup p) ks st st' h
    simp only [tableOf] at hk ⊢
    rw [he]; exact assocGet_append_left k i _ ext hk

theorem denseEntries_eq_entsAcc (m : DMethod) (T : List (String × Nat)) : ∀ (st : DState) (d : List (String × Val)) (acc : List (Nat × Val))
    (st' : DState) (out : List (Nat × Val)), denseEntries m st d acc = .ok (st', out) →
    (∀ k i, assocGet k (tableOf m st') = some i → assocGet k T = some i) → out = entsAcc (slotFn T) d acc
  | st, [], acc, st', out, h, _ => by simp [denseEntries] at h; simp [entsAcc, h.2]
  | st, (k, v) :: rest, acc, st', out, h, hT => by
    simp only [denseEntries] at h
    cases hd : denseIndex m st k with
    | error e => simp [hd] at h
    | ok r =>
      obtain ⟨st1, i⟩ := r
      simp only [hd] at h
      have hs := denseIndex_slot m st st1 k i hd
      have hmono := tableOf_mono m _ st1 st' (denseEntries_state m st1 rest _ st' out h)
      have : slotFn T k = i := by simp [slotFn, hT k i (hmono k i hs)]
      simp only [entsAcc, this]
      exact denseEntries_eq_entsAcc m T st1 rest _ st' out h hT

theorem lookupN_natSet (i j : Nat) (v : Val) : ∀ (acc : List (Nat × Val)), lookupN i (natSet j v acc) = if j == i then some v else lookupN i acc
  | [] => by simp [natSet, lookupN]
  | (k', v') :: r => by
    simp only [natSet]
    by_cases hk : (k' == j) = true
    · have : k' = j := by simpa using hk
      subst this
      simp only [beq_self_eq_true, if_true, lookupN]
      by_cases hi : (k' == i) = true <;> simp [hi]
    · simp only [hk, lookupN, Bool.false_eq_true, if_false]
      by_cases hi : (k' == i) = true
      · have : k' = i := by simpa using hi
        subst this
        have : (j == k') = false := by
          cases hj : (j == k') with
          | false => rfl
          | true => have : j = k' := by simpa using hj
                    subst this; simp at hk
        simp [this]
      · simp only [hi, Bool.false_eq_true, if_false]; exact lookupN_natSet i j v r

theorem entsAcc_lookup_other (slot : String → Nat) (i : Nat) : ∀ (d : List (String × Val)) (acc : List (Nat × Val)),
    (∀ k ∈ d.map (·.1), slot k ≠ i) → lookupN i (entsAcc slot d acc) = lookupN i acc
  | [], acc, _ => by simp [entsAcc]
  | (k, v) :: r, acc, h => by
    simp only [entsAcc]
    rw [entsAcc_lookup_other slot i r _ (fun k' hk' => h k' (by simp at hk' ⊢; exact Or.inr hk'))]
    have : (slot k == i) = false := by simpa using h k (by simp)
    rw [lookupN_natSet, this]; simp

theorem uniqKeys_cons {k : String} {ks : List String} (h : uniqKeys (k :: ks) = true) : k ∉ ks ∧ uniqKeys ks = true := by
  simp only [uniqKeys, Bool.and_eq_true, Bool.not_eq_true', List.contains_eq_mem, decide_eq_false_iff_not] at h
  exact h

theorem entsAcc_lookup_mem (slot : String → Nat) : ∀ (d : List (String × Val)) (acc : List (Nat × Val)),
    uniqKeys (d.map (·.1)) = true → (∀ k ∈ d.map (·.1), ∀ k' ∈ d.map (·.1), slot k = slot k' → k = k') →
    ∀ k v, (k, v) ∈ d → lookupN (slot k) (entsAcc slot d acc) = some v
  | [], _, _, _, k, v, hm => by cases hm
  | (k0, v0) :: r, acc, hu, hinj, k, v, hm => by
    simp only [List.map_cons] at hu hinj
    obtain ⟨hnot, hu'⟩ := uniqKeys_cons hu
    simp only [entsAcc]
    rcases List.mem_cons.mp hm with heq | hm'
    · cases heq
      rw [entsAcc_lookup_other slot (slot k0) r _ (fun k' hk' e => hnot (by
        have := hinj k' (List.mem_cons_of_mem _ hk') k0 (by simp) e
        exact this ▸ hk'))]
      rw [lookupN_natSet]; simp
    · exact entsAcc_lookup_mem slot r _ hu' (fun a ha b hb e => hinj a (List.mem_cons_of_mem _ ha) b (List.mem_cons_of_mem _ hb) e) k v hm'

theorem natKeysUniq_natSet (j : Nat) (v : Val) : ∀ (acc : List (Nat × Val)), natKeysUniq (acc.map (·.1)) = true →
    natKeysUniq ((natSet j v acc).map (·.1)) = true ∧ ∀ x ∈ (natSet j v acc).map (·.1), x = j ∨ x ∈ acc.map (·.1)
  | [], _ => by simp [natSet, natKeysUniq]
  | (k', v') :: r, h => by
    simp only [List.map_cons, natKeysUniq, Bool.and_eq_true, Bool.not_eq_true', List.contains_eq_mem, decide_eq_false_iff_not] at h
    simp only [natSet]
    by_cases hk : (k' == j) = true
    · have : k' = j := by simpa using hk
      subst this
      simp only [beq_self_eq_true, if_true, List.map_cons, natKeysUniq, Bool.and_eq_true, Bool.not_eq_true', List.contains_eq_mem, decide_eq_false_iff_not]
      exact ⟨h, fun x hx => by simp at hx ⊢; rcases hx with h1 | h1 <;> simp [h1]⟩
    · simp only [hk, Bool.false_eq_true, if_false, List.map_cons, natKeysUniq, Bool.and_eq_true, Bool.not_eq_true', List.contains_eq_mem, decide_eq_false_iff_not]
      obtain ⟨ih1, ih2⟩ := natKeysUniq_natSet j v r h.2
      refine ⟨⟨fun hc => ?_, ih1⟩, fun x hx => ?_⟩
      · rcases ih2 k' hc with e | e
        · exact hk (by simp [e])
        · exact h.1 e
      · rcases List.mem_cons.mp hx with e | e
        · right; simp [e]
        · rcases ih2 x e with e' | e'
          · left; exact e'
          · right; simp [e']

theorem natSet_mem (j : Nat) (v : Val) : ∀ (acc : List (Nat × Val)) (p : Nat × Val), p ∈ natSet j v acc → p = (j, v) ∨ p ∈ acc
  | [], p, h => by simp [natSet] at h; exact Or.inl h
  | (k', v') :: r, p, h => by
    simp only [natSet] at h
    by_cases hk : (k' == j) = true
    · simp only [hk, if_true] at h
      rcases List.mem_cons.mp h with e | e
      · have : k' = j := by simpa using hk
        left; rw [e, this]
      · right; exact List.mem_cons_of_mem _ e
    · simp only [hk, Bool.false_eq_true, if_false] at h
      rcases List.mem_cons.mp h with e | e
      · right; rw [e]; simp
      · rcases natSet_mem j v r p e with e' | e'
        · left; exact e'
        · right; exact List.mem_cons_of_mem _ e'

theorem entsAcc_lazyWf (slot : String → Nat) (n : Nat) : ∀ (d : List (String × Val)) (acc : List (Nat × Val)),
    lazyWf acc n = true → wfNoLazyD d = true → (∀ k ∈ d.map (·.1), slot k < n) → lazyWf (entsAcc slot d acc) n = true
  | [], acc, h, _, _ => by simpa [entsAcc] using h
  | (k, v) :: r, acc, h, hw, hlt => by
    simp only [wfNoLazyD, Bool.and_eq_true] at hw
    simp only [entsAcc]
    refine entsAcc_lazyWf slot n r _ ?_ hw.2 (fun k' hk' => hlt k' (by simp at hk' ⊢; exact Or.inr hk'))
    simp only [lazyWf, Bool.and_eq_true, List.all_eq_true, decide_eq_true_eq] at h ⊢
    refine ⟨(natKeysUniq_natSet (slot k) v acc h.1).1, fun p hp => ?_⟩
    rcases natSet_mem (slot k) v acc p hp with e | e
    · subst e; exact ⟨hlt k (by simp), hw.1⟩
    · exact h.2 p e

theorem slotsInjB_spec {T : List (String × Nat)} {keys : List String} {n : Nat} (h : slotsInjB T keys n = true) :
    (∀ k ∈ keys, slotFn T k < n) ∧ (∀ k ∈ keys, ∀ k' ∈ keys, slotFn T k = slotFn T k' → k = k') := by
  simp only [slotsInjB, Bool.and_eq_true, List.all_eq_true, Bool.or_eq_true, beq_iff_eq, bne_iff_ne, ne_eq] at h
  refine ⟨fun k hk => ?_, fun k hk k' hk' e => ?_⟩
  · have := h.1 k hk
    cases hg : assocGet k T with
    | none => simp [hg] at this
    | some i => simp only [hg, decide_eq_true_eq] at this; simpa [slotFn, hg] using this
  · rcases h.2 k hk k' hk' with e' | e'
    · exact e'
    · exact absurd e e'

theorem noZeroD_mem {d : List (String × Val)} (h : noZeroD d = true) {k : String} {v : Val} (hm : (k, v) ∈ d) : isZero v = false := by
  simp only [noZeroD, List.all_eq_true, Bool.not_eq_true'] at h
  exact h (k, v) hm

theorem lazyAt_entsAcc_mem (slot : String → Nat) (d : List (String × Val)) (hu : uniqKeys (d.map (·.1)) = true)
    (hinj : ∀ k ∈ d.map (·.1), ∀ k' ∈ d.map (·.1), slot k = slot k' → k = k') {k : String} {v : Val} (hm : (k, v) ∈ d) :
    lazyAt (entsAcc slot d []) (slot k) = v := by
  simp [lazyAt, entsAcc_lookup_mem slot d [] hu hinj k v hm]

theorem lazyAt_entsAcc_other (slot : String → Nat) (d : List (String × Val)) (i : Nat) (h : ∀ k ∈ d.map (·.1), slot k ≠ i) :
    lazyAt (entsAcc slot d []) i = .num 0 := by
  simp [lazyAt, entsAcc_lookup_other slot i d [] h, lookupN]

theorem mem_keys_of_mem {d : List (String × Val)} {k : String} {v : Val} (hm : (k, v) ∈ d) : k ∈ d.map (·.1) :=
  List.mem_map.mpr ⟨(k, v), hm, rfl⟩

/-- **distinct slots ⇒ distinct SparseDense rows**: under a slot function that is injective on the keys of two sparse rows (all slots
below `n`), the two dense rows compare exactly as the sparse rows did -/
theorem densify_rows_pyEq (slot : String → Nat) (n : Nat) (d1 d2 : List (String × Val))
    (w1 : sparseRowWf d1 = true) (w2 : sparseRowWf d2 = true)
    (hlt : ∀ k ∈ d1.map (·.1) ++ d2.map (·.1), slot k < n)
    (hinj : ∀ k ∈ d1.map (·.1) ++ d2.map (·.1), ∀ k' ∈ d1.map (·.1) ++ d2.map (·.1), slot k = slot k' → k = k') :
    pyEq (.lazy (entsAcc slot d1 []) n) (.lazy (entsAcc slot d2 []) n) = pyEq (.dict d1) (.dict d2) := by
  simp only [sparseRowWf, Bool.and_eq_true] at w1 w2
  obtain ⟨⟨u1, wf1⟩, nz1⟩ := w1
  obtain ⟨⟨u2, wf2⟩, nz2⟩ := w2
  have inj1 : ∀ k ∈ d1.map (·.1), ∀ k' ∈ d1.map (·.1), slot k = slot k' → k = k' :=
    fun k hk k' hk' e => hinj k (List.mem_append_left _ hk) k' (List.mem_append_left _ hk') e
  have inj2 : ∀ k ∈ d2.map (·.1), ∀ k' ∈ d2.map (·.1), slot k = slot k' → k = k' :=
    fun k hk k' hk' e => hinj k (List.mem_append_right _ hk) k' (List.mem_append_right _ hk') e
  have lw1 : lazyWf (entsAcc slot d1 []) n = true :=
    entsAcc_lazyWf slot n d1 [] (by simp [lazyWf, natKeysUniq]) wf1 (fun k hk => hlt k (List.mem_append_left _ hk))
  rw [Bool.eq_iff_iff, pyEq_lazy_lazy_iff _ _ n n lw1]
  simp only [pyEq, Bool.and_eq_true, beq_iff_eq, true_and]
  constructor
  · intro h
    -- every key of d1 is a key of d2 with an equal value
    have fwd : ∀ k v, (k, v) ∈ d1 → ∃ w, lookupS k d2 = some w ∧ pyEq v w = true := by
      intro k v hm
      have hk := mem_keys_of_mem hm
      have hi := h (slot k) (hlt k (List.mem_append_left _ hk))
      rw [lazyAt_entsAcc_mem slot d1 u1 inj1 hm] at hi
      by_cases hk2 : k ∈ d2.map (·.1)
      · obtain ⟨⟨k', w⟩, hmw, hk'⟩ := List.mem_map.mp hk2
        simp only at hk'; subst hk'
        rw [lazyAt_entsAcc_mem slot d2 u2 inj2 hmw] at hi
        exact ⟨w, lookupS_of_uniq d2 u2 k' w hmw, hi⟩
      · rw [lazyAt_entsAcc_other slot d2 (slot k) (fun k' hk' e => hk2 (by
          have := hinj k' (List.mem_append_right _ hk') k (List.mem_append_left _ hk) e
          exact this ▸ hk'))] at hi
        rw [pyEq_zero_num v (wfNoLazyD_mem d1 wf1 k v hm), noZeroD_mem nz1 hm] at hi
        cases hi
    have sub12 : ∀ k ∈ d1.map (·.1), k ∈ d2.map (·.1) := by
      intro k hk
      obtain ⟨⟨k', v⟩, hmv, hk'⟩ := List.mem_map.mp hk
      simp only at hk'; subst hk'
      obtain ⟨w, hw, _⟩ := fwd k' v hmv
      exact mem_keys_of_mem (lookupS_mem d2 k' w hw)
    have sub21 : ∀ k ∈ d2.map (·.1), k ∈ d1.map (·.1) := by
      intro k hk
      obtain ⟨⟨k', w⟩, hmw, hk'⟩ := List.mem_map.mp hk
      simp only at hk'; subst hk'
      apply Classical.byContradiction
      intro hn
      have hi := h (slot k') (hlt k' (List.mem_append_right _ hk))
      rw [lazyAt_entsAcc_mem slot d2 u2 inj2 hmw, lazyAt_entsAcc_other slot d1 (slot k') (fun k hk1 e => hn (by
          have := hinj k (List.mem_append_left _ hk1) k' (List.mem_append_right _ hk) e
          exact this ▸ hk1)), pyEq_num_zero, noZeroD_mem nz2 hmw] at hi
      cases hi
    refine ⟨?_, pyEqD_of_forall d1 d2 fwd⟩
    have a := uniq_subset_length _ _ u1 sub12
    have b := uniq_subset_length _ _ u2 sub21
    simp only [List.length_map] at a b
    omega
  · rintro ⟨hlen, hD⟩ i hi
    have sub12 : ∀ k ∈ d1.map (·.1), k ∈ d2.map (·.1) := by
      intro k hk
      obtain ⟨⟨k', v⟩, hmv, hk'⟩ := List.mem_map.mp hk
      simp only at hk'; subst hk'
      obtain ⟨w, hw, _⟩ := pyEqD_mem d1 d2 hD k' v hmv
      exact mem_keys_of_mem (lookupS_mem d2 k' w hw)
    have sub21 := uniq_subset_eq_length_superset _ _ u1 sub12 (by simpa using hlen)
    by_cases hex : ∃ k ∈ d1.map (·.1), slot k = i
    · obtain ⟨k, hk, rfl⟩ := hex
      obtain ⟨⟨k', v⟩, hmv, hk'⟩ := List.mem_map.mp hk
      simp only at hk'; subst hk'
      obtain ⟨w, hw, hvw⟩ := pyEqD_mem d1 d2 hD k' v hmv
      rw [lazyAt_entsAcc_mem slot d1 u1 inj1 hmv, lazyAt_entsAcc_mem slot d2 u2 inj2 (lookupS_mem d2 k' w hw)]
      exact hvw
    · have h1 : ∀ k ∈ d1.map (·.1), slot k ≠ i := fun k hk e => hex ⟨k, hk, e⟩
      have h2 : ∀ k ∈ d2.map (·.1), slot k ≠ i := fun k hk e => hex ⟨k, sub21 k hk, e⟩
      rw [lazyAt_entsAcc_other slot d1 i h1, lazyAt_entsAcc_other slot d2 i h2]
      simp [pyEq]

theorem makeDense_eq_denseOf (m : DMethod) (n : Nat) (T : List (String × Nat)) (st st' : DState) (v v' : Val)
    (h : makeDense m n st v = .ok (st', v')) (hT : ∀ k i, assocGet k (tableOf m st') = some i → assocGet k T = some i) :
    v' = denseOf T n v := by
  cases v with
  | dict d =>
    simp only [makeDense] at h
    cases hd : denseEntries m st d [] with
    | error e => simp [hd] at h
    | ok r =>
      obtain ⟨st1, out⟩ := r
      simp only [hd, Except.ok.injEq, Prod.mk.injEq] at h
      obtain ⟨h1, h2⟩ := h
      subst h1
      rw [← h2, denseEntries_eq_entsAcc m T st d [] st1 out hd hT]; rfl
  | _ => simp [makeDense] at h; simp [denseOf, h.2]

theorem makeDenseList_eq_map (m : DMethod) (n : Nat) (T : List (String × Nat)) : ∀ (st : DState) (vs : List Val) (st' : DState) (vs' : List Val),
    makeDenseList m n st vs = .ok (st', vs') → (∀ k i, assocGet k (tableOf m st') = some i → assocGet k T = some i) →
    vs' = vs.map (denseOf T n)
  | st, [], st', vs', h, _ => by simp [makeDenseList] at h; simp [h.2]
  | st, v :: vs, st', vs', h, hT => by
    simp only [makeDenseList] at h
    cases h1 : makeDense m n st v with
    | error e => simp [h1] at h
    | ok r1 =>
      obtain ⟨st1, v1⟩ := r1
      simp only [h1] at h
      cases h2 : makeDenseList m n st1 vs with
      | error e => simp [h2] at h
      | ok r2 =>
        obtain ⟨st2, vs2⟩ := r2
        simp only [h2, Except.ok.injEq, Prod.mk.injEq] at h
        obtain ⟨e1, e2⟩ := h
        subst e1
        have hmono := tableOf_mono m _ st1 st2 (makeDenseList_state m n st1 vs st2 vs2 h2)
        rw [← e2, List.map_cons, makeDense_eq_denseOf m n T st st1 v v1 h1 (fun k i hk => hT k i (hmono k i hk)),
          makeDenseList_eq_map m n T st1 vs st2 vs2 h2 hT]

theorem keysOfVals_mem : ∀ (as : List Val) (j : Nat) (d : List (String × Val)), as[j]? = some (.dict d) →
    ∀ k ∈ d.map (·.1), k ∈ keysOfVals as
  | [], j, d, h, _, _ => by simp at h
  | a :: as, 0, d, h, k, hk => by
    simp at h; subst h
    simp only [keysOfVals, keysOfVal, List.mem_append]; exact Or.inl hk
  | a :: as, j + 1, d, h, k, hk => by
    simp at h
    simp only [keysOfVals, List.mem_append]; exact Or.inr (keysOfVals_mem as j d h k hk)

/-- Densify on an action set of sparse rows: if the table gives the keys of the set pairwise different slots below `n_feats`, the dense
rows form a set again -/
theorem densify_actions_distinct' (m : DMethod) (n : Nat) (st st' : DState) (as as' : List Val)
    (hrun : makeDenseList m n st as = .ok (st', as')) (hrows : sparseRowsB as = true)
    (hslots : slotsInjB (tableOf m st') (keysOfVals as) n = true) (hd : Distinct as) : Distinct as' := by
  have hmap := makeDenseList_eq_map m n (tableOf m st') st as st' as' hrun (fun _ _ h => h)
  obtain ⟨hlt, hinj⟩ := slotsInjB_spec hslots
  subst hmap
  intro i j a' b' hi hj
  simp only [List.getElem?_map, Option.map_eq_some_iff] at hi hj
  obtain ⟨a, hia, rfl⟩ := hi
  obtain ⟨b, hjb, rfl⟩ := hj
  simp only [sparseRowsB, List.all_eq_true] at hrows
  have ra := hrows a (List.mem_of_getElem? hia)
  have rb := hrows b (List.mem_of_getElem? hjb)
  cases a with
  | dict d1 =>
    cases b with
    | dict d2 =>
      simp only at ra rb
      have k1 := keysOfVals_mem as i d1 hia
      have k2 := keysOfVals_mem as j d2 hjb
      have hsub : ∀ k ∈ d1.map (·.1) ++ d2.map (·.1), k ∈ keysOfVals as := fun k hk => by
        rcases List.mem_append.mp hk with h | h
        · exact k1 k h
        · exact k2 k h
      simp only [denseOf]
      rw [densify_rows_pyEq (slotFn (tableOf m st')) n d1 d2 ra rb (fun k hk => hlt k (hsub k hk))
        (fun k hk k' hk' e => hinj k (hsub k hk) k' (hsub k' hk') e)]
      exact hd i j _ _ hia hjb
    | _ => simp at rb
  | _ => simp at ra



/-! ### Densify(action=True) on sparse actions, end to end -/

theorem denseOf_map_distinct (T : List (String × Nat)) (n : Nat) (as : List Val) (hrows : sparseRowsB as = true)
    (hslots : slotsInjB T (keysOfVals as) n = true) (hd : Distinct as) : Distinct (as.map (denseOf T n)) := by
  obtain ⟨hlt, hinj⟩ := slotsInjB_spec hslots
  intro i j a' b' hi hj
  simp only [List.getElem?_map, Option.map_eq_some_iff] at hi hj
  obtain ⟨a, hia, rfl⟩ := hi
  obtain ⟨b, hjb, rfl⟩ := hj
  simp only [sparseRowsB, List.all_eq_true] at hrows
  have ra := hrows a (List.mem_of_getElem? hia)
  have rb := hrows b (List.mem_of_getElem? hjb)
  cases a with
  | dict d1 =>
    cases b with
    | dict d2 =>
      simp only at ra rb
      have k1 := keysOfVals_mem as i d1 hia
      have k2 := keysOfVals_mem as j d2 hjb
      have hsub : ∀ k ∈ d1.map (·.1) ++ d2.map (·.1), k ∈ keysOfVals as := fun k hk => by
        rcases List.mem_append.mp hk with h | h
        · exact k1 k h
        · exact k2 k h
      simp only [denseOf]
      rw [densify_rows_pyEq (slotFn T) n d1 d2 ra rb (fun k hk => hlt k (hsub k hk))
        (fun k hk k' hk' e => hinj k (hsub k hk) k' (hsub k' hk') e)]
      exact hd i j _ _ hia hjb
    | _ => simp at rb
  | _ => simp at ra

theorem densify_target (b : Prop) [Decidable b] (r : Rew) (o o' : List Val) (hd : distinctB o' = true)
    (hkeep : ¬ b → obsEq (obsOf r o) (obsOf r o') = true) :
    targetHypB (if b then .generic else .keep) (some r) o o' = true := by
  by_cases hb : b
  · simp [hb, targetHypB, hd]
  · simp [hb, targetHypB, hkeep hb]

theorem densify_run_hyp (m : DMethod) (n : Nat) (c rC fC : Bool) (T : List (String × Nat)) :
    ∀ (s : List Inter) (st : DState) (ps : List Plan) (stEnd : DState),
    densifyRun Cfg.fixed m n c true rC fC st s = .ok (ps, stEnd) →
    (∀ k i, assocGet k (tableOf m stEnd) = some i → assocGet k T = some i) →
    (∀ I ∈ s, alignedB I I = true) → (∀ I ∈ s, densifyInterHypB T n rC fC I = true) → plansHypB s ps = true
  | [], st, ps, stEnd, h, _, _, _ => by simp [densifyRun] at h; rw [h.1]; rfl
  | I :: rest, st, ps, stEnd, h, hT, hself, hall => by
    simp only [densifyRun] at h
    cases h1 : (if c then makeDense m n st I.context else .ok (st, I.context)) with
    | error e => simp [h1] at h
    | ok r1 =>
      obtain ⟨st1, ctx⟩ := r1
      simp only [h1] at h
      have hII := hself I (by simp)
      simp only [alignedB, Bool.and_eq_true] at hII
      obtain ⟨⟨⟨⟨hIr, hIf⟩, _⟩, _⟩, _⟩ := hII
      have hI := hall I (by simp)
      simp only [densifyInterHypB, Bool.and_eq_true] at hI
      obtain ⟨⟨hRc, hFc⟩, hA⟩ := hI
      cases hacts : I.actions with
      | none =>
        simp only [hacts] at h
        split at h
        · simp at h
        · rename_i st3 act h3
          split at h
          · simp at h
          · rename_i ps' stE h4
            simp only [Except.ok.injEq, Prod.mk.injEq] at h
            obtain ⟨hp, hst⟩ := h
            subst hst
            rw [← hp]
            simp only [plansHypB, Bool.and_eq_true]
            refine ⟨?_, densify_run_hyp m n c rC fC T rest st3 ps' stE h4 hT (fun J hJ => hself J (by simp [hJ])) (fun J hJ => hall J (by simp [hJ]))⟩
            simp [planHypB, hacts]
      | some o =>
        simp only [hacts] at h hA
        simp only [Bool.and_eq_true] at hA
        obtain ⟨⟨⟨hrows, hdist⟩, hslots⟩, hlog⟩ := hA
        cases h2 : makeDenseList m n st1 o with
        | error e => simp [h2] at h
        | ok r2 =>
          obtain ⟨st2, o'⟩ := r2
          simp only [h2] at h
          split at h
          · simp at h
          · rename_i st3 act h3
            split at h
            · simp at h
            · rename_i ps' stE h4
              simp only [Except.ok.injEq, Prod.mk.injEq] at h
              obtain ⟨hp, hst⟩ := h
              subst hst
              rw [← hp]
              have m34 := tableOf_mono m _ st3 stE (densifyRun_state Cfg.fixed m n c true rC fC rest st3 ps' stE h4)
              -- the logged action and the table between st2 and st3
              have hact : (∀ k i, assocGet k (tableOf m st2) = some i → assocGet k (tableOf m st3) = some i) ∧
                  act = I.action.map (denseOf T n) := by
                cases ha : I.action with
                | none => simp [ha] at h3; exact ⟨fun k i hk => by rw [← h3.1]; exact hk, by rw [← h3.2]; rfl⟩
                | some x =>
                  simp only [ha] at h3
                  cases hx : makeDense m n st2 x with
                  | error e => simp [hx] at h3
                  | ok rx =>
                    obtain ⟨stx, x'⟩ := rx
                    simp only [hx, Except.ok.injEq, Prod.mk.injEq] at h3
                    obtain ⟨e1, e2⟩ := h3
                    subst e1
                    refine ⟨tableOf_mono m _ st2 stx (makeDense_state m n st2 stx x x' hx), ?_⟩
                    rw [← e2, makeDense_eq_denseOf m n T st2 stx x x' hx (fun k i hk => hT k i (m34 k i hk))]; rfl
              obtain ⟨m23, hactEq⟩ := hact
              have ho' : o' = o.map (denseOf T n) :=
                makeDenseList_eq_map m n T st1 o st2 o' h2 (fun k i hk => hT k i (m34 k i (m23 k i hk)))
              have hdn : Distinct o' := by
                rw [ho']; exact denseOf_map_distinct T n o hrows hslots ((distinctB_iff _).mp hdist)
              have hd : distinctB o' = true := (distinctB_iff _).mpr hdn
              have hlen : o.length = o'.length := by rw [ho']; simp
              simp only [plansHypB, Bool.and_eq_true]
              refine ⟨?_, densify_run_hyp m n c rC fC T rest st3 ps' stE h4 hT (fun J hJ => hself J (by simp [hJ])) (fun J hJ => hall J (by simp [hJ]))⟩
              simp only [planHypB, hacts, Bool.and_eq_true, beq_iff_eq]
              refine ⟨⟨⟨hlen, ?_⟩, ?_⟩, ?_⟩
              · cases hr : I.rewards with
                | none => simp [targetHypB]
                | some r =>
                  simp only [hr, Bool.or_eq_true, Bool.not_eq_true'] at hRc
                  refine densify_target _ r o o' hd (fun hnb => ?_)
                  rcases hRc with hnc | hrc
                  · cases r with
                    | seq b rs => simp [obsOf_seq, obsEq_ok_self]
                    | _ => simp [Rew.isCallable] at hnc
                  · have hany : o.any isDict = false := by
                      cases hq : o.any isDict with
                      | false => rfl
                      | true => exact absurd ⟨⟨⟨rfl, trivial⟩, hq⟩, hrc⟩ hnb
                    have : o = [] := by
                      cases o with
                      | nil => rfl
                      | cons x xs =>
                        simp only [sparseRowsB, List.all_cons, Bool.and_eq_true] at hrows
                        simp only [List.any_cons, Bool.or_eq_false_iff] at hany
                        cases x <;> simp_all [isDict]
                    subst this
                    have : o' = [] := by simpa using ho'
                    subst this
                    simpa [obsRewards, hr, hacts, optObsEq] using hIr
              · cases hf : I.feedbacks with
                | none => simp [targetHypB]
                | some r =>
                  simp only [hf, Bool.or_eq_true, Bool.not_eq_true'] at hFc
                  refine densify_target _ r o o' hd (fun hnb => ?_)
                  rcases hFc with hnc | hrc
                  · cases r with
                    | seq b rs => simp [obsOf_seq, obsEq_ok_self]
                    | _ => simp [Rew.isCallable] at hnc
                  · have hany : o.any isDict = false := by
                      cases hq : o.any isDict with
                      | false => rfl
                      | true => exact absurd ⟨⟨⟨rfl, trivial⟩, hq⟩, hrc⟩ hnb
                    have : o = [] := by
                      cases o with
                      | nil => rfl
                      | cons x xs =>
                        simp only [sparseRowsB, List.all_cons, Bool.and_eq_true] at hrows
                        simp only [List.any_cons, Bool.or_eq_false_iff] at hany
                        cases x <;> simp_all [isDict]
                    subst this
                    have : o' = [] := by simpa using ho'
                    subst this
                    simpa [obsFeedbacks, hf, hacts, optObsEq] using hIf
              · unfold loggedHypB
                rw [hactEq]
                cases ha : I.action with
                | none => simp
                | some x =>
                  simp only [ha, Option.map_some] at hlog ⊢
                  cases hk : indexOf o x with
                  | none => simp
                  | some k =>
                    simp only [hk] at hlog ⊢
                    cases hb : o[k]? with
                    | none => simp [hb] at hlog
                    | some b =>
                      simp only [hb] at hlog
                      have := Val.same_sound b x hlog
                      subst this
                      simp [ho' ▸ hd, ho', hb, Val.same_refl]

theorem densifyTable_spec (m : DMethod) (n : Nat) (c a : Bool) (s : List Inter) (st1 stEnd : DState)
    (hprime : (match m with | .lookup prior => primeKeys (.lookup []) (initDState n) prior | _ => .ok (initDState n)) = .ok st1)
    (hst : primeKeys (normMethod m) st1 (keysAsked c a s) = .ok stEnd) :
    tableOf (normMethod m) stEnd = densifyTable m n c a s := by
  cases m with
  | hashing t => simp [normMethod, tableOf, densifyTable]
  | lookup prior =>
    have hst' : primeKeys (.lookup []) st1 (keysAsked c a s) = .ok stEnd := hst
    simp only at hprime
    simp [normMethod, tableOf, densifyTable, primeKeys_append, hprime, hst']

/-- **Densify(action=True) on sparse actions, end to end (repaired code)** -/
theorem densify_sparse_aligned' (m : DMethod) (n : Nat) (c : Bool) (s s' : List Inter)
    (hh : densifySparseHypB (densifyTable m n c true s) n s = true)
    (hrun : runPrim Cfg.fixed (.densify n m c true) s = .ok s') : alignedStreamB s s' = true := by
  simp only [densifySparseHypB, Bool.and_eq_true, List.all_eq_true] at hh
  obtain ⟨hself, hall⟩ := hh
  simp only [runPrim, plansOf, densifyPlans] at hrun
  split at hrun
  · simp at hrun
  · rename_i ps hps
    split at hps
    · simp at hps
    · rename_i st1 hprime
      split at hps
      · rename_i ps0 stEnd hgo
        simp only [Except.ok.injEq] at hps
        subst hps
        refine applyPlans_aligned ?_ hrun
        have hT := densifyTable_spec m n c true s st1 stEnd hprime (densifyRun_state _ _ _ _ _ _ _ s st1 ps0 stEnd hgo)
        exact densify_run_hyp (normMethod m) n c _ _ _ s st1 ps0 stEnd hgo (fun k i hk => by rw [← hT]; exact hk)
          (alignedStreamB_self_mem hself) hall
      · simp at hps



/-! ### translator tie: Repr's mode names and EncodeCatRows' dispatch on them -/

theorem repr_modes_match_source' :
    Coba.Generated.C10.reprContextModes = allModes.map modeName ∧ Coba.Generated.C10.reprActionModes = allModes.map modeName ∧
    Coba.Generated.C10.encodeModes = allModes.map modeName ∧
    (∀ m : Mode, Coba.Generated.C10.valuesBranch (modeName m) = valuesBranch m) ∧
    (∀ m : Mode, Coba.Generated.C10.collBranch (modeName m) = collBranch m) := by
  refine ⟨by decide +kernel, by decide +kernel, by decide +kernel, fun m => ?_, fun m => ?_⟩ <;> cases m <;> decide +kernel

theorem modeOfName_modeName (m : Mode) : modeOfName (modeName m) = some m := by cases m <;> decide +kernel

theorem modeOfName_sound (s : String) (m : Mode) (h : modeOfName s = some m) : s = modeName m := by
  unfold modeOfName at h
  by_cases h1 : s = "onehot"
  · subst h1; simp at h; subst h; rfl
  · by_cases h2 : s = "onehot_tuple"
    · subst h2; simp at h; subst h; rfl
    · by_cases h3 : s = "string"
      · subst h3; simp at h; subst h; rfl
      · simp [h1, h2, h3] at h

theorem encodeValue_branch (m : Mode) (v : Val) :
    encodeValue m v = if valuesBranch m = "str" then strOf v
                      else (match onehotOf v with | .ok h => .ok (.tuple h) | .error e => .error e) := by
  cases m <;> simp [encodeValue, valuesBranch] <;> cases onehotOf v <;> rfl

theorem collBranch_injective (m m' : Mode) (h : collBranch m = collBranch m') : m = m' := by
  cases m <;> cases m' <;> simp [collBranch] at h <;> rfl

theorem encodeAt_string_iff (m : Mode) : collBranch m = "str" ↔ m = .string := by cases m <;> simp [collBranch]
theorem encodeAt_flat_iff (m : Mode) : collBranch m = "flat" ↔ m = .onehot := by cases m <;> simp [collBranch]

/-! ## Phase 6: option handling (constructor calls with arguments left out) -/

theorem option_defaults_match_source' :
    Coba.Generated.C10.sparsifyInitDefaults = [(sparsifyDefaults .filter).1, (sparsifyDefaults .filter).2] ∧
    Coba.Generated.C10.envSparseDefaults = [(sparsifyDefaults .env).1, (sparsifyDefaults .env).2] ∧
    Coba.Generated.C10.densifyInitFlagDefaults = [(densifyFlagDefaults .filter).1, (densifyFlagDefaults .filter).2] ∧
    Coba.Generated.C10.envDenseFlagDefaults = [(densifyFlagDefaults .env).1, (densifyFlagDefaults .env).2] ∧
    Coba.Generated.C10.densifyInitN = densifyDefaultN ∧ Coba.Generated.C10.densifyInitMethod = densifyDefaultMethod ∧
    Coba.Generated.C10.densifyMethodNames = densifyMethodNames ∧
    Coba.Generated.C10.reprInitDefaults = [optModeName (reprDefaults .filter).1, optModeName (reprDefaults .filter).2] ∧
    Coba.Generated.C10.envReprDefaults = [optModeName (reprDefaults .env).1, optModeName (reprDefaults .env).2] ∧
    Coba.Generated.C10.cycleInitAfter = cycleDefaultAfter ∧
    Coba.Generated.C10.envSparsePasses = ["context", "action"] ∧
    Coba.Generated.C10.envDensePasses = ["n_feats=n_feats", "method=method", "context=context", "action=action"] ∧
    Coba.Generated.C10.envReprPasses = ["cat_context", "cat_actions"] := by decide +kernel

theorem method_dispatch_matches_source' (m : String) : Coba.Generated.C10.densifyBranch m = methodBranch m := rfl

theorem methodOfName_lookup_iff' (m : String) (prior : List String) (tbl : List (String × Nat)) :
    (methodOfName m prior tbl = .lookup prior ↔ m = "lookup") ∧ (m ≠ "lookup" → methodOfName m prior tbl = .hashing tbl) := by
  unfold methodOfName methodBranch
  by_cases h : m = "lookup"
  · subst h; simp
  · simp [h]

theorem default_ctor_steps' (k : Ctor) (prior : List String) (tbl : List (String × Nat)) :
    mkSparsify k none none = .sparsify true false ∧
    mkDensify k none none none none prior tbl = .densify 400 (.lookup prior) true false ∧
    mkRepr .filter none none = .repr none none ∧
    [Step.harden, mkRepr .env none none, .wrapSeqs] = expandStep .finalize ∧
    mkCycle none = .cycle 0 := by
  cases k <;> refine ⟨rfl, ?_, rfl, rfl, rfl⟩ <;> simp [mkDensify, methodOfName, methodBranch, densifyDefaultMethod, densifyDefaultN, densifyFlagDefaults]

/-- a plan that leaves everything but the context as it is -/
def keepsNonContext (I : Inter) (p : Plan) : Prop :=
  p.actions = I.actions ∧ p.action = I.action ∧ p.polR = .keep ∧ p.polF = .keep

inductive KeepsAll : List Inter → List Plan → Prop
  | nil : KeepsAll [] []
  | cons {I p is ps} : keepsNonContext I p → KeepsAll is ps → KeepsAll (I :: is) (p :: ps)

theorem applyPlans_keepsNonContext : ∀ (s : List Inter) (ps : List Plan) (s' : List Inter),
    KeepsAll s ps → applyPlans s ps = .ok s' → s'.map nonContext = s.map nonContext
  | [], [], s', _, h => by simp [applyPlans] at h; subst h; rfl
  | I :: is, p :: ps, s', hk, h => by
    cases hk with
    | cons h1 h2 =>
      obtain ⟨ha, hb, hr, hf⟩ := h1
      simp only [applyPlans, applyPlan, hr, hf, rekeyOpt] at h
      cases hrec : applyPlans is ps with
      | error e => simp [hrec] at h
      | ok js =>
        simp [hrec] at h
        subst h
        have ih := applyPlans_keepsNonContext is ps js h2 hrec
        simp [nonContext, ha, hb] at ih ⊢
        exact ih
  | [], _ :: _, _, hk, _ => by cases hk
  | _ :: _, [], _, hk, _ => by cases hk

theorem forall₂_map_keeps (f : Inter → Plan) (hf : ∀ I, keepsNonContext I (f I)) : ∀ s : List Inter, KeepsAll s (s.map f)
  | [] => .nil
  | I :: is => .cons (hf I) (forall₂_map_keeps f hf is)

theorem sparsify_noaction_context_only' (cfg : Cfg) (c : Bool) (s s' : List Inter)
    (hrun : runPrim cfg (.sparsify c false) s = .ok s') : s'.map nonContext = s.map nonContext := by
  simp only [runPrim, plansOf, sparsifyPlans] at hrun
  refine applyPlans_keepsNonContext s _ s' (forall₂_map_keeps _ ?_ s) hrun
  intro I
  simp [keepsNonContext]

theorem densifyRun_noaction_keeps (cfg : Cfg) (m : DMethod) (n : Nat) (c rC fC : Bool) :
    ∀ (s : List Inter) (st st' : DState) (ps : List Plan),
    densifyRun cfg m n c false rC fC st s = .ok (ps, st') → KeepsAll s ps
  | [], st, st', ps, h => by simp [densifyRun] at h; rw [h.1]; exact .nil
  | I :: rest, st, st', ps, h => by
    simp only [densifyRun] at h
    split at h
    · simp at h
    · rename_i st1 ctx _
      cases hrec : densifyRun cfg m n c false rC fC st1 rest with
      | error e => simp [hrec] at h
      | ok r =>
        obtain ⟨ps', stE⟩ := r
        simp [hrec] at h
        rw [← h.1]
        exact .cons (by simp [keepsNonContext]) (densifyRun_noaction_keeps cfg m n c rC fC rest st1 stE ps' hrec)

theorem densify_noaction_context_only' (cfg : Cfg) (n : Nat) (m : DMethod) (c : Bool) (s s' : List Inter)
    (hrun : runPrim cfg (.densify n m c false) s = .ok s') : s'.map nonContext = s.map nonContext := by
  simp only [runPrim, plansOf, densifyPlans] at hrun
  split at hrun
  · simp at hrun
  · rename_i ps hps
    split at hps
    · simp at hps
    · rename_i st1 _
      split at hps
      · rename_i ps' stE hr
        simp at hps; subst hps
        exact applyPlans_keepsNonContext s _ s' (densifyRun_noaction_keeps cfg _ n c _ _ s st1 stE _ hr) hrun
      · simp at hps

/-- default-constructed `Sparsify()` / `Densify()` (the `action` flag left out), through either constructor, with every choice of the other
arguments, for every `Cfg` and every stream: only contexts change -/
theorem default_action_flag_context_only' (cfg : Cfg) (k : Ctor) (c : Option Bool) (n : Option Nat) (m : Option String)
    (prior : List String) (tbl : List (String × Nat)) (s s' : List Inter) :
    (runPrim cfg (mkSparsify k c none) s = .ok s' → s'.map nonContext = s.map nonContext) ∧
    (runPrim cfg (mkDensify k n m c none prior tbl) s = .ok s' → s'.map nonContext = s.map nonContext) := by
  constructor
  · intro h
    have : mkSparsify k c none = .sparsify (c.getD (sparsifyDefaults k).1) false := by cases k <;> rfl
    rw [this] at h
    exact sparsify_noaction_context_only' cfg _ s s' h
  · intro h
    have : mkDensify k n m c none prior tbl = .densify (n.getD densifyDefaultN) (methodOfName (m.getD densifyDefaultMethod) prior tbl) (c.getD (densifyFlagDefaults k).1) false := by
      cases k <;> rfl
    rw [this] at h
    exact densify_noaction_context_only' cfg _ _ _ s s' h

/-! ## Phase 6: histories of reads of one Densify object -/

theorem runPrimObj_lookup_irrel (cfg : Cfg) (n : Nat) (p q : List String) (c a : Bool) (T : DState) (A : List Inter) :
    runPrimObj cfg (.densify n (.lookup p) c a) T A = runPrimObj cfg (.densify n (.lookup q) c a) T A := by
  simp only [runPrimObj]

theorem runObjHistory_lookup_irrel (cfg : Cfg) (n : Nat) (p q : List String) (c a : Bool) : ∀ (hist : List (List Inter)) (T : DState),
    runObjHistory cfg (.densify n (.lookup p) c a) T hist = runObjHistory cfg (.densify n (.lookup q) c a) T hist
  | [], T => rfl
  | A :: rest, T => by
    simp only [runObjHistory, runPrimObj_lookup_irrel cfg n p q c a T A]
    cases runPrimObj cfg (.densify n (.lookup q) c a) T A with
    | error e => rfl
    | ok r => exact runObjHistory_lookup_irrel cfg n p q c a rest r.2

theorem densify_history_eq_prior' (cfg : Cfg) (n : Nat) (c a : Bool) (B : List Inter) : ∀ (hist : List (List Inter)) (p : List String) (T : DState),
    primeKeys (.lookup []) (initDState n) p = .ok T →
    (∃ T', runObjHistory cfg (.densify n (.lookup p) c a) T hist = .ok T') →
    runObjAfter cfg (.densify n (.lookup p) c a) T hist B = runPrim cfg (.densify n (.lookup (p ++ historyKeys c a hist)) c a) B
  | [], p, T, hT, _ => by
    simp only [runObjAfter, runObjHistory, historyKeys, List.append_nil, runPrimObj, runPrim, plansOf, densifyPlans, hT, normMethod]
    cases densifyRun cfg (.lookup []) n c a (firstCallable (·.rewards) B) (firstCallable (·.feedbacks) B) T B with
    | error e => rfl
    | ok rb =>
      obtain ⟨psB, T2⟩ := rb
      simp only
      cases applyPlans B psB <;> rfl
  | A :: rest, p, T, hT, ⟨T', hH⟩ => by
    simp only [runObjHistory] at hH
    cases hA : runPrimObj cfg (.densify n (.lookup p) c a) T A with
    | error e => simp [hA] at hH
    | ok r =>
      obtain ⟨a', T1⟩ := r
      simp only [hA] at hH
      have hprime : primeKeys (.lookup []) (initDState n) (p ++ keysAsked c a A) = .ok T1 := by
        simp only [runPrimObj] at hA
        cases hda : densifyRun cfg (.lookup []) n c a (firstCallable (·.rewards) A) (firstCallable (·.feedbacks) A) T A with
        | error e => simp [hda] at hA
        | ok ra =>
          obtain ⟨psA, T1'⟩ := ra
          simp only [hda] at hA
          cases hap : applyPlans A psA with
          | error e => simp [hap] at hA
          | ok a'' =>
            simp [hap] at hA
            have hk := densifyRun_state cfg (.lookup []) n c a _ _ A T psA T1' hda
            rw [primeKeys_append, hT, ← hA.2]; exact hk
      have ih := densify_history_eq_prior' cfg n c a B rest (p ++ keysAsked c a A) T1 hprime
        ⟨T', by rw [runObjHistory_lookup_irrel cfg n _ p c a rest T1]; exact hH⟩
      simp only [historyKeys, ← List.append_assoc]
      rw [← ih]
      simp only [runObjAfter, runObjHistory, hA]
      rw [runObjHistory_lookup_irrel cfg n p (p ++ keysAsked c a A) c a rest T1]
      cases runObjHistory cfg (.densify n (.lookup (p ++ keysAsked c a A)) c a) T1 rest with
      | error e => rfl
      | ok T'' => simp only [runPrimObj_lookup_irrel cfg n p (p ++ keysAsked c a A) c a T'' B]

/-! ## Phase 6 (round i): no state across the interactions of one stream in the re-keying -/

theorem applyPlans_local' : ∀ (s : List Inter) (ps : List Plan) (s' : List Inter), applyPlans s ps = .ok s' →
    ∀ (k : Nat) (I : Inter), s[k]? = some I → ∃ p J, ps[k]? = some p ∧ s'[k]? = some J ∧ applyPlan I p = .ok J
  | [], [], _, _, k, I, hk => by simp at hk
  | [], _ :: _, _, h, _, _, _ => by simp [applyPlans] at h
  | _ :: _, [], _, h, _, _, _ => by simp [applyPlans] at h
  | i :: is, p :: ps, s', h, k, I, hk => by
    simp only [applyPlans] at h
    cases hj : applyPlan i p with
    | error e => simp [hj] at h
    | ok j =>
      cases hr : applyPlans is ps with
      | error e => simp [hj, hr] at h
      | ok js =>
        simp [hj, hr] at h
        subst h
        cases k with
        | zero => simp at hk; subst hk; exact ⟨p, j, by simp, by simp, hj⟩
        | succ k =>
          simp at hk
          obtain ⟨p', J, h1, h2, h3⟩ := applyPlans_local' is ps js hr k I hk
          exact ⟨p', J, by simpa using h1, by simpa using h2, h3⟩

/-- no state across the interactions of a stream in the re-keying -/
theorem rekey_local' (cfg : Cfg) (st : Step) (s s' : List Inter) (h : runPrim cfg st s = .ok s') (k : Nat) (I : Inter) (hk : s[k]? = some I) :
    ∃ J pR pF, s'[k]? = some J ∧ rekeyOpt pR I.rewards I.actions J.actions = .ok J.rewards ∧
      rekeyOpt pF I.feedbacks I.actions J.actions = .ok J.feedbacks ∧ J.reward = I.reward ∧ J.probability = I.probability := by
  simp only [runPrim] at h
  cases hp : plansOf cfg st s with
  | error e => simp [hp] at h
  | ok ps =>
    simp only [hp] at h
    obtain ⟨p, J, _, h2, h3⟩ := applyPlans_local' s ps s' h k I hk
    simp only [applyPlan] at h3
    cases hR : rekeyOpt p.polR I.rewards I.actions p.actions with
    | error e => simp [hR] at h3
    | ok r' =>
      cases hF : rekeyOpt p.polF I.feedbacks I.actions p.actions with
      | error e => simp [hR, hF] at h3
      | ok f' =>
        simp [hR, hF] at h3
        subst h3
        exact ⟨_, p.polR, p.polF, h2, hR, hF, rfl, rfl⟩

end Coba.C10
