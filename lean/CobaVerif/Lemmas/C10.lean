import CobaVerif.Model.C10
namespace Coba.C10

/-- pairwise distinct under Python `==`, every element equal to itself -/
def Distinct (as : List Val) : Prop :=
  ∀ (i j : Nat) (a b : Val), as[i]? = some a → as[j]? = some b → pyEq a b = (i == j)

theorem distinctB_iff (as : List Val) : distinctB as = true ↔ Distinct as := by
  unfold distinctB Distinct
  constructor
  · intro h i j a b hi hj
    have hi' : i < as.length := by
      rcases Nat.lt_or_ge i as.length with h' | h'
      · exact h'
      · simp [List.getElem?_eq_none h'] at hi
    have hj' : j < as.length := by
      rcases Nat.lt_or_ge j as.length with h' | h'
      · exact h'
      · simp [List.getElem?_eq_none h'] at hj
    rw [List.all_eq_true] at h
    have h1 := h i (List.mem_range.mpr hi')
    rw [List.all_eq_true] at h1
    have h2 := h1 j (List.mem_range.mpr hj')
    simp only [hi, hj] at h2
    simpa using h2
  · intro h
    rw [List.all_eq_true]
    intro i hi
    rw [List.all_eq_true]
    intro j hj
    have hi' := List.mem_range.mp hi
    have hj' := List.mem_range.mp hj
    have e1 : as[i]? = some as[i] := List.getElem?_eq_getElem hi'
    have e2 : as[j]? = some as[j] := List.getElem?_eq_getElem hj'
    simp only [e1, e2]
    have := h i j _ _ e1 e2
    simp [this]

theorem indexOfFrom_spec (a : Val) : ∀ (xs : List Val) (off i : Nat) (x : Val),
    xs[i]? = some x → pyEq x a = true → (∀ j y, j < i → xs[j]? = some y → pyEq y a = false) →
    indexOfFrom a xs off = some (off + i) := by
  intro xs
  induction xs with
  | nil => intro off i x h; simp at h
  | cons y ys ih =>
    intro off i x h hx hlt
    cases i with
    | zero =>
      simp at h
      subst h
      simp [indexOfFrom, hx]
    | succ i =>
      have h0 := hlt 0 y (Nat.succ_pos i) (by simp)
      simp only [indexOfFrom, h0]
      simp at h
      have := ih (off + 1) i x h hx (fun j z hj hz => hlt (j + 1) z (by omega) (by simpa using hz))
      simp [this]; omega

theorem indexOf_of_distinct {as : List Val} (hd : Distinct as) {i : Nat} {a : Val} (h : as[i]? = some a) :
    indexOf as a = some i := by
  have := indexOfFrom_spec a as 0 i a h (by simpa using hd i i a a h h)
    (fun j y hj hy => by have := hd j i y a hy h; simp [this]; omega)
  simpa [indexOf] using this


/-! ### DiscreteReward look-up -/

theorem callRew_discrete_of_distinct {as : List Val} {rs : List Rat} (d : Rat) (hd : Distinct as)
    {i : Nat} {a : Val} {x : Rat} (h : as[i]? = some a) (hx : rs[i]? = some x) :
    callRew (.discrete as rs d false) a = .ok x := by
  simp [callRew, indexOf_of_distinct hd h, hx]

theorem map_discrete_aux (as : List Val) (rs : List Rat) (d : Rat) (hd : Distinct as) :
    ∀ (suf : List Val) (pre : List Val) (rsuf : List Rat), as = pre ++ suf → rs.drop pre.length = rsuf →
      suf.length = rsuf.length →
      suf.map (callRew (.discrete as rs d false)) = rsuf.map Except.ok := by
  intro suf
  induction suf with
  | nil => intro pre rsuf _ _ hl; cases rsuf <;> simp_all
  | cons a suf ih =>
    intro pre rsuf has hrs hl
    cases rsuf with
    | nil => simp at hl
    | cons x rsuf =>
      have hget : as[pre.length]? = some a := by subst has; simp
      have hx : rs[pre.length]? = some x := by
        have : (rs.drop pre.length)[0]? = some x := by rw [hrs]; rfl
        simpa using this
      have hrest := ih (pre ++ [a]) rsuf (by subst has; simp) (by
        have : rs.drop (pre.length + 1) = (rs.drop pre.length).drop 1 := by simp [List.drop_drop]
        simp [this, hrs]) (by simpa using hl)
      simp [callRew_discrete_of_distinct d hd hget hx, hrest]

/-- `[DiscreteReward(as, rs)(a) for a in as] = rs` for pairwise distinct `as` -/
theorem obsOf_discrete {as : List Val} {rs : List Rat} (d : Rat) (hd : Distinct as) (hl : as.length = rs.length) :
    obsOf (.discrete as rs d false) as = rs.map Except.ok := by
  simpa [obsOf] using map_discrete_aux as rs d hd as [] rs rfl rfl hl


/-! ### the observable -/

theorem obsEq_iff (a b : List (Except Err Rat)) :
    obsEq a b = true ↔ ∃ rs : List Rat, a = rs.map Except.ok ∧ b = rs.map Except.ok := by
  induction a generalizing b with
  | nil =>
    cases b with
    | nil => simp [obsEq]
    | cons y ys =>
      simp only [obsEq]
      constructor
      · intro h; cases h
      · rintro ⟨rs, h1, h2⟩
        cases rs <;> simp at h1 h2
  | cons x xs ih =>
    cases b with
    | nil =>
      cases x <;> simp only [obsEq]
      all_goals
        constructor
        · intro h; cases h
        · rintro ⟨rs, h1, h2⟩
          cases rs <;> simp at h1 h2
    | cons y ys =>
      cases x with
      | error e =>
        simp only [obsEq]
        constructor
        · intro h; cases h
        · rintro ⟨rs, h1, _⟩
          cases rs <;> simp at h1
      | ok p =>
        cases y with
        | error e =>
          simp only [obsEq]
          constructor
          · intro h; cases h
          · rintro ⟨rs, _, h2⟩
            cases rs <;> simp at h2
        | ok q =>
          simp only [obsEq, Bool.and_eq_true, beq_iff_eq, ih]
          constructor
          · rintro ⟨hpq, rs, h1, h2⟩
            exact ⟨p :: rs, by simp [h1], by simp [h2, hpq]⟩
          · rintro ⟨rs, h1, h2⟩
            cases rs with
            | nil => simp at h1
            | cons r rs =>
              simp at h1 h2
              exact ⟨by rw [h1.1, h2.1], rs, h1.2, h2.2⟩

theorem obsEq_ok_self (rs : List Rat) : obsEq (rs.map Except.ok) (rs.map Except.ok) = true :=
  (obsEq_iff _ _).mpr ⟨rs, rfl, rfl⟩

theorem map_ok_injective : ∀ {a b : List Rat}, a.map (Except.ok (ε := Err)) = b.map Except.ok → a = b := by
  intro a
  induction a with
  | nil => intro b h; cases b <;> simp_all
  | cons x xs ih =>
    intro b h
    cases b with
    | nil => simp at h
    | cons y ys =>
      simp at h
      rw [h.1, ih h.2]

theorem obsEq_trans {a b c : List (Except Err Rat)} (h1 : obsEq a b = true) (h2 : obsEq b c = true) :
    obsEq a c = true := by
  obtain ⟨r1, ha, hb⟩ := (obsEq_iff _ _).mp h1
  obtain ⟨r2, hb', hc⟩ := (obsEq_iff _ _).mp h2
  have : r1 = r2 := map_ok_injective (by rw [← hb, hb'])
  subst this
  exact (obsEq_iff _ _).mpr ⟨r1, ha, hc⟩

theorem optObsEq_trans {a b c : Option (List (Except Err Rat))} (h1 : optObsEq a b = true) (h2 : optObsEq b c = true) :
    optObsEq a c = true := by
  cases a <;> cases b <;> cases c <;> simp_all [optObsEq]
  exact obsEq_trans h1 h2

theorem mapM'_ok {α β} (f : α → Except Err β) : ∀ (xs : List α) (ys : List β),
    mapM' f xs = .ok ys → xs.map f = ys.map Except.ok := by
  intro xs
  induction xs with
  | nil => intro ys h; simp [mapM'] at h; subst h; rfl
  | cons x xs ih =>
    intro ys h
    simp only [mapM'] at h
    cases hfx : f x with
    | error e => simp [hfx] at h
    | ok b =>
      simp only [hfx] at h
      cases hr : mapM' f xs with
      | error e => simp [hr] at h
      | ok bs =>
        simp only [hr] at h
        cases h
        simp [hfx, ih bs hr]

theorem mapM'_length {α β} (f : α → Except Err β) (xs : List α) (ys : List β) (h : mapM' f xs = .ok ys) :
    ys.length = xs.length := by
  have := congrArg List.length (mapM'_ok f xs ys h)
  simpa using this.symm

theorem obsOf_callable (r : Rew) (h : r.isCallable = true) (acts : List Val) :
    obsOf r acts = acts.map (callRew r) := by
  cases r <;> simp_all [obsOf, Rew.isCallable]

/-- `DiscreteReward(new, [r(a) for a in old])` gives every new action the reward of the old action
at the same position, provided the new actions are pairwise distinct -/
theorem genericRew_aligned {r r' : Rew} {old new : List Val} (h : genericRew r old new = .ok r')
    (hd : Distinct new) : obsEq (obsOf r old) (obsOf r' new) = true := by
  unfold genericRew at h
  have key : ∀ (hc : r.isCallable = true),
      (match mapM' (callRew r) old with
        | .error e => Except.error e
        | .ok vals => if vals.length == new.length then Except.ok (Rew.discrete new vals 0 false) else .error .cobaException) = .ok r' →
      obsEq (obsOf r old) (obsOf r' new) = true := by
    intro hc h
    cases hm : mapM' (callRew r) old with
    | error e => simp [hm] at h
    | ok vals =>
      simp only [hm] at h
      by_cases hl : vals.length = new.length
      · simp [hl] at h
        subst h
        rw [obsOf_callable r hc, mapM'_ok _ _ _ hm, obsOf_discrete 0 hd hl.symm]
        exact obsEq_ok_self vals
      · simp [hl] at h
  cases r with
  | seq _ _ => simp at h
  | binary _ _ => exact key rfl h
  | discrete _ _ _ _ => exact key rfl h
  | hamming _ => exact key rfl h
  | l1 _ => exact key rfl h
  | fn _ _ => exact key rfl h


/-! ### structural identity -/

mutual
theorem Val.same_sound : ∀ (a b : Val), Val.same a b = true → a = b
  | .none, b, h => by cases b <;> simp_all [Val.same]
  | .num a, b, h => by cases b <;> simp_all [Val.same]
  | .str a, b, h => by cases b <;> simp_all [Val.same]
  | .cat a la, b, h => by cases b <;> simp_all [Val.same]
  | .list xs, b, h => by
    cases b <;> simp_all [Val.same]
    exact Val.sameL_sound _ _ h
  | .tuple xs, b, h => by
    cases b <;> simp_all [Val.same]
    exact Val.sameL_sound _ _ h
  | .dict kvs, b, h => by
    cases b <;> simp_all [Val.same]
    exact Val.sameD_sound _ _ h
  | .lazy kvs n, b, h => by
    cases b <;> simp_all [Val.same]
    exact Val.sameZ_sound _ _ h.2
theorem Val.sameL_sound : ∀ (xs ys : List Val), Val.sameL xs ys = true → xs = ys
  | [], ys, h => by cases ys <;> simp_all [Val.sameL]
  | x :: xs, ys, h => by
    cases ys with
    | nil => simp [Val.sameL] at h
    | cons y ys =>
      simp [Val.sameL] at h
      rw [Val.same_sound x y h.1, Val.sameL_sound xs ys h.2]
theorem Val.sameD_sound : ∀ (xs ys : List (String × Val)), Val.sameD xs ys = true → xs = ys
  | [], ys, h => by cases ys <;> simp_all [Val.sameD]
  | (k, x) :: xs, ys, h => by
    cases ys with
    | nil => simp [Val.sameD] at h
    | cons p ys =>
      obtain ⟨k', y⟩ := p
      simp [Val.sameD] at h
      rw [h.1.1, Val.same_sound x y h.1.2, Val.sameD_sound xs ys h.2]
theorem Val.sameZ_sound : ∀ (xs ys : List (Nat × Val)), Val.sameZ xs ys = true → xs = ys
  | [], ys, h => by cases ys <;> simp_all [Val.sameZ]
  | (k, x) :: xs, ys, h => by
    cases ys with
    | nil => simp [Val.sameZ] at h
    | cons p ys =>
      obtain ⟨k', y⟩ := p
      simp [Val.sameZ] at h
      rw [h.1.1, Val.same_sound x y h.1.2, Val.sameZ_sound xs ys h.2]
end


theorem getElem?_of_mem {α} {a : α} : ∀ {l : List α}, a ∈ l → ∃ k : Nat, l[k]? = some a := by
  intro l h
  induction l with
  | nil => cases h
  | cons x xs ih =>
    cases h with
    | head => exact ⟨0, rfl⟩
    | tail _ h' =>
      obtain ⟨k, hk⟩ := ih h'
      exact ⟨k + 1, by simpa using hk⟩

/-! ### Repr's BinaryReward remapping -/

theorem binary_remap_aligned {am : Val} {v : Rat} {old new : List Val} {r' : Rew} {fd : Bool}
    (h : rekey (.reprStyle fd) (.binary am v) old new = .ok r')
    (hdo : Distinct old) (hdn : Distinct new) (hl : old.length = new.length) (hm : am ∈ old) :
    obsEq (obsOf (.binary am v) old) (obsOf r' new) = true := by
  obtain ⟨k, hk⟩ := getElem?_of_mem hm
  have hidx := indexOf_of_distinct hdo hk
  simp only [rekey, hidx] at h
  cases hn : new[k]? with
  | none => simp [hn] at h
  | some a' =>
    simp only [hn] at h
    cases h
    have e1 : obsOf (.binary am v) old = (old.map fun a => if pyEq am a then v else 0).map Except.ok := by
      simp [obsOf, callRew, List.map_map, Function.comp_def]
    have e2 : obsOf (.binary a' v) new = (new.map fun a => if pyEq a' a then v else 0).map Except.ok := by
      simp [obsOf, callRew, List.map_map, Function.comp_def]
    have e3 : (old.map fun a => if pyEq am a then v else 0) = (new.map fun a => if pyEq a' a then v else 0) := by
      apply List.ext_getElem (by simp [hl])
      intro i h1 h2
      simp only [List.length_map] at h1 h2
      simp only [List.getElem_map]
      have ho := hdo k i am old[i] hk (List.getElem?_eq_getElem h1)
      have hn' := hdn k i a' new[i] hn (List.getElem?_eq_getElem h2)
      rw [ho, hn']
    rw [e1, e2, e3]
    exact obsEq_ok_self _

/-! ### every re-keying policy keeps the observable -/

theorem obsOf_seq (b : Bool) (rs : List Rat) (acts : List Val) : obsOf (.seq b rs) acts = rs.map Except.ok := rfl

theorem rekey_aligned {p : Policy} {r r' : Rew} {old new : List Val}
    (hh : targetHypB p (some r) old new = true) (hl : old.length = new.length)
    (h : rekey p r old new = .ok r') : obsEq (obsOf r old) (obsOf r' new) = true := by
  cases p with
  | keep =>
    simp only [rekey] at h
    cases h
    simpa [targetHypB] using hh
  | generic =>
    simp only [targetHypB] at hh
    exact genericRew_aligned (by simpa [rekey] using h) ((distinctB_iff _).mp hh)
  | toList =>
    cases r <;> simp [rekey] at h
    subst h
    simp only [obsOf_seq]
    exact obsEq_ok_self _
  | wrapSeq =>
    simp only [targetHypB] at hh
    have hd := (distinctB_iff _).mp hh
    cases r with
    | seq b rs =>
      simp only [rekey] at h
      by_cases hlen : rs.length = new.length
      · simp [hlen] at h
        subst h
        rw [obsOf_seq, obsOf_discrete 0 hd hlen.symm]
        exact obsEq_ok_self _
      · simp [hlen] at h
    | _ => simp [rekey] at h
  | reprStyle fd =>
    cases r with
    | binary am v =>
      simp only [targetHypB, Bool.and_eq_true, List.any_eq_true] at hh
      obtain ⟨⟨hn, ho⟩, a, ha, hs⟩ := hh
      have : a = am := Val.same_sound _ _ hs
      subst this
      exact binary_remap_aligned h ((distinctB_iff _).mp ho) ((distinctB_iff _).mp hn) hl ha
    | discrete as rs d isD =>
      simp only [targetHypB, Bool.and_eq_true, Bool.or_eq_true] at hh
      obtain ⟨hn, hfd⟩ := hh
      have hd := (distinctB_iff _).mp hn
      cases fd with
      | true => exact genericRew_aligned (by simpa [rekey] using h) hd
      | false =>
        simp at hfd
        simp only [rekey] at h
        by_cases hlen : rs.length = new.length
        · simp [hlen] at h
          subst h
          rw [obsOf_discrete 0 hd hlen.symm]
          exact hfd
        · simp [hlen] at h
    | seq b rs =>
      simp [rekey, genericRew] at h
    | hamming am =>
      simp only [targetHypB] at hh
      exact genericRew_aligned (by simpa [rekey] using h) ((distinctB_iff _).mp hh)
    | l1 am =>
      simp only [targetHypB] at hh
      exact genericRew_aligned (by simpa [rekey] using h) ((distinctB_iff _).mp hh)
    | fn t d =>
      simp only [targetHypB] at hh
      exact genericRew_aligned (by simpa [rekey] using h) ((distinctB_iff _).mp hh)


/-! ### the logged action -/

theorem logged_index_kept {old new : List Val} {a a' : Val} {k : Nat}
    (hh : loggedHypB old new (some a) (some a') = true) (hk : indexOf old a = some k) :
    indexOf new a' = some k := by
  simp only [loggedHypB, hk, Bool.and_eq_true] at hh
  obtain ⟨hd, hb⟩ := hh
  cases hn : new[k]? with
  | none => simp [hn] at hb
  | some b =>
    simp only [hn] at hb
    have : b = a' := Val.same_sound _ _ hb
    subst this
    exact indexOf_of_distinct ((distinctB_iff _).mp hd) hn

/-! ### one plan -/

def obsWith (r : Option Rew) (acts : List Val) : Option (List (Except Err Rat)) :=
  match r with
  | some r => some (obsOf r acts)
  | none => none

theorem rekeyOpt_aligned {p : Policy} {r r' : Option Rew} {o n : List Val}
    (hh : targetHypB p r o n = true) (hl : o.length = n.length)
    (h : rekeyOpt p r (some o) (some n) = .ok r') : optObsEq (obsWith r o) (obsWith r' n) = true := by
  cases r with
  | none =>
    simp [rekeyOpt] at h
    subst h
    simp [obsWith, optObsEq]
  | some r =>
    cases p with
    | keep =>
      simp [rekeyOpt] at h
      subst h
      simpa [obsWith, optObsEq, targetHypB] using hh
    | generic =>
      simp only [rekeyOpt] at h
      cases hr : rekey .generic r o n with
      | error e => simp [hr] at h
      | ok r2 =>
        simp [hr] at h
        subst h
        simpa [obsWith, optObsEq] using rekey_aligned hh hl hr
    | reprStyle fd =>
      simp only [rekeyOpt] at h
      cases hr : rekey (.reprStyle fd) r o n with
      | error e => simp [hr] at h
      | ok r2 =>
        simp [hr] at h
        subst h
        simpa [obsWith, optObsEq] using rekey_aligned hh hl hr
    | wrapSeq =>
      simp only [rekeyOpt] at h
      cases hr : rekey .wrapSeq r o n with
      | error e => simp [hr] at h
      | ok r2 =>
        simp [hr] at h
        subst h
        simpa [obsWith, optObsEq] using rekey_aligned hh hl hr
    | toList =>
      simp only [rekeyOpt] at h
      cases hr : rekey .toList r o n with
      | error e => simp [hr] at h
      | ok r2 =>
        simp [hr] at h
        subst h
        simpa [obsWith, optObsEq] using rekey_aligned hh hl hr

theorem obsRewards_some (I : Inter) (as : List Val) (h : I.actions = some as) : obsRewards I = obsWith I.rewards as := by
  unfold obsRewards obsWith
  rw [h]
  cases I.rewards <;> rfl

theorem obsFeedbacks_some (I : Inter) (as : List Val) (h : I.actions = some as) : obsFeedbacks I = obsWith I.feedbacks as := by
  unfold obsFeedbacks obsWith
  rw [h]
  cases I.feedbacks <;> rfl

theorem obsRewards_none (I : Inter) (h : I.actions = none) : obsRewards I = none := by
  unfold obsRewards
  rw [h]
  cases I.rewards <;> rfl

theorem obsFeedbacks_none (I : Inter) (h : I.actions = none) : obsFeedbacks I = none := by
  unfold obsFeedbacks
  rw [h]
  cases I.feedbacks <;> rfl

/-- a plan whose run-time hypotheses hold keeps the interaction aligned -/
theorem applyPlan_aligned {I J : Inter} {p : Plan} (hh : planHypB I p = true) (h : applyPlan I p = .ok J) :
    alignedB I J = true := by
  unfold applyPlan at h
  cases hr : rekeyOpt p.polR I.rewards I.actions p.actions with
  | error e => simp [hr] at h
  | ok r' =>
    simp only [hr] at h
    cases hf : rekeyOpt p.polF I.feedbacks I.actions p.actions with
    | error e => simp [hf] at h
    | ok f' =>
      simp only [hf] at h
      cases h
      unfold planHypB at hh
      cases ho : I.actions with
      | none =>
        cases hn : p.actions with
        | some n => simp [ho, hn] at hh
        | none =>
          simp [alignedB, obsRewards_none, obsFeedbacks_none, ho, optObsEq, loggedIndex]
      | some o =>
        cases hn : p.actions with
        | none => simp [ho, hn] at hh
        | some n =>
          simp only [ho, hn, Bool.and_eq_true, beq_iff_eq] at hh
          obtain ⟨⟨⟨hl, hR⟩, hF⟩, hL⟩ := hh
          rw [ho, hn] at hr hf
          have e1 := rekeyOpt_aligned hR hl hr
          have e2 := rekeyOpt_aligned hF hl hf
          have a1 : obsRewards I = obsWith I.rewards o := obsRewards_some I o ho
          have a2 : obsFeedbacks I = obsWith I.feedbacks o := obsFeedbacks_some I o ho
          have b1 : obsRewards { I with context := p.context, actions := some n, action := p.action, rewards := r', feedbacks := f' }
              = obsWith r' n := obsRewards_some _ n rfl
          have b2 : obsFeedbacks { I with context := p.context, actions := some n, action := p.action, rewards := r', feedbacks := f' }
              = obsWith f' n := obsFeedbacks_some _ n rfl
          simp only [alignedB, a1, a2, b1, b2, e1, e2, Bool.true_and, Bool.and_eq_true, beq_self_eq_true, and_true]
          have c1 : loggedIndex I = I.action.map (indexOf o) := by
            unfold loggedIndex; rw [ho]; cases I.action <;> rfl
          have c2 : loggedIndex { I with context := p.context, actions := some n, action := p.action, rewards := r', feedbacks := f' }
              = p.action.map (indexOf n) := by
            unfold loggedIndex; cases p.action <;> rfl
          rw [c1, c2]
          cases ha : I.action with
          | none => simp
          | some a =>
            cases hk : indexOf o a with
            | none => simp [hk]
            | some k =>
              cases ha' : p.action with
              | none => simp [ha, ha', loggedHypB] at hL
              | some a' =>
                rw [ha, ha'] at hL
                simp [hk, logged_index_kept hL hk]


/-! ### composition -/

theorem optObsEq_refl_of_left {a b : Option (List (Except Err Rat))} (h : optObsEq a b = true) : optObsEq a a = true := by
  cases a <;> cases b <;> simp_all [optObsEq]
  obtain ⟨rs, h1, _⟩ := (obsEq_iff _ _).mp h
  exact (obsEq_iff _ _).mpr ⟨rs, h1, h1⟩

theorem alignedB_trans {I J K : Inter} (h1 : alignedB I J = true) (h2 : alignedB J K = true) : alignedB I K = true := by
  simp only [alignedB, Bool.and_eq_true, beq_iff_eq] at h1 h2 ⊢
  obtain ⟨⟨⟨⟨r1, f1⟩, l1⟩, w1⟩, p1⟩ := h1
  obtain ⟨⟨⟨⟨r2, f2⟩, l2⟩, w2⟩, p2⟩ := h2
  refine ⟨⟨⟨⟨optObsEq_trans r1 r2, optObsEq_trans f1 f2⟩, ?_⟩, w1.trans w2⟩, p1.trans p2⟩
  cases hI : loggedIndex I with
  | none => simp
  | some x =>
    cases x with
    | none => simp
    | some k =>
      simp only [hI] at l1
      have hJ : loggedIndex J = some (some k) := by simpa using l1
      simp only [hJ] at l2
      simpa using l2

theorem optObsEq_refl_of_right {a b : Option (List (Except Err Rat))} (h : optObsEq a b = true) : optObsEq b b = true := by
  cases a <;> cases b <;> simp_all [optObsEq]
  obtain ⟨rs, _, h2⟩ := (obsEq_iff _ _).mp h
  exact (obsEq_iff _ _).mpr ⟨rs, h2, h2⟩

theorem alignedB_refl_right {I J : Inter} (h : alignedB I J = true) : alignedB J J = true := by
  simp only [alignedB, Bool.and_eq_true, beq_iff_eq] at h ⊢
  obtain ⟨⟨⟨⟨r1, f1⟩, _⟩, _⟩, _⟩ := h
  refine ⟨⟨⟨⟨optObsEq_refl_of_right r1, optObsEq_refl_of_right f1⟩, ?_⟩, trivial⟩, trivial⟩
  cases hJ : loggedIndex J with
  | none => simp
  | some x => cases x <;> simp

theorem alignedStreamB_refl_right : ∀ {s t : List Inter}, alignedStreamB s t = true → alignedStreamB t t = true := by
  intro s
  induction s with
  | nil =>
    intro t h
    cases t with
    | nil => rfl
    | cons _ _ => simp [alignedStreamB] at h
  | cons i is ih =>
    intro t h
    cases t with
    | nil => simp [alignedStreamB] at h
    | cons j js =>
      simp only [alignedStreamB, Bool.and_eq_true] at h ⊢
      exact ⟨alignedB_refl_right h.1, ih h.2⟩

theorem alignedStreamB_trans : ∀ {s t u : List Inter}, alignedStreamB s t = true → alignedStreamB t u = true →
    alignedStreamB s u = true := by
  intro s
  induction s with
  | nil =>
    intro t u h1 h2
    cases t with
    | nil => exact h2
    | cons _ _ => simp [alignedStreamB] at h1
  | cons i is ih =>
    intro t u h1 h2
    cases t with
    | nil => simp [alignedStreamB] at h1
    | cons j js =>
      cases u with
      | nil => simp [alignedStreamB] at h2
      | cons k ks =>
        simp only [alignedStreamB, Bool.and_eq_true] at h1 h2 ⊢
        exact ⟨alignedB_trans h1.1 h2.1, ih h1.2 h2.2⟩

theorem applyPlans_aligned : ∀ {s : List Inter} {ps : List Plan} {s' : List Inter},
    plansHypB s ps = true → applyPlans s ps = .ok s' → alignedStreamB s s' = true := by
  intro s
  induction s with
  | nil =>
    intro ps s' hh h
    cases ps with
    | nil => simp [applyPlans] at h; subst h; rfl
    | cons _ _ => simp [applyPlans] at h
  | cons i is ih =>
    intro ps s' hh h
    cases ps with
    | nil => simp [applyPlans] at h
    | cons p ps =>
      simp only [plansHypB, Bool.and_eq_true] at hh
      simp only [applyPlans] at h
      cases hj : applyPlan i p with
      | error e => simp [hj] at h
      | ok j =>
        simp only [hj] at h
        cases hjs : applyPlans is ps with
        | error e => simp [hjs] at h
        | ok js =>
          simp only [hjs] at h
          cases h
          simp only [alignedStreamB, Bool.and_eq_true]
          exact ⟨applyPlan_aligned hh.1 hj, ih hh.2 hjs⟩

/-- the stream is aligned with itself as soon as its own reward functions evaluate on its own actions -/
theorem runPrims_aligned (cfg : Cfg) : ∀ (sts : List Step) {s s' : List Inter},
    primsHypB cfg sts s = true → runPrims cfg sts s = .ok s' → alignedStreamB s s = true → alignedStreamB s s' = true := by
  intro sts
  induction sts with
  | nil =>
    intro s s' _ h hs
    simp [runPrims] at h
    subst h
    exact hs
  | cons st rest ih =>
    intro s s' hh h hs
    simp only [runPrims, runPrim] at h
    simp only [primsHypB] at hh
    cases hp : plansOf cfg st s with
    | error e => simp [hp] at h
    | ok ps =>
      simp only [hp] at h hh
      cases ha : applyPlans s ps with
      | error e => simp [ha] at h
      | ok s1 =>
        simp only [ha, Bool.and_eq_true] at h hh
        have h1 := applyPlans_aligned hh.1 ha
        have h11 : alignedStreamB s1 s1 = true := alignedStreamB_refl_right h1
        exact alignedStreamB_trans h1 (ih hh.2 h h11)


theorem runStep_aligned (cfg : Cfg) (st : Step) {S S' : State}
    (hh : (match st with
           | .batch _ => true
           | .unbatch => true
           | _ => primsHypB cfg (expandStep st) S.stream) = true)
    (h : runStep cfg st S = .ok S') (hs : alignedStreamB S.stream S.stream = true) :
    alignedStreamB S.stream S'.stream = true := by
  have prim : ∀ (sts : List Step), primsHypB cfg sts S.stream = true →
      (match runPrims cfg sts S.stream with
       | .error e => Except.error e
       | .ok s' => Except.ok ({ stream := s', sizes := match S.sizes with
                                  | some (k :: _) => some (chunkSizes k s'.length s'.length)
                                  | other => other } : State)) = .ok S' →
      alignedStreamB S.stream S'.stream = true := by
    intro sts hp hr
    cases hrun : runPrims cfg sts S.stream with
    | error e => simp [hrun] at hr
    | ok s' =>
      simp only [hrun] at hr
      cases hr
      exact runPrims_aligned cfg sts hp hrun hs
  cases st with
  | batch n =>
    simp only [runStep] at h
    cases n with
    | none => cases h; exact hs
    | some k =>
      cases k with
      | zero => cases h; exact hs
      | succ k =>
        simp only at h
        cases hsz : S.sizes with
        | some _ => simp [hsz] at h
        | none =>
          simp only [hsz] at h
          split at h <;> (cases h; exact hs)
  | unbatch => simp only [runStep] at h; cases h; exact hs
  | repr cc ca => exact prim _ hh h
  | flatten => exact prim _ hh h
  | sparsify c a => exact prim _ hh h
  | densify n m c a => exact prim _ hh h
  | noise c a o => exact prim _ hh h
  | harden => exact prim _ hh h
  | wrapSeqs => exact prim _ hh h
  | finalize => exact prim _ hh h

/-- alignment is preserved along a whole chain -/
theorem runChain_aligned (cfg : Cfg) : ∀ (chain : List Step) {S S' : State},
    chainHypB cfg chain S = true → runChain cfg chain S = .ok S' → alignedStreamB S.stream S.stream = true →
    alignedStreamB S.stream S'.stream = true := by
  intro chain
  induction chain with
  | nil =>
    intro S S' _ h hs
    simp [runChain] at h
    subst h
    exact hs
  | cons st rest ih =>
    intro S S' hh h hs
    simp only [runChain] at h
    simp only [chainHypB, Bool.and_eq_true] at hh
    cases hst : runStep cfg st S with
    | error e => simp [hst] at h
    | ok S1 =>
      simp only [hst] at h hh
      have h1 := runStep_aligned cfg st hh.1 hst hs
      exact alignedStreamB_trans h1 (ih hh.2 h (alignedStreamB_refl_right h1))

end Coba.C10
