import CobaVerif.Model.C10
namespace Coba.C10

theorem distinctB_iff (as : List Val) : distinctB as = true ↔ Distinct as := by
  unfold distinctB Distinct
  constructor
  · intro h i j a b hi hj
    have hi' : i < as.length := by
      rcases Nat.lt_or_ge i as.length with h' | h'
      · exact h'
      · simp [List.getElem?_eq_none h'] at hi
    have hj' : j < as.length := by
      rcases Nat.lt_or_ge j as.length with h' | h'
      · exact h'
      · simp [List.getElem?_eq_none h'] at hj
    rw [List.all_eq_true] at h
    have h1 := h i (List.mem_range.mpr hi')
    rw [List.all_eq_true] at h1
    have h2 := h1 j (List.mem_range.mpr hj')
    simp only [hi, hj] at h2
    simpa using h2
  · intro h
    rw [List.all_eq_true]
    intro i hi
    rw [List.all_eq_true]
    intro j hj
    have hi' := List.mem_range.mp hi
    have hj' := List.mem_range.mp hj
    have e1 : as[i]? = some as[i] := List.getElem?_eq_getElem hi'
    have e2 : as[j]? = some as[j] := List.getElem?_eq_getElem hj'
    simp only [e1, e2]
    have := h i j _ _ e1 e2
    simp [this]

theorem indexOfFrom_spec (a : Val) : ∀ (xs : List Val) (off i : Nat) (x : Val),
    xs[i]? = some x → pyEq x a = true → (∀ j y, j < i → xs[j]? = some y → pyEq y a = false) →
    indexOfFrom a xs off = some (off + i) := by
  intro xs
  induction xs with
  | nil => intro off i x h; simp at h
  | cons y ys ih =>
    intro off i x h hx hlt
    cases i with
    | zero =>
      simp at h
      subst h
      simp [indexOfFrom, hx]
    | succ i =>
      have h0 := hlt 0 y (Nat.succ_pos i) (by simp)
      simp only [indexOfFrom, h0]
      simp at h
      have := ih (off + 1) i x h hx (fun j z hj hz => hlt (j + 1) z (by omega) (by simpa using hz))
      simp [this]; omega

theorem indexOf_of_distinct {as : List Val} (hd : Distinct as) {i : Nat} {a : Val} (h : as[i]? = some a) :
    indexOf as a = some i := by
  have := indexOfFrom_spec a as 0 i a h (by simpa using hd i i a a h h)
    (fun j y hj hy => by have := hd j i y a hy h; simp [this]; omega)
  simpa [indexOf] using this


/-! ### DiscreteReward look-up -/

theorem callRew_discrete_of_distinct {as : List Val} {rs : List Rat} (d : Rat) (hd : Distinct as)
    {i : Nat} {a : Val} {x : Rat} (h : as[i]? = some a) (hx : rs[i]? = some x) :
    callRew (.discrete as rs d false) a = .ok x := by
  simp [callRew, indexOf_of_distinct hd h, hx]

theorem map_discrete_aux (as : List Val) (rs : List Rat) (d : Rat) (hd : Distinct as) :
    ∀ (suf : List Val) (pre : List Val) (rsuf : List Rat), as = pre ++ suf → rs.drop pre.length = rsuf →
      suf.length = rsuf.length →
      suf.map (callRew (.discrete as rs d false)) = rsuf.map Except.ok := by
  intro suf
  induction suf with
  | nil => intro pre rsuf _ _ hl; cases rsuf <;> simp_all
  | cons a suf ih =>
    intro pre rsuf has hrs hl
    cases rsuf with
    | nil => simp at hl
    | cons x rsuf =>
      have hget : as[pre.length]? = some a := by subst has; simp
      have hx : rs[pre.length]? = some x := by
        have : (rs.drop pre.length)[0]? = some x := by rw [hrs]; rfl
        simpa using this
      have hrest := ih (pre ++ [a]) rsuf (by subst has; simp) (by
        have : rs.drop (pre.length + 1) = (rs.drop pre.length).drop 1 := by simp [List.drop_drop]
        simp [this, hrs]) (by simpa using hl)
      simp [callRew_discrete_of_distinct d hd hget hx, hrest]

/-- `[DiscreteReward(as, rs)(a) for a in as] = rs` for pairwise distinct `as` -/
theorem obsOf_discrete {as : List Val} {rs : List Rat} (d : Rat) (hd : Distinct as) (hl : as.length = rs.length) :
    obsOf (.discrete as rs d false) as = rs.map Except.ok := by
  simpa [obsOf] using map_discrete_aux as rs d hd as [] rs rfl rfl hl


/-! ### the observable -/

theorem obsEq_iff (a b : List (Except Err Rat)) :
    obsEq a b = true ↔ ∃ rs : List Rat, a = rs.map Except.ok ∧ b = rs.map Except.ok := by
  induction a generalizing b with
  | nil =>
    cases b with
    | nil => simp [obsEq]
    | cons y ys =>
      simp only [obsEq]
      constructor
      · intro h; cases h
      · rintro ⟨rs, h1, h2⟩
        cases rs <;> simp at h1 h2
  | cons x xs ih =>
    cases b with
    | nil =>
      cases x <;> simp only [obsEq]
      all_goals
        constructor
        · intro h; cases h
        · rintro ⟨rs, h1, h2⟩
          cases rs <;> simp at h1 h2
    | cons y ys =>
      cases x with
      | error e =>
        simp only [obsEq]
        constructor
        · intro h; cases h
        · rintro ⟨rs, h1, _⟩
          cases rs <;> simp at h1
      | ok p =>
        cases y with
        | error e =>
          simp only [obsEq]
          constructor
          · intro h; cases h
          · rintro ⟨rs, _, h2⟩
            cases rs <;> simp at h2
        | ok q =>
          simp only [obsEq, Bool.and_eq_true, beq_iff_eq, ih]
          constructor
          · rintro ⟨hpq, rs, h1, h2⟩
            exact ⟨p :: rs, by simp [h1], by simp [h2, hpq]⟩
          · rintro ⟨rs, h1, h2⟩
            cases rs with
            | nil => simp at h1
            | cons r rs =>
              simp at h1 h2
              exact ⟨by rw [h1.1, h2.1], rs, h1.2, h2.2⟩

theorem obsEq_ok_self (rs : List Rat) : obsEq (rs.map Except.ok) (rs.map Except.ok) = true :=
  (obsEq_iff _ _).mpr ⟨rs, rfl, rfl⟩

theorem map_ok_injective : ∀ {a b : List Rat}, a.map (Except.ok (ε := Err)) = b.map Except.ok → a = b := by
  intro a
  induction a with
  | nil => intro b h; cases b <;> simp_all
  | cons x xs ih =>
    intro b h
    cases b with
    | nil => simp at h
    | cons y ys =>
      simp at h
      rw [h.1, ih h.2]

theorem obsEq_trans {a b c : List (Except Err Rat)} (h1 : obsEq a b = true) (h2 : obsEq b c = true) :
    obsEq a c = true := by
  obtain ⟨r1, ha, hb⟩ := (obsEq_iff _ _).mp h1
  obtain ⟨r2, hb', hc⟩ := (obsEq_iff _ _).mp h2
  have : r1 = r2 := map_ok_injective (by rw [← hb, hb'])
  subst this
  exact (obsEq_iff _ _).mpr ⟨r1, ha, hc⟩

theorem optObsEq_trans {a b c : Option (List (Except Err Rat))} (h1 : optObsEq a b = true) (h2 : optObsEq b c = true) :
    optObsEq a c = true := by
  cases a <;> cases b <;> cases c <;> simp_all [optObsEq]
  exact obsEq_trans h1 h2

theorem mapM'_ok {α β} (f : α → Except Err β) : ∀ (xs : List α) (ys : List β),
    mapM' f xs = .ok ys → xs.map f = ys.map Except.ok := by
  intro xs
  induction xs with
  | nil => intro ys h; simp [mapM'] at h; subst h; rfl
  | cons x xs ih =>
    intro ys h
    simp only [mapM'] at h
    cases hfx : f x with
    | error e => simp [hfx] at h
    | ok b =>
      simp only [hfx] at h
      cases hr : mapM' f xs with
      | error e => simp [hr] at h
      | ok bs =>
        simp only [hr] at h
        cases h
        simp [hfx, ih bs hr]

theorem mapM'_length {α β} (f : α → Except Err β) (xs : List α) (ys : List β) (h : mapM' f xs = .ok ys) :
    ys.length = xs.length := by
  have := congrArg List.length (mapM'_ok f xs ys h)
  simpa using this.symm

theorem obsOf_callable (r : Rew) (h : r.isCallable = true) (acts : List Val) :
    obsOf r acts = acts.map (callRew r) := by
  cases r <;> simp_all [obsOf, Rew.isCallable]

/-- `DiscreteReward(new, [r(a) for a in old])` gives every new action the reward of the old action
at the same position, provided the new actions are pairwise distinct -/
theorem genericRew_aligned {r r' : Rew} {old new : List Val} (h : genericRew r old new = .ok r')
    (hd : Distinct new) : obsEq (obsOf r old) (obsOf r' new) = true := by
  unfold genericRew at h
  have key : ∀ (hc : r.isCallable = true),
      (match mapM' (callRew r) old with
        | .error e => Except.error e
        | .ok vals => if vals.length == new.length then Except.ok (Rew.discrete new vals 0 false) else .error .cobaException) = .ok r' →
      obsEq (obsOf r old) (obsOf r' new) = true := by
    intro hc h
    cases hm : mapM' (callRew r) old with
    | error e => simp [hm] at h
    | ok vals =>
      simp only [hm] at h
      by_cases hl : vals.length = new.length
      · simp [hl] at h
        subst h
        rw [obsOf_callable r hc, mapM'_ok _ _ _ hm, obsOf_discrete 0 hd hl.symm]
        exact obsEq_ok_self vals
      · simp [hl] at h
  cases r with
  | seq _ _ => simp at h
  | binary _ _ => exact key rfl h
  | discrete _ _ _ _ => exact key rfl h
  | hamming _ => exact key rfl h
  | l1 _ => exact key rfl h
  | fn _ _ => exact key rfl h


/-! ### structural identity -/

mutual
theorem Val.same_sound : ∀ (a b : Val), Val.same a b = true → a = b
  | .none, b, h => by cases b <;> simp_all [Val.same]
  | .num a, b, h => by cases b <;> simp_all [Val.same]
  | .str a, b, h => by cases b <;> simp_all [Val.same]
  | .cat a la, b, h => by cases b <;> simp_all [Val.same]
  | .list xs, b, h => by
    cases b <;> simp_all [Val.same]
    exact Val.sameL_sound _ _ h
  | .tuple xs, b, h => by
    cases b <;> simp_all [Val.same]
    exact Val.sameL_sound _ _ h
  | .dict kvs, b, h => by
    cases b <;> simp_all [Val.same]
    exact Val.sameD_sound _ _ h
  | .lazy kvs n, b, h => by
    cases b <;> simp_all [Val.same]
    exact Val.sameZ_sound _ _ h.2
theorem Val.sameL_sound : ∀ (xs ys : List Val), Val.sameL xs ys = true → xs = ys
  | [], ys, h => by cases ys <;> simp_all [Val.sameL]
  | x :: xs, ys, h => by
    cases ys with
    | nil => simp [Val.sameL] at h
    | cons y ys =>
      simp [Val.sameL] at h
      rw [Val.same_sound x y h.1, Val.sameL_sound xs ys h.2]
theorem Val.sameD_sound : ∀ (xs ys : List (String × Val)), Val.sameD xs ys = true → xs = ys
  | [], ys, h => by cases ys <;> simp_all [Val.sameD]
  | (k, x) :: xs, ys, h => by
    cases ys with
    | nil => simp [Val.sameD] at h
    | cons p ys =>
      obtain ⟨k', y⟩ := p
      simp [Val.sameD] at h
      rw [h.1.1, Val.same_sound x y h.1.2, Val.sameD_sound xs ys h.2]
theorem Val.sameZ_sound : ∀ (xs ys : List (Nat × Val)), Val.sameZ xs ys = true → xs = ys
  | [], ys, h => by cases ys <;> simp_all [Val.sameZ]
  | (k, x) :: xs, ys, h => by
    cases ys with
    | nil => simp [Val.sameZ] at h
    | cons p ys =>
      obtain ⟨k', y⟩ := p
      simp [Val.sameZ] at h
      rw [h.1.1, Val.same_sound x y h.1.2, Val.sameZ_sound xs ys h.2]
end


theorem getElem?_of_mem {α} {a : α} : ∀ {l : List α}, a ∈ l → ∃ k : Nat, l[k]? = some a := by
  intro l h
  induction l with
  | nil => cases h
  | cons x xs ih =>
    cases h with
    | head => exact ⟨0, rfl⟩
    | tail _ h' =>
      obtain ⟨k, hk⟩ := ih h'
      exact ⟨k + 1, by simpa using hk⟩

/-! ### Repr's BinaryReward remapping -/

theorem binary_remap_aligned {am : Val} {v : Rat} {old new : List Val} {r' : Rew} {fd : Bool}
    (h : rekey (.reprStyle fd) (.binary am v) old new = .ok r')
    (hdo : Distinct old) (hdn : Distinct new) (hl : old.length = new.length) (hm : am ∈ old) :
    obsEq (obsOf (.binary am v) old) (obsOf r' new) = true := by
  obtain ⟨k, hk⟩ := getElem?_of_mem hm
  have hidx := indexOf_of_distinct hdo hk
  simp only [rekey, hidx] at h
  cases hn : new[k]? with
  | none => simp [hn] at h
  | some a' =>
    simp only [hn] at h
    cases h
    have e1 : obsOf (.binary am v) old = (old.map fun a => if pyEq am a then v else 0).map Except.ok := by
      simp [obsOf, callRew, List.map_map, Function.comp_def]
    have e2 : obsOf (.binary a' v) new = (new.map fun a => if pyEq a' a then v else 0).map Except.ok := by
      simp [obsOf, callRew, List.map_map, Function.comp_def]
    have e3 : (old.map fun a => if pyEq am a then v else 0) = (new.map fun a => if pyEq a' a then v else 0) := by
      apply List.ext_getElem (by simp [hl])
      intro i h1 h2
      simp only [List.length_map] at h1 h2
      simp only [List.getElem_map]
      have ho := hdo k i am old[i] hk (List.getElem?_eq_getElem h1)
      have hn' := hdn k i a' new[i] hn (List.getElem?_eq_getElem h2)
      rw [ho, hn']
    rw [e1, e2, e3]
    exact obsEq_ok_self _

/-! ### every re-keying policy keeps the observable -/

theorem obsOf_seq (b : Bool) (rs : List Rat) (acts : List Val) : obsOf (.seq b rs) acts = rs.map Except.ok := rfl

theorem rekey_aligned {p : Policy} {r r' : Rew} {old new : List Val}
    (hh : targetHypB p (some r) old new = true) (hl : old.length = new.length)
    (h : rekey p r old new = .ok r') : obsEq (obsOf r old) (obsOf r' new) = true := by
  cases p with
  | keep =>
    simp only [rekey] at h
    cases h
    simpa [targetHypB] using hh
  | generic =>
    simp only [targetHypB] at hh
    exact genericRew_aligned (by simpa [rekey] using h) ((distinctB_iff _).mp hh)
  | toList =>
    cases r <;> simp [rekey] at h
    subst h
    simp only [obsOf_seq]
    exact obsEq_ok_self _
  | wrapSeq =>
    simp only [targetHypB] at hh
    have hd := (distinctB_iff _).mp hh
    cases r with
    | seq b rs =>
      simp only [rekey] at h
      by_cases hlen : rs.length = new.length
      · simp [hlen] at h
        subst h
        rw [obsOf_seq, obsOf_discrete 0 hd hlen.symm]
        exact obsEq_ok_self _
      · simp [hlen] at h
    | _ => simp [rekey] at h
  | reprStyle fd =>
    cases r with
    | binary am v =>
      simp only [targetHypB, Bool.and_eq_true, List.any_eq_true] at hh
      obtain ⟨⟨hn, ho⟩, a, ha, hs⟩ := hh
      have : a = am := Val.same_sound _ _ hs
      subst this
      exact binary_remap_aligned h ((distinctB_iff _).mp ho) ((distinctB_iff _).mp hn) hl ha
    | discrete as rs d isD =>
      simp only [targetHypB, Bool.and_eq_true, Bool.or_eq_true] at hh
      obtain ⟨hn, hfd⟩ := hh
      have hd := (distinctB_iff _).mp hn
      cases fd with
      | true => exact genericRew_aligned (by simpa [rekey] using h) hd
      | false =>
        simp at hfd
        simp only [rekey] at h
        by_cases hlen : rs.length = new.length
        · simp [hlen] at h
          subst h
          rw [obsOf_discrete 0 hd hlen.symm]
          exact hfd
        · simp [hlen] at h
    | seq b rs =>
      simp [rekey, genericRew] at h
    | hamming am =>
      simp only [targetHypB] at hh
      exact genericRew_aligned (by simpa [rekey] using h) ((distinctB_iff _).mp hh)
    | l1 am =>
      simp only [targetHypB] at hh
      exact genericRew_aligned (by simpa [rekey] using h) ((distinctB_iff _).mp hh)
    | fn t d =>
      simp only [targetHypB] at hh
      exact genericRew_aligned (by simpa [rekey] using h) ((distinctB_iff _).mp hh)


/-! ### the logged action -/

theorem logged_index_kept {old new : List Val} {a a' : Val} {k : Nat}
    (hh : loggedHypB old new (some a) (some a') = true) (hk : indexOf old a = some k) :
    indexOf new a' = some k := by
  simp only [loggedHypB, hk, Bool.and_eq_true] at hh
  obtain ⟨hd, hb⟩ := hh
  cases hn : new[k]? with
  | none => simp [hn] at hb
  | some b =>
    simp only [hn] at hb
    have : b = a' := Val.same_sound _ _ hb
    subst this
    exact indexOf_of_distinct ((distinctB_iff _).mp hd) hn

/-! ### one plan -/

def obsWith (r : Option Rew) (acts : List Val) : Option (List (Except Err Rat)) :=
  match r with
  | some r => some (obsOf r acts)
  | none => none

theorem rekeyOpt_aligned {p : Policy} {r r' : Option Rew} {o n : List Val}
    (hh : targetHypB p r o n = true) (hl : o.length = n.length)
    (h : rekeyOpt p r (some o) (some n) = .ok r') : optObsEq (obsWith r o) (obsWith r' n) = true := by
  have nonkeep : ∀ (r0 : Rew), r = some r0 → (∀ r2, rekey p r0 o n = .ok r2 → r' = some r2 → optObsEq (obsWith r o) (obsWith r' n) = true) := by
    intro r0 hr0 r2 hr hr'
    subst hr0; subst hr'
    simpa [obsWith, optObsEq] using rekey_aligned hh hl hr
  cases p with
  | keep =>
    simp [rekeyOpt] at h
    subst h
    cases r with
    | none => simp [obsWith, optObsEq]
    | some r => simpa [obsWith, optObsEq, targetHypB] using hh
  | generic =>
    cases r with
    | none => simp [rekeyOpt] at h
    | some r0 =>
      simp only [rekeyOpt] at h
      cases hr : rekey .generic r0 o n with
      | error e => simp [hr] at h
      | ok r2 => simp [hr] at h; exact nonkeep r0 rfl r2 hr h.symm
  | reprStyle fd =>
    cases r with
    | none => simp [rekeyOpt] at h
    | some r0 =>
      simp only [rekeyOpt] at h
      cases hr : rekey (.reprStyle fd) r0 o n with
      | error e => simp [hr] at h
      | ok r2 => simp [hr] at h; exact nonkeep r0 rfl r2 hr h.symm
  | wrapSeq =>
    cases r with
    | none => simp [rekeyOpt] at h
    | some r0 =>
      simp only [rekeyOpt] at h
      cases hr : rekey .wrapSeq r0 o n with
      | error e => simp [hr] at h
      | ok r2 => simp [hr] at h; exact nonkeep r0 rfl r2 hr h.symm
  | toList =>
    cases r with
    | none => simp [rekeyOpt] at h
    | some r0 =>
      simp only [rekeyOpt] at h
      cases hr : rekey .toList r0 o n with
      | error e => simp [hr] at h
      | ok r2 => simp [hr] at h; exact nonkeep r0 rfl r2 hr h.symm

theorem obsRewards_some (I : Inter) (as : List Val) (h : I.actions = some as) : obsRewards I = obsWith I.rewards as := by
  unfold obsRewards obsWith
  rw [h]
  cases I.rewards <;> rfl

theorem obsFeedbacks_some (I : Inter) (as : List Val) (h : I.actions = some as) : obsFeedbacks I = obsWith I.feedbacks as := by
  unfold obsFeedbacks obsWith
  rw [h]
  cases I.feedbacks <;> rfl

theorem obsRewards_none (I : Inter) (h : I.actions = none) : obsRewards I = none := by
  unfold obsRewards
  rw [h]
  cases I.rewards <;> rfl

theorem obsFeedbacks_none (I : Inter) (h : I.actions = none) : obsFeedbacks I = none := by
  unfold obsFeedbacks
  rw [h]
  cases I.feedbacks <;> rfl

/-- a plan whose run-time hypotheses hold keeps the interaction aligned -/
theorem applyPlan_aligned {I J : Inter} {p : Plan} (hh : planHypB I p = true) (h : applyPlan I p = .ok J) :
    alignedB I J = true := by
  unfold applyPlan at h
  cases hr : rekeyOpt p.polR I.rewards I.actions p.actions with
  | error e => simp [hr] at h
  | ok r' =>
    simp only [hr] at h
    cases hf : rekeyOpt p.polF I.feedbacks I.actions p.actions with
    | error e => simp [hf] at h
    | ok f' =>
      simp only [hf] at h
      cases h
      unfold planHypB at hh
      cases ho : I.actions with
      | none =>
        cases hn : p.actions with
        | some n => simp [ho, hn] at hh
        | none =>
          simp [alignedB, obsRewards_none, obsFeedbacks_none, ho, optObsEq, loggedIndex]
      | some o =>
        cases hn : p.actions with
        | none => simp [ho, hn] at hh
        | some n =>
          simp only [ho, hn, Bool.and_eq_true, beq_iff_eq] at hh
          obtain ⟨⟨⟨hl, hR⟩, hF⟩, hL⟩ := hh
          rw [ho, hn] at hr hf
          have e1 := rekeyOpt_aligned hR hl hr
          have e2 := rekeyOpt_aligned hF hl hf
          have a1 : obsRewards I = obsWith I.rewards o := obsRewards_some I o ho
          have a2 : obsFeedbacks I = obsWith I.feedbacks o := obsFeedbacks_some I o ho
          have b1 : obsRewards { I with context := p.context, actions := some n, action := p.action, rewards := r', feedbacks := f' }
              = obsWith r' n := obsRewards_some _ n rfl
          have b2 : obsFeedbacks { I with context := p.context, actions := some n, action := p.action, rewards := r', feedbacks := f' }
              = obsWith f' n := obsFeedbacks_some _ n rfl
          simp only [alignedB, a1, a2, b1, b2, e1, e2, Bool.true_and, Bool.and_eq_true, beq_self_eq_true, and_true]
          have c1 : loggedIndex I = I.action.map (indexOf o) := by
            unfold loggedIndex; rw [ho]; cases I.action <;> rfl
          have c2 : loggedIndex { I with context := p.context, actions := some n, action := p.action, rewards := r', feedbacks := f' }
              = p.action.map (indexOf n) := by
            unfold loggedIndex; cases p.action <;> rfl
          rw [c1, c2]
          cases ha : I.action with
          | none => simp
          | some a =>
            cases hk : indexOf o a with
            | none => simp [hk]
            | some k =>
              cases ha' : p.action with
              | none => simp [ha, ha', loggedHypB] at hL
              | some a' =>
                rw [ha, ha'] at hL
                simp [hk, logged_index_kept hL hk]


/-! ### composition -/

theorem optObsEq_refl_of_left {a b : Option (List (Except Err Rat))} (h : optObsEq a b = true) : optObsEq a a = true := by
  cases a <;> cases b <;> simp_all [optObsEq]
  obtain ⟨rs, h1, _⟩ := (obsEq_iff _ _).mp h
  exact (obsEq_iff _ _).mpr ⟨rs, h1, h1⟩

theorem alignedB_trans {I J K : Inter} (h1 : alignedB I J = true) (h2 : alignedB J K = true) : alignedB I K = true := by
  simp only [alignedB, Bool.and_eq_true, beq_iff_eq] at h1 h2 ⊢
  obtain ⟨⟨⟨⟨r1, f1⟩, l1⟩, w1⟩, p1⟩ := h1
  obtain ⟨⟨⟨⟨r2, f2⟩, l2⟩, w2⟩, p2⟩ := h2
  refine ⟨⟨⟨⟨optObsEq_trans r1 r2, optObsEq_trans f1 f2⟩, ?_⟩, w1.trans w2⟩, p1.trans p2⟩
  cases hI : loggedIndex I with
  | none => simp
  | some x =>
    cases x with
    | none => simp
    | some k =>
      simp only [hI] at l1
      have hJ : loggedIndex J = some (some k) := by simpa using l1
      simp only [hJ] at l2
      simpa using l2

theorem optObsEq_refl_of_right {a b : Option (List (Except Err Rat))} (h : optObsEq a b = true) : optObsEq b b = true := by
  cases a <;> cases b <;> simp_all [optObsEq]
  obtain ⟨rs, _, h2⟩ := (obsEq_iff _ _).mp h
  exact (obsEq_iff _ _).mpr ⟨rs, h2, h2⟩

theorem alignedB_refl_right {I J : Inter} (h : alignedB I J = true) : alignedB J J = true := by
  simp only [alignedB, Bool.and_eq_true, beq_iff_eq] at h ⊢
  obtain ⟨⟨⟨⟨r1, f1⟩, _⟩, _⟩, _⟩ := h
  refine ⟨⟨⟨⟨optObsEq_refl_of_right r1, optObsEq_refl_of_right f1⟩, ?_⟩, trivial⟩, trivial⟩
  cases hJ : loggedIndex J with
  | none => simp
  | some x => cases x <;> simp

theorem alignedStreamB_refl_right : ∀ {s t : List Inter}, alignedStreamB s t = true → alignedStreamB t t = true := by
  intro s
  induction s with
  | nil =>
    intro t h
    cases t with
    | nil => rfl
    | cons _ _ => simp [alignedStreamB] at h
  | cons i is ih =>
    intro t h
    cases t with
    | nil => simp [alignedStreamB] at h
    | cons j js =>
      simp only [alignedStreamB, Bool.and_eq_true] at h ⊢
      exact ⟨alignedB_refl_right h.1, ih h.2⟩

theorem alignedStreamB_trans : ∀ {s t u : List Inter}, alignedStreamB s t = true → alignedStreamB t u = true →
    alignedStreamB s u = true := by
  intro s
  induction s with
  | nil =>
    intro t u h1 h2
    cases t with
    | nil => exact h2
    | cons _ _ => simp [alignedStreamB] at h1
  | cons i is ih =>
    intro t u h1 h2
    cases t with
    | nil => simp [alignedStreamB] at h1
    | cons j js =>
      cases u with
      | nil => simp [alignedStreamB] at h2
      | cons k ks =>
        simp only [alignedStreamB, Bool.and_eq_true] at h1 h2 ⊢
        exact ⟨alignedB_trans h1.1 h2.1, ih h1.2 h2.2⟩

theorem applyPlans_aligned : ∀ {s : List Inter} {ps : List Plan} {s' : List Inter},
    plansHypB s ps = true → applyPlans s ps = .ok s' → alignedStreamB s s' = true := by
  intro s
  induction s with
  | nil =>
    intro ps s' hh h
    cases ps with
    | nil => simp [applyPlans] at h; subst h; rfl
    | cons _ _ => simp [applyPlans] at h
  | cons i is ih =>
    intro ps s' hh h
    cases ps with
    | nil => simp [applyPlans] at h
    | cons p ps =>
      simp only [plansHypB, Bool.and_eq_true] at hh
      simp only [applyPlans] at h
      cases hj : applyPlan i p with
      | error e => simp [hj] at h
      | ok j =>
        simp only [hj] at h
        cases hjs : applyPlans is ps with
        | error e => simp [hjs] at h
        | ok js =>
          simp only [hjs] at h
          cases h
          simp only [alignedStreamB, Bool.and_eq_true]
          exact ⟨applyPlan_aligned hh.1 hj, ih hh.2 hjs⟩

/-- the stream is aligned with itself as soon as its own reward functions evaluate on its own actions -/
theorem runPrims_aligned (cfg : Cfg) : ∀ (sts : List Step) {s s' : List Inter},
    primsHypB cfg sts s = true → runPrims cfg sts s = .ok s' → alignedStreamB s s = true → alignedStreamB s s' = true := by
  intro sts
  induction sts with
  | nil =>
    intro s s' _ h hs
    simp [runPrims] at h
    subst h
    exact hs
  | cons st rest ih =>
    intro s s' hh h hs
    simp only [runPrims, runPrim] at h
    simp only [primsHypB] at hh
    cases hp : plansOf cfg st s with
    | error e => simp [hp] at h
    | ok ps =>
      simp only [hp] at h hh
      cases ha : applyPlans s ps with
      | error e => simp [ha] at h
      | ok s1 =>
        simp only [ha, Bool.and_eq_true] at h hh
        have h1 := applyPlans_aligned hh.1 ha
        have h11 : alignedStreamB s1 s1 = true := alignedStreamB_refl_right h1
        exact alignedStreamB_trans h1 (ih hh.2 h h11)


theorem runStep_aligned (cfg : Cfg) (st : Step) {S S' : State}
    (hh : (match st with
           | .batch _ => true
           | .unbatch => true
           | _ => primsHypB cfg (expandStep st) S.stream) = true)
    (h : runStep cfg st S = .ok S') (hs : alignedStreamB S.stream S.stream = true) :
    alignedStreamB S.stream S'.stream = true := by
  have prim : ∀ (sts : List Step), primsHypB cfg sts S.stream = true →
      (match runPrims cfg sts S.stream with
       | .error e => Except.error e
       | .ok s' => Except.ok ({ stream := s', sizes := match S.sizes with
                                  | some (k :: _) => some (chunkSizes k s'.length s'.length)
                                  | other => other } : State)) = .ok S' →
      alignedStreamB S.stream S'.stream = true := by
    intro sts hp hr
    cases hrun : runPrims cfg sts S.stream with
    | error e => simp [hrun] at hr
    | ok s' =>
      simp only [hrun] at hr
      cases hr
      exact runPrims_aligned cfg sts hp hrun hs
  cases st with
  | batch n =>
    simp only [runStep] at h
    cases n with
    | none => cases h; exact hs
    | some k =>
      cases k with
      | zero => cases h; exact hs
      | succ k =>
        simp only at h
        cases hsz : S.sizes with
        | some _ => simp [hsz] at h
        | none =>
          simp only [hsz] at h
          split at h <;> (cases h; exact hs)
  | unbatch => simp only [runStep] at h; cases h; exact hs
  | repr cc ca => exact prim _ hh h
  | flatten => exact prim _ hh h
  | sparsify c a => exact prim _ hh h
  | densify n m c a => exact prim _ hh h
  | noise c a o => exact prim _ hh h
  | harden => exact prim _ hh h
  | wrapSeqs => exact prim _ hh h
  | finalize => exact prim _ hh h

/-- alignment is preserved along a whole chain -/
theorem runChain_aligned (cfg : Cfg) : ∀ (chain : List Step) {S S' : State},
    chainHypB cfg chain S = true → runChain cfg chain S = .ok S' → alignedStreamB S.stream S.stream = true →
    alignedStreamB S.stream S'.stream = true := by
  intro chain
  induction chain with
  | nil =>
    intro S S' _ h hs
    simp [runChain] at h
    subst h
    exact hs
  | cons st rest ih =>
    intro S S' hh h hs
    simp only [runChain] at h
    simp only [chainHypB, Bool.and_eq_true] at hh
    cases hst : runStep cfg st S with
    | error e => simp [hst] at h
    | ok S1 =>
      simp only [hst] at h hh
      have h1 := runStep_aligned cfg st hh.1 hst hs
      exact alignedStreamB_trans h1 (ih hh.2 h (alignedStreamB_refl_right h1))


/-! ### batching -/
theorem chunkSizes_sum (k : Nat) (hk : 0 < k) : ∀ (fuel len : Nat), len ≤ fuel → (chunkSizes k fuel len).sum = len := by
  intro fuel
  induction fuel with
  | zero => intro len h; have : len = 0 := by omega
            subst this; simp [chunkSizes]
  | succ f ih =>
    intro len h
    cases len with
    | zero => simp [chunkSizes]
    | succ l =>
      simp only [chunkSizes]
      split
      · simp
      · rename_i hgt
        simp only [List.sum_cons]
        rw [ih (l + 1 - k) (by omega)]
        omega

theorem chunkSizes_bound (k : Nat) (hk : 0 < k) : ∀ (fuel len : Nat), ∀ x ∈ chunkSizes k fuel len, 0 < x ∧ x ≤ k := by
  intro fuel
  induction fuel with
  | zero => intro len x hx; simp [chunkSizes] at hx
  | succ f ih =>
    intro len x hx
    cases len with
    | zero => simp [chunkSizes] at hx
    | succ l =>
      simp only [chunkSizes] at hx
      split at hx
      · simp at hx; omega
      · simp at hx
        rcases hx with rfl | hx
        · omega
        · exact ih _ x hx

/-! ### one-hot and string encodings of categoricals are injective -/

theorem levelIndex_lt (s : String) : ∀ (ls : List String) (off i : Nat), levelIndex s ls off = some i → off ≤ i ∧ i < off + ls.length := by
  intro ls
  induction ls with
  | nil => intro off i h; simp [levelIndex] at h
  | cons l ls ih =>
    intro off i h
    simp only [levelIndex] at h
    split at h
    · cases h; simp
    · have := ih (off + 1) i h
      simp; omega

theorem levelIndex_get (s : String) : ∀ (ls : List String) (off i : Nat), levelIndex s ls off = some i → ls[i - off]? = some s := by
  intro ls
  induction ls with
  | nil => intro off i h; simp [levelIndex] at h
  | cons l ls ih =>
    intro off i h
    simp only [levelIndex] at h
    split at h
    · rename_i heq
      cases h
      simp at heq
      simp [heq]
    · have hb := levelIndex_lt s ls (off + 1) i h
      have := ih (off + 1) i h
      have e : i - off = (i - (off + 1)) + 1 := by omega
      rw [e]
      simpa using this

/-- two levels of one level list with the same position are the same level -/
theorem levelIndex_injective {s t : String} {ls : List String} {i : Nat}
    (hs : levelIndex s ls 0 = some i) (ht : levelIndex t ls 0 = some i) : s = t := by
  have a := levelIndex_get s ls 0 i hs
  have b := levelIndex_get t ls 0 i ht
  rw [a] at b
  exact Option.some.inj b

theorem pyEqL_map (f g : Nat → Val) : ∀ xs : List Nat,
    pyEqL (xs.map f) (xs.map g) = xs.all (fun k => pyEq (f k) (g k))
  | [] => by simp [pyEqL]
  | x :: xs => by simp [pyEqL, pyEqL_map f g xs]

theorem pyEqL_onehotVec (n : Nat) (i j : Nat) (hi : i < n) :
    pyEqL (onehotVec i n) (onehotVec j n) = (i == j) := by
  unfold onehotVec
  rw [pyEqL_map]
  by_cases h : i = j
  · subst h
    simp [pyEq]
  · have : (i == j) = false := by simp [h]
    rw [this, List.all_eq_false]
    refine ⟨i, List.mem_range.mpr hi, ?_⟩
    have hji : (i == j) = false := by simp [h]
    simp [pyEq, hji]

/-- every representation `Repr` can give a scalar categorical action compares exactly like the
categorical itself: one-hot tuples and strings are injective encodings of the levels -/
theorem encodeValue_onehot {m : Mode} (hm : m ≠ .string) {s : String} {ls : List String} {a : Val}
    (ha : encodeValue m (.cat s ls) = .ok a) :
    ∃ i, levelIndex s ls 0 = some i ∧ a = .tuple (onehotVec i ls.length) := by
  cases m with
  | string => exact absurd rfl hm
  | onehot =>
    simp only [encodeValue, onehotOf] at ha
    cases hi : levelIndex s ls 0 with
    | none => simp [hi] at ha
    | some i => simp [hi] at ha; exact ⟨i, rfl, ha.symm⟩
  | onehotTuple =>
    simp only [encodeValue, onehotOf] at ha
    cases hi : levelIndex s ls 0 with
    | none => simp [hi] at ha
    | some i => simp [hi] at ha; exact ⟨i, rfl, ha.symm⟩

theorem encodeValue_pyEq {m : Mode} {s t : String} {ls : List String} {a b : Val}
    (ha : encodeValue m (.cat s ls) = .ok a) (hb : encodeValue m (.cat t ls) = .ok b) :
    pyEq a b = pyEq (.cat s ls) (.cat t ls) := by
  by_cases hm : m = .string
  · subst hm
    simp [encodeValue, strOf] at ha hb
    subst ha; subst hb
    simp [pyEq]
  · obtain ⟨i, hi, rfl⟩ := encodeValue_onehot hm ha
    obtain ⟨j, hj, rfl⟩ := encodeValue_onehot hm hb
    have hlt := (levelIndex_lt s ls 0 i hi).2
    simp only [pyEq, pyEqL_onehotVec ls.length i j (by simpa using hlt)]
    by_cases hst : s = t
    · subst hst
      rw [hi] at hj
      cases hj
      simp
    · have hij : i ≠ j := by
        intro e
        subst e
        exact hst (levelIndex_injective hi hj)
      rw [beq_eq_false_iff_ne.mpr hij, beq_eq_false_iff_ne.mpr hst]

theorem getElem?_of_map_eq {α β} {f : α → Except Err β} : ∀ {xs : List α} {ys : List β}, xs.map f = ys.map Except.ok →
    ∀ (i : Nat) (y : β), ys[i]? = some y → ∃ x, xs[i]? = some x ∧ f x = .ok y := by
  intro xs
  induction xs with
  | nil => intro ys h i y hy; cases ys <;> simp_all
  | cons x xs ih =>
    intro ys h i y hy
    cases ys with
    | nil => simp at h
    | cons y0 ys =>
      simp at h
      cases i with
      | zero => simp at hy; subst hy; exact ⟨x, by simp, h.1⟩
      | succ i =>
        simp at hy
        obtain ⟨x', hx', hf⟩ := ih h.2 i y hy
        exact ⟨x', by simpa using hx', hf⟩

/-- scalar categorical actions over one level list stay pairwise distinct under every mode of Repr -/
theorem encodeValues_distinct {m : Mode} {ls : List String} {rows enc : List Val}
    (hcat : ∀ r ∈ rows, ∃ s, r = Val.cat s ls) (h : mapM' (encodeValue m) rows = .ok enc)
    (hd : Distinct rows) : Distinct enc := by
  have hmap := mapM'_ok _ _ _ h
  intro i j a b hi hj
  obtain ⟨x, hx, hfx⟩ := getElem?_of_map_eq hmap i a hi
  obtain ⟨y, hy, hfy⟩ := getElem?_of_map_eq hmap j b hj
  obtain ⟨s, rfl⟩ := hcat x (List.mem_of_getElem? hx)
  obtain ⟨t, rfl⟩ := hcat y (List.mem_of_getElem? hy)
  rw [encodeValue_pyEq hfx hfy]
  exact hd i j _ _ hx hy



/-! ### Sparsify and Finalize, end to end -/

mutual
theorem Val.same_refl : ∀ (a : Val), Val.same a a = true
  | .none => by simp [Val.same]
  | .num a => by simp [Val.same]
  | .str a => by simp [Val.same]
  | .cat a la => by simp [Val.same]
  | .list xs => by simp [Val.same, Val.sameL_refl xs]
  | .tuple xs => by simp [Val.same, Val.sameL_refl xs]
  | .dict kvs => by simp [Val.same, Val.sameD_refl kvs]
  | .lazy kvs n => by simp [Val.same, Val.sameZ_refl kvs]
theorem Val.sameL_refl : ∀ (xs : List Val), Val.sameL xs xs = true
  | [] => by simp [Val.sameL]
  | x :: xs => by simp [Val.sameL, Val.same_refl x, Val.sameL_refl xs]
theorem Val.sameD_refl : ∀ (xs : List (String × Val)), Val.sameD xs xs = true
  | [] => by simp [Val.sameD]
  | (k, x) :: xs => by simp [Val.sameD, Val.same_refl x, Val.sameD_refl xs]
theorem Val.sameZ_refl : ∀ (xs : List (Nat × Val)), Val.sameZ xs xs = true
  | [] => by simp [Val.sameZ]
  | (k, x) :: xs => by simp [Val.sameZ, Val.same_refl x, Val.sameZ_refl xs]
end

theorem makeSparse_id (h : String) (v : Val) (hv : sparseConverts v = false) : makeSparse h v = v := by
  cases v <;> simp_all [sparseConverts, makeSparse]

theorem map_makeSparse_id (h : String) : ∀ (as : List Val), as.any sparseConverts = false → as.map (makeSparse h) = as
  | [], _ => rfl
  | a :: as, hv => by
    simp only [List.any_cons, Bool.or_eq_false_iff] at hv
    simp [makeSparse_id h a hv.1, map_makeSparse_id h as hv.2]

theorem plansHypB_map (f : Inter → Plan) : ∀ (l : List Inter), (∀ I ∈ l, planHypB I (f I) = true) → plansHypB l (l.map f) = true
  | [], _ => rfl
  | I :: l, h => by
    simp only [List.map_cons, plansHypB, Bool.and_eq_true]
    exact ⟨h I (by simp), plansHypB_map f l (fun J hJ => h J (by simp [hJ]))⟩

theorem alignedStreamB_self_mem : ∀ {s : List Inter}, alignedStreamB s s = true → ∀ I ∈ s, alignedB I I = true
  | [], _, I, h => by cases h
  | J :: s, hs, I, h => by
    simp only [alignedStreamB, Bool.and_eq_true] at hs
    cases h with
    | head => exact hs.1
    | tail _ h' => exact alignedStreamB_self_mem hs.2 I h'

/-- **Sparsify** (with the proposed repair) keeps every interaction aligned, provided its encoding is
injective on each action set, functional rewards are functional throughout the stream (the
first interaction decides, as everywhere in coba) and the logged action is literally one of the actions. -/
theorem sparsify_aligned' (c a : Bool) (s s' : List Inter)
    (hself : alignedStreamB s s = true)
    (hhomR : ∀ I ∈ s, ∀ r, I.rewards = some r → r.isCallable = true → firstCallable (·.rewards) s = true)
    (hhomF : ∀ I ∈ s, ∀ r, I.feedbacks = some r → r.isCallable = true → firstCallable (·.feedbacks) s = true)
    (hinj : ∀ I ∈ s, ∀ as, I.actions = some as → Distinct (sparsifyActs a as))
    (hlog : ∀ I ∈ s, ∀ a0 as k, I.action = some a0 → I.actions = some as → indexOf as a0 = some k → as[k]? = some a0)
    (hrun : runPrim Cfg.fixed (.sparsify c a) s = .ok s') : alignedStreamB s s' = true := by
  simp only [runPrim, plansOf, sparsifyPlans] at hrun
  refine applyPlans_aligned (plansHypB_map _ s ?_) hrun
  intro I hI
  have hII := alignedStreamB_self_mem hself I hI
  simp only [alignedB, Bool.and_eq_true] at hII
  obtain ⟨⟨⟨⟨hIr, hIf⟩, _⟩, _⟩, _⟩ := hII
  -- one target
  have target : ∀ (get : Inter → Option Rew) (as : List Val), I.actions = some as →
      optObsEq (obsWith (get I) as) (obsWith (get I) as) = true →
      (∀ r, get I = some r → r.isCallable = true → firstCallable get s = true) →
      targetHypB (if (Cfg.fixed.fixRekey && a && as.any sparseConverts) && firstCallable get s then Policy.generic else Policy.keep)
        (get I) as (sparsifyActs a as) = true := by
    intro get as has hobs hhom
    cases hr : get I with
    | none => simp [targetHypB]
    | some r =>
      have hd := (distinctB_iff _).mpr (hinj I hI as has)
      by_cases hch : (a && as.any sparseConverts) = true
      · by_cases hfc : firstCallable get s = true
        · simp [Cfg.fixed, hch, hfc, targetHypB, hd]
        · have hnc : r.isCallable = false := by
            cases hc : r.isCallable with
            | false => rfl
            | true => exact absurd (hhom r hr hc) hfc
          cases r with
          | seq b rs =>
            simp only [Bool.not_eq_true] at hfc
            simp [Cfg.fixed, hfc, targetHypB, obsOf_seq, obsEq_ok_self]
          | _ => simp [Rew.isCallable] at hnc
      · have hsame : sparsifyActs a as = as := by
          unfold sparsifyActs
          cases a with
          | false => rfl
          | true =>
            simp only [Bool.true_and, Bool.not_eq_true] at hch
            simp [map_makeSparse_id "action" as hch]
        simp only [Bool.not_eq_true] at hch
        rw [hr] at hobs
        simp only [Cfg.fixed, Bool.true_and, hch, Bool.false_and, Bool.false_eq_true, if_false, targetHypB, hsame]
        simpa [obsWith, optObsEq] using hobs
  unfold planHypB
  cases has : I.actions with
  | none => simp
  | some as =>
    have hacts : (if a = true then Option.map (fun x => List.map (makeSparse "action") x) (some as) else some as) = some (sparsifyActs a as) := by
      unfold sparsifyActs; cases a <;> simp
    simp only [hacts, Bool.and_eq_true, beq_iff_eq]
    rw [obsRewards_some I as has] at hIr
    rw [obsFeedbacks_some I as has] at hIf
    refine ⟨⟨⟨?_, ?_⟩, ?_⟩, ?_⟩
    · unfold sparsifyActs; cases a <;> simp
    · have := target (·.rewards) as has hIr (hhomR I hI)
      simpa [Cfg.fixed] using this
    · have := target (·.feedbacks) as has hIf (hhomF I hI)
      simpa [Cfg.fixed] using this
    · unfold loggedHypB
      cases ha0 : I.action with
      | none => cases a <;> simp
      | some a0 =>
        have hact : (if a = true then Option.map (makeSparse "action") (some a0) else some a0) = some (if a then makeSparse "action" a0 else a0) := by
          cases a <;> simp
        simp only [hact]
        cases hk : indexOf as a0 with
        | none => simp
        | some k =>
          have hmem := hlog I hI a0 as k ha0 has hk
          have hd := (distinctB_iff _).mpr (hinj I hI as has)
          simp only [hd, Bool.true_and]
          unfold sparsifyActs
          cases a with
          | false => simp [hmem, Val.same_refl]
          | true => simp [hmem, Val.same_refl]


/-- **Finalize**'s last step, `DiscreteReward(actions, the_list)`, keeps list rewards/feedbacks with their actions -/
theorem finalize_wrap_aligned' (s s' : List Inter)
    (hself : alignedStreamB s s = true)
    (hacts : ∀ I ∈ s, ∃ as, I.actions = some as)
    (hinj : ∀ I ∈ s, ∀ as, I.actions = some as → Distinct as)
    (hlog : ∀ I ∈ s, ∀ a0 as k, I.action = some a0 → I.actions = some as → indexOf as a0 = some k → as[k]? = some a0)
    (hrun : runPrim Cfg.fixed .wrapSeqs s = .ok s') : alignedStreamB s s' = true := by
  simp only [runPrim, plansOf] at hrun
  cases s with
  | nil => simp [wrapPlans, applyPlans] at hrun; subst hrun; rfl
  | cons first rest =>
    simp only [wrapPlans] at hrun
    refine applyPlans_aligned (plansHypB_map _ (first :: rest) ?_) hrun
    intro I hI
    have hII := alignedStreamB_self_mem hself I hI
    simp only [alignedB, Bool.and_eq_true] at hII
    obtain ⟨⟨⟨⟨hIr, hIf⟩, _⟩, _⟩, _⟩ := hII
    have target : ∀ (r : Option Rew) (b : Bool) (as : List Val), Distinct as →
        optObsEq (obsWith r as) (obsWith r as) = true →
        targetHypB (if b then Policy.wrapSeq else Policy.keep) r as as = true := by
      intro r b as hd hobs
      cases r with
      | none => simp [targetHypB]
      | some r =>
        cases b with
        | true => simp [targetHypB, (distinctB_iff _).mpr hd]
        | false => simpa [targetHypB, obsWith, optObsEq] using hobs
    unfold planHypB
    cases has : I.actions with
    | none => obtain ⟨as, h⟩ := hacts I hI; rw [has] at h; cases h
    | some as =>
      have hd := hinj I hI as has
      rw [obsRewards_some I as has] at hIr
      rw [obsFeedbacks_some I as has] at hIf
      simp only [Bool.and_eq_true, beq_iff_eq]
      refine ⟨⟨⟨trivial, target _ _ as hd hIr⟩, target _ _ as hd hIf⟩, ?_⟩
      unfold loggedHypB
      cases ha0 : I.action with
      | none => simp
      | some a0 =>
        cases hk : indexOf as a0 with
        | none => simp [hk]
        | some k =>
          simp [hk, (distinctB_iff _).mpr hd, hlog I hI a0 as k ha0 has hk, Val.same_refl]


theorem batch_unbatch_stream' (cfg : Cfg) (n : Option Nat) (S S1 S2 : State)
    (h1 : runStep cfg (.batch n) S = .ok S1) (h2 : runStep cfg .unbatch S1 = .ok S2) :
    S2.stream = S.stream ∧ S2.sizes = none := by
  simp only [runStep] at h2
  cases h2
  simp only [runStep] at h1
  cases n with
  | none => cases h1; exact ⟨rfl, rfl⟩
  | some k =>
    cases k with
    | zero => cases h1; exact ⟨rfl, rfl⟩
    | succ k =>
      simp only at h1
      cases hsz : S.sizes with
      | some _ => simp [hsz] at h1
      | none =>
        simp only [hsz] at h1
        split at h1 <;> (cases h1; exact ⟨rfl, rfl⟩)


/-- one primitive filter -/
theorem runPrim_aligned (cfg : Cfg) (st : Step) {s s' : List Inter}
    (hh : primsHypB cfg [st] s = true) (h : runPrim cfg st s = .ok s') (hs : alignedStreamB s s = true) :
    alignedStreamB s s' = true := by
  refine runPrims_aligned cfg [st] hh ?_ hs
  simp [runPrims, h]

/-- Finalize = Harden, Repr('onehot','onehot'), wrap list rewards -/
theorem finalize_aligned' (cfg : Cfg) {s s' : List Inter}
    (hh : primsHypB cfg (expandStep .finalize) s = true) (h : runPrims cfg (expandStep .finalize) s = .ok s')
    (hs : alignedStreamB s s = true) : alignedStreamB s s' = true := runPrims_aligned cfg _ hh h hs

end Coba.C10
