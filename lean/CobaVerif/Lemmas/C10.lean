import CobaVerif.Model.C10
namespace Coba.C10
end Coba.C10
