/-
C06 — helper lemmas for Props/C06.lean (refinement of the model `evaluate` to the spec `specRun`,
validation, ordering, kwargs, extras, batching).
-/
import CobaVerif.Model.C06
import CobaVerif.Generated.C06Tables
import CobaVerif.Generated.C06RowProgram

set_option linter.unusedSimpArgs false
set_option linter.unusedVariables false
set_option linter.unusedSectionVars false

namespace Coba.C06
variable {α : Type}

theorem Dict.get?_set_self (d : Dict α) (k : String) (v : α) : (d.set k v).get? k = some v := by
  induction d with
  | nil => simp [Dict.set, Dict.get?]
  | cons hd tl ih =>
    obtain ⟨k', v'⟩ := hd
    by_cases h : k' = k
    · simp [Dict.set, Dict.get?, h]
    · simp [Dict.set, Dict.get?, h, ih]

theorem Dict.get?_set_ne (d : Dict α) {k k' : String} (v : α) (h : k ≠ k') : (d.set k v).get? k' = d.get? k' := by
  induction d with
  | nil => simp [Dict.set, Dict.get?, h]
  | cons hd tl ih =>
    obtain ⟨k1, v1⟩ := hd
    by_cases h1 : k1 = k
    · subst h1; simp [Dict.set, Dict.get?, h]
    · simp [Dict.set, Dict.get?, h1, ih]

variable {V R : Type}

theorem extrasOf_set_excl (d : Dict (Fld V R)) (k : String) (v : Fld V R) (h : k ∈ implicitExclude) :
    extrasOf (d.set k v) = extrasOf d := by
  induction d with
  | nil => simp [Dict.set, extrasOf, h]
  | cons hd tl ih =>
    obtain ⟨k1, v1⟩ := hd
    by_cases h1 : k1 = k
    · subst h1; simp [Dict.set, extrasOf, h]
    · simp only [Dict.set, h1, if_false]
      unfold extrasOf at *
      simp only [List.filter_cons, ih]

@[simp] theorem lm_beq (a b : LearnMode) : (a == b) = decide (a = b) := by cases a <;> cases b <;> rfl
@[simp] theorem em_beq (a b : EvalMode) : (a == b) = decide (a = b) := by cases a <;> cases b <;> rfl

theorem shouldPred_eq_needPred (c : Config) (hs : Bool) : shouldPred c hs = needPred c hs := by
  obtain ⟨l, e, r⟩ := c
  cases l <;> cases e <;> cases hs <;> simp [shouldPred, needPred, outAction, outProb, Config.rcd, bne, Bool.and_comm]

/-! ## validation -/

structure Valid (c : Config) (hs : Bool) (fl : Flags) : Prop where
  acts : shouldPred c hs = true → fl.hasActions = true
  rwds : (c.learn = .on ∨ c.eval = .on) → fl.hasRewards = true
  logged : (c.learn = .off ∨ c.learn = .ips ∨ c.eval = .ips) → fl.hasAction = true ∧ fl.hasReward = true

theorem valid_of_missing_nil (c : Config) (hs : Bool) (first : Dict (Fld V R))
    (h : missingKeys c hs first = []) : Valid c hs (mkFlags first) := by
  obtain ⟨l, e, r⟩ := c
  simp only [missingKeys, List.filter_eq_nil_iff] at h
  refine ⟨?_, ?_, ?_⟩
  · intro hp
    have := h "actions"
    cases l <;> cases e <;> cases hs <;>
      simp_all [required, shouldPred, outAction, outProb, Config.rcd, bne, mkFlags]
  · intro hp
    have := h "rewards"
    cases l <;> cases e <;> simp_all [required, mkFlags, bne]
  · intro hp
    have h1 := h "action"
    have h2 := h "reward"
    cases l <;> cases e <;> simp_all [required, mkFlags, bne]

/-! ## reading an interaction: the dict pipeline computes what the typed view says -/

/-- Finalize seen from the view -/
def finRewards (v : View V R) : Option (Fld V R) :=
  match v.rewards, v.acts with
  | some (.rlist rs), some as => some (.disc as rs)
  | r, _ => r

/-- OpeRewards('IPS') seen from the view -/
def ipsFld (v : View V R) : Option (Fld V R) :=
  v.offRwd.map (fun r => Fld.ips v.offAct (r / (match v.offPr with
    | some p => if p = 0 then 1 else p
    | none => 1)))

def rowOf (c : Config) (v : View V R) : RowIn V R :=
  { ctx := v.ctx, acts := v.acts, rewards := finRewards v, offRwd := v.offRwd, offAct := v.offAct, offPr := v.offPr,
    lrnRwds := if c.learn = .ips then ipsFld v else if c.learn = .on then finRewards v else none,
    valRwds := if c.eval = .ips then ipsFld v else if c.eval = .on then finRewards v else none,
    extras := v.extras }

structure WF (fl : Flags) (d : Dict (Fld V R)) : Prop where
  ctx : (match d.get? "context" with
    | none => !fl.hasContext
    | some (.val _) => fl.hasContext
    | some .none => fl.hasContext
    | _ => false) = true
  acts : (match d.get? "actions" with
    | none => !fl.hasActions
    | some (.acts _) => fl.hasActions
    | _ => false) = true
  rwds : (match d.get? "rewards", d.get? "actions" with
    | none, _ => !fl.hasRewards
    | some (.rlist rs), some (.acts as) => fl.hasRewards && fl.rwdsIsList && as.length == rs.length
    | some (.rfn _), _ => fl.hasRewards && !fl.rwdsIsList
    | _, _ => false) = true
  lst : (!fl.rwdsIsList || fl.hasRewards) = true
  act : (match d.get? "action" with
    | none => !fl.hasAction
    | some (.val _) => fl.hasAction
    | some .none => fl.hasAction
    | _ => false) = true
  rwd : (match d.get? "reward" with
    | none => !fl.hasReward
    | some (.num _) => fl.hasReward
    | _ => false) = true
  prob : (match d.get? "probability" with
    | none => !fl.hasProb
    | some (.num _) => fl.hasProb
    | some .none => fl.hasProb
    | _ => false) = true

theorem WF_of_wf {fl : Flags} {d : Dict (Fld V R)} (h : wf fl d = true) : WF fl d := by
  simp only [wf, Bool.and_eq_true] at h
  obtain ⟨⟨⟨⟨⟨⟨h1, h2⟩, h3⟩, h4⟩, h5⟩, h6⟩, h7⟩ := h
  exact ⟨h1, h2, h3, h4, h5, h6, h7⟩

theorem ctx_ok {fl : Flags} {d : Dict (Fld V R)} (h : WF fl d) :
    whenHas fl.hasContext (getVal "context" (d.get? "context"))
      = .ok (viewVal (d.get? "context")) := by
  have := h.ctx
  cases hg : d.get? "context" with
  | none => simp_all [getVal, viewVal, whenHas]
  | some f => cases f <;> simp_all [getVal, viewVal, whenHas]

theorem acts_ok {fl : Flags} {d : Dict (Fld V R)} (h : WF fl d) :
    whenHas fl.hasActions (getActs (d.get? "actions"))
      = .ok (viewActs (d.get? "actions")) := by
  have := h.acts
  cases hg : d.get? "actions" with
  | none => simp_all [getActs, viewActs, whenHas]
  | some f => cases f <;> simp_all [getActs, viewActs, whenHas]

theorem act_ok {fl : Flags} {d : Dict (Fld V R)} (h : WF fl d) :
    whenHas fl.hasAction (getVal "action" (d.get? "action"))
      = .ok (viewVal (d.get? "action")) := by
  have := h.act
  cases hg : d.get? "action" with
  | none => simp_all [getVal, viewVal, whenHas]
  | some f => cases f <;> simp_all [getVal, viewVal, whenHas]

theorem rwd_ok {fl : Flags} {d : Dict (Fld V R)} (h : WF fl d) :
    whenHas fl.hasReward (getNum "reward" (d.get? "reward"))
      = .ok (viewNum (d.get? "reward")) := by
  have := h.rwd
  cases hg : d.get? "reward" with
  | none => simp_all [getNum, viewNum, whenHas]
  | some f => cases f <;> simp_all [getNum, viewNum, whenHas]

theorem prob_ok {fl : Flags} {d : Dict (Fld V R)} (h : WF fl d) :
    getNumOpt "probability" (d.get? "probability") = .ok (viewNum (d.get? "probability")) := by
  have := h.prob
  cases hg : d.get? "probability" with
  | none => simp_all [getNumOpt, viewNum]
  | some f => cases f <;> simp_all [getNumOpt, viewNum]

theorem finalize_ok {fl : Flags} {d : Dict (Fld V R)} (h : WF fl d) :
    ∃ d1, finalize fl.rwdsIsList d = .ok d1 ∧ (∀ k, k ≠ "rewards" → d1.get? k = d.get? k)
      ∧ d1.get? "rewards" = finRewards (view d) ∧ extrasOf d1 = extrasOf d := by
  have h3 := h.rwds
  have h4 := h.lst
  cases hl : fl.rwdsIsList with
  | false =>
    refine ⟨d, by simp [finalize], fun _ _ => rfl, ?_, rfl⟩
    simp only [finRewards, view]
    cases hr : d.get? "rewards" with
    | none => rfl
    | some f =>
      cases f <;> try rfl
      -- rlist is impossible without rwdsIsList
      rw [hr] at h3
      cases ha : d.get? "actions" with
      | none => simp_all
      | some g => cases g <;> simp_all
  | true =>
    rw [hl] at h3 h4
    cases hr : d.get? "rewards" with
    | none => simp_all
    | some f =>
      cases f <;> (try simp_all)
      rename_i rs
      cases ha : d.get? "actions" with
      | none => simp_all
      | some g =>
        cases g <;> (try simp_all)
        rename_i as
        refine ⟨d.set "rewards" (.disc as rs), ?_, ?_, ?_, ?_⟩
        · simp [finalize, hr, ha, h3]
        · intro k hk; exact Dict.get?_set_ne d _ (Ne.symm hk)
        · simp [Dict.get?_set_self, finRewards, view, hr, ha, viewActs]
        · exact extrasOf_set_excl d _ _ (by decide)

theorem opeIps_ok {fl : Flags} {d d1 : Dict (Fld V R)} (h : WF fl d) (hA : fl.hasAction = true) (hR : fl.hasReward = true)
    (target : String) (h1 : d1.get? "action" = d.get? "action") (h2 : d1.get? "reward" = d.get? "reward")
    (h3 : d1.get? "probability" = d.get? "probability") :
    ∃ f, ipsFld (view d) = some f ∧ opeIps target d1 = .ok (d1.set target f) := by
  have ha := h.act
  have hr := h.rwd
  have hp := h.prob
  simp only [opeIps, h1, h2, h3, ipsFld, view]
  cases hga : d.get? "action" with
  | none => simp_all
  | some fa =>
    cases hgr : d.get? "reward" with
    | none => simp_all
    | some fr =>
      cases fr <;> (try simp_all)
      rename_i r
      cases hgp : d.get? "probability" with
      | none => cases fa <;> simp_all [fldAction, fldReward, probOr1, viewVal, viewNum, bind, Except.bind, pure, Except.pure]
      | some fp =>
        cases fp <;> cases fa <;>
          simp_all [fldAction, fldReward, probOr1, viewVal, viewNum, bind, Except.bind, pure, Except.pure]

theorem hasRewards_iff {fl : Flags} {d : Dict (Fld V R)} (h : WF fl d) : fl.hasRewards = (d.get? "rewards").isSome := by
  have h3 := h.rwds
  cases hr : d.get? "rewards" with
  | none => simp_all
  | some f =>
    cases ha : d.get? "actions" with
    | none => cases f <;> simp_all
    | some g => cases f <;> cases g <;> simp_all

theorem rewards_ok {fl : Flags} {d d3 : Dict (Fld V R)} (h : WF fl d) (hrw : d3.get? "rewards" = finRewards (view d)) :
    whenHas fl.hasRewards (getAny "rewards" (d3.get? "rewards"))
      = .ok (finRewards (view d)) := by
  rw [hasRewards_iff h, hrw]
  simp only [finRewards, view]
  cases hr : d.get? "rewards" with
  | none => simp [whenHas]
  | some f =>
    cases f <;> simp [getAny, whenHas]
    cases viewActs (d.get? "actions") <;> simp [getAny]

theorem readRow_ok {c : Config} {fl : Flags} {d d3 : Dict (Fld V R)} (h : WF fl d)
    (hsame : ∀ k, k ≠ "rewards" → k ≠ "learn_rewards" → k ≠ "eval_rewards" → d3.get? k = d.get? k)
    (hrw : d3.get? "rewards" = finRewards (view d))
    (hl : c.learn = .ips → ∃ f, ipsFld (view d) = some f ∧ d3.get? "learn_rewards" = some f)
    (he : c.eval = .ips → ∃ f, ipsFld (view d) = some f ∧ d3.get? (evalTarget c) = some f)
    (hex : extrasOf d3 = extrasOf d) : readRow c fl d3 = .ok (rowOf c (view d)) := by
  have e1 := ctx_ok h
  have e2 := acts_ok h
  have e3 := rewards_ok h hrw
  have e4 := rwd_ok h
  have e5 := act_ok h
  have e6 := prob_ok h
  have v1 := hsame "context" (by decide) (by decide) (by decide)
  have v2 := hsame "actions" (by decide) (by decide) (by decide)
  have v4 := hsame "reward" (by decide) (by decide) (by decide)
  have v5 := hsame "action" (by decide) (by decide) (by decide)
  have v6 := hsame "probability" (by decide) (by decide) (by decide)
  simp only [readRow, v1, v2, v4, v5, v6, e1, e2, e3, e4, e5, e6, hex, bind, Except.bind]
  clear e1 e2 e3 e4 e5 e6 v1 v2 v4 v5 v6
  obtain ⟨l, e, r⟩ := c
  cases l <;> cases e <;> simp [lrnSel, valSel, learnIps, rowOf, view, pure, Except.pure, getAny] <;>
    (first
      | (obtain ⟨f, hf1, hf2⟩ := hl rfl; obtain ⟨g, hg1, hg2⟩ := he rfl; simp_all [getAny, view])
      | (obtain ⟨f, hf1, hf2⟩ := hl rfl; simp_all [getAny, view])
      | (obtain ⟨g, hg1, hg2⟩ := he rfl; simp_all [getAny, view])
      | skip)

theorem opeIf_ok {fl : Flags} {d dk : Dict (Fld V R)} (h : WF fl d) (on : Bool) (target : String)
    (ht : target ∈ implicitExclude)
    (hon : on = true → fl.hasAction = true ∧ fl.hasReward = true)
    (h1 : dk.get? "action" = d.get? "action") (h2 : dk.get? "reward" = d.get? "reward")
    (h3 : dk.get? "probability" = d.get? "probability") :
    ∃ d', opeIf on target dk = .ok d' ∧ (∀ k, k ≠ target → d'.get? k = dk.get? k) ∧ extrasOf d' = extrasOf dk ∧
      (on = true → ∃ f, ipsFld (view d) = some f ∧ d'.get? target = some f) := by
  cases on with
  | false => exact ⟨dk, by simp [opeIf], fun _ _ => rfl, rfl, by simp⟩
  | true =>
    obtain ⟨hA, hR⟩ := hon rfl
    obtain ⟨f, hf1, hf2⟩ := opeIps_ok h hA hR target h1 h2 h3
    refine ⟨dk.set target f, by simp [opeIf, hf2], ?_, extrasOf_set_excl dk _ _ ht, fun _ => ⟨f, hf1, Dict.get?_set_self dk _ _⟩⟩
    intro k hk
    exact Dict.get?_set_ne dk _ (Ne.symm hk)

theorem prep_ok {c : Config} {hs : Bool} {fl : Flags} {d : Dict (Fld V R)} (h : WF fl d) (hv : Valid c hs fl) :
    prep c fl d = .ok (rowOf c (view d)) := by
  obtain ⟨d1, hf, hs1, hr1, hx1⟩ := finalize_ok h
  have hlog1 : learnIps c = true → fl.hasAction = true ∧ fl.hasReward = true := by
    intro hl; apply hv.logged; right; left
    simpa [learnIps] using hl
  have hlog2 : evalIpsOwn c = true → fl.hasAction = true ∧ fl.hasReward = true := by
    intro hl; apply hv.logged; right; right
    simp [evalIpsOwn] at hl; exact hl.1
  obtain ⟨d2, hp2, hs2, hx2, hl2⟩ := opeIf_ok (dk := d1) h (learnIps c) "learn_rewards" (by decide) hlog1
    (hs1 _ (by decide)) (hs1 _ (by decide)) (hs1 _ (by decide))
  obtain ⟨d3, hp3, hs3, hx3, hl3⟩ := opeIf_ok (dk := d2) h (evalIpsOwn c) "eval_rewards" (by decide) hlog2
    ((hs2 _ (by decide)).trans (hs1 _ (by decide))) ((hs2 _ (by decide)).trans (hs1 _ (by decide)))
    ((hs2 _ (by decide)).trans (hs1 _ (by decide)))
  have hpipe : pipeline c fl d = .ok d3 := by
    simp [pipeline, hf, hp2, hp3, bind, Except.bind]
  simp only [prep, hpipe, bind, Except.bind]
  apply readRow_ok h
  · intro k k1 k2 k3
    rw [hs3 k k3, hs2 k k2, hs1 k k1]
  · rw [hs3 _ (by decide), hs2 _ (by decide), hr1]
  · intro hl
    obtain ⟨f, hf1, hf2⟩ := hl2 (by simp [learnIps, hl])
    exact ⟨f, hf1, by rw [hs3 _ (by decide), hf2]⟩
  · intro he
    by_cases hl : c.learn = .ips
    · obtain ⟨f, hf1, hf2⟩ := hl2 (by simp [learnIps, hl])
      refine ⟨f, hf1, ?_⟩
      have : evalTarget c = "learn_rewards" := by simp [evalTarget, evalIpsOwn, hl]
      rw [this, hs3 _ (by decide), hf2]
    · obtain ⟨f, hf1, hf2⟩ := hl3 (by simp [evalIpsOwn, he, hl])
      refine ⟨f, hf1, ?_⟩
      have : evalTarget c = "eval_rewards" := by simp [evalTarget, evalIpsOwn, hl, he]
      rw [this, hf2]
  · rw [hx3, hx2, hx1]

/-! ## rewards: the objects built by the filters compute the documented values -/

def toOpt {α : Type} : Except Err α → Option α
  | .ok a => some a
  | .error _ => none

@[simp] theorem toOpt_ok {α : Type} (a : α) : toOpt (Except.ok a : Except Err α) = some a := rfl
@[simp] theorem toOpt_error {α : Type} (e : Err) : toOpt (Except.error e : Except Err α) = none := rfl

/-- shape of the `rewards` field in a well-formed interaction -/
inductive WFR : View V R → Prop where
  | absent (v : View V R) : v.rewards = none → WFR v
  | list (v : View V R) (rs : List Rat) (as : List V) : v.rewards = some (.rlist rs) → v.acts = some as → WFR v
  | fn (v : View V R) (f : R) : v.rewards = some (.rfn f) → WFR v

theorem WFR_of_WF {fl : Flags} {d : Dict (Fld V R)} (h : WF fl d) : WFR (view d) := by
  have h3 := h.rwds
  cases hr : d.get? "rewards" with
  | none => exact .absent _ (by simp [view, hr])
  | some f =>
    rw [hr] at h3
    cases f with
    | rfn g => exact .fn _ g (by simp [view, hr])
    | rlist rs =>
      cases ha : d.get? "actions" with
      | none => rw [ha] at h3; simp at h3
      | some g =>
        rw [ha] at h3
        cases g with
        | acts as => exact .list _ rs as (by simp [view, hr]) (by simp [view, ha, viewActs])
        | val _ => simp at h3
        | none => simp at h3
        | num _ => simp at h3
        | rlist _ => simp at h3
        | rfn _ => simp at h3
        | disc _ _ => simp at h3
        | ips _ _ => simp at h3
    | val _ => cases d.get? "actions" <;> simp at h3
    | none => cases d.get? "actions" <;> simp at h3
    | acts _ => cases d.get? "actions" <;> simp at h3
    | num _ => cases d.get? "actions" <;> simp at h3
    | disc _ _ => cases d.get? "actions" <;> simp at h3
    | ips _ _ => cases d.get? "actions" <;> simp at h3

variable [DecidableEq V] [RewardFn R V]

theorem discApp_eq (as : List V) (rs : List Rat) (a : V) :
    discApp as rs a = (match (as.zip rs).lookup a with
      | some r => r
      | none => 0) := by
  induction as generalizing rs with
  | nil => simp [discApp]
  | cons x xs ih =>
    cases rs with
    | nil => simp [discApp]
    | cons r rs =>
      simp only [discApp, List.zip_cons_cons, List.lookup_cons]
      by_cases hx : x = a
      · subst hx; simp
      · have : (a == x) = false := by simp [Ne.symm hx]
        simp [hx, this, ih]

theorem applyFin_eq {v : View V R} (hw : WFR v) (a : V) :
    toOpt (applyRwd (finRewards v) (some a)) = envReward v a := by
  cases hw with
  | absent h => simp [finRewards, envReward, h, applyRwd]
  | list rs as h1 h2 =>
    simp only [finRewards, envReward, h1, h2, applyRwd, toOpt_ok, discApp_eq]
    cases (as.zip rs).lookup a <;> rfl
  | fn f h => simp [finRewards, envReward, h, applyRwd]

theorem applyIps_eq (v : View V R) (a : Option V) :
    toOpt (applyRwd (ipsFld v) a) = ipsReward v a := by
  cases hr : v.offRwd with
  | none => simp [ipsFld, ipsReward, hr, applyRwd]
  | some r =>
    simp only [ipsFld, ipsReward, hr, applyRwd, Option.map_some, toOpt_ok]
    congr 1

theorem toOpt_bind_ok {α β : Type} (x : Except Err α) (f : α → β) :
    toOpt (x >>= fun a => pure (f a)) = (toOpt x).map f := by
  cases x <;> rfl

theorem evalReward_eq {c : Config} {v : View V R} (hw : WFR v) (sb : Bool) (p : Option (Pred V)) (sc : Option Rat)
    (h1 : sb = true → c.eval = .ips ∧ p = none) (h2 : sb = false → sc = none) :
    toOpt (evalReward sb (rowOf c v) p sc) = evalRewardS c v p sc := by
  cases sb with
  | true =>
    obtain ⟨he, hp⟩ := h1 rfl
    subst hp
    cases sc with
    | none => simp [evalReward, evalRewardS, he]
    | some q =>
      have := applyIps_eq v v.offAct
      simp only [evalReward, evalRewardS, he, rowOf, if_true]
      rw [toOpt_bind_ok, this]
  | false =>
    have hs := h2 rfl
    subst hs
    cases p with
    | none => cases he : c.eval <;> simp [evalReward, evalRewardS, he]
    | some p =>
      cases he : c.eval with
      | on =>
        have := applyFin_eq hw p.action
        simp_all [evalReward, evalRewardS, rowOf]
      | ips =>
        have := applyIps_eq v (some p.action)
        simp_all [evalReward, evalRewardS, rowOf]
      | none => simp [evalReward, evalRewardS, rowOf, he, applyRwd]

theorem learnArgs_eq {c : Config} {v : View V R} (hw : WFR v) (p : Option (Pred V)) (hl : c.learn ≠ .none) :
    toOpt (learnArgs c (rowOf c v) p) = learnArgsS c v p := by
  cases hc : c.learn with
  | none => exact absurd hc hl
  | off => simp [learnArgs, learnArgsS, hc, rowOf]
  | on =>
    cases p with
    | none => simp [learnArgs, learnArgsS, hc]
    | some p =>
      have := applyFin_eq hw p.action
      simp only [learnArgs, learnArgsS, hc, rowOf]
      simp only [lm_beq, reduceCtorEq, decide_false, Bool.false_eq_true, if_false, if_true]
      rw [toOpt_bind_ok, this]
  | ips =>
    cases p with
    | none => simp [learnArgs, learnArgsS, hc]
    | some p =>
      have := applyIps_eq v (some p.action)
      simp only [learnArgs, learnArgsS, hc, rowOf]
      simp only [lm_beq, reduceCtorEq, decide_false, Bool.false_eq_true, if_false, if_true]
      rw [toOpt_bind_ok, this]

/-! ## rows -/

omit [DecidableEq V] [RewardFn R V] in
theorem Dict.get?_none_of_keys {α : Type} (d : Dict α) (k : String) (h : ∀ kv ∈ d, kv.1 ≠ k) : d.get? k = none := by
  induction d with
  | nil => rfl
  | cons hd tl ih =>
    obtain ⟨k1, v1⟩ := hd
    have h1 : k1 ≠ k := h (k1, v1) (by simp)
    simp only [Dict.get?, h1, if_false]
    exact ih (fun kv hkv => h kv (by simp [hkv]))

omit [DecidableEq V] [RewardFn R V] in
theorem Dict.set_fresh {α : Type} (d : Dict α) (k : String) (v : α) (h : ∀ kv ∈ d, kv.1 ≠ k) : d.set k v = d ++ [(k, v)] := by
  induction d with
  | nil => rfl
  | cons hd tl ih =>
    obtain ⟨k1, v1⟩ := hd
    have h1 : k1 ≠ k := h (k1, v1) (by simp)
    simp only [Dict.set, h1, if_false, List.cons_append]
    rw [ih (fun kv hkv => h kv (by simp [hkv]))]

omit [DecidableEq V] [RewardFn R V] in
theorem foldl_set_fresh (ex : Dict (Fld V R)) (base : Row V R)
    (hnd : nodupKeys (Dict.keys ex) = true) (hfresh : ∀ kv ∈ ex, ∀ b ∈ base, b.1 ≠ kv.1) :
    ex.foldl (fun o kv => Dict.set o kv.1 (Cell.fld kv.2)) base = base ++ ex.map (fun kv => (kv.1, Cell.fld kv.2)) := by
  induction ex generalizing base with
  | nil => simp
  | cons hd tl ih =>
    obtain ⟨k, f⟩ := hd
    simp only [Dict.keys, List.map_cons, nodupKeys, Bool.and_eq_true, Bool.not_eq_true', ] at hnd
    obtain ⟨hk, hnd'⟩ := hnd
    simp only [List.foldl_cons, List.map_cons]
    rw [Dict.set_fresh base k _ (fun b hb => hfresh (k, f) (by simp) b hb)]
    rw [ih (base ++ [(k, Cell.fld f)]) hnd']
    · simp
    · intro kv hkv b hb
      simp only [List.mem_append, List.mem_singleton] at hb
      rcases hb with hb | hb
      · exact hfresh kv (by simp [hkv]) b hb
      · subst hb
        intro heq
        have : (List.map (fun x => x.fst) tl).contains k = true := by
          simp only [List.contains_iff_mem, List.mem_map]
          exact ⟨kv, hkv, heq.symm⟩
        rw [this] at hk
        cases hk

omit [DecidableEq V] [RewardFn R V] in
theorem nodupKeys_filter (d : Dict (Fld V R)) (q : String × Fld V R → Bool) (h : nodupKeys (Dict.keys d) = true) :
    nodupKeys (Dict.keys (d.filter q)) = true := by
  induction d with
  | nil => simp [Dict.keys, nodupKeys]
  | cons hd tl ih =>
    simp only [Dict.keys, List.map_cons, nodupKeys, Bool.and_eq_true, Bool.not_eq_true'] at h
    obtain ⟨hk, hnd⟩ := h
    have ih' := ih hnd
    by_cases hq : q hd = true
    · simp only [List.filter_cons, hq, if_true, Dict.keys, List.map_cons, nodupKeys, Bool.and_eq_true, Bool.not_eq_true']
      refine ⟨?_, ih'⟩
      cases hc : (List.map (fun x => x.fst) (List.filter q tl)).contains hd.fst with
      | false => rfl
      | true =>
        simp only [List.contains_iff_mem, List.mem_map, List.mem_filter] at hc
        obtain ⟨kv, ⟨hkv, _⟩, heq⟩ := hc
        have : (List.map (fun x => x.fst) tl).contains hd.fst = true := by
          simp only [List.contains_iff_mem, List.mem_map]
          exact ⟨kv, hkv, heq⟩
        rw [this] at hk
        cases hk
    · simp only [List.filter_cons, hq]
      exact ih'

omit [DecidableEq V] [RewardFn R V] in
theorem extras_fresh (d : Dict (Fld V R)) : ∀ kv ∈ extrasOf d, kv.1 ∉ implicitExclude := by
  intro kv hkv
  simp only [extrasOf, List.mem_filter, Bool.not_eq_true', List.contains_eq_mem, decide_eq_false_iff_not] at hkv
  exact hkv.2

theorem rewardsAt_eq {v : View V R} (hw : WFR v) (as : List V) :
    toOpt (rewardsAt (finRewards v) as) = rewardsAtS v as := by
  induction as with
  | nil => simp [rewardsAt, rewardsAtS]
  | cons a as ih =>
    have h1 := applyFin_eq hw a
    simp only [rewardsAt, rewardsAtS]
    cases hx : applyRwd (finRewards v) (some a) with
    | error e =>
      rw [hx] at h1; simp only [toOpt_error] at h1
      simp [← h1, bind, Except.bind]
    | ok x =>
      rw [hx] at h1; simp only [toOpt_ok] at h1
      cases hy : rewardsAt (finRewards v) as with
      | error e =>
        rw [hy] at ih; simp only [toOpt_error] at ih
        simp [← h1, ← ih, bind, Except.bind]
      | ok xs =>
        rw [hy] at ih; simp only [toOpt_ok] at ih
        simp [← h1, ← ih, bind, Except.bind, pure, Except.pure]

theorem rewardsCell_eq {c : Config} {fl : Flags} {v : View V R} (hw : WFR v)
    (hfin : fl.discrete = false → finRewards v = v.rewards) :
    toOpt (rewardsCell c fl (rowOf c v)) = rewardsCellS c fl v := by
  simp only [rewardsCell, rewardsCellS]
  split
  · cases hd : fl.discrete with
    | true =>
      simp only [rowOf, if_true]
      cases ha : v.acts with
      | none => simp
      | some as =>
        have := rewardsAt_eq hw as
        simp only
        cases hx : rewardsAt (finRewards v) as with
        | error e => rw [hx] at this; simp only [toOpt_error] at this; simp [← this, Except.map]
        | ok xs => rw [hx] at this; simp only [toOpt_ok] at this; simp [← this, Except.map]
    | false =>
      simp only [rowOf, hfin hd, Bool.false_eq_true, if_false]
      cases v.rewards <;> simp
  · simp

omit [DecidableEq V] [RewardFn R V] in
theorem Except.map_eq_ok {α β : Type} {x : Except Err α} {f : α → β} {b : β} (h : x.map f = .ok b) :
    ∃ a, x = .ok a ∧ b = f a := by
  cases x with
  | error e => simp [Except.map] at h
  | ok a => simp only [Except.map, Except.ok.injEq] at h; exact ⟨a, rfl, h.symm⟩

theorem rewardsCell_keys {c : Config} {fl : Flags} {r : RowIn V R} {rw : Row V R}
    (hx : rewardsCell c fl r = .ok rw) : ∀ b ∈ rw, b.1 = "rewards" := by
  intro b hb
  unfold rewardsCell at hx
  by_cases h1 : (c.rcd "rewards" && fl.hasRewards) = true
  · rw [if_pos h1] at hx
    by_cases h2 : fl.discrete = true
    · rw [if_pos h2] at hx
      cases ha : r.acts with
      | none => rw [ha] at hx; cases hx
      | some as =>
        rw [ha] at hx
        obtain ⟨xs, _, hrw⟩ := Except.map_eq_ok hx
        subst hrw; simp at hb; simp [hb]
    · rw [if_neg h2] at hx
      cases hr : r.rewards with
      | none => rw [hr] at hx; cases hx
      | some f =>
        rw [hr] at hx
        simp only [Except.ok.injEq] at hx
        subst hx; simp at hb; simp [hb]
  · rw [if_neg h1] at hx
    simp only [Except.ok.injEq] at hx
    subst hx; simp at hb

theorem mkRow_eq {c : Config} {fl : Flags} {v : View V R} (hw : WFR v) (sp : Bool) (p : Option (Pred V)) (er : Option Rat)
    (hp : p.isSome = sp) (hfin : fl.discrete = false → finRewards v = v.rewards)
    (hnd : nodupKeys (Dict.keys v.extras) = true) (hfr : ∀ kv ∈ v.extras, kv.1 ∉ implicitExclude) :
    toOpt (mkRow c fl sp false (rowOf c v) p er) = rowS c fl v p er := by
  have hrc := rewardsCell_eq (c := c) hw hfin
  simp only [mkRow, rowS]
  cases hx : rewardsCell c fl (rowOf c v) with
  | error e => rw [hx] at hrc; simp only [toOpt_error] at hrc; simp [← hrc, Except.map]
  | ok rw =>
    have hrwkeys := rewardsCell_keys hx
    rw [hx] at hrc; simp only [toOpt_ok] at hrc
    simp only [← hrc, Except.map, toOpt_ok, Option.map_some]
    have hex : (rowOf c v).extras = v.extras := rfl
    rw [hex, foldl_set_fresh _ _ hnd]
    · congr 1
      simp only [rowOf, outAction, outProb, Bool.false_or]
      congr 1
      congr 1
      cases hpp : p.bind (·.prob) with
      | none => simp
      | some q =>
        have : sp = true := by
          cases p with
          | none => simp at hpp
          | some _ => simpa using hp.symm
        simp [this]
    · intro kv hkv b hb heq
      have hk := hfr kv hkv
      apply hk
      rw [← heq]
      simp only [List.mem_append] at hb
      rcases hb with ((((hb | hb) | hb) | hb) | hb) | hb
      · split at hb <;> simp at hb; subst hb; show _ ∈ implicitExclude; simp [implicitExclude]
      · split at hb <;> simp at hb; subst hb; show _ ∈ implicitExclude; simp [implicitExclude]
      · split at hb <;> simp at hb; subst hb; show _ ∈ implicitExclude; simp [implicitExclude]
      · split at hb <;> simp at hb; subst hb; show _ ∈ implicitExclude; simp [implicitExclude]
      · rw [hrwkeys b hb]; decide
      · split at hb <;> simp at hb; subst hb; show _ ∈ implicitExclude; simp [implicitExclude]

/-! ## one interaction: the loop body on a batch of one is `specInter` -/

omit [DecidableEq V] [RewardFn R V] in
theorem toOpt_bind {α β : Type} (x : Except Err α) (f : α → Except Err β) :
    toOpt (x.bind f) = (toOpt x).bind (fun a => toOpt (f a)) := by
  cases x <;> rfl

omit [DecidableEq V] [RewardFn R V] in
theorem toOpt_map {α β : Type} (x : Except Err α) (f : α → β) : toOpt (x.map f) = (toOpt x).map f := by
  cases x <;> rfl

omit [DecidableEq V] [RewardFn R V] in
theorem finRewards_raw {fl : Flags} {d : Dict (Fld V R)} (h : WF fl d) (hl : fl.rwdsIsList = false) :
    finRewards (view d) = (view d).rewards := by
  have h3 := h.rwds
  simp only [finRewards, view]
  cases hr : d.get? "rewards" with
  | none => rfl
  | some f =>
    cases f <;> try rfl
    rw [hr] at h3
    cases ha : d.get? "actions" with
    | none => simp_all
    | some g => cases g <;> simp_all

theorem evalsOf_single {c : Config} {v : View V R} (hw : WFR v) (sb : Bool) (p : Option (Pred V)) (sc : Option Rat)
    (h1 : sb = true → c.eval = .ips ∧ p = none) (h2 : sb = false → sc = none) :
    toOpt (evalsOf c sb [rowOf c v] [p] [sc])
      = (if c.eval != .none then (evalRewardS c v p sc).map some else some none).map (fun x => [x]) := by
  have := evalReward_eq (c := c) hw sb p sc h1 h2
  unfold evalsOf
  by_cases he : (c.eval != .none) = true
  · rw [if_pos he, if_pos he, toOpt_map]
    simp only [mapM₃, bind, Except.bind, pure, Except.pure]
    cases hx : evalReward sb (rowOf c v) p sc with
    | error e => rw [hx] at this; simp only [toOpt_error] at this; simp [← this]
    | ok x => rw [hx] at this; simp only [toOpt_ok] at this; simp [← this]
  · rw [if_neg he, if_neg he]; simp

theorem learnsOf_single {c : Config} {σ : Type} (L : Learner σ V) (s : σ) {v : View V R} (hw : WFR v) (p : Option (Pred V)) :
    toOpt (learnsOf c L s [rowOf c v] [p])
      = (if c.learn != .none then
          (learnArgsS c v p).map (fun a => (L.learn s v.ctx a.1 a.2.1 a.2.2.1 a.2.2.2, [Call.learn v.ctx a.1 a.2.1 a.2.2.1 a.2.2.2]))
        else some (s, [])) := by
  unfold learnsOf
  by_cases hl : (c.learn != .none) = true
  · have hne : c.learn ≠ .none := by simpa [bne] using hl
    have := learnArgs_eq (c := c) hw p hne
    rw [if_pos hl, if_pos hl, toOpt_map]
    simp only [mapM₂, bind, Except.bind, pure, Except.pure]
    cases hx : learnArgs c (rowOf c v) p with
    | error e => rw [hx] at this; simp only [toOpt_error] at this; simp [← this]
    | ok a =>
      rw [hx] at this; simp only [toOpt_ok] at this
      simp [← this, learnPhase, rowOf]
  · rw [if_neg hl, if_neg hl]; rfl

theorem rows_single {c : Config} {fl : Flags} {v : View V R} (hw : WFR v) (sp : Bool) (p : Option (Pred V)) (er : Option Rat)
    (hp : p.isSome = sp) (hfin : fl.discrete = false → finRewards v = v.rewards)
    (hnd : nodupKeys (Dict.keys v.extras) = true) (hfr : ∀ kv ∈ v.extras, kv.1 ∉ implicitExclude) :
    toOpt (mapM₃ (mkRow c fl sp false) [rowOf c v] [p] [er]) = (rowS c fl v p er).map (fun x => [x]) := by
  have := mkRow_eq (c := c) (fl := fl) hw sp p er hp hfin hnd hfr
  simp only [mapM₃, bind, Except.bind, pure, Except.pure]
  cases hx : mkRow c fl sp false (rowOf c v) p er with
  | error e => rw [hx] at this; simp only [toOpt_error] at this; simp [← this]
  | ok x => rw [hx] at this; simp only [toOpt_ok] at this; simp [← this]

theorem stepChunk_single {σ : Type} {c : Config} {fl : Flags} (L : Learner σ V) (s : σ) {d : Dict (Fld V R)}
    (h : WF fl d) (hv : Valid c L.hasScore fl) (hseq : fl.rwdsIsList = true → fl.discrete = true)
    (hnd : nodupKeys d.keys = true) :
    toOpt (stepChunk c fl L false s [d]) =
      (specInter c fl L s (view d)).map (fun r => (r.1, r.2.1, [r.2.2].filter (fun o => !o.isEmpty))) := by
  have hprep : prepAll c fl [d] = .ok [rowOf c (view d)] := by
    simp [prepAll, prep_ok h hv, bind, Except.bind, pure, Except.pure]
  have hw := WFR_of_WF h
  have hfin : fl.discrete = false → finRewards (view d) = (view d).rewards := by
    intro hd
    apply finRewards_raw h
    cases hl : fl.rwdsIsList with
    | false => rfl
    | true => rw [hseq hl] at hd; cases hd
  have hnd' : nodupKeys (Dict.keys (view d).extras) = true := nodupKeys_filter d _ hnd
  have hfr : ∀ kv ∈ (view d).extras, kv.1 ∉ implicitExclude := extras_fresh d
  have hc : (rowOf c (view d)).ctx = (view d).ctx := rfl
  have ha : (rowOf c (view d)).acts = (view d).acts := rfl
  have ho : (rowOf c (view d)).offAct = (view d).offAct := rfl
  unfold stepChunk specInter
  rw [hprep]
  simp only [toOpt_bind, toOpt_map, toOpt_ok, Option.bind_some, shouldPred_eq_needPred]
  cases hnp : needPred c L.hasScore with
  | true =>
    simp only [Bool.not_true, Bool.and_false, Bool.false_eq_true, if_false, if_true, predictPhase, List.foldl_cons, List.foldl_nil,
      List.nil_append, optList, List.map_cons, List.map_nil, List.length_cons, List.length_nil, hc, ha, ho,
      List.replicate_succ, List.replicate_zero]
    rw [evalsOf_single hw false _ none (by simp) (by simp)]
    rw [learnsOf_single L _ hw]
    have hrows := fun er => rows_single (c := c) (fl := fl) hw true (some (L.predict s (view d).ctx (view d).acts).2) er
      (by simp) hfin hnd' hfr
    by_cases he : (c.eval != .none) = true <;> by_cases hl : (c.learn != .none) = true <;>
      cases evalRewardS c (view d) (some (L.predict s (view d).ctx (view d).acts).2) none <;>
      cases learnArgsS c (view d) (some (L.predict s (view d).ctx (view d).acts).2) <;>
      simp [he, hl, hrows, Option.map_map, Function.comp_def]
  | false =>
    simp only [Bool.not_false, Bool.and_true, Bool.false_eq_true, if_false, List.nil_append, optList, List.length_cons,
      List.length_nil, List.replicate_succ, List.replicate_zero, hc, ha, ho]
    have hrows := fun er => rows_single (c := c) (fl := fl) hw false none er (by simp) hfin hnd' hfr
    cases hsb : (c.eval == EvalMode.ips && L.hasScore) with
    | true =>
      have hips : c.eval = .ips := by
        simp only [Bool.and_eq_true, em_beq, decide_eq_true_eq] at hsb; exact hsb.1
      simp only [if_true, scorePhase, List.foldl_cons, List.foldl_nil, List.nil_append, List.map_cons, List.map_nil, hc, ha, ho]
      rw [evalsOf_single hw true none _ (by simp [hips]) (by simp)]
      rw [learnsOf_single L _ hw]
      by_cases hl : (c.learn != .none) = true <;>
        cases evalRewardS c (view d) none (some (L.score s (view d).ctx (view d).acts (view d).offAct).2) <;>
        cases learnArgsS c (view d) none <;>
        simp [hips, hl, hrows, Option.map_map, Function.comp_def]
    | false =>
      simp only [Bool.false_eq_true, if_false, List.nil_append]
      rw [evalsOf_single hw false none none (by simp) (by simp)]
      rw [learnsOf_single L _ hw]
      by_cases he : (c.eval != .none) = true <;> by_cases hl : (c.learn != .none) = true <;>
        cases evalRewardS c (view d) none none <;>
        cases learnArgsS c (view d) none <;>
        simp [he, hl, hrows, Option.map_map, Function.comp_def]

omit [DecidableEq V] [RewardFn R V] in
theorem chunksAux_one {α : Type} (fuel : Nat) (l : List α) (h : l.length ≤ fuel) : chunksAux 1 fuel l = l.map ([·]) := by
  induction fuel generalizing l with
  | zero =>
    have : l = [] := List.eq_nil_of_length_eq_zero (Nat.le_zero.mp h)
    subst this; rfl
  | succ n ih =>
    cases l with
    | nil => simp [chunksAux]
    | cons x xs =>
      simp only [chunksAux, List.isEmpty_cons, Bool.false_eq_true, if_false, List.take_succ_cons, List.take_zero,
        List.drop_succ_cons, List.drop_zero, List.map_cons]
      rw [ih xs (by simpa using h)]

omit [DecidableEq V] [RewardFn R V] in
theorem chunks_one {α : Type} (l : List α) : chunks 1 l = l.map ([·]) := chunksAux_one _ l (Nat.le_refl _)

theorem runChunks_single {σ : Type} {c : Config} {fl : Flags} (L : Learner σ V) (hv : Valid c L.hasScore fl)
    (hseq : fl.rwdsIsList = true → fl.discrete = true) (env : List (Dict (Fld V R)))
    (hall : ∀ d ∈ env, WF fl d ∧ nodupKeys d.keys = true) (s : σ) (cs : List (Call V)) (rs : List (Row V R)) :
    toOpt (runChunks c fl L false s cs rs (env.map ([·]))) =
      (specRun c fl L s (env.map view)).map
        (fun r => (r.1, cs ++ r.2.1, rs ++ r.2.2.filter (fun o => !o.isEmpty))) := by
  induction env generalizing s cs rs with
  | nil => simp [runChunks, specRun]
  | cons d rest ih =>
    obtain ⟨hwf, hnd⟩ := hall d (by simp)
    have hrest : ∀ d' ∈ rest, WF fl d' ∧ nodupKeys d'.keys = true := fun d' hd' => hall d' (by simp [hd'])
    simp only [List.map_cons, runChunks, specRun, toOpt_bind]
    rw [stepChunk_single L s hwf hv hseq hnd]
    cases hsi : specInter c fl L s (view d) with
    | none => simp
    | some r1 =>
      simp only [Option.map_some, Option.bind_some]
      rw [ih hrest]
      cases specRun c fl L r1.1 (List.map view rest) with
      | none => simp
      | some r2 =>
        simp only [Option.map_some, Option.some.injEq, Prod.mk.injEq, true_and]
        constructor
        · simp [List.append_assoc]
        · by_cases he : r1.2.2.isEmpty = true <;> simp [List.filter_cons, he, List.append_assoc]

/-! ## the whole evaluation -/

def Outcome.toOpt {α : Type} : Outcome α → Option α
  | .ok a => some a
  | _ => none

omit [DecidableEq V] [RewardFn R V] in
theorem wfEnv_all {first : Dict (Fld V R)} {rest : List (Dict (Fld V R))} (h : wfEnv (first :: rest) = true) :
    ∀ d ∈ first :: rest, WF (mkFlags first) d ∧ nodupKeys d.keys = true := by
  intro d hd
  simp only [wfEnv, List.all_eq_true, Bool.and_eq_true] at h
  exact ⟨WF_of_wf (h d hd).1, (h d hd).2⟩

/-- refinement: on a well-formed environment that passes validation the (unbatched) model
computes exactly what the spec describes -/
theorem evaluate_refines' {σ : Type} (c : Config) (L : Learner σ V) (first : Dict (Fld V R)) (rest : List (Dict (Fld V R)))
    (s : σ) (hwf : wfEnv (first :: rest) = true) (hmiss : missingKeys c L.hasScore first = [])
    (hseq : (mkFlags first).rwdsIsList = true → (mkFlags first).discrete = true) :
    (evaluate c L none (first :: rest) s).toOpt =
      (specRun c (mkFlags first) L s ((first :: rest).map view)).map
        (fun r => (r.1, r.2.1, r.2.2.filter (fun o => !o.isEmpty))) := by
  have hv := valid_of_missing_nil c L.hasScore first hmiss
  have hall := wfEnv_all hwf
  have := runChunks_single L hv hseq (first :: rest) hall s [] []
  simp only [evaluate, hmiss, List.isEmpty_nil, Bool.not_true, Bool.false_eq_true, if_false, chunks_one]
  simp only [List.nil_append] at this
  rw [← this]
  cases runChunks c (mkFlags first) L false s [] [] (List.map (fun x => [x]) (first :: rest)) <;> rfl

/-! ## validation -/

omit [DecidableEq V] [RewardFn R V] in
theorem missingKeys_ne_nil_iff (c : Config) (hs : Bool) (first : Dict (Fld V R)) :
    missingKeys c hs first ≠ [] ↔ ∃ k ∈ required c hs, first.has k = false := by
  unfold missingKeys
  constructor
  · intro h
    cases hf : (required c hs).filter (fun k => !first.has k) with
    | nil => exact absurd hf h
    | cons k ks =>
      have hk : k ∈ (required c hs).filter (fun k => !first.has k) := by rw [hf]; simp
      simp only [List.mem_filter, Bool.not_eq_true'] at hk
      exact ⟨k, hk.1, hk.2⟩
  · intro ⟨k, hk, h⟩ hnil
    have : k ∈ (required c hs).filter (fun k => !first.has k) := List.mem_filter.mpr ⟨hk, by simp [h]⟩
    rw [hnil] at this
    cases this

omit [DecidableEq V] [RewardFn R V] in
theorem ofExcept_ne_rejected {α : Type} (x : Except Err α) (ks : List String) : Outcome.ofExcept x ≠ .rejected ks := by
  cases x <;> simp [Outcome.ofExcept]

theorem validate_iff' {σ : Type} (c : Config) (L : Learner σ V) (bs : Option Nat) (env : List (Dict (Fld V R))) (s : σ) :
    (∃ ks, evaluate c L bs env s = .rejected ks) ↔
      ∃ first rest, env = first :: rest ∧ ∃ k ∈ required c L.hasScore, first.has k = false := by
  cases env with
  | nil => simp [evaluate]
  | cons first rest =>
    have hiff := missingKeys_ne_nil_iff c L.hasScore first
    have hrhs : (∃ first' rest', first :: rest = first' :: rest' ∧ ∃ k ∈ required c L.hasScore, first'.has k = false)
        ↔ missingKeys c L.hasScore first ≠ [] := by
      rw [hiff]
      constructor
      · rintro ⟨f', r', heq, hk⟩
        simp only [List.cons.injEq] at heq
        rw [heq.1]; exact hk
      · intro hk; exact ⟨first, rest, rfl, hk⟩
    rw [hrhs]
    simp only [evaluate]
    cases hm : missingKeys c L.hasScore first with
    | nil =>
      simp only [List.isEmpty_nil, Bool.not_true, Bool.false_eq_true, if_false, ne_eq, not_true_eq_false, iff_false, not_exists]
      intro ks
      cases bs <;> simp [ofExcept_ne_rejected]
    | cons k ks => simp

theorem rejected_keys' {σ : Type} (c : Config) (L : Learner σ V) (bs : Option Nat) (first : Dict (Fld V R))
    (rest : List (Dict (Fld V R))) (s : σ) (ks : List String) (h : evaluate c L bs (first :: rest) s = .rejected ks) :
    ks = (required c L.hasScore).filter (fun k => !first.has k) := by
  simp only [evaluate] at h
  cases hm : missingKeys c L.hasScore first with
  | nil =>
    rw [hm] at h
    simp only [List.isEmpty_nil, Bool.not_true, Bool.false_eq_true, if_false] at h
    cases bs <;> simp [ofExcept_ne_rejected] at h
  | cons k ks' =>
    rw [hm] at h
    simp only [List.isEmpty_cons, Bool.not_false, if_true, Outcome.rejected.injEq] at h
    rw [← h, ← hm]; rfl

theorem mem_requiredS_iff (c : Config) (hs : Bool) (k : String) :
    k ∈ requiredS c hs ↔ k ∈ required c hs ∨ (k = "probability" ∧ (c.learn = .ips ∨ c.eval = .ips)) := by
  obtain ⟨l, e, r⟩ := c
  cases l <;> cases e <;> cases hs <;>
    by_cases ha : "action" ∈ r <;> by_cases hp : "probability" ∈ r <;>
    simp [requiredS, required, needPred, outAction, outProb, Config.rcd, bne, ha, hp] <;> grind

/-! ## shape of the specified trace and rows -/

def Call.ctx : Call V → Option V
  | .predict c _ => c
  | .score c _ _ => c
  | .learn c _ _ _ _ => c

def Call.isPredict : Call V → Bool
  | .predict _ _ => true
  | _ => false

/-- the calls of one interaction, written out -/
theorem specInter_calls {σ : Type} {c : Config} {fl : Flags} (L : Learner σ V) (s : σ) (v : View V R)
    (r : σ × List (Call V) × Row V R) (h : specInter c fl L s v = some r) :
    ∃ lc : List (Call V),
      r.2.1 = (if needPred c L.hasScore then [Call.predict v.ctx v.acts] else [])
        ++ (if (c.eval == .ips && L.hasScore && !needPred c L.hasScore) then [Call.score v.ctx v.acts v.offAct] else [])
        ++ lc
      ∧ ((c.learn = .none ∧ lc = []) ∨
         (c.learn ≠ .none ∧ ∃ a, learnArgsS c v (if needPred c L.hasScore then some (L.predict s v.ctx v.acts).2 else none) = some a
            ∧ lc = [Call.learn v.ctx a.1 a.2.1 a.2.2.1 a.2.2.2])) := by
  unfold specInter at h
  simp only [Option.bind_eq_some_iff, Option.map_eq_some_iff] at h
  obtain ⟨er, _, sc3, hl, row, _, hr⟩ := h
  subst hr
  by_cases hln : (c.learn != .none) = true
  · rw [if_pos hln] at hl
    simp only [Option.map_eq_some_iff] at hl
    obtain ⟨a, ha, hsc⟩ := hl
    subst hsc
    refine ⟨_, rfl, Or.inr ⟨by simpa [bne] using hln, a, ha, rfl⟩⟩
  · rw [if_neg hln] at hl
    simp only [Option.some.injEq] at hl
    subst hl
    refine ⟨[], by simp, Or.inl ⟨by simpa [bne] using hln, rfl⟩⟩

theorem specInter_ctx {σ : Type} {c : Config} {fl : Flags} (L : Learner σ V) (s : σ) (v : View V R)
    (r : σ × List (Call V) × Row V R) (h : specInter c fl L s v = some r) : ∀ call ∈ r.2.1, Call.ctx call = v.ctx := by
  obtain ⟨lc, hcs, hlc⟩ := specInter_calls L s v r h
  intro call hc
  rw [hcs] at hc
  simp only [List.mem_append] at hc
  rcases hc with (hc | hc) | hc
  · split at hc <;> simp at hc; subst hc; rfl
  · split at hc <;> simp at hc; subst hc; rfl
  · rcases hlc with ⟨_, h0⟩ | ⟨_, a, _, h1⟩
    · subst h0; simp at hc
    · subst h1; simp at hc; subst hc; rfl

/-- interactions strictly in environment order: the trace is the concatenation, in order, of one group of
calls per interaction, and every call of the i-th group carries the i-th interaction's context -/
theorem specRun_order {σ : Type} {c : Config} {fl : Flags} (L : Learner σ V) (vs : List (View V R)) (s : σ)
    (r : σ × List (Call V) × List (Row V R)) (h : specRun c fl L s vs = some r) :
    ∃ groups : List (List (Call V)), r.2.1 = groups.flatten ∧ r.2.2.length = vs.length ∧ groups.length = vs.length ∧
      ∀ vg ∈ vs.zip groups, ∀ call ∈ vg.2, Call.ctx call = vg.1.ctx := by
  induction vs generalizing s r with
  | nil =>
    simp only [specRun, Option.some.injEq] at h
    subst h
    exact ⟨[], rfl, rfl, rfl, by simp⟩
  | cons v vs ih =>
    simp only [specRun, Option.bind_eq_some_iff, Option.map_eq_some_iff] at h
    obtain ⟨r1, h1, r2, h2, hr⟩ := h
    subst hr
    obtain ⟨gs, hg1, hg2, hg3, hg4⟩ := ih r1.1 r2 h2
    refine ⟨r1.2.1 :: gs, by simp [hg1], by simp [hg2], by simp [hg3], ?_⟩
    intro vg hvg
    simp only [List.zip_cons_cons, List.mem_cons] at hvg
    rcases hvg with hvg | hvg
    · subst hvg; exact specInter_ctx L s v r1 h1
    · exact hg4 vg hvg

theorem specRun_no_predict {σ : Type} {c : Config} {fl : Flags} (L : Learner σ V) (hnp : needPred c L.hasScore = false)
    (vs : List (View V R)) (s : σ) (r : σ × List (Call V) × List (Row V R)) (h : specRun c fl L s vs = some r) :
    ∀ call ∈ r.2.1, Call.isPredict call = false := by
  induction vs generalizing s r with
  | nil =>
    simp only [specRun, Option.some.injEq] at h
    subst h; simp
  | cons v vs ih =>
    simp only [specRun, Option.bind_eq_some_iff, Option.map_eq_some_iff] at h
    obtain ⟨r1, h1, r2, h2, hr⟩ := h
    subst hr
    intro call hc
    simp only [List.mem_append] at hc
    rcases hc with hc | hc
    · obtain ⟨lc, hcs, hlc⟩ := specInter_calls L s v r1 h1
      rw [hcs, hnp] at hc
      simp only [Bool.false_eq_true, if_false, List.nil_append, List.mem_append] at hc
      rcases hc with hc | hc
      · split at hc <;> simp at hc; subst hc; rfl
      · rcases hlc with ⟨_, h0⟩ | ⟨_, a, _, h1'⟩
        · subst h0; simp at hc
        · subst h1'; simp at hc; subst hc; rfl
    · exact ih r1.1 r2 h2 call hc

/-- on-policy learning: exactly one predict with the interaction's context and actions, then one learn with the
same context, the action the learner chose, the environment's (or IPS) reward for that action, and the learner's
own probability and kwargs -/
theorem specInter_on_policy {σ : Type} {c : Config} {fl : Flags} (L : Learner σ V) (s : σ) (v : View V R)
    (r : σ × List (Call V) × Row V R) (h : specInter c fl L s v = some r) (hl : c.learn = .on ∨ c.learn = .ips) :
    ∃ rew, (if c.learn = .on then envReward v (L.predict s v.ctx v.acts).2.action
            else ipsReward v (some (L.predict s v.ctx v.acts).2.action)) = some rew ∧
      r.2.1 = [Call.predict v.ctx v.acts,
               Call.learn v.ctx (some (L.predict s v.ctx v.acts).2.action) (some rew)
                 (L.predict s v.ctx v.acts).2.prob (L.predict s v.ctx v.acts).2.kw] := by
  obtain ⟨lc, hcs, hlc⟩ := specInter_calls L s v r h
  have hnp : needPred c L.hasScore = true := by
    rcases hl with hl | hl <;> simp [needPred, hl]
  rw [hnp] at hcs hlc
  simp only [if_true, Bool.not_true, Bool.and_false, Bool.false_eq_true, if_false, List.append_nil] at hcs hlc
  rcases hlc with ⟨h0, _⟩ | ⟨_, a, ha, h1⟩
  · rcases hl with hl | hl <;> rw [hl] at h0 <;> cases h0
  · rcases hl with hl | hl
    · simp only [learnArgsS, hl, Option.map_eq_some_iff] at ha
      obtain ⟨rew, hrew, haeq⟩ := ha
      subst haeq
      exact ⟨rew, by simp [hl, hrew], by rw [hcs, h1]; rfl⟩
    · simp only [learnArgsS, hl, Option.map_eq_some_iff] at ha
      obtain ⟨rew, hrew, haeq⟩ := ha
      subst haeq
      exact ⟨rew, by simp [hl, hrew], by rw [hcs, h1]; rfl⟩

/-- off-policy learning: the learn call carries the logged action, reward and probability, and no kwargs -/
theorem specInter_off_policy {σ : Type} {c : Config} {fl : Flags} (L : Learner σ V) (s : σ) (v : View V R)
    (r : σ × List (Call V) × Row V R) (h : specInter c fl L s v = some r) (hl : c.learn = .off) :
    r.2.1.getLast? = some (Call.learn v.ctx v.offAct v.offRwd v.offPr []) := by
  obtain ⟨lc, hcs, hlc⟩ := specInter_calls L s v r h
  rcases hlc with ⟨h0, _⟩ | ⟨_, a, ha, h1⟩
  · rw [hl] at h0; cases h0
  · simp only [learnArgsS, hl, Option.some.injEq] at ha
    subst ha
    rw [hcs, h1]
    simp

/-- every additional field of the interaction is carried into its row unchanged (the row ends with them, in order) -/
theorem specInter_extras {σ : Type} {c : Config} {fl : Flags} (L : Learner σ V) (s : σ) (v : View V R)
    (r : σ × List (Call V) × Row V R) (h : specInter c fl L s v = some r) :
    ∃ pre : Row V R, r.2.2 = pre ++ v.extras.map (fun kv => (kv.1, Cell.fld kv.2))
      ∧ ∀ b ∈ pre, b.1 ∈ implicitExclude := by
  unfold specInter at h
  simp only [Option.bind_eq_some_iff, Option.map_eq_some_iff] at h
  obtain ⟨er, _, sc3, _, row, hrow, hr⟩ := h
  subst hr
  simp only [rowS, Option.map_eq_some_iff] at hrow
  obtain ⟨rw, hrw, hrow⟩ := hrow
  subst hrow
  refine ⟨_, rfl, ?_⟩
  intro b hb
  have hrwk : ∀ b ∈ rw, b.1 = "rewards" := by
    intro b hb
    unfold rewardsCellS at hrw
    split at hrw
    · split at hrw
      · split at hrw
        · simp only [Option.map_eq_some_iff] at hrw
          obtain ⟨xs, _, hx⟩ := hrw
          subst hx; simp at hb; simp [hb]
        · cases hrw
      · simp only [Option.map_eq_some_iff] at hrw
        obtain ⟨f, _, hx⟩ := hrw
        subst hx; simp at hb; simp [hb]
    · simp only [Option.some.injEq] at hrw
      subst hrw; simp at hb
  simp only [List.mem_append] at hb
  rcases hb with ((((hb | hb) | hb) | hb) | hb) | hb
  · split at hb <;> simp at hb; subst hb; simp [implicitExclude]
  · split at hb <;> simp at hb; subst hb; simp [implicitExclude]
  · split at hb <;> simp at hb; subst hb; simp [implicitExclude]
  · split at hb <;> simp at hb; subst hb; simp [implicitExclude]
  · rw [hrwk b hb]; simp [implicitExclude]
  · split at hb
    · split at hb <;> simp at hb; subst hb; simp [implicitExclude]
    · simp at hb

/-! ## from the spec back to the model -/

/-- the run decomposes into one step per interaction, each being `specInter` on that interaction from the
learner state reached so far -/
theorem specRun_steps {σ : Type} {c : Config} {fl : Flags} (L : Learner σ V) (vs : List (View V R)) (s : σ)
    (r : σ × List (Call V) × List (Row V R)) (h : specRun c fl L s vs = some r) :
    ∃ steps : List (σ × List (Call V) × Row V R),
      steps.length = vs.length ∧ r.2.1 = (steps.map (·.2.1)).flatten ∧ r.2.2 = steps.map (·.2.2) ∧
      ∀ vst ∈ vs.zip steps, ∃ s', specInter c fl L vst.2.1 vst.1 = some (s', vst.2.2.1, vst.2.2.2) := by
  induction vs generalizing s r with
  | nil =>
    simp only [specRun, Option.some.injEq] at h
    subst h
    exact ⟨[], rfl, rfl, rfl, by simp⟩
  | cons v vs ih =>
    simp only [specRun, Option.bind_eq_some_iff, Option.map_eq_some_iff] at h
    obtain ⟨r1, h1, r2, h2, hr⟩ := h
    subst hr
    obtain ⟨st, hs1, hs2, hs3, hs4⟩ := ih r1.1 r2 h2
    refine ⟨(s, r1.2.1, r1.2.2) :: st, by simp [hs1], by simp [hs2], by simp [hs3], ?_⟩
    intro vst hvst
    simp only [List.zip_cons_cons, List.mem_cons] at hvst
    rcases hvst with hvst | hvst
    · subst hvst; exact ⟨r1.1, h1⟩
    · exact hs4 vst hvst

omit [DecidableEq V] [RewardFn R V] in
theorem Outcome.toOpt_eq_some {α : Type} {o : Outcome α} {a : α} : o.toOpt = some a ↔ o = .ok a := by
  cases o <;> simp [Outcome.toOpt]

/-- an evaluation that succeeds is a run of the spec -/
theorem evaluate_ok_spec' {σ : Type} (c : Config) (L : Learner σ V) (first : Dict (Fld V R)) (rest : List (Dict (Fld V R)))
    (s s' : σ) (calls : List (Call V)) (rows : List (Row V R))
    (hwf : wfEnv (first :: rest) = true) (hmiss : missingKeys c L.hasScore first = [])
    (hseq : (mkFlags first).rwdsIsList = true → (mkFlags first).discrete = true)
    (h : evaluate c L none (first :: rest) s = .ok (s', calls, rows)) :
    ∃ full, specRun c (mkFlags first) L s ((first :: rest).map view) = some (s', calls, full)
      ∧ rows = full.filter (fun o => !o.isEmpty) := by
  have := evaluate_refines' c L first rest s hwf hmiss hseq
  rw [h] at this
  simp only [Outcome.toOpt] at this
  cases hr : specRun c (mkFlags first) L s ((first :: rest).map view) with
  | none => rw [hr] at this; simp at this
  | some r =>
    rw [hr] at this
    simp only [Option.map_some, Option.some.injEq, Prod.mk.injEq] at this
    obtain ⟨h1, h2, h3⟩ := this
    exact ⟨r.2.2, by rw [h1, h2], h3⟩

/-! ## model-level statements (used by Props/C06.lean) -/

structure Hyp {σ : Type} (c : Config) (L : Learner σ V) (first : Dict (Fld V R)) (rest : List (Dict (Fld V R))) : Prop where
  wf : wfEnv (first :: rest) = true
  valid : missingKeys c L.hasScore first = []
  seq : (mkFlags first).rwdsIsList = true → (mkFlags first).discrete = true

theorem order_strict' {σ : Type} (c : Config) (L : Learner σ V) (first : Dict (Fld V R)) (rest : List (Dict (Fld V R)))
    (s s' : σ) (calls : List (Call V)) (rows : List (Row V R)) (H : Hyp c L first rest)
    (h : evaluate c L none (first :: rest) s = .ok (s', calls, rows)) :
    ∃ groups : List (List (Call V)), calls = groups.flatten ∧ groups.length = (first :: rest).length ∧
      ∀ vg ∈ ((first :: rest).map view).zip groups, ∀ call ∈ vg.2, Call.ctx call = vg.1.ctx := by
  obtain ⟨full, hs, _⟩ := evaluate_ok_spec' c L first rest s s' calls rows H.wf H.valid H.seq h
  obtain ⟨gs, h1, _, h3, h4⟩ := specRun_order L _ s _ hs
  exact ⟨gs, h1, by simpa using h3, h4⟩

theorem kwargs_roundtrip' {σ : Type} (c : Config) (L : Learner σ V) (first : Dict (Fld V R)) (rest : List (Dict (Fld V R)))
    (s s' : σ) (calls : List (Call V)) (rows : List (Row V R)) (H : Hyp c L first rest)
    (hl : c.learn = .on ∨ c.learn = .ips)
    (h : evaluate c L none (first :: rest) s = .ok (s', calls, rows)) :
    ∃ steps : List (σ × List (Call V)), steps.length = (first :: rest).length ∧ calls = (steps.map (·.2)).flatten ∧
      ∀ vst ∈ ((first :: rest).map view).zip steps,
        ∃ rew, (if c.learn = .on then envReward vst.1 (L.predict vst.2.1 vst.1.ctx vst.1.acts).2.action
                else ipsReward vst.1 (some (L.predict vst.2.1 vst.1.ctx vst.1.acts).2.action)) = some rew ∧
          vst.2.2 = [Call.predict vst.1.ctx vst.1.acts,
                     Call.learn vst.1.ctx (some (L.predict vst.2.1 vst.1.ctx vst.1.acts).2.action) (some rew)
                       (L.predict vst.2.1 vst.1.ctx vst.1.acts).2.prob (L.predict vst.2.1 vst.1.ctx vst.1.acts).2.kw] := by
  obtain ⟨full, hs, _⟩ := evaluate_ok_spec' c L first rest s s' calls rows H.wf H.valid H.seq h
  obtain ⟨st, h1, h2, _, h4⟩ := specRun_steps L _ s _ hs
  refine ⟨st.map (fun x => (x.1, x.2.1)), by simpa using h1, by simpa [Function.comp_def] using h2, ?_⟩
  intro vst hvst
  rw [List.zip_map_right] at hvst
  simp only [List.mem_map] at hvst
  obtain ⟨vx, hvx, heq⟩ := hvst
  subst heq
  obtain ⟨s2, hsi⟩ := h4 vx hvx
  exact specInter_on_policy L vx.2.1 vx.1 (s2, vx.2.2.1, vx.2.2.2) hsi hl

theorem off_policy' {σ : Type} (c : Config) (L : Learner σ V) (first : Dict (Fld V R)) (rest : List (Dict (Fld V R)))
    (s s' : σ) (calls : List (Call V)) (rows : List (Row V R)) (H : Hyp c L first rest) (hl : c.learn = .off)
    (h : evaluate c L none (first :: rest) s = .ok (s', calls, rows)) :
    ∃ groups : List (List (Call V)), groups.length = (first :: rest).length ∧ calls = groups.flatten ∧
      ∀ vg ∈ ((first :: rest).map view).zip groups,
        vg.2.getLast? = some (Call.learn vg.1.ctx vg.1.offAct vg.1.offRwd vg.1.offPr []) := by
  obtain ⟨full, hs, _⟩ := evaluate_ok_spec' c L first rest s s' calls rows H.wf H.valid H.seq h
  obtain ⟨st, h1, h2, _, h4⟩ := specRun_steps L _ s _ hs
  refine ⟨st.map (·.2.1), by simpa using h1, h2, ?_⟩
  intro vg hvg
  rw [List.zip_map_right] at hvg
  simp only [List.mem_map] at hvg
  obtain ⟨vx, hvx, heq⟩ := hvg
  subst heq
  obtain ⟨s2, hsi⟩ := h4 vx hvx
  exact specInter_off_policy L vx.2.1 vx.1 (s2, vx.2.2.1, vx.2.2.2) hsi hl

theorem no_predict' {σ : Type} (c : Config) (L : Learner σ V) (first : Dict (Fld V R)) (rest : List (Dict (Fld V R)))
    (s s' : σ) (calls : List (Call V)) (rows : List (Row V R)) (H : Hyp c L first rest)
    (hnp : needPred c L.hasScore = false)
    (h : evaluate c L none (first :: rest) s = .ok (s', calls, rows)) :
    ∀ call ∈ calls, Call.isPredict call = false := by
  obtain ⟨full, hs, _⟩ := evaluate_ok_spec' c L first rest s s' calls rows H.wf H.valid H.seq h
  exact specRun_no_predict L hnp _ s _ hs

theorem extra_fields_carried' {σ : Type} (c : Config) (L : Learner σ V) (first : Dict (Fld V R)) (rest : List (Dict (Fld V R)))
    (s s' : σ) (calls : List (Call V)) (rows : List (Row V R)) (H : Hyp c L first rest)
    (h : evaluate c L none (first :: rest) s = .ok (s', calls, rows)) :
    ∃ full : List (Row V R), full.length = (first :: rest).length ∧ rows = full.filter (fun o => !o.isEmpty) ∧
      ∀ vr ∈ ((first :: rest).map view).zip full,
        ∃ pre : Row V R, vr.2 = pre ++ vr.1.extras.map (fun kv => (kv.1, Cell.fld kv.2)) ∧ ∀ b ∈ pre, b.1 ∈ implicitExclude := by
  obtain ⟨full, hs, hrows⟩ := evaluate_ok_spec' c L first rest s s' calls rows H.wf H.valid H.seq h
  obtain ⟨st, h1, _, h3, h4⟩ := specRun_steps L _ s _ hs
  simp only at h3
  refine ⟨full, by rw [h3]; simpa using h1, hrows, ?_⟩
  intro vr hvr
  rw [h3, List.zip_map_right] at hvr
  simp only [List.mem_map] at hvr
  obtain ⟨vx, hvx, heq⟩ := hvr
  subst heq
  obtain ⟨s2, hsi⟩ := h4 vx hvx
  exact specInter_extras L vx.2.1 vx.1 (s2, vx.2.2.1, vx.2.2.2) hsi

omit [DecidableEq V] [RewardFn R V] in
theorem exists_zip_of_mem_right {α β : Type} (xs : List α) (ys : List β) (h : ys.length = xs.length) (y : β) (hy : y ∈ ys) :
    ∃ x, x ∈ xs ∧ (x, y) ∈ xs.zip ys := by
  induction xs generalizing ys with
  | nil =>
    have : ys = [] := List.eq_nil_of_length_eq_zero (by simpa using h)
    subst this; cases hy
  | cons x xs ih =>
    cases ys with
    | nil => cases hy
    | cons y' ys =>
      simp only [List.mem_cons] at hy
      rcases hy with hy | hy
      · subst hy; exact ⟨x, by simp, by simp⟩
      · obtain ⟨x', hx1, hx2⟩ := ih ys (by simpa using h) hy
        exact ⟨x', by simp [hx1], by simp [hx2]⟩

/-- one row per interaction whenever the interactions carry an additional field -/
theorem one_row_per_interaction' {σ : Type} (c : Config) (L : Learner σ V) (first : Dict (Fld V R)) (rest : List (Dict (Fld V R)))
    (s s' : σ) (calls : List (Call V)) (rows : List (Row V R)) (H : Hyp c L first rest)
    (hex : ∀ d ∈ first :: rest, extrasOf d ≠ [])
    (h : evaluate c L none (first :: rest) s = .ok (s', calls, rows)) :
    rows.length = (first :: rest).length := by
  obtain ⟨full, h1, h2, h3⟩ := extra_fields_carried' c L first rest s s' calls rows H h
  have : ∀ o ∈ full, (!o.isEmpty) = true := by
    intro o ho
    obtain ⟨v, hv, hvo⟩ := exists_zip_of_mem_right ((first :: rest).map view) full (by simpa using h1) o ho
    obtain ⟨pre, hp, _⟩ := h3 _ hvo
    simp only at hp
    simp only [List.mem_map] at hv
    obtain ⟨d, hd, hdv⟩ := hv
    have hne := hex d hd
    subst hdv
    rw [hp]
    cases hx : (view d).extras with
    | nil => exact absurd hx hne
    | cons k ks => simp
  rw [h2, List.filter_eq_self.mpr this, h1]

theorem validate_partial' {σ : Type} (c : Config) (L : Learner σ V) (bs : Option Nat) (first : Dict (Fld V R))
    (rest : List (Dict (Fld V R))) (s : σ) (hp : ipsWithoutProb c first = false) :
    (∃ ks, evaluate c L bs (first :: rest) s = .rejected ks) ↔ ∃ k ∈ requiredS c L.hasScore, first.has k = false := by
  rw [validate_iff']
  constructor
  · rintro ⟨f', r', heq, k, hk, hh⟩
    simp only [List.cons.injEq] at heq
    rw [← heq.1] at hh
    exact ⟨k, (mem_requiredS_iff c L.hasScore k).mpr (Or.inl hk), hh⟩
  · rintro ⟨k, hk, hh⟩
    rcases (mem_requiredS_iff c L.hasScore k).mp hk with hk | ⟨hkp, hips⟩
    · exact ⟨first, rest, rfl, k, hk, hh⟩
    · subst hkp
      simp only [ipsWithoutProb, Bool.and_eq_false_iff, Bool.or_eq_false_iff, lm_beq, em_beq, decide_eq_false_iff_not,
        Bool.not_eq_false'] at hp
      rcases hp with hp | hp
      · rcases hips with h | h
        · exact absurd h hp.1
        · exact absurd h hp.2
      · rw [hp] at hh; cases hh

/-! ## batching -/

/-- a learner whose answers do not depend on its state (what it has seen so far) -/
structure Oblivious {σ : Type} (L : Learner σ V) (f : Option V → Option (List V) → Pred V)
    (g : Option V → Option (List V) → Option V → Rat) : Prop where
  pred : ∀ s c a, (L.predict s c a).2 = f c a
  score : ∀ s c a x, (L.score s c a x).2 = g c a x

def mapE {α β : Type} (F : α → Except Err β) : List α → Except Err (List β)
  | [] => .ok []
  | x :: xs => (F x).bind fun y => (mapE F xs).bind fun ys => .ok (y :: ys)

omit [DecidableEq V] [RewardFn R V] in
theorem prepAll_eq_mapE (c : Config) (fl : Flags) (ds : List (Dict (Fld V R))) : prepAll c fl ds = mapE (prep c fl) ds := by
  induction ds with
  | nil => rfl
  | cons d ds ih => simp only [prepAll, mapE, ih, bind, Except.bind, pure, Except.pure]

omit [DecidableEq V] [RewardFn R V] in
theorem predictPhase_preds {σ : Type} {L : Learner σ V} {f g} (ho : Oblivious L f g) (rows : List (RowIn V R)) (s : σ) :
    (predictPhase L s rows).2.1 = rows.map (fun r => f r.ctx r.acts) := by
  have key : ∀ (acc : σ × List (Pred V) × List (Call V)),
      (rows.foldl (fun (acc : σ × List (Pred V) × List (Call V)) r =>
        ((L.predict acc.1 r.ctx r.acts).1, acc.2.1 ++ [(L.predict acc.1 r.ctx r.acts).2], acc.2.2 ++ [Call.predict r.ctx r.acts])) acc).2.1
        = acc.2.1 ++ rows.map (fun r => f r.ctx r.acts) := by
    induction rows with
    | nil => intro acc; simp
    | cons r rs ih => intro acc; simp only [List.foldl_cons]; rw [ih]; simp [ho.pred]
  have := key (s, [], [])
  simpa [predictPhase] using this

omit [DecidableEq V] [RewardFn R V] in
theorem scorePhase_scores {σ : Type} {L : Learner σ V} {f g} (ho : Oblivious L f g) (rows : List (RowIn V R)) (s : σ) :
    (scorePhase L s rows).2.1 = rows.map (fun r => g r.ctx r.acts r.offAct) := by
  have key : ∀ (acc : σ × List Rat × List (Call V)),
      (rows.foldl (fun (acc : σ × List Rat × List (Call V)) r =>
        ((L.score acc.1 r.ctx r.acts r.offAct).1, acc.2.1 ++ [(L.score acc.1 r.ctx r.acts r.offAct).2],
          acc.2.2 ++ [Call.score r.ctx r.acts r.offAct])) acc).2.1
        = acc.2.1 ++ rows.map (fun r => g r.ctx r.acts r.offAct) := by
    induction rows with
    | nil => intro acc; simp
    | cons r rs ih => intro acc; simp only [List.foldl_cons]; rw [ih]; simp [ho.score]
  have := key (s, [], [])
  simpa [scorePhase] using this

/-- the row of one interaction when the learner's answers are given by `f`, `g` -/
def pureRow (c : Config) (fl : Flags) (hs b : Bool) (f : Option V → Option (List V) → Pred V)
    (g : Option V → Option (List V) → Option V → Rat) (r : RowIn V R) : Except Err (Row V R) :=
  let sp := shouldPred c hs
  let sb := c.eval == .ips && hs && !sp
  let p := if sp then some (f r.ctx r.acts) else none
  let sc := if sb then some (g r.ctx r.acts r.offAct) else none
  (if c.eval != .none then (evalReward sb r p sc).map some else .ok none).bind fun er => mkRow c fl sp b r p er

omit [DecidableEq V] [RewardFn R V] in
theorem fuse_some {α β γ δ ε : Type} (F : α → β → γ → Except Err δ) (G : α → β → Option δ → Except Err ε)
    (P : α → β) (S : α → γ) (xs : List α) (es : List δ) (out : List ε)
    (h1 : mapM₃ F xs (xs.map P) (xs.map S) = .ok es) (h2 : mapM₃ G xs (xs.map P) (es.map some) = .ok out) :
    mapE (fun x => ((F x (P x) (S x)).map some).bind (fun er => G x (P x) er)) xs = .ok out := by
  induction xs generalizing es out with
  | nil => simp only [List.map_nil, mapM₃] at h1 h2; cases h2; rfl
  | cons x xs ih =>
    simp only [List.map_cons, mapM₃, bind, Except.bind, pure, Except.pure] at h1
    cases hF : F x (P x) (S x) with
    | error e => rw [hF] at h1; cases h1
    | ok d =>
      rw [hF] at h1
      cases hrest : mapM₃ F xs (xs.map P) (xs.map S) with
      | error e => rw [hrest] at h1; cases h1
      | ok ds =>
        rw [hrest] at h1
        simp only [Except.ok.injEq] at h1
        subst h1
        simp only [List.map_cons, mapM₃, bind, Except.bind, pure, Except.pure] at h2
        cases hG : G x (P x) (some d) with
        | error e => rw [hG] at h2; cases h2
        | ok o =>
          rw [hG] at h2
          cases hr2 : mapM₃ G xs (xs.map P) (ds.map some) with
          | error e => rw [hr2] at h2; cases h2
          | ok os =>
            rw [hr2] at h2
            simp only [Except.ok.injEq] at h2
            subst h2
            have ih' := ih ds os hrest hr2
            simp only [Except.map, Except.bind] at ih'
            simp only [mapE, hF, Except.map, Except.bind, hG, ih']

omit [DecidableEq V] [RewardFn R V] in
theorem fuse_none {α β δ ε : Type} (G : α → β → Option δ → Except Err ε) (P : α → β) (xs : List α) (out : List ε)
    (h2 : mapM₃ G xs (xs.map P) (List.replicate xs.length none) = .ok out) :
    mapE (fun x => G x (P x) none) xs = .ok out := by
  induction xs generalizing out with
  | nil => simp only [List.map_nil, List.length_nil, List.replicate_zero, mapM₃] at h2; cases h2; rfl
  | cons x xs ih =>
    simp only [List.map_cons, List.length_cons, List.replicate_succ, mapM₃, bind, Except.bind, pure, Except.pure] at h2
    cases hG : G x (P x) none with
    | error e => rw [hG] at h2; cases h2
    | ok o =>
      rw [hG] at h2
      cases hr2 : mapM₃ G xs (xs.map P) (List.replicate xs.length none) with
      | error e => rw [hr2] at h2; cases h2
      | ok os =>
        rw [hr2] at h2
        simp only [Except.ok.injEq] at h2
        subst h2
        simp only [mapE, hG, Except.bind, ih os hr2]

omit [DecidableEq V] [RewardFn R V] in
theorem optList_map {α β : Type} (on : Bool) (xs : List α) (P : α → β) (l : List β) (h : on = true → l = xs.map P) :
    optList on xs.length l = xs.map (fun x => if on then some (P x) else none) := by
  cases on with
  | true => simp [optList, h rfl]
  | false => simp [optList, List.map_const']

/-- rows of one batch for an oblivious learner: computed row by row, independently of the learner state -/
theorem stepChunk_rows {σ : Type} {L : Learner σ V} {f g} (ho : Oblivious L f g) (c : Config) (fl : Flags) (b : Bool)
    (s s' : σ) (ch : List (Dict (Fld V R))) (cs : List (Call V)) (out : List (Row V R))
    (h : stepChunk c fl L b s ch = .ok (s', cs, out)) :
    ∃ rows full, prepAll c fl ch = .ok rows ∧ mapE (pureRow c fl L.hasScore b f g) rows = .ok full
      ∧ out = full.filter (fun o => !o.isEmpty) := by
  unfold stepChunk at h
  cases hp : prepAll c fl ch with
  | error e => rw [hp] at h; cases h
  | ok rows =>
    rw [hp] at h
    simp only [Except.bind] at h
    -- name the pieces
    generalize hsp : shouldPred c L.hasScore = sp at h
    generalize hsb : (c.eval == EvalMode.ips && L.hasScore && !sp) = sb at h
    have hps : optList sp rows.length (if sp = true then predictPhase L s rows else (s, [], [])).2.1
        = rows.map (fun r => if sp then some (f r.ctx r.acts) else none) := by
      apply optList_map
      intro hs; simp only [hs, if_true]; exact predictPhase_preds ho rows s
    have hscs : ∀ s1, optList sb rows.length (if sb = true then scorePhase L s1 rows else (s1, [], [])).2.1
        = rows.map (fun r => if sb then some (g r.ctx r.acts r.offAct) else none) := by
      intro s1
      apply optList_map
      intro hs; simp only [hs, if_true]; exact scorePhase_scores ho rows s1
    rw [hps, hscs] at h
    cases hev : evalsOf c sb rows (rows.map (fun r => if sp then some (f r.ctx r.acts) else none))
        (rows.map (fun r => if sb then some (g r.ctx r.acts r.offAct) else none)) with
    | error e => rw [hev] at h; cases h
    | ok evals =>
      rw [hev] at h
      simp only at h
      cases hl : learnsOf c L (if sb = true then scorePhase L (if sp = true then predictPhase L s rows else (s, [], [])).1 rows
          else ((if sp = true then predictPhase L s rows else (s, [], [])).1, [], [])).1 rows
          (rows.map (fun r => if sp then some (f r.ctx r.acts) else none)) with
      | error e => rw [hl] at h; cases h
      | ok ll =>
        rw [hl] at h
        simp only at h
        cases hm : mapM₃ (mkRow c fl sp b) rows (rows.map (fun r => if sp then some (f r.ctx r.acts) else none)) evals with
        | error e => rw [hm] at h; simp [Except.map] at h
        | ok out0 =>
          rw [hm] at h
          simp only [Except.map, Except.ok.injEq, Prod.mk.injEq] at h
          refine ⟨rows, out0, rfl, ?_, h.2.2.symm⟩
          unfold evalsOf at hev
          by_cases he : (c.eval != .none) = true
          · rw [if_pos he] at hev
            obtain ⟨es, hes, hevals⟩ := Except.map_eq_ok hev
            subst hevals
            have := fuse_some (evalReward sb) (mkRow c fl sp b) _ _ rows es out0 hes hm
            show mapE (fun r => pureRow c fl L.hasScore b f g r) rows = .ok out0
            simp only [pureRow, hsp, hsb, if_pos he]
            exact this
          · rw [if_neg he] at hev
            simp only [Except.ok.injEq] at hev
            subst hev
            have := fuse_none (mkRow c fl sp b) (fun r => if sp then some (f r.ctx r.acts) else none) rows out0 hm
            show mapE (fun r => pureRow c fl L.hasScore b f g r) rows = .ok out0
            simp only [pureRow, hsp, hsb, if_neg he, Except.bind]
            exact this

omit [DecidableEq V] [RewardFn R V] in
theorem mapE_append {α β : Type} (F : α → Except Err β) (xs ys : List α) (a b : List β)
    (h1 : mapE F xs = .ok a) (h2 : mapE F ys = .ok b) : mapE F (xs ++ ys) = .ok (a ++ b) := by
  induction xs generalizing a with
  | nil => simp only [mapE, Except.ok.injEq] at h1; subst h1; simpa using h2
  | cons x xs ih =>
    simp only [mapE, Except.bind] at h1
    cases hx : F x with
    | error e => rw [hx] at h1; cases h1
    | ok y =>
      rw [hx] at h1
      cases hr : mapE F xs with
      | error e => rw [hr] at h1; cases h1
      | ok ys' =>
        rw [hr] at h1
        simp only [Except.ok.injEq] at h1
        subst h1
        simp only [List.cons_append, mapE, hx, Except.bind, ih ys' hr]

theorem runChunks_rows {σ : Type} {L : Learner σ V} {f g} (ho : Oblivious L f g) (c : Config) (fl : Flags) (b : Bool)
    (chs : List (List (Dict (Fld V R)))) (s s' : σ) (cs cs' : List (Call V)) (rs rs' : List (Row V R))
    (h : runChunks c fl L b s cs rs chs = .ok (s', cs', rs')) :
    ∃ rows full, mapE (prep c fl) chs.flatten = .ok rows ∧ mapE (pureRow c fl L.hasScore b f g) rows = .ok full
      ∧ rs' = rs ++ full.filter (fun o => !o.isEmpty) := by
  induction chs generalizing s cs rs with
  | nil =>
    simp only [runChunks, Except.ok.injEq, Prod.mk.injEq] at h
    exact ⟨[], [], rfl, rfl, by simp [h.2.2]⟩
  | cons ch rest ih =>
    simp only [runChunks, Except.bind] at h
    cases hs : stepChunk c fl L b s ch with
    | error e => rw [hs] at h; cases h
    | ok r1 =>
      rw [hs] at h
      simp only at h
      obtain ⟨rows1, full1, hp1, hf1, ho1⟩ := stepChunk_rows ho c fl b s r1.1 ch r1.2.1 r1.2.2 hs
      obtain ⟨rowsR, fullR, hpR, hfR, hoR⟩ := ih r1.1 (cs ++ r1.2.1) (rs ++ r1.2.2) h
      rw [prepAll_eq_mapE] at hp1
      refine ⟨rows1 ++ rowsR, full1 ++ fullR, ?_, mapE_append _ _ _ _ _ hf1 hfR, ?_⟩
      · simp only [List.flatten_cons]; exact mapE_append _ _ _ _ _ hp1 hpR
      · rw [hoR, ho1]; simp [List.filter_append, List.append_assoc]

omit [DecidableEq V] [RewardFn R V] in
theorem chunksAux_flatten {α : Type} (n : Nat) (hn : 0 < n) (fuel : Nat) (l : List α) (h : l.length ≤ fuel) :
    (chunksAux n fuel l).flatten = l := by
  induction fuel generalizing l with
  | zero =>
    have : l = [] := List.eq_nil_of_length_eq_zero (Nat.le_zero.mp h)
    subst this; rfl
  | succ k ih =>
    cases l with
    | nil => simp [chunksAux]
    | cons x xs =>
      simp only [chunksAux, List.isEmpty_cons, Bool.false_eq_true, if_false, List.flatten_cons]
      rw [ih]
      · exact List.take_append_drop n (x :: xs)
      · simp only [List.length_drop, List.length_cons] at h ⊢; omega

omit [DecidableEq V] [RewardFn R V] in
theorem chunks_flatten {α : Type} (n : Nat) (hn : 0 < n) (l : List α) : (chunks n l).flatten = l :=
  chunksAux_flatten n hn _ l (Nat.le_refl _)

omit [DecidableEq V] [RewardFn R V] in
theorem readRow_extras {c : Config} {fl : Flags} {d : Dict (Fld V R)} {r : RowIn V R} (h : readRow c fl d = .ok r) :
    r.extras = extrasOf d := by
  simp only [readRow, bind, Except.bind, pure, Except.pure] at h
  repeat' split at h
  all_goals first
    | (simp only [Except.ok.injEq] at h; subst h; rfl)
    | cases h

omit [DecidableEq V] [RewardFn R V] in
theorem prep_extras {c : Config} {fl : Flags} {d : Dict (Fld V R)} {r : RowIn V R} (h : prep c fl d = .ok r) :
    ∀ kv ∈ r.extras, kv.1 ≠ "probability" := by
  simp only [prep, bind, Except.bind] at h
  cases hp : pipeline c fl d with
  | error e => rw [hp] at h; cases h
  | ok d3 =>
    rw [hp] at h
    simp only at h
    rw [readRow_extras h]
    intro kv hkv heq
    have := extras_fresh d3 kv hkv
    rw [heq] at this
    exact this (by decide)

omit [DecidableEq V] [RewardFn R V] in
theorem mapE_prep_extras {c : Config} {fl : Flags} (ds : List (Dict (Fld V R))) (rows : List (RowIn V R))
    (h : mapE (prep c fl) ds = .ok rows) : ∀ r ∈ rows, ∀ kv ∈ r.extras, kv.1 ≠ "probability" := by
  induction ds generalizing rows with
  | nil => simp only [mapE, Except.ok.injEq] at h; subst h; simp
  | cons d ds ih =>
    simp only [mapE, Except.bind] at h
    cases hx : prep c fl d with
    | error e => rw [hx] at h; cases h
    | ok r =>
      rw [hx] at h
      cases hr : mapE (prep c fl) ds with
      | error e => rw [hr] at h; cases h
      | ok rs =>
        rw [hr] at h
        simp only [Except.ok.injEq] at h
        subst h
        intro r' hr'
        simp only [List.mem_cons] at hr'
        rcases hr' with rfl | hr'
        · exact prep_extras hx
        · exact ih rs hr r' hr'

omit [DecidableEq V] [RewardFn R V] in
theorem isNoneProb_of_ne (k : String) (cell : Cell V R) (hk : k ≠ "probability") : isNoneProb (k, cell) = false := by
  unfold isNoneProb
  split
  · rename_i heq; simp only [Prod.mk.injEq] at heq; exact absurd heq.1 hk
  · rfl

omit [DecidableEq V] [RewardFn R V] in
theorem dropNoneProb_set (o : Row V R) (k : String) (v : Fld V R) (hk : k ≠ "probability") :
    dropNoneProb (Dict.set o k (Cell.fld v)) = Dict.set (dropNoneProb o) k (Cell.fld v) := by
  induction o with
  | nil => simp [Dict.set, dropNoneProb, isNoneProb_of_ne k _ hk]
  | cons hd tl ih =>
    obtain ⟨k1, v1⟩ := hd
    by_cases h1 : k1 = k
    · subst h1
      simp [Dict.set, dropNoneProb, List.filter_cons, isNoneProb_of_ne k1 _ hk]
    · unfold dropNoneProb at ih ⊢
      simp only [Dict.set, h1, if_false, List.filter_cons]
      by_cases hb : isNoneProb (k1, v1) = true
      · simp [hb, ih]
      · simp [hb, Dict.set, h1, ih]

omit [DecidableEq V] [RewardFn R V] in
theorem dropNoneProb_foldl (ex : Dict (Fld V R)) (o : Row V R) (hk : ∀ kv ∈ ex, kv.1 ≠ "probability") :
    dropNoneProb (ex.foldl (fun o kv => Dict.set o kv.1 (Cell.fld kv.2)) o)
      = ex.foldl (fun o kv => Dict.set o kv.1 (Cell.fld kv.2)) (dropNoneProb o) := by
  induction ex generalizing o with
  | nil => rfl
  | cons kv ex ih =>
    simp only [List.foldl_cons]
    rw [ih _ (fun kv' h' => hk kv' (by simp [h'])), dropNoneProb_set _ _ _ (hk kv (by simp))]

theorem mkRow_flag (c : Config) (fl : Flags) (sp : Bool) (r : RowIn V R) (p : Option (Pred V)) (er : Option Rat)
    (hex : ∀ kv ∈ r.extras, kv.1 ≠ "probability") :
    (mkRow c fl sp true r p er).map dropNoneProb = mkRow c fl sp false r p er := by
  unfold mkRow
  cases hx : rewardsCell c fl r with
  | error e => rfl
  | ok rw =>
    have hk := rewardsCell_keys hx
    simp only [Except.map, Except.ok.injEq]
    rw [dropNoneProb_foldl _ _ hex]
    congr 1
    have hrw : dropNoneProb rw = rw := by
      unfold dropNoneProb
      apply List.filter_eq_self.mpr
      intro b hb
      have : isNoneProb b = false := by
        obtain ⟨k, cell⟩ := b
        have := hk _ hb
        simp only at this
        subst this
        exact isNoneProb_of_ne _ _ (by decide)
      simp [this]
    have hcat : ∀ a b : Row V R, dropNoneProb (a ++ b) = dropNoneProb a ++ dropNoneProb b := by
      intro a b; simp [dropNoneProb, List.filter_append]
    simp only [hcat, hrw]
    have h1 : dropNoneProb (if c.rcd "context" = true then [("context", Cell.val r.ctx)] else ([] : Row V R))
        = (if c.rcd "context" = true then [("context", Cell.val r.ctx)] else []) := by
      split <;> simp [dropNoneProb, isNoneProb]
    have h2 : dropNoneProb (if (c.rcd "actions" && fl.hasActions) = true then [("actions", Cell.acts r.acts)] else ([] : Row V R))
        = (if (c.rcd "actions" && fl.hasActions) = true then [("actions", Cell.acts r.acts)] else []) := by
      split <;> simp [dropNoneProb, isNoneProb]
    have h3 : dropNoneProb (if outAction c = true then [("action", Cell.val (p.map (·.action)))] else ([] : Row V R))
        = (if outAction c = true then [("action", Cell.val (p.map (·.action)))] else []) := by
      split <;> simp [dropNoneProb, isNoneProb]
    have h4 : dropNoneProb (if (c.rcd "reward" && c.eval != EvalMode.none) = true then [("reward", Cell.num er)] else ([] : Row V R))
        = (if (c.rcd "reward" && c.eval != EvalMode.none) = true then [("reward", Cell.num er)] else []) := by
      split <;> simp [dropNoneProb, isNoneProb]
    rw [h1, h2, h3, h4]
    congr 1
    cases hpr : p.bind (·.prob) with
    | none =>
      by_cases hc : (outProb c && sp) = true
      · simp [hc, dropNoneProb, isNoneProb]
      · simp [hc, dropNoneProb]
    | some q =>
      by_cases hc : (outProb c && sp) = true
      · simp [hc, dropNoneProb, isNoneProb]
      · simp [hc, dropNoneProb]

theorem pureRow_flag (c : Config) (fl : Flags) (hs : Bool) (f : Option V → Option (List V) → Pred V)
    (g : Option V → Option (List V) → Option V → Rat) (r : RowIn V R) (hex : ∀ kv ∈ r.extras, kv.1 ≠ "probability") :
    (pureRow c fl hs true f g r).map dropNoneProb = pureRow c fl hs false f g r := by
  unfold pureRow
  simp only
  generalize (if (c.eval != EvalMode.none) = true then
      Except.map some (evalReward (c.eval == EvalMode.ips && hs && !shouldPred c hs) r
        (if shouldPred c hs = true then some (f r.ctx r.acts) else none)
        (if (c.eval == EvalMode.ips && hs && !shouldPred c hs) = true then some (g r.ctx r.acts r.offAct) else none))
    else Except.ok none) = E
  cases E with
  | error e => rfl
  | ok er => simp only [Except.bind]; exact mkRow_flag c fl _ r _ er hex

theorem mapE_pureRow_flag (c : Config) (fl : Flags) (hs : Bool) (f : Option V → Option (List V) → Pred V)
    (g : Option V → Option (List V) → Option V → Rat) (rows : List (RowIn V R)) (full : List (Row V R))
    (hex : ∀ r ∈ rows, ∀ kv ∈ r.extras, kv.1 ≠ "probability")
    (h : mapE (pureRow c fl hs true f g) rows = .ok full) :
    mapE (pureRow c fl hs false f g) rows = .ok (full.map dropNoneProb) := by
  induction rows generalizing full with
  | nil => simp only [mapE, Except.ok.injEq] at h; subst h; rfl
  | cons r rs ih =>
    simp only [mapE, Except.bind] at h
    cases hx : pureRow c fl hs true f g r with
    | error e => rw [hx] at h; cases h
    | ok o =>
      rw [hx] at h
      cases hr : mapE (pureRow c fl hs true f g) rs with
      | error e => rw [hr] at h; cases h
      | ok os =>
        rw [hr] at h
        simp only [Except.ok.injEq] at h
        subst h
        have h1 := pureRow_flag c fl hs f g r (hex r (by simp))
        rw [hx] at h1
        simp only [Except.map] at h1
        simp only [mapE, ← h1, Except.bind, ih os (fun r' hr' => hex r' (by simp [hr'])) hr, List.map_cons]

omit [DecidableEq V] [RewardFn R V] in
theorem filter_drop_filter (xs : List (Row V R)) :
    ((xs.filter (fun o => !o.isEmpty)).map dropNoneProb).filter (fun o => !o.isEmpty)
      = (xs.map dropNoneProb).filter (fun o => !o.isEmpty) := by
  induction xs with
  | nil => rfl
  | cons x xs ih =>
    cases x with
    | nil => simp [List.filter_cons, dropNoneProb, ih]
    | cons a as => simp [List.filter_cons, ih]

omit [DecidableEq V] [RewardFn R V] in
theorem ofExcept_eq_ok {α : Type} {x : Except Err α} {a : α} (h : Outcome.ofExcept x = .ok a) : x = .ok a := by
  cases x with
  | error e => simp [Outcome.ofExcept] at h
  | ok b => simp only [Outcome.ofExcept, Outcome.ok.injEq] at h; rw [h]

/-- batched evaluation (any batch size n ≥ 1) and unbatched evaluation record the same rows when the learner's
answers do not depend on what it has seen; the batched code path writes `probability: None` cells where the
unbatched one writes nothing, which is the only difference -/
theorem batched_eq_unbatched' {σ : Type} {L : Learner σ V} {f : Option V → Option (List V) → Pred V}
    {g : Option V → Option (List V) → Option V → Rat} (ho : Oblivious L f g) (c : Config) (n : Nat) (hn : 0 < n)
    (env : List (Dict (Fld V R))) (s sb su : σ) (cb cu : List (Call V)) (rb ru : List (Row V R))
    (hb : evaluate c L (some n) env s = .ok (sb, cb, rb)) (hu : evaluate c L none env s = .ok (su, cu, ru)) :
    ru = (rb.map dropNoneProb).filter (fun o => !o.isEmpty) := by
  cases env with
  | nil =>
    simp only [evaluate, Outcome.ok.injEq, Prod.mk.injEq] at hb hu
    rw [← hb.2.2, ← hu.2.2]; rfl
  | cons first rest =>
    simp only [evaluate] at hb hu
    cases hm : missingKeys c L.hasScore first with
    | cons k ks => rw [hm] at hb; simp at hb
    | nil =>
      rw [hm] at hb hu
      simp only [List.isEmpty_nil, Bool.not_true, Bool.false_eq_true, if_false] at hb hu
      obtain ⟨rowsB, fullB, hpB, hfB, hoB⟩ := runChunks_rows ho c _ true _ s sb [] cb [] rb (ofExcept_eq_ok hb)
      obtain ⟨rowsU, fullU, hpU, hfU, hoU⟩ := runChunks_rows ho c _ false _ s su [] cu [] ru (ofExcept_eq_ok hu)
      rw [chunks_flatten n hn] at hpB
      rw [chunks_flatten 1 (by decide)] at hpU
      rw [hpB] at hpU
      simp only [Except.ok.injEq] at hpU
      subst hpU
      have hflag := mapE_pureRow_flag c _ L.hasScore f g rowsB fullB (mapE_prep_extras _ _ hpB) hfB
      rw [hflag] at hfU
      simp only [Except.ok.injEq] at hfU
      subst hfU
      simp only [List.nil_append] at hoB hoU
      rw [hoU, hoB, filter_drop_filter]

/-! ## the spec (hence the model) is defined on every well-formed environment that passes validation -/

theorem envReward_isSome {fl : Flags} {d : Dict (Fld V R)} (h : WF fl d) (hr : fl.hasRewards = true) (a : V) :
    ∃ x, envReward (view d) a = some x := by
  have hh := hasRewards_iff h
  rw [hr] at hh
  cases WFR_of_WF h with
  | absent h0 => simp [view] at h0; rw [h0] at hh; simp at hh
  | list rs as h1 h2 =>
    simp only [envReward, h1, h2]
    cases (as.zip rs).lookup a <;> simp
  | fn f h1 => simp [envReward, h1]

omit [RewardFn R V] in
theorem ipsReward_isSome {fl : Flags} {d : Dict (Fld V R)} (h : WF fl d) (hr : fl.hasReward = true) (a : Option V) :
    ∃ x, ipsReward (view d) a = some x := by
  have h5 := h.rwd
  simp only [ipsReward, view]
  cases hg : d.get? "reward" with
  | none => simp_all
  | some f => cases f <;> simp_all [viewNum]

theorem rewardsAtS_isSome {fl : Flags} {d : Dict (Fld V R)} (h : WF fl d) (hr : fl.hasRewards = true) (as : List V) :
    ∃ xs, rewardsAtS (view d) as = some xs := by
  induction as with
  | nil => exact ⟨[], rfl⟩
  | cons a as ih =>
    obtain ⟨x, hx⟩ := envReward_isSome h hr a
    obtain ⟨xs, hxs⟩ := ih
    exact ⟨x :: xs, by simp [rewardsAtS, hx, hxs]⟩

theorem rowS_isSome {c : Config} {fl : Flags} {d : Dict (Fld V R)} (h : WF fl d)
    (hda : fl.discrete = true → fl.hasActions = true) (p : Option (Pred V)) (er : Option Rat) :
    ∃ row, rowS c fl (view d) p er = some row := by
  have : (rewardsCellS c fl (view d)).isSome = true := by
    unfold rewardsCellS
    by_cases h1 : (c.rcd "rewards" && fl.hasRewards) = true
    · rw [if_pos h1]
      have hr : fl.hasRewards = true := by simp at h1; exact h1.2
      by_cases h2 : fl.discrete = true
      · rw [if_pos h2]
        have ha := h.acts
        rw [hda h2] at ha
        cases hg : d.get? "actions" with
        | none => rw [hg] at ha; simp at ha
        | some fa =>
          rw [hg] at ha
          cases fa <;> simp at ha
          rename_i as
          obtain ⟨xs, hxs⟩ := rewardsAtS_isSome h hr as
          have hv : (view d).acts = some as := by simp [view, hg, viewActs]
          simp only [hv, hxs, Option.map_some, Option.isSome_some]
      · rw [if_neg h2]
        have hh := hasRewards_iff h
        rw [hr] at hh
        cases hg : d.get? "rewards" with
        | none => rw [hg] at hh; simp at hh
        | some f =>
          have hv : (view d).rewards = some f := by simp [view, hg]
          simp only [hv, Option.map_some, Option.isSome_some]
    · rw [if_neg h1]; rfl
  cases hrw : rewardsCellS c fl (view d) with
  | none => rw [hrw] at this; cases this
  | some rw => exact ⟨_, by simp only [rowS, hrw, Option.map_some]; rfl⟩

theorem specInter_isSome {σ : Type} {c : Config} {fl : Flags} (L : Learner σ V) (s : σ) {d : Dict (Fld V R)}
    (h : WF fl d) (hv : Valid c L.hasScore fl) (hda : fl.discrete = true → fl.hasActions = true) :
    ∃ r, specInter c fl L s (view d) = some r := by
  unfold specInter
  simp only
  -- recorded reward
  have hE : ∃ er, (if (c.eval != EvalMode.none) = true then
        Option.map some (evalRewardS c (view d)
          (if needPred c L.hasScore = true then some (L.predict s (view d).ctx (view d).acts).2 else none)
          (if (c.eval == EvalMode.ips && L.hasScore && !needPred c L.hasScore) = true then
            some (L.score (if needPred c L.hasScore = true then (L.predict s (view d).ctx (view d).acts).1 else s)
              (view d).ctx (view d).acts (view d).offAct).2 else none))
      else some none) = some er := by
    cases he : c.eval with
    | none => exact ⟨none, by simp⟩
    | on =>
      have hn : needPred c L.hasScore = true := by simp [needPred, he]
      obtain ⟨x, hx⟩ := envReward_isSome h (hv.rwds (Or.inr he)) (L.predict s (view d).ctx (view d).acts).2.action
      exact ⟨some x, by simp [hn, evalRewardS, hx, bne, he]⟩
    | ips =>
      have hR := (hv.logged (Or.inr (Or.inr he))).2
      cases hn : needPred c L.hasScore with
      | true =>
        obtain ⟨x, hx⟩ := ipsReward_isSome h hR (some (L.predict s (view d).ctx (view d).acts).2.action)
        exact ⟨some x, by simp [evalRewardS, hx, bne, he]⟩
      | false =>
        have hsc : L.hasScore = true := by
          cases hs : L.hasScore with
          | true => rfl
          | false => simp [needPred, he, hs] at hn
        obtain ⟨x, hx⟩ := ipsReward_isSome h hR (view d).offAct
        exact ⟨some ((L.score s (view d).ctx (view d).acts (view d).offAct).2 * x), by simp [evalRewardS, hx, bne, hsc, he]⟩
  obtain ⟨er, hEr⟩ := hE
  rw [hEr]
  simp only [Option.bind_some]
  -- learn call
  have hLA : ∃ a, (if (c.learn != LearnMode.none) = true then
        Option.map (fun a => (L.learn (if (c.eval == EvalMode.ips && L.hasScore && !needPred c L.hasScore) = true then
              (L.score (if needPred c L.hasScore = true then (L.predict s (view d).ctx (view d).acts).1 else s)
                (view d).ctx (view d).acts (view d).offAct).1
            else if needPred c L.hasScore = true then (L.predict s (view d).ctx (view d).acts).1 else s)
          (view d).ctx a.1 a.2.1 a.2.2.1 a.2.2.2, [Call.learn (view d).ctx a.1 a.2.1 a.2.2.1 a.2.2.2]))
          (learnArgsS c (view d) (if needPred c L.hasScore = true then some (L.predict s (view d).ctx (view d).acts).2 else none))
      else some (if (c.eval == EvalMode.ips && L.hasScore && !needPred c L.hasScore) = true then
              (L.score (if needPred c L.hasScore = true then (L.predict s (view d).ctx (view d).acts).1 else s)
                (view d).ctx (view d).acts (view d).offAct).1
            else if needPred c L.hasScore = true then (L.predict s (view d).ctx (view d).acts).1 else s, [])) = some a := by
    cases hl : c.learn with
    | none => exact ⟨_, by simp [hl]; rfl⟩
    | off => exact ⟨_, by simp [learnArgsS, bne, hl]; rfl⟩
    | on =>
      have hn : needPred c L.hasScore = true := by simp [needPred, hl]
      obtain ⟨x, hx⟩ := envReward_isSome h (hv.rwds (Or.inl hl)) (L.predict s (view d).ctx (view d).acts).2.action
      exact ⟨_, by simp [learnArgsS, hn, hx, bne, hl]; rfl⟩
    | ips =>
      have hn : needPred c L.hasScore = true := by simp [needPred, hl]
      obtain ⟨x, hx⟩ := ipsReward_isSome h (hv.logged (Or.inr (Or.inl hl))).2 (some (L.predict s (view d).ctx (view d).acts).2.action)
      exact ⟨_, by simp [learnArgsS, hn, hx, bne, hl]; rfl⟩
  obtain ⟨a, ha⟩ := hLA
  rw [ha]
  simp only [Option.bind_some]
  obtain ⟨row, hrow⟩ := rowS_isSome (c := c) h hda
    (if needPred c L.hasScore = true then some (L.predict s (view d).ctx (view d).acts).2 else none) er
  exact ⟨_, by rw [hrow]; rfl⟩

theorem specRun_isSome {σ : Type} {c : Config} {fl : Flags} (L : Learner σ V) (hv : Valid c L.hasScore fl)
    (hda : fl.discrete = true → fl.hasActions = true) (env : List (Dict (Fld V R))) (hall : ∀ d ∈ env, WF fl d) (s : σ) :
    ∃ r, specRun c fl L s (env.map view) = some r := by
  induction env generalizing s with
  | nil => exact ⟨_, rfl⟩
  | cons d ds ih =>
    obtain ⟨r1, h1⟩ := specInter_isSome L s (hall d (by simp)) hv hda
    obtain ⟨r2, h2⟩ := ih (fun d' hd' => hall d' (by simp [hd'])) r1.1
    exact ⟨_, by simp only [List.map_cons, specRun, h1, Option.bind_some, h2, Option.map_some]; rfl⟩

omit [DecidableEq V] [RewardFn R V] in
theorem discrete_hasActions (first : Dict (Fld V R)) : (mkFlags first).discrete = true → (mkFlags first).hasActions = true := by
  simp only [mkFlags, isDiscrete, Dict.has]
  cases first.get? "actions" with
  | none => simp
  | some f => simp

/-- on a well-formed environment that passes validation the evaluation succeeds -/
theorem evaluate_ok' {σ : Type} (c : Config) (L : Learner σ V) (first : Dict (Fld V R)) (rest : List (Dict (Fld V R)))
    (s : σ) (H : Hyp c L first rest) : ∃ out, evaluate c L none (first :: rest) s = .ok out := by
  have hv := valid_of_missing_nil c L.hasScore first H.valid
  obtain ⟨r, hr⟩ := specRun_isSome L hv (discrete_hasActions first) (first :: rest)
    (fun d hd => (wfEnv_all H.wf d hd).1) s
  have := evaluate_refines' c L first rest s H.wf H.valid H.seq
  rw [hr] at this
  simp only [Option.map_some] at this
  exact ⟨_, Outcome.toOpt_eq_some.mp this⟩

/-! ## batched refinement: one batch of any size -/

omit [DecidableEq V] [RewardFn R V] in
theorem prepAll_chunk {c : Config} {hs : Bool} {fl : Flags} (hv : Valid c hs fl) (ch : List (Dict (Fld V R)))
    (hall : ∀ d ∈ ch, WF fl d) : prepAll c fl ch = .ok (ch.map (fun d => rowOf c (view d))) := by
  induction ch with
  | nil => rfl
  | cons d ds ih =>
    simp only [prepAll, prep_ok (hall d (by simp)) hv, ih (fun d' hd' => hall d' (by simp [hd'])), bind, Except.bind,
      pure, Except.pure, List.map_cons]

omit [DecidableEq V] [RewardFn R V] in
theorem predictPhase_eq {σ : Type} (L : Learner σ V) (c : Config) (vs : List (View V R)) (s : σ) :
    predictPhase L s (vs.map (rowOf c)) = ((predictS L s vs).1, (predictS L s vs).2, vs.map (fun v => Call.predict v.ctx v.acts)) := by
  have key : ∀ (acc : σ × List (Pred V) × List (Call V)),
      (vs.map (rowOf c)).foldl (fun (acc : σ × List (Pred V) × List (Call V)) r =>
        ((L.predict acc.1 r.ctx r.acts).1, acc.2.1 ++ [(L.predict acc.1 r.ctx r.acts).2], acc.2.2 ++ [Call.predict r.ctx r.acts])) acc
      = ((predictS L acc.1 vs).1, acc.2.1 ++ (predictS L acc.1 vs).2, acc.2.2 ++ vs.map (fun v => Call.predict v.ctx v.acts)) := by
    induction vs with
    | nil => intro acc; simp [predictS]
    | cons v vs ih =>
      intro acc
      simp only [List.map_cons, List.foldl_cons]
      rw [ih]
      simp [predictS, rowOf]
  have := key (s, [], [])
  simpa [predictPhase] using this

omit [DecidableEq V] [RewardFn R V] in
theorem scorePhase_eq {σ : Type} (L : Learner σ V) (c : Config) (vs : List (View V R)) (s : σ) :
    scorePhase L s (vs.map (rowOf c)) = ((scoreS L s vs).1, (scoreS L s vs).2, vs.map (fun v => Call.score v.ctx v.acts v.offAct)) := by
  have key : ∀ (acc : σ × List Rat × List (Call V)),
      (vs.map (rowOf c)).foldl (fun (acc : σ × List Rat × List (Call V)) r =>
        ((L.score acc.1 r.ctx r.acts r.offAct).1, acc.2.1 ++ [(L.score acc.1 r.ctx r.acts r.offAct).2],
          acc.2.2 ++ [Call.score r.ctx r.acts r.offAct])) acc
      = ((scoreS L acc.1 vs).1, acc.2.1 ++ (scoreS L acc.1 vs).2, acc.2.2 ++ vs.map (fun v => Call.score v.ctx v.acts v.offAct)) := by
    induction vs with
    | nil => intro acc; simp [scoreS]
    | cons v vs ih =>
      intro acc
      simp only [List.map_cons, List.foldl_cons]
      rw [ih]
      simp [scoreS, rowOf]
  have := key (s, [], [])
  simpa [scorePhase] using this

omit [DecidableEq V] [RewardFn R V] in
theorem learnPhase_eq {σ : Type} (L : Learner σ V) (c : Config) (vs : List (View V R))
    (args : List (Option V × Option Rat × Option Rat × Dict V)) (s : σ) :
    learnPhase L s (vs.map (rowOf c)) args
      = (learnS L s vs args, List.zipWith (fun (v : View V R) a => Call.learn v.ctx a.1 a.2.1 a.2.2.1 a.2.2.2) vs args) := by
  have key : ∀ (acc : σ × List (Call V)),
      ((vs.map (rowOf c)).zip args).foldl (fun (acc : σ × List (Call V)) ra =>
        (L.learn acc.1 ra.1.ctx ra.2.1 ra.2.2.1 ra.2.2.2.1 ra.2.2.2.2,
          acc.2 ++ [Call.learn ra.1.ctx ra.2.1 ra.2.2.1 ra.2.2.2.1 ra.2.2.2.2])) acc
      = (learnS L acc.1 vs args, acc.2 ++ List.zipWith (fun (v : View V R) a => Call.learn v.ctx a.1 a.2.1 a.2.2.1 a.2.2.2) vs args) := by
    induction vs generalizing args with
    | nil => intro acc; simp [learnS]
    | cons v vs ih =>
      intro acc
      cases args with
      | nil => simp [learnS]
      | cons a as =>
        simp only [List.map_cons, List.zip_cons_cons, List.foldl_cons]
        rw [ih]
        simp [learnS, rowOf]
  have := key (s, [])
  simpa [learnPhase] using this

theorem evals_chunk {c : Config} (sb : Bool) (vs : List (View V R)) (ps : List (Option (Pred V))) (scs : List (Option Rat))
    (hw : ∀ v ∈ vs, WFR v) (h1 : sb = true → c.eval = .ips ∧ ∀ p ∈ ps, p = none) (h2 : sb = false → ∀ sc ∈ scs, sc = none) :
    toOpt (mapM₃ (evalReward sb) (vs.map (rowOf c)) ps scs) = allSome (zip3With (evalRewardS c) vs ps scs) := by
  induction vs generalizing ps scs with
  | nil => simp [mapM₃, zip3With, allSome]
  | cons v vs ih =>
    cases ps with
    | nil => simp [mapM₃, zip3With, allSome]
    | cons p ps =>
      cases scs with
      | nil => simp [mapM₃, zip3With, allSome]
      | cons sc scs =>
        have hx := evalReward_eq (c := c) (hw v (by simp)) sb p sc
          (fun h => ⟨(h1 h).1, (h1 h).2 p (by simp)⟩) (fun h => h2 h sc (by simp))
        have ih' := ih ps scs (fun v' hv' => hw v' (by simp [hv']))
          (fun h => ⟨(h1 h).1, fun p' hp' => (h1 h).2 p' (by simp [hp'])⟩) (fun h sc' hsc' => h2 h sc' (by simp [hsc']))
        simp only [List.map_cons, mapM₃, zip3With, allSome, bind, Except.bind, pure, Except.pure]
        cases hE : evalReward sb (rowOf c v) p sc with
        | error e => rw [hE] at hx; simp only [toOpt_error] at hx; simp [← hx, allSome]
        | ok x =>
          rw [hE] at hx; simp only [toOpt_ok] at hx
          rw [← hx]
          cases hR : mapM₃ (evalReward sb) (vs.map (rowOf c)) ps scs with
          | error e => rw [hR] at ih'; simp only [toOpt_error] at ih'; simp [allSome, ← ih']
          | ok xs => rw [hR] at ih'; simp only [toOpt_ok] at ih'; simp [allSome, ← ih']

theorem args_chunk {c : Config} (hl : c.learn ≠ .none) (vs : List (View V R)) (ps : List (Option (Pred V)))
    (hw : ∀ v ∈ vs, WFR v) :
    toOpt (mapM₂ (learnArgs c) (vs.map (rowOf c)) ps) = allSome (List.zipWith (learnArgsS c) vs ps) := by
  induction vs generalizing ps with
  | nil => simp [mapM₂, allSome]
  | cons v vs ih =>
    cases ps with
    | nil => simp [mapM₂, allSome]
    | cons p ps =>
      have hx := learnArgs_eq (c := c) (hw v (by simp)) p hl
      have ih' := ih ps (fun v' hv' => hw v' (by simp [hv']))
      simp only [List.map_cons, mapM₂, List.zipWith_cons_cons, allSome, bind, Except.bind, pure, Except.pure]
      cases hE : learnArgs c (rowOf c v) p with
      | error e => rw [hE] at hx; simp only [toOpt_error] at hx; simp [← hx, allSome]
      | ok x =>
        rw [hE] at hx; simp only [toOpt_ok] at hx
        rw [← hx]
        cases hR : mapM₂ (learnArgs c) (vs.map (rowOf c)) ps with
        | error e => rw [hR] at ih'; simp only [toOpt_error] at ih'; simp [allSome, ← ih']
        | ok xs => rw [hR] at ih'; simp only [toOpt_ok] at ih'; simp [allSome, ← ih']

/-- row assembly on the batched code path -/
theorem mkRow_eqB {c : Config} {fl : Flags} {v : View V R} (hw : WFR v) (sp : Bool) (p : Option (Pred V)) (er : Option Rat)
    (hfin : fl.discrete = false → finRewards v = v.rewards)
    (hnd : nodupKeys (Dict.keys v.extras) = true) (hfr : ∀ kv ∈ v.extras, kv.1 ∉ implicitExclude) :
    toOpt (mkRow c fl sp true (rowOf c v) p er) = rowSB c fl sp v p er := by
  have hrc := rewardsCell_eq (c := c) hw hfin
  simp only [mkRow, rowSB]
  cases hx : rewardsCell c fl (rowOf c v) with
  | error e => rw [hx] at hrc; simp only [toOpt_error] at hrc; simp [← hrc, Except.map]
  | ok rw =>
    have hrwkeys := rewardsCell_keys hx
    rw [hx] at hrc; simp only [toOpt_ok] at hrc
    simp only [← hrc, Except.map, toOpt_ok, Option.map_some]
    have hex : (rowOf c v).extras = v.extras := rfl
    rw [hex, foldl_set_fresh _ _ hnd]
    · simp only [rowOf, outAction, outProb, Bool.true_or, Bool.and_true]
      first | rfl | simp [List.append_assoc]
    · intro kv hkv b hb heq
      have hk := hfr kv hkv
      apply hk
      rw [← heq]
      simp only [List.mem_append] at hb
      rcases hb with ((((hb | hb) | hb) | hb) | hb) | hb
      · split at hb <;> simp at hb; subst hb; show _ ∈ implicitExclude; simp [implicitExclude]
      · split at hb <;> simp at hb; subst hb; show _ ∈ implicitExclude; simp [implicitExclude]
      · split at hb <;> simp at hb; subst hb; show _ ∈ implicitExclude; simp [implicitExclude]
      · split at hb <;> simp at hb; subst hb; show _ ∈ implicitExclude; simp [implicitExclude]
      · rw [hrwkeys b hb]; simp [implicitExclude]
      · split at hb <;> simp at hb; subst hb; show _ ∈ implicitExclude; simp [implicitExclude]

structure RowOK (fl : Flags) (v : View V R) : Prop where
  wfr : WFR v
  fin : fl.discrete = false → finRewards v = v.rewards
  nd : nodupKeys (Dict.keys v.extras) = true
  fr : ∀ kv ∈ v.extras, kv.1 ∉ implicitExclude

theorem rows_chunk {c : Config} {fl : Flags} (sp : Bool) (vs : List (View V R)) (ps : List (Option (Pred V)))
    (evals : List (Option Rat)) (hok : ∀ v ∈ vs, RowOK fl v) :
    toOpt (mapM₃ (mkRow c fl sp true) (vs.map (rowOf c)) ps evals) = allSome (zip3With (rowSB c fl sp) vs ps evals) := by
  induction vs generalizing ps evals with
  | nil => simp [mapM₃, zip3With, allSome]
  | cons v vs ih =>
    cases ps with
    | nil => simp [mapM₃, zip3With, allSome]
    | cons p ps =>
      cases evals with
      | nil => simp [mapM₃, zip3With, allSome]
      | cons er evals =>
        have hv := hok v (by simp)
        have hx := mkRow_eqB (c := c) (fl := fl) hv.wfr sp p er hv.fin hv.nd hv.fr
        have ih' := ih ps evals (fun v' hv' => hok v' (by simp [hv']))
        simp only [List.map_cons, mapM₃, zip3With, allSome, bind, Except.bind, pure, Except.pure]
        cases hE : mkRow c fl sp true (rowOf c v) p er with
        | error e => rw [hE] at hx; simp only [toOpt_error] at hx; simp [← hx, allSome]
        | ok x =>
          rw [hE] at hx; simp only [toOpt_ok] at hx
          rw [← hx]
          cases hR : mapM₃ (mkRow c fl sp true) (vs.map (rowOf c)) ps evals with
          | error e => rw [hR] at ih'; simp only [toOpt_error] at ih'; simp [allSome, ← ih']
          | ok xs => rw [hR] at ih'; simp only [toOpt_ok] at ih'; simp [allSome, ← ih']

omit [DecidableEq V] [RewardFn R V] in
@[simp] theorem learnS_nil {σ : Type} (L : Learner σ V) (s : σ) (vs : List (View V R)) : learnS L s vs [] = s := by
  cases vs <;> rfl

theorem evalsOf_chunk {c : Config} (sb : Bool) (vs : List (View V R)) (ps : List (Option (Pred V))) (scs : List (Option Rat))
    (hw : ∀ v ∈ vs, WFR v) (h1 : sb = true → c.eval = .ips ∧ ∀ p ∈ ps, p = none) (h2 : sb = false → ∀ sc ∈ scs, sc = none) :
    toOpt (evalsOf c sb (vs.map (rowOf c)) ps scs)
      = (if c.eval != .none then (allSome (zip3With (evalRewardS c) vs ps scs)).map (·.map some)
         else some (List.replicate vs.length none)) := by
  unfold evalsOf
  by_cases he : (c.eval != .none) = true
  · rw [if_pos he, if_pos he, toOpt_map, evals_chunk sb vs ps scs hw h1 h2]
  · rw [if_neg he, if_neg he]; simp

theorem learnsOf_chunk {c : Config} {σ : Type} (L : Learner σ V) (s : σ) (vs : List (View V R)) (ps : List (Option (Pred V)))
    (hw : ∀ v ∈ vs, WFR v) :
    toOpt (learnsOf c L s (vs.map (rowOf c)) ps)
      = (if c.learn != .none then
          (allSome (List.zipWith (learnArgsS c) vs ps)).map (fun args =>
            (learnS L s vs args, List.zipWith (fun (v : View V R) a => Call.learn v.ctx a.1 a.2.1 a.2.2.1 a.2.2.2) vs args))
         else some (s, [])) := by
  unfold learnsOf
  by_cases hl : (c.learn != .none) = true
  · have hne : c.learn ≠ .none := by simpa [bne] using hl
    rw [if_pos hl, if_pos hl, toOpt_map, args_chunk hne vs ps hw]
    cases allSome (List.zipWith (learnArgsS c) vs ps) with
    | none => rfl
    | some args => simp [learnPhase_eq]
  · rw [if_neg hl, if_neg hl]; rfl

omit [DecidableEq V] [RewardFn R V] in
theorem rowOK_of_WF {fl : Flags} {d : Dict (Fld V R)} (h : WF fl d) (hnd : nodupKeys d.keys = true)
    (hseq : fl.rwdsIsList = true → fl.discrete = true) : RowOK fl (view d) := by
  refine ⟨WFR_of_WF h, ?_, nodupKeys_filter d _ hnd, extras_fresh d⟩
  intro hd
  apply finRewards_raw h
  cases hl : fl.rwdsIsList with
  | false => rfl
  | true => rw [hseq hl] at hd; cases hd

theorem stepChunk_batched {σ : Type} {c : Config} {fl : Flags} (L : Learner σ V) (s : σ) (ch : List (Dict (Fld V R)))
    (hall : ∀ d ∈ ch, WF fl d ∧ nodupKeys d.keys = true) (hv : Valid c L.hasScore fl)
    (hseq : fl.rwdsIsList = true → fl.discrete = true) :
    toOpt (stepChunk c fl L true s ch) =
      (specChunk c fl L s (ch.map view)).map (fun r => (r.1, r.2.1, r.2.2.filter (fun o => !o.isEmpty))) := by
  have hprep := prepAll_chunk hv ch (fun d hd => (hall d hd).1)
  have hrows : ch.map (fun d => rowOf c (view d)) = (ch.map view).map (rowOf c) := by simp [List.map_map, Function.comp_def]
  rw [hrows] at hprep
  have hok : ∀ v ∈ ch.map view, RowOK fl v := by
    intro v hvm
    simp only [List.mem_map] at hvm
    obtain ⟨d, hd, rfl⟩ := hvm
    exact rowOK_of_WF (hall d hd).1 (hall d hd).2 hseq
  have hw : ∀ v ∈ ch.map view, WFR v := fun v hvm => (hok v hvm).wfr
  generalize ch.map view = vs at *
  unfold stepChunk specChunk
  rw [hprep]
  simp only [toOpt_bind, toOpt_map, toOpt_ok, Option.bind_some, shouldPred_eq_needPred, List.length_map]
  cases hnp : needPred c L.hasScore with
  | true =>
    simp only [Bool.not_true, Bool.and_false, Bool.false_eq_true, if_false, if_true, predictPhase_eq, optList, List.nil_append,
      List.append_nil, List.map_const', List.length_map]
    rw [evalsOf_chunk false vs _ _ hw (by simp) (by intro _ sc hsc; simp at hsc; exact hsc.2.symm ▸ rfl)]
    rw [learnsOf_chunk L _ vs _ hw]
    have hrows := fun evals => rows_chunk (c := c) (fl := fl) true vs (List.map some (predictS L s vs).2) evals hok
    simp only [hrows]
    by_cases he : (c.eval != .none) = true <;> by_cases hl : (c.learn != .none) = true <;>
      simp only [he, hl, if_true, if_false, Bool.false_eq_true] <;>
      (try cases allSome (zip3With (evalRewardS c) vs (List.map some (predictS L s vs).2) (List.replicate vs.length none))) <;>
      (try cases allSome (List.zipWith (learnArgsS c) vs (List.map some (predictS L s vs).2))) <;>
      simp [Option.map_map, Function.comp_def]
  | false =>
    simp only [Bool.not_false, Bool.and_true, Bool.false_eq_true, if_false, optList, List.nil_append, List.append_nil,
      List.map_const', List.length_map]
    have hrows := fun evals => rows_chunk (c := c) (fl := fl) false vs (List.replicate vs.length none) evals hok
    cases hsb : (c.eval == EvalMode.ips && L.hasScore) with
    | true =>
      have hips : c.eval = .ips := by
        simp only [Bool.and_eq_true, em_beq, decide_eq_true_eq] at hsb; exact hsb.1
      simp only [if_true, scorePhase_eq]
      rw [evalsOf_chunk true vs _ _ hw (by intro _; exact ⟨hips, by intro p hp; simp at hp; exact hp.2.symm ▸ rfl⟩) (by simp)]
      rw [learnsOf_chunk L _ vs _ hw]
      simp only [hrows]
      by_cases hl : (c.learn != .none) = true <;>
        simp only [hips, hl, if_true, if_false, Bool.false_eq_true] <;>
        (try cases allSome (zip3With (evalRewardS c) vs (List.replicate vs.length none) (List.map some (scoreS L s vs).2))) <;>
        (try cases allSome (List.zipWith (learnArgsS c) vs (List.replicate vs.length none))) <;>
        simp [Option.map_map, Function.comp_def]
    | false =>
      simp only [Bool.false_eq_true, if_false, List.nil_append]
      rw [evalsOf_chunk false vs _ _ hw (by simp) (by intro _ sc hsc; simp at hsc; exact hsc.2.symm ▸ rfl)]
      rw [learnsOf_chunk L _ vs _ hw]
      simp only [hrows]
      by_cases he : (c.eval != .none) = true <;> by_cases hl : (c.learn != .none) = true <;>
        simp only [he, hl, if_true, if_false, Bool.false_eq_true] <;>
        (try cases allSome (zip3With (evalRewardS c) vs (List.replicate vs.length none) (List.replicate vs.length none))) <;>
        (try cases allSome (List.zipWith (learnArgsS c) vs (List.replicate vs.length none))) <;>
        simp [Option.map_map, Function.comp_def]

theorem runChunks_batched {σ : Type} {c : Config} {fl : Flags} (L : Learner σ V) (hv : Valid c L.hasScore fl)
    (hseq : fl.rwdsIsList = true → fl.discrete = true) (chs : List (List (Dict (Fld V R))))
    (hall : ∀ ch ∈ chs, ∀ d ∈ ch, WF fl d ∧ nodupKeys d.keys = true) (s : σ) (cs : List (Call V)) (rs : List (Row V R)) :
    toOpt (runChunks c fl L true s cs rs chs) =
      (specRunB c fl L s (chs.map (List.map view))).map
        (fun r => (r.1, cs ++ r.2.1, rs ++ r.2.2.filter (fun o => !o.isEmpty))) := by
  induction chs generalizing s cs rs with
  | nil => simp [runChunks, specRunB]
  | cons ch rest ih =>
    have hrest : ∀ ch' ∈ rest, ∀ d ∈ ch', WF fl d ∧ nodupKeys d.keys = true := fun ch' h' => hall ch' (by simp [h'])
    simp only [List.map_cons, runChunks, specRunB, toOpt_bind]
    rw [stepChunk_batched L s ch (hall ch (by simp)) hv hseq]
    cases hsi : specChunk c fl L s (ch.map view) with
    | none => simp
    | some r1 =>
      simp only [Option.map_some, Option.bind_some]
      rw [ih hrest]
      cases specRunB c fl L r1.1 (List.map (List.map view) rest) with
      | none => simp
      | some r2 => simp [List.append_assoc, List.filter_append]

omit [DecidableEq V] [RewardFn R V] in
theorem mem_chunksAux {α : Type} (n fuel : Nat) (l : List α) (ch : List α) (h : ch ∈ chunksAux n fuel l) : ∀ x ∈ ch, x ∈ l := by
  induction fuel generalizing l with
  | zero => simp [chunksAux] at h
  | succ k ih =>
    simp only [chunksAux] at h
    split at h
    · cases h
    · simp only [List.mem_cons] at h
      rcases h with h | h
      · subst h; intro x hx; exact List.mem_of_mem_take hx
      · intro x hx; exact List.mem_of_mem_drop (ih _ h x hx)

/-- refinement of the batched evaluation (any batch size, the last batch may be shorter) -/
theorem evaluate_refines_batched' {σ : Type} (c : Config) (L : Learner σ V) (n : Nat) (first : Dict (Fld V R))
    (rest : List (Dict (Fld V R))) (s : σ) (hwf : wfEnv (first :: rest) = true) (hmiss : missingKeys c L.hasScore first = [])
    (hseq : (mkFlags first).rwdsIsList = true → (mkFlags first).discrete = true) :
    (evaluate c L (some n) (first :: rest) s).toOpt =
      (specRunB c (mkFlags first) L s ((chunks n (first :: rest)).map (List.map view))).map
        (fun r => (r.1, r.2.1, r.2.2.filter (fun o => !o.isEmpty))) := by
  have hv := valid_of_missing_nil c L.hasScore first hmiss
  have hall := wfEnv_all hwf
  have := runChunks_batched L hv hseq (chunks n (first :: rest))
    (fun ch hch d hd => hall d (mem_chunksAux n _ _ ch hch d hd)) s [] []
  simp only [evaluate, hmiss, List.isEmpty_nil, Bool.not_true, Bool.false_eq_true, if_false]
  simp only [List.nil_append] at this
  rw [← this]
  cases runChunks c (mkFlags first) L true s [] [] (chunks n (first :: rest)) <;> rfl

/-! ## batched vs un-batched call traces -/

def Call.isScore : Call V → Bool
  | .score _ _ _ => true
  | _ => false

def Call.isLearn : Call V → Bool
  | .learn _ _ _ _ _ => true
  | _ => false

/-- what a stateful learner sees differently in a batch: row j of a batch is predicted in the state reached by
predicting rows 0..j-1 of the same batch from the state at the start of the batch — nothing of the batch has been
learned yet (un-batched, row j would be predicted after rows 0..j-1 were also learned) -/
theorem predictS_get {σ : Type} (L : Learner σ V) (s : σ) (vs : List (View V R)) (j : Nat) (h : j < vs.length) :
    (predictS L s vs).2[j]? = some (L.predict (predictS L s (vs.take j)).1 (vs[j]).ctx (vs[j]).acts).2 := by
  induction vs generalizing s j with
  | nil => simp at h
  | cons v vs ih =>
    cases j with
    | zero => simp [predictS]
    | succ k =>
      simp only [predictS, List.getElem?_cons_succ, List.take_succ_cons, List.getElem_cons_succ]
      exact ih _ k (by simpa using h)

/-- the learner state in which a batch is learned: after all predictions (and scores) of the batch -/
theorem specChunk_state {σ : Type} {c : Config} {fl : Flags} (L : Learner σ V) (s : σ) (vs : List (View V R))
    (r : σ × List (Call V) × List (Row V R)) (h : specChunk c fl L s vs = some r) :
    ∃ args, ((c.learn = .none ∧ args = []) ∨ (c.learn ≠ .none ∧
        allSome (List.zipWith (learnArgsS c) vs
          (if needPred c L.hasScore then (predictS L s vs).2.map some else vs.map (fun _ => none))) = some args)) ∧
      r.1 = learnS L
        (if (c.eval == .ips && L.hasScore && !needPred c L.hasScore) then
            (scoreS L (if needPred c L.hasScore then (predictS L s vs).1 else s) vs).1
          else (if needPred c L.hasScore then (predictS L s vs).1 else s)) vs args
      ∧ r.2.1 = (if needPred c L.hasScore then vs.map (fun v => Call.predict v.ctx v.acts) else [])
          ++ (if (c.eval == .ips && L.hasScore && !needPred c L.hasScore) then vs.map (fun v => Call.score v.ctx v.acts v.offAct) else [])
          ++ List.zipWith (fun (v : View V R) a => Call.learn v.ctx a.1 a.2.1 a.2.2.1 a.2.2.2) vs args := by
  unfold specChunk at h
  simp only [Option.bind_eq_some_iff, Option.map_eq_some_iff] at h
  obtain ⟨evals, _, args, hargs, rows, _, hr⟩ := h
  subst hr
  refine ⟨args, ?_, ?_, ?_⟩
  · by_cases hl : (c.learn != .none) = true
    · rw [if_pos hl] at hargs
      refine Or.inr ⟨by simpa [bne] using hl, ?_⟩
      cases hn : needPred c L.hasScore <;> simp only [hn, if_true, if_false, Bool.false_eq_true] at hargs ⊢ <;> exact hargs
    · rw [if_neg hl] at hargs
      simp only [Option.some.injEq] at hargs
      exact Or.inl ⟨by simpa [bne] using hl, hargs.symm⟩
  · cases needPred c L.hasScore <;> cases (c.eval == .ips && L.hasScore) <;> simp
  · cases needPred c L.hasScore <;> cases (c.eval == .ips && L.hasScore) <;> simp

/-- the learn call of one interaction for a learner answering `f` whatever its state -/
def learnCallsO (c : Config) (hs : Bool) (f : Option V → Option (List V) → Pred V) (v : View V R) : List (Call V) :=
  if c.learn != .none then
    match learnArgsS c v (if needPred c hs then some (f v.ctx v.acts) else none) with
    | some a => [Call.learn v.ctx a.1 a.2.1 a.2.2.1 a.2.2.2]
    | none => []
  else []

omit [DecidableEq V] [RewardFn R V] in
theorem predictS_oblivious {σ : Type} {L : Learner σ V} {f g} (ho : Oblivious L f g) (vs : List (View V R)) (s : σ) :
    (predictS L s vs).2 = vs.map (fun v => f v.ctx v.acts) := by
  induction vs generalizing s with
  | nil => rfl
  | cons v vs ih => simp [predictS, ho.pred, ih]

omit [DecidableEq V] [RewardFn R V] in
theorem zipWith_allSome {α β γ δ : Type} (F : α → β → Option γ) (G : α → γ → δ) (P : α → β) (xs : List α) (args : List γ)
    (h : allSome (List.zipWith F xs (xs.map P)) = some args) :
    List.zipWith G xs args = xs.flatMap (fun x => match F x (P x) with
      | some a => [G x a]
      | none => []) := by
  induction xs generalizing args with
  | nil => simp
  | cons x xs ih =>
    simp only [List.map_cons, List.zipWith_cons_cons, allSome] at h
    cases hF : F x (P x) with
    | none => rw [hF] at h; simp [allSome] at h
    | some a =>
      rw [hF] at h
      simp only [allSome, Option.map_eq_some_iff] at h
      obtain ⟨as, has, rfl⟩ := h
      simp [hF, ih as has]

omit [DecidableEq V] [RewardFn R V] in
theorem filter_kinds (P S Lc : List (Call V)) (hP : ∀ x ∈ P, Call.isPredict x = true) (hS : ∀ x ∈ S, Call.isScore x = true)
    (hL : ∀ x ∈ Lc, Call.isLearn x = true) :
    (P ++ S ++ Lc).filter Call.isPredict = P ∧ (P ++ S ++ Lc).filter Call.isScore = S ∧ (P ++ S ++ Lc).filter Call.isLearn = Lc := by
  have e1 : ∀ x : Call V, Call.isPredict x = true → Call.isScore x = false ∧ Call.isLearn x = false := by
    intro x; cases x <;> simp [Call.isPredict, Call.isScore, Call.isLearn]
  have e2 : ∀ x : Call V, Call.isScore x = true → Call.isPredict x = false ∧ Call.isLearn x = false := by
    intro x; cases x <;> simp [Call.isPredict, Call.isScore, Call.isLearn]
  have e3 : ∀ x : Call V, Call.isLearn x = true → Call.isPredict x = false ∧ Call.isScore x = false := by
    intro x; cases x <;> simp [Call.isPredict, Call.isScore, Call.isLearn]
  refine ⟨?_, ?_, ?_⟩
  · rw [List.filter_append, List.filter_append, List.filter_eq_self.mpr hP,
      List.filter_eq_nil_iff.mpr (fun x hx => by simp [(e2 x (hS x hx)).1]),
      List.filter_eq_nil_iff.mpr (fun x hx => by simp [(e3 x (hL x hx)).1])]
    simp
  · rw [List.filter_append, List.filter_append, List.filter_eq_self.mpr hS,
      List.filter_eq_nil_iff.mpr (fun x hx => by simp [(e1 x (hP x hx)).1]),
      List.filter_eq_nil_iff.mpr (fun x hx => by simp [(e3 x (hL x hx)).2])]
    simp
  · rw [List.filter_append, List.filter_append, List.filter_eq_self.mpr hL,
      List.filter_eq_nil_iff.mpr (fun x hx => by simp [(e1 x (hP x hx)).2]),
      List.filter_eq_nil_iff.mpr (fun x hx => by simp [(e2 x (hS x hx)).2])]
    simp

/-- the calls of each kind in a run of the spec, for a learner answering `f`,`g` whatever its state -/
structure Kinds (c : Config) (hs : Bool) (f : Option V → Option (List V) → Pred V) (vs : List (View V R))
    (calls : List (Call V)) : Prop where
  pred : calls.filter Call.isPredict = (if needPred c hs then vs.map (fun v => Call.predict v.ctx v.acts) else [])
  score : calls.filter Call.isScore =
    (if (c.eval == .ips && hs && !needPred c hs) then vs.map (fun v => Call.score v.ctx v.acts v.offAct) else [])
  learn : calls.filter Call.isLearn = vs.flatMap (learnCallsO c hs f)

theorem Kinds.append {c : Config} {hs : Bool} {f : Option V → Option (List V) → Pred V} {vs ws : List (View V R)}
    {a b : List (Call V)} (h1 : Kinds c hs f vs a) (h2 : Kinds c hs f ws b) : Kinds c hs f (vs ++ ws) (a ++ b) := by
  refine ⟨?_, ?_, ?_⟩
  · rw [List.filter_append, h1.pred, h2.pred]; split <;> simp
  · rw [List.filter_append, h1.score, h2.score]; split <;> simp
  · rw [List.filter_append, h1.learn, h2.learn]; simp

theorem kinds_of_groups {c : Config} {hs : Bool} {f : Option V → Option (List V) → Pred V} (vs : List (View V R))
    (lc : List (Call V)) (hL : ∀ x ∈ lc, Call.isLearn x = true) (hlc : lc = vs.flatMap (learnCallsO c hs f)) :
    Kinds c hs f vs ((if needPred c hs then vs.map (fun v => Call.predict v.ctx v.acts) else [])
      ++ (if (c.eval == .ips && hs && !needPred c hs) then vs.map (fun v => Call.score v.ctx v.acts v.offAct) else []) ++ lc) := by
  have := filter_kinds (if needPred c hs then vs.map (fun v => Call.predict v.ctx v.acts) else [])
    (if (c.eval == .ips && hs && !needPred c hs) then vs.map (fun v => Call.score v.ctx v.acts v.offAct) else []) lc
    (by intro x hx; split at hx <;> simp at hx; obtain ⟨v, _, rfl⟩ := hx; rfl)
    (by intro x hx; split at hx <;> simp at hx; obtain ⟨v, _, rfl⟩ := hx; rfl) hL
  exact ⟨this.1, this.2.1, by rw [this.2.2, hlc]⟩

theorem specRun_kinds {σ : Type} {c : Config} {fl : Flags} {L : Learner σ V} {f g} (ho : Oblivious L f g)
    (vs : List (View V R)) (s : σ) (r : σ × List (Call V) × List (Row V R)) (h : specRun c fl L s vs = some r) :
    Kinds c L.hasScore f vs r.2.1 := by
  induction vs generalizing s r with
  | nil =>
    simp only [specRun, Option.some.injEq] at h
    subst h
    exact ⟨by simp, by simp, by simp⟩
  | cons v vs ih =>
    simp only [specRun, Option.bind_eq_some_iff, Option.map_eq_some_iff] at h
    obtain ⟨r1, h1, r2, h2, hr⟩ := h
    subst hr
    have k2 := ih r1.1 r2 h2
    obtain ⟨lc, hcs, hlc⟩ := specInter_calls L s v r1 h1
    have k1 : Kinds c L.hasScore f [v] r1.2.1 := by
      rw [hcs]
      have e1 : (if needPred c L.hasScore = true then [Call.predict v.ctx v.acts] else [])
          = (if needPred c L.hasScore = true then [v].map (fun v => Call.predict v.ctx v.acts) else []) := by simp
      have e2 : (if (c.eval == EvalMode.ips && L.hasScore && !needPred c L.hasScore) = true then [Call.score v.ctx v.acts v.offAct] else [])
          = (if (c.eval == EvalMode.ips && L.hasScore && !needPred c L.hasScore) = true then
              [v].map (fun v => Call.score v.ctx v.acts v.offAct) else []) := by simp
      rw [e1, e2]
      apply kinds_of_groups
      · rcases hlc with ⟨_, h0⟩ | ⟨_, a, _, h0⟩ <;> subst h0 <;> simp [Call.isLearn]
      · rcases hlc with ⟨hn, h0⟩ | ⟨hn, a, ha, h0⟩
        · subst h0; simp [learnCallsO, hn]
        · subst h0
          have hne : (c.learn != .none) = true := by simpa [bne] using hn
          rw [ho.pred] at ha
          simp [learnCallsO, hne, ha]
    exact Kinds.append k1 k2

theorem specChunk_kinds {σ : Type} {c : Config} {fl : Flags} {L : Learner σ V} {f g} (ho : Oblivious L f g)
    (vs : List (View V R)) (s : σ) (r : σ × List (Call V) × List (Row V R)) (h : specChunk c fl L s vs = some r) :
    Kinds c L.hasScore f vs r.2.1 := by
  obtain ⟨args, hargs, _, hcalls⟩ := specChunk_state L s vs r h
  rw [hcalls]
  apply kinds_of_groups
  · intro x hx
    rw [List.mem_iff_getElem] at hx
    obtain ⟨i, hi, rfl⟩ := hx
    simp [Call.isLearn]
  · rcases hargs with ⟨hn, h0⟩ | ⟨hn, h0⟩
    · subst h0
      have : ∀ v : View V R, learnCallsO c L.hasScore f v = [] := by intro v; simp [learnCallsO, hn]
      simp [this]
    · have hne : (c.learn != .none) = true := by simpa [bne] using hn
      have hps : (if needPred c L.hasScore = true then List.map some (predictS L s vs).2 else List.map (fun _ => none) vs)
          = vs.map (fun v => if needPred c L.hasScore then some (f v.ctx v.acts) else none) := by
        rw [predictS_oblivious ho]
        cases needPred c L.hasScore <;> simp
      rw [hps] at h0
      rw [zipWith_allSome (learnArgsS c) (fun (v : View V R) a => Call.learn v.ctx a.1 a.2.1 a.2.2.1 a.2.2.2) _ vs args h0]
      congr 1
      funext v
      simp only [learnCallsO, hne, if_true]
      cases learnArgsS c v (if needPred c L.hasScore = true then some (f v.ctx v.acts) else none) <;> rfl

theorem specRunB_kinds {σ : Type} {c : Config} {fl : Flags} {L : Learner σ V} {f g} (ho : Oblivious L f g)
    (chs : List (List (View V R))) (s : σ) (r : σ × List (Call V) × List (Row V R)) (h : specRunB c fl L s chs = some r) :
    Kinds c L.hasScore f chs.flatten r.2.1 := by
  induction chs generalizing s r with
  | nil =>
    simp only [specRunB, Option.some.injEq] at h
    subst h
    exact ⟨by simp, by simp, by simp⟩
  | cons ch rest ih =>
    simp only [specRunB, Option.bind_eq_some_iff, Option.map_eq_some_iff] at h
    obtain ⟨r1, h1, r2, h2, hr⟩ := h
    subst hr
    simp only [List.flatten_cons]
    exact Kinds.append (specChunk_kinds ho ch s r1 h1) (ih r1.1 r2 h2)

/-- a batched evaluation that succeeds is a run of the batched spec -/
theorem evaluate_ok_specB' {σ : Type} (c : Config) (L : Learner σ V) (n : Nat) (first : Dict (Fld V R))
    (rest : List (Dict (Fld V R))) (s s' : σ) (calls : List (Call V)) (rows : List (Row V R)) (H : Hyp c L first rest)
    (h : evaluate c L (some n) (first :: rest) s = .ok (s', calls, rows)) :
    ∃ full, specRunB c (mkFlags first) L s ((chunks n (first :: rest)).map (List.map view)) = some (s', calls, full)
      ∧ rows = full.filter (fun o => !o.isEmpty) := by
  have := evaluate_refines_batched' c L n first rest s H.wf H.valid H.seq
  rw [h] at this
  simp only [Outcome.toOpt] at this
  cases hr : specRunB c (mkFlags first) L s ((chunks n (first :: rest)).map (List.map view)) with
  | none => rw [hr] at this; simp at this
  | some r =>
    rw [hr] at this
    simp only [Option.map_some, Option.some.injEq, Prod.mk.injEq] at this
    obtain ⟨h1, h2, h3⟩ := this
    exact ⟨r.2.2, by rw [h1, h2], h3⟩

/-- for a learner whose answers do not depend on its history the batched run makes exactly the calls of the
un-batched run; only their interleaving differs (per batch: all predicts, all scores, all learns) -/
theorem batched_trace_eq_unbatched' {σ : Type} {L : Learner σ V} {f : Option V → Option (List V) → Pred V}
    {g : Option V → Option (List V) → Option V → Rat} (ho : Oblivious L f g) (c : Config) (n : Nat) (hn : 0 < n)
    (first : Dict (Fld V R)) (rest : List (Dict (Fld V R))) (s sb su : σ) (cb cu : List (Call V)) (rb ru : List (Row V R))
    (H : Hyp c L first rest)
    (hb : evaluate c L (some n) (first :: rest) s = .ok (sb, cb, rb))
    (hu : evaluate c L none (first :: rest) s = .ok (su, cu, ru)) :
    cb.filter Call.isPredict = cu.filter Call.isPredict ∧ cb.filter Call.isScore = cu.filter Call.isScore
      ∧ cb.filter Call.isLearn = cu.filter Call.isLearn := by
  obtain ⟨fb, hsb, _⟩ := evaluate_ok_specB' c L n first rest s sb cb rb H hb
  obtain ⟨fu, hsu, _⟩ := evaluate_ok_spec' c L first rest s su cu ru H.wf H.valid H.seq hu
  have kb := specRunB_kinds ho _ s _ hsb
  have ku := specRun_kinds ho _ s _ hsu
  have hfl : ((chunks n (first :: rest)).map (List.map view)).flatten = (first :: rest).map view := by
    rw [← List.map_flatten, chunks_flatten n hn]
  rw [hfl] at kb
  exact ⟨kb.pred.trans ku.pred.symm, kb.score.trans ku.score.symm, kb.learn.trans ku.learn.symm⟩

/-! ## histories -/

theorem runHistory_append {σ : Type} (L : Learner σ V) (s : σ) (pre post : List (Episode V R)) :
    runHistory L s (pre ++ post) = runHistory L s pre ++ runHistory L (finalState L s pre) post := by
  induction pre generalizing s with
  | nil => rfl
  | cons e es ih => simp only [List.cons_append, runHistory, finalState, ih]

/-- the k-th evaluation of a history is `evaluate` on that evaluation's own config/environment, started in the
learner state the earlier evaluations left behind: nothing else is carried from one evaluation to the next -/
theorem evaluations_independent' {σ : Type} (L : Learner σ V) (s : σ) (pre : List (Episode V R)) (e : Episode V R)
    (post : List (Episode V R)) :
    (runHistory L s (pre ++ e :: post))[pre.length]? = some (evaluate e.cfg L e.bs e.env (finalState L s pre)) := by
  rw [runHistory_append]
  have hl : (runHistory L s pre).length = pre.length := by
    induction pre generalizing s with
    | nil => rfl
    | cons e' es ih => simp [runHistory, ih]
  rw [List.getElem?_append_right (by omega), hl]
  simp [runHistory]

/-- two histories that leave the learner in the same state are followed by the same outcome -/
theorem history_congr' {σ : Type} (L : Learner σ V) (s₁ s₂ : σ) (pre₁ pre₂ : List (Episode V R)) (e : Episode V R)
    (post₁ post₂ : List (Episode V R)) (h : finalState L s₁ pre₁ = finalState L s₂ pre₂) :
    (runHistory L s₁ (pre₁ ++ e :: post₁))[pre₁.length]? = (runHistory L s₂ (pre₂ ++ e :: post₂))[pre₂.length]? := by
  rw [evaluations_independent', evaluations_independent', h]

/-! ## the IPS transform, exactly -/

/-- `reward/probability` for the logged action and `0` for every other action — with exact rationals, for every
non-zero probability however small (no clipping, no flooring) -/
theorem ips_reward_spec' (v : View V R) (a : Option V) (r p : Rat) (hr : v.offRwd = some r) (hp : v.offPr = some p) (hp0 : p ≠ 0) :
    ipsReward v a = some (if v.offAct = a then r / p else 0) := by
  simp [ipsReward, hr, hp, hp0]

/-- … so that the importance-weighted value times the propensity gives the logged reward back -/
theorem ips_reward_unclipped' (v : View V R) (r p : Rat) (hr : v.offRwd = some r) (hp : v.offPr = some p) (hp0 : p ≠ 0) :
    ∃ w, ipsReward v v.offAct = some w ∧ w * p = r := by
  refine ⟨r / p, by simp [ipsReward, hr, hp, hp0], Rat.div_mul_cancel hp0⟩

/-- the reward cell of an interaction's row is the documented evaluation reward -/
theorem specInter_reward_cell {σ : Type} {c : Config} {fl : Flags} (L : Learner σ V) (s : σ) (v : View V R)
    (r : σ × List (Call V) × Row V R) (h : specInter c fl L s v = some r) (hrec : c.rcd "reward" = true) (he : c.eval ≠ .none) :
    ∃ er, evalRewardS c v (if needPred c L.hasScore then some (L.predict s v.ctx v.acts).2 else none)
        (if (c.eval == .ips && L.hasScore && !needPred c L.hasScore) then
          some (L.score (if needPred c L.hasScore then (L.predict s v.ctx v.acts).1 else s) v.ctx v.acts v.offAct).2 else none) = some er
      ∧ ("reward", Cell.num (some er)) ∈ r.2.2 := by
  unfold specInter at h
  simp only [Option.bind_eq_some_iff, Option.map_eq_some_iff] at h
  obtain ⟨er, her, sc3, _, row, hrow, hr⟩ := h
  subst hr
  have hne : (c.eval != .none) = true := by simpa [bne] using he
  rw [if_pos hne] at her
  simp only [Option.map_eq_some_iff] at her
  obtain ⟨x, hx, rfl⟩ := her
  refine ⟨x, hx, ?_⟩
  simp only [rowS, Option.map_eq_some_iff] at hrow
  obtain ⟨rw, _, rfl⟩ := hrow
  simp [hrec, hne]

/-- score-based IPS evaluation (eval='ips', a learner with `score`, no prediction needed): every interaction asks
`score(context, actions, logged action)` once and records `score · reward/probability` -/
theorem score_based_ips' {σ : Type} (c : Config) (L : Learner σ V) (first : Dict (Fld V R)) (rest : List (Dict (Fld V R)))
    (s s' : σ) (calls : List (Call V)) (rows : List (Row V R)) (H : Hyp c L first rest)
    (he : c.eval = .ips) (hs : L.hasScore = true) (hnp : needPred c L.hasScore = false) (hrec : c.rcd "reward" = true)
    (h : evaluate c L none (first :: rest) s = .ok (s', calls, rows)) :
    ∃ steps : List (σ × List (Call V) × Row V R), steps.length = (first :: rest).length ∧
      calls = (steps.map (·.2.1)).flatten ∧ rows = (steps.map (·.2.2)).filter (fun o => !o.isEmpty) ∧
      ∀ vst ∈ ((first :: rest).map view).zip steps,
        vst.2.2.1.head? = some (Call.score vst.1.ctx vst.1.acts vst.1.offAct) ∧
        ∃ w, ipsReward vst.1 vst.1.offAct = some w ∧
          ("reward", Cell.num (some ((L.score vst.2.1 vst.1.ctx vst.1.acts vst.1.offAct).2 * w))) ∈ vst.2.2.2 := by
  obtain ⟨full, hsp, hrows⟩ := evaluate_ok_spec' c L first rest s s' calls rows H.wf H.valid H.seq h
  obtain ⟨st, h1, h2, h3, h4⟩ := specRun_steps L _ s _ hsp
  simp only at h2 h3
  refine ⟨st, by simpa using h1, h2, by rw [hrows, h3], ?_⟩
  intro vst hvst
  obtain ⟨s2, hsi⟩ := h4 vst hvst
  have hsb : (c.eval == EvalMode.ips && L.hasScore && !needPred c L.hasScore) = true := by rw [hnp, he, hs]; rfl
  constructor
  · obtain ⟨lc, hcs, _⟩ := specInter_calls L vst.2.1 vst.1 _ hsi
    simp only at hcs
    rw [hcs, hsb, hnp]
    simp
  · obtain ⟨er, her, hmem⟩ := specInter_reward_cell L vst.2.1 vst.1 _ hsi hrec (by rw [he]; decide)
    rw [hsb, hnp] at her
    simp only [Bool.false_eq_true, if_false, if_true, evalRewardS, he, Option.map_eq_some_iff] at her
    obtain ⟨w, hw, rfl⟩ := her
    exact ⟨w, hw, hmem⟩

/-! ## learning_info -/

theorem Dict.update_nil {α : Type} (a : Dict α) : Dict.update a [] = a := rfl

theorem mergeInfo_nil (o : Row V R) : mergeInfo o [] = o := rfl

theorem stepI_silent {σ : Type} (c : Config) (fl : Flags) (L : InfoLearner σ V) (s : σ) (d : Dict (Fld V R)) :
    stepI c fl L.silent s d = (stepI c fl L s d).map (fun r => (r.1, r.2.1, r.2.2.1, [])) := by
  unfold stepI
  have : L.silent.toLearner = L.toLearner := rfl
  rw [this]
  cases passOf c fl L.toLearner s d with
  | error e => rfl
  | ok k =>
    simp only [Except.map, Except.ok.injEq, Prod.mk.injEq, true_and]
    simp only [Pass.info, InfoLearner.silent]
    cases k.la <;> simp [Dict.update] <;> (by_cases h : shouldPred c L.hasScore = true <;> simp [h])

theorem runI_silent {σ : Type} (c : Config) (fl : Flags) (L : InfoLearner σ V) (env : List (Dict (Fld V R))) (s : σ) :
    runI c fl L.silent s env = (runI c fl L s env).map (fun r => (r.1, r.2.1, r.2.2.1, r.2.2.2.map (fun _ => []))) := by
  induction env generalizing s with
  | nil => rfl
  | cons d ds ih =>
    simp only [runI, stepI_silent]
    cases stepI c fl L s d with
    | error e => rfl
    | ok r1 =>
      simp only [Except.map, Except.bind, ih]
      cases runI c fl L r1.1 ds with
      | error e => rfl
      | ok r2 => rfl

/-- the pass of the `learning_info` model is the loop body of the model the refinement theorems are about -/
theorem stepChunk_eq_pass {σ : Type} (c : Config) (fl : Flags) (L : Learner σ V) (s : σ) (d : Dict (Fld V R)) :
    stepChunk c fl L false s [d] =
      (passOf c fl L s d).map (fun k => (k.learnState L, k.allCalls, [k.out].filter (fun o => !o.isEmpty))) := by
  unfold stepChunk passOf
  simp only [prepAll, bind, Except.bind, pure, Except.pure]
  cases prep c fl d with
  | error e => rfl
  | ok r =>
    simp only [Except.map]
    cases hsp : shouldPred c L.hasScore with
    | true =>
      have hsb : (c.eval == EvalMode.ips && L.hasScore && !true) = false := by simp
      by_cases he : (c.eval != EvalMode.none) = true <;> by_cases hl : (c.learn != LearnMode.none) = true <;>
        simp only [hsp, hsb, he, hl, evalsOf, learnsOf, predictPhase, scorePhase, optList, mapM₃, mapM₂, learnPhase, Bool.not_true,
        Bool.not_false, Bool.and_true, Bool.and_false, if_true, if_false, Bool.false_eq_true, List.foldl_cons, List.foldl_nil,
        List.length_cons, List.length_nil, List.replicate_succ, List.replicate_zero, List.map_cons, List.map_nil, List.nil_append,
        List.zip_cons_cons, List.zip_nil_right, Except.map, Except.bind, bind, pure, Except.pure] <;>
        (try cases evalReward false r (some (L.predict s r.ctx r.acts).2) (none)) <;> (try cases learnArgs c r (some (L.predict s r.ctx r.acts).2)) <;>
        (try simp only []) <;>
        ((try simp only [mapM₃, mapM₂, learnPhase, List.foldl_cons, List.foldl_nil, List.map_cons, List.map_nil, List.nil_append, List.append_nil,
            List.zip_cons_cons, List.zip_nil_right, Except.map, Except.bind, bind, pure, Except.pure, Pass.learnState, Pass.allCalls]) <;> (try (generalize mkRow c fl _ false r _ _ = m; cases m)) <;> simp_all [Pass.learnState, Pass.allCalls])
    | false =>
      cases hsb : (c.eval == EvalMode.ips && L.hasScore) with
      | true =>
        by_cases he : (c.eval != EvalMode.none) = true <;> by_cases hl : (c.learn != LearnMode.none) = true <;>
          simp only [hsp, hsb, he, hl, evalsOf, learnsOf, predictPhase, scorePhase, optList, mapM₃, mapM₂, learnPhase, Bool.not_true,
        Bool.not_false, Bool.and_true, Bool.and_false, if_true, if_false, Bool.false_eq_true, List.foldl_cons, List.foldl_nil,
        List.length_cons, List.length_nil, List.replicate_succ, List.replicate_zero, List.map_cons, List.map_nil, List.nil_append,
        List.zip_cons_cons, List.zip_nil_right, Except.map, Except.bind, bind, pure, Except.pure] <;>
          (try cases evalReward true r (none) (some (L.score s r.ctx r.acts r.offAct).2)) <;> (try cases learnArgs c r (none)) <;>
          (try simp only []) <;>
          ((try simp only [mapM₃, mapM₂, learnPhase, List.foldl_cons, List.foldl_nil, List.map_cons, List.map_nil, List.nil_append, List.append_nil,
            List.zip_cons_cons, List.zip_nil_right, Except.map, Except.bind, bind, pure, Except.pure, Pass.learnState, Pass.allCalls]) <;> (try (generalize mkRow c fl _ false r _ _ = m; cases m)) <;> simp_all [Pass.learnState, Pass.allCalls])
      | false =>
        by_cases he : (c.eval != EvalMode.none) = true <;> by_cases hl : (c.learn != LearnMode.none) = true <;>
          simp only [hsp, hsb, he, hl, evalsOf, learnsOf, predictPhase, scorePhase, optList, mapM₃, mapM₂, learnPhase, Bool.not_true,
        Bool.not_false, Bool.and_true, Bool.and_false, if_true, if_false, Bool.false_eq_true, List.foldl_cons, List.foldl_nil,
        List.length_cons, List.length_nil, List.replicate_succ, List.replicate_zero, List.map_cons, List.map_nil, List.nil_append,
        List.zip_cons_cons, List.zip_nil_right, Except.map, Except.bind, bind, pure, Except.pure] <;>
          (try cases evalReward false r (none) (none)) <;> (try cases learnArgs c r (none)) <;>
          (try simp only []) <;>
          ((try simp only [mapM₃, mapM₂, learnPhase, List.foldl_cons, List.foldl_nil, List.map_cons, List.map_nil, List.nil_append, List.append_nil,
            List.zip_cons_cons, List.zip_nil_right, Except.map, Except.bind, bind, pure, Except.pure, Pass.learnState, Pass.allCalls]) <;> (try (generalize mkRow c fl _ false r _ _ = m; cases m)) <;> simp_all [Pass.learnState, Pass.allCalls])

theorem runI_eq_runChunks {σ : Type} (c : Config) (fl : Flags) (L : InfoLearner σ V) (env : List (Dict (Fld V R))) (s : σ)
    (cs : List (Call V)) (rs : List (Row V R)) :
    runChunks c fl L.toLearner false s cs rs (env.map ([·])) =
      (runI c fl L s env).map (fun r => (r.1, cs ++ r.2.1, rs ++ r.2.2.1.filter (fun o => !o.isEmpty))) := by
  induction env generalizing s cs rs with
  | nil => simp [runChunks, runI, Except.map]
  | cons d ds ih =>
    simp only [List.map_cons, runChunks, runI, stepChunk_eq_pass, stepI]
    cases passOf c fl L.toLearner s d with
    | error e => rfl
    | ok k =>
      simp only [Except.map, Except.bind, ih]
      cases runI c fl L (k.learnState L.toLearner) ds with
      | error e => rfl
      | ok r2 =>
        simp only [Except.map, Except.ok.injEq, Prod.mk.injEq, true_and]
        constructor
        · simp [List.append_assoc]
        · by_cases he : k.out.isEmpty = true <;> simp [List.filter_cons, he, List.append_assoc]

/-- the model with `learning_info`, seen without the info, is the model the refinement theorems are about -/
theorem evaluateI_base' {σ : Type} (c : Config) (L : InfoLearner σ V) (env : List (Dict (Fld V R))) (s : σ) :
    evaluate c L.toLearner none env s = (match evaluateI c L env s with
      | .ok r => .ok (r.1, r.2.1, r.2.2.2.1.filter (fun o => !o.isEmpty))
      | .rejected ks => .rejected ks
      | .crashed e => .crashed e) := by
  cases env with
  | nil => rfl
  | cons first rest =>
    simp only [evaluate, evaluateI]
    by_cases hm : (!(missingKeys c L.hasScore first).isEmpty) = true
    · rw [if_pos hm, if_pos hm]
    · rw [if_neg hm, if_neg hm, chunks_one, runI_eq_runChunks]
      cases runI c (mkFlags first) L s (first :: rest) with
      | error e => rfl
      | ok r => simp [Except.map, Outcome.ofExcept]

theorem Except.bind_eq_ok {α β : Type} {x : Except Err α} {f : α → Except Err β} {b : β} (h : x.bind f = .ok b) :
    ∃ a, x = .ok a ∧ f a = .ok b := by
  cases x with
  | error e => simp [Except.bind] at h
  | ok a => exact ⟨a, rfl, h⟩

theorem passOf_s0 {σ : Type} {c : Config} {fl : Flags} {L : Learner σ V} {s : σ} {d : Dict (Fld V R)} {k : Pass σ V R}
    (h : passOf c fl L s d = .ok k) : k.s0 = s := by
  unfold passOf at h
  obtain ⟨r, _, h⟩ := Except.bind_eq_ok h
  obtain ⟨er, _, h⟩ := Except.bind_eq_ok h
  obtain ⟨la, _, h⟩ := Except.bind_eq_ok h
  obtain ⟨out, _, h⟩ := Except.map_eq_ok h
  subst h
  rfl

/-- structure of a run with `learning_info`: one pass per interaction, each producing its base row and its info -/
theorem runI_passes {σ : Type} (c : Config) (fl : Flags) (L : InfoLearner σ V) (env : List (Dict (Fld V R))) (s : σ)
    (r : σ × List (Call V) × List (Row V R) × List (Dict V)) (h : runI c fl L s env = .ok r) :
    ∃ passes : List (Pass σ V R), passes.length = env.length ∧ r.2.2.1 = passes.map (·.out) ∧
      r.2.2.2 = passes.map (Pass.info c L) ∧ ∀ dk ∈ env.zip passes, passOf c fl L.toLearner dk.2.s0 dk.1 = .ok dk.2 := by
  induction env generalizing s r with
  | nil =>
    simp only [runI, Except.ok.injEq] at h
    subst h
    exact ⟨[], rfl, rfl, rfl, by simp⟩
  | cons d ds ih =>
    simp only [runI, stepI] at h
    cases hp : passOf c fl L.toLearner s d with
    | error e => rw [hp] at h; cases h
    | ok k =>
      rw [hp] at h
      simp only [Except.map, Except.bind] at h
      cases hr : runI c fl L (k.learnState L.toLearner) ds with
      | error e => rw [hr] at h; cases h
      | ok r2 =>
        rw [hr] at h
        simp only [Except.ok.injEq] at h
        subst h
        obtain ⟨ps, h1, h2, h3, h4⟩ := ih _ r2 hr
        have hs0 : k.s0 = s := passOf_s0 hp
        refine ⟨k :: ps, by simp [h1], by simp [h2], by simp [h3], ?_⟩
        intro dk hdk
        simp only [List.zip_cons_cons, List.mem_cons] at hdk
        rcases hdk with hdk | hdk
        · subst hdk; simp only; rw [hs0]; exact hp
        · exact h4 dk hdk

/-- `learning_info` is local to the interaction: the yielded rows are, interaction by interaction, the row that
interaction would have had anyway with the info written DURING THAT PASS merged in (`Pass.info`: what `predict` wrote,
`update`d by what `learn` wrote, both functions of that pass's own learner state and call arguments); nothing leaks
into another row, and state, calls and base rows are those of the evaluation without any info -/
theorem info_row_local' {σ : Type} (c : Config) (L : InfoLearner σ V) (first : Dict (Fld V R)) (rest : List (Dict (Fld V R)))
    (s s' : σ) (calls : List (Call V)) (rows bases : List (Row V R)) (infos : List (Dict V))
    (h : evaluateI c L (first :: rest) s = .ok (s', calls, rows, bases, infos)) :
    rows = (List.zipWith mergeInfo bases infos).filter (fun o => !o.isEmpty) ∧
    evaluate c L.toLearner none (first :: rest) s = .ok (s', calls, bases.filter (fun o => !o.isEmpty)) ∧
    ∃ passes : List (Pass σ V R), passes.length = (first :: rest).length ∧ bases = passes.map (·.out) ∧
      infos = passes.map (Pass.info c L) ∧
      ∀ dk ∈ (first :: rest).zip passes, passOf c (mkFlags first) L.toLearner dk.2.s0 dk.1 = .ok dk.2 := by
  have hb := evaluateI_base' c L (first :: rest) s
  rw [h] at hb
  simp only [evaluateI] at h
  by_cases hm : (!(missingKeys c L.hasScore first).isEmpty) = true
  · rw [if_pos hm] at h; cases h
  · rw [if_neg hm] at h
    cases hr : runI c (mkFlags first) L s (first :: rest) with
    | error e => rw [hr] at h; simp [Except.map, Outcome.ofExcept] at h
    | ok r =>
      rw [hr] at h
      simp only [Except.map, Outcome.ofExcept, Outcome.ok.injEq, Prod.mk.injEq] at h
      obtain ⟨h1, h2, h3, h4, h5⟩ := h
      obtain ⟨ps, p1, p2, p3, p4⟩ := runI_passes c _ L _ s r hr
      refine ⟨by rw [← h3, ← h4, ← h5]; rfl, hb, ps, p1, by rw [← h4, p2], by rw [← h5, p3], p4⟩

/-! ## PMF answers -/

/-- on-policy evaluation of a PMF learner: what is learned and what the evaluator works with is exactly SafeLearner's
parse of the PMF (the action drawn by `choicew` from the wrapper's generator state at that moment, its weight as
the probability, the kwargs unchanged) -/
theorem pmf_parsed' {σ : Type} (c : Config) (P : PmfLearner σ V) (dflt : V) (first : Dict (Fld V R)) (rest : List (Dict (Fld V R)))
    (s s' : σ × Nat) (calls : List (Call V)) (rows : List (Row V R)) (H : Hyp c (wrapPmf P dflt) first rest)
    (hl : c.learn = .on ∨ c.learn = .ips)
    (h : evaluate c (wrapPmf P dflt) none (first :: rest) s = .ok (s', calls, rows)) :
    ∃ steps : List ((σ × Nat) × List (Call V)), steps.length = (first :: rest).length ∧ calls = (steps.map (·.2)).flatten ∧
      ∀ vst ∈ ((first :: rest).map view).zip steps,
        ∃ rew, vst.2.2 = [Call.predict vst.1.ctx vst.1.acts,
          Call.learn vst.1.ctx
            (some (parsePmf dflt vst.1.acts (P.predict vst.2.1.1 vst.1.ctx vst.1.acts).2.1
              (P.predict vst.2.1.1 vst.1.ctx vst.1.acts).2.2 vst.2.1.2).1.action)
            (some rew)
            (parsePmf dflt vst.1.acts (P.predict vst.2.1.1 vst.1.ctx vst.1.acts).2.1
              (P.predict vst.2.1.1 vst.1.ctx vst.1.acts).2.2 vst.2.1.2).1.prob
            (P.predict vst.2.1.1 vst.1.ctx vst.1.acts).2.2] := by
  obtain ⟨steps, h1, h2, h3⟩ := kwargs_roundtrip' c (wrapPmf P dflt) first rest s s' calls rows H hl h
  refine ⟨steps, h1, h2, ?_⟩
  intro vst hvst
  obtain ⟨rew, _, hc⟩ := h3 vst hvst
  refine ⟨rew, ?_⟩
  rw [hc]
  have hkw : (parsePmf dflt vst.1.acts (P.predict vst.2.1.1 vst.1.ctx vst.1.acts).2.1
      (P.predict vst.2.1.1 vst.1.ctx vst.1.acts).2.2 vst.2.1.2).1.kw = (P.predict vst.2.1.1 vst.1.ctx vst.1.acts).2.2 := by
    unfold parsePmf
    cases vst.1.acts with
    | none => rfl
    | some as =>
      simp only
      cases Coba.C05.choicew vst.2.1.2 as.length (some (P.predict vst.2.1.1 vst.1.ctx (some as)).2.1) with
      | error e => rfl
      | ok r => rfl
  simp only [wrapPmf, hkw]

/-! ## one evaluator object, several evaluations -/

/-- an evaluator object is its configuration: applying it to a sequence of (learner, batching, environment, learner
state) jobs is `evaluate` job by job -/
theorem evaluator_stateless' {σ : Type} (c : Config) (jobs : List (Learner σ V × Option Nat × List (Dict (Fld V R)) × σ)) (k : Nat) :
    (jobs.map (fun j => evaluate c j.1 j.2.1 j.2.2.1 j.2.2.2))[k]? = (jobs[k]?).map (fun j => evaluate c j.1 j.2.1 j.2.2.1 j.2.2.2) :=
  List.getElem?_map

/-! ## batched counterparts of the trace and row theorems -/

theorem specRunB_steps {σ : Type} {c : Config} {fl : Flags} (L : Learner σ V) (chs : List (List (View V R))) (s : σ)
    (r : σ × List (Call V) × List (Row V R)) (h : specRunB c fl L s chs = some r) :
    ∃ steps : List (σ × σ × List (Call V) × List (Row V R)),
      steps.length = chs.length ∧ r.2.1 = (steps.map (·.2.2.1)).flatten ∧ r.2.2 = (steps.map (·.2.2.2)).flatten ∧
      ∀ cst ∈ chs.zip steps, specChunk c fl L cst.2.1 cst.1 = some cst.2.2 := by
  induction chs generalizing s r with
  | nil =>
    simp only [specRunB, Option.some.injEq] at h
    subst h
    exact ⟨[], rfl, rfl, rfl, by simp⟩
  | cons ch rest ih =>
    simp only [specRunB, Option.bind_eq_some_iff, Option.map_eq_some_iff] at h
    obtain ⟨r1, h1, r2, h2, hr⟩ := h
    subst hr
    obtain ⟨st, hs1, hs2, hs3, hs4⟩ := ih r1.1 r2 h2
    refine ⟨(s, r1) :: st, by simp [hs1], by simp [hs2], by simp [hs3], ?_⟩
    intro cst hcst
    simp only [List.zip_cons_cons, List.mem_cons] at hcst
    rcases hcst with hcst | hcst
    · subst hcst; exact h1
    · exact hs4 cst hcst

theorem predictS_length {σ : Type} (L : Learner σ V) (s : σ) (vs : List (View V R)) : (predictS L s vs).2.length = vs.length := by
  induction vs generalizing s with
  | nil => rfl
  | cons v vs ih => simp [predictS, ih]

theorem scoreS_length {σ : Type} (L : Learner σ V) (s : σ) (vs : List (View V R)) : (scoreS L s vs).2.length = vs.length := by
  induction vs generalizing s with
  | nil => rfl
  | cons v vs ih => simp [scoreS, ih]

theorem allSome_length {α : Type} (l : List (Option α)) (r : List α) (h : allSome l = some r) : r.length = l.length := by
  induction l generalizing r with
  | nil => simp only [allSome, Option.some.injEq] at h; subst h; rfl
  | cons x xs ih =>
    cases x with
    | none => simp [allSome] at h
    | some a =>
      simp only [allSome, Option.map_eq_some_iff] at h
      obtain ⟨r', hr', rfl⟩ := h
      simp [ih r' hr']

theorem zip3With_length {α β γ δ : Type} (f : α → β → γ → δ) (as : List α) (bs : List β) (cs : List γ)
    (h1 : bs.length = as.length) (h2 : cs.length = as.length) : (zip3With f as bs cs).length = as.length := by
  induction as generalizing bs cs with
  | nil => cases bs <;> cases cs <;> simp [zip3With]
  | cons a as ih =>
    cases bs with
    | nil => simp at h1
    | cons b bs =>
      cases cs with
      | nil => simp at h2
      | cons c cs => simp [zip3With, ih bs cs (by simpa using h1) (by simpa using h2)]

theorem allSome_zip3With {α β γ δ : Type} (f : α → β → γ → Option δ) (as : List α) (bs : List β) (cs : List γ) (r : List δ)
    (h : allSome (zip3With f as bs cs) = some r) : ∀ ar ∈ as.zip r, ∃ b c, f ar.1 b c = some ar.2 := by
  induction as generalizing bs cs r with
  | nil => intro ar har; simp at har
  | cons a as ih =>
    cases bs with
    | nil => simp only [zip3With, allSome, Option.some.injEq] at h; subst h; intro ar har; simp at har
    | cons b bs =>
      cases cs with
      | nil => simp only [zip3With, allSome, Option.some.injEq] at h; subst h; intro ar har; simp at har
      | cons c cs =>
        simp only [zip3With, allSome] at h
        cases hf : f a b c with
        | none => rw [hf] at h; simp [allSome] at h
        | some d =>
          rw [hf] at h
          simp only [allSome, Option.map_eq_some_iff] at h
          obtain ⟨r', hr', rfl⟩ := h
          intro ar har
          simp only [List.zip_cons_cons, List.mem_cons] at har
          rcases har with har | har
          · subst har; exact ⟨b, c, hf⟩
          · exact ih bs cs r' hr' ar har

theorem rowSB_extras {c : Config} {fl : Flags} {np : Bool} {v : View V R} {p : Option (Pred V)} {er : Option Rat} {row : Row V R}
    (hrow : rowSB c fl np v p er = some row) :
    ∃ pre : Row V R, row = pre ++ v.extras.map (fun kv => (kv.1, Cell.fld kv.2)) ∧ ∀ b ∈ pre, b.1 ∈ implicitExclude := by
  simp only [rowSB, Option.map_eq_some_iff] at hrow
  obtain ⟨rw, hrw, hrow⟩ := hrow
  subst hrow
  refine ⟨_, rfl, ?_⟩
  intro b hb
  have hrwk : ∀ b ∈ rw, b.1 = "rewards" := by
    intro b hb
    unfold rewardsCellS at hrw
    split at hrw
    · split at hrw
      · split at hrw
        · simp only [Option.map_eq_some_iff] at hrw
          obtain ⟨xs, _, hx⟩ := hrw
          subst hx; simp at hb; simp [hb]
        · cases hrw
      · simp only [Option.map_eq_some_iff] at hrw
        obtain ⟨f, _, hx⟩ := hrw
        subst hx; simp at hb; simp [hb]
    · simp only [Option.some.injEq] at hrw
      subst hrw; simp at hb
  simp only [List.mem_append] at hb
  rcases hb with ((((hb | hb) | hb) | hb) | hb) | hb
  · split at hb <;> simp at hb; subst hb; simp [implicitExclude]
  · split at hb <;> simp at hb; subst hb; simp [implicitExclude]
  · split at hb <;> simp at hb; subst hb; simp [implicitExclude]
  · split at hb <;> simp at hb; subst hb; simp [implicitExclude]
  · rw [hrwk b hb]; simp [implicitExclude]
  · split at hb <;> simp at hb; subst hb; simp [implicitExclude]

/-- rows of one batch: one per interaction, each ending with that interaction's additional fields -/
theorem specChunk_rows {σ : Type} {c : Config} {fl : Flags} (L : Learner σ V) (s : σ) (vs : List (View V R))
    (r : σ × List (Call V) × List (Row V R)) (h : specChunk c fl L s vs = some r) :
    r.2.2.length = vs.length ∧ ∀ vr ∈ vs.zip r.2.2,
      ∃ pre : Row V R, vr.2 = pre ++ vr.1.extras.map (fun kv => (kv.1, Cell.fld kv.2)) ∧ ∀ b ∈ pre, b.1 ∈ implicitExclude := by
  unfold specChunk at h
  simp only [Option.bind_eq_some_iff, Option.map_eq_some_iff] at h
  obtain ⟨evals, hev, args, _, rows, hrows, hr⟩ := h
  subst hr
  have hps : ∀ (np : Bool), (if np = true then List.map some (if np = true then predictS L s vs else (s, [])).2
      else List.map (fun _ => (none : Option (Pred V))) vs).length = vs.length := by
    intro np; cases np <;> simp [predictS_length]
  have hevl : evals.length = vs.length := by
    by_cases he : (c.eval != EvalMode.none) = true
    · rw [if_pos he] at hev
      simp only [Option.map_eq_some_iff] at hev
      obtain ⟨es, hes, rfl⟩ := hev
      rw [List.length_map, allSome_length _ _ hes, zip3With_length _ _ _ _ (hps _)]
      cases (c.eval == EvalMode.ips && L.hasScore && !needPred c L.hasScore) <;> simp [scoreS_length]
    · rw [if_neg he] at hev
      simp only [Option.some.injEq] at hev
      subst hev; simp
  refine ⟨?_, ?_⟩
  · simp only
    rw [allSome_length _ _ hrows, zip3With_length _ _ _ _ (hps _) hevl]
  · intro vr hvr
    obtain ⟨p, er, hrow⟩ := allSome_zip3With _ _ _ _ _ hrows vr hvr
    exact rowSB_extras hrow

theorem zip_flatten_forall {α β : Type} (P : α × β → Prop) (xss : List (List α)) (yss : List (List β))
    (hlen : xss.length = yss.length)
    (h : ∀ xy ∈ xss.zip yss, xy.2.length = xy.1.length ∧ ∀ ab ∈ xy.1.zip xy.2, P ab) :
    xss.flatten.length = yss.flatten.length ∧ ∀ ab ∈ xss.flatten.zip yss.flatten, P ab := by
  induction xss generalizing yss with
  | nil =>
    cases yss with
    | nil => simp
    | cons y ys => simp at hlen
  | cons xs xss ih =>
    cases yss with
    | nil => simp at hlen
    | cons ys yss =>
      have h0 := h (xs, ys) (by simp)
      obtain ⟨ihl, ihp⟩ := ih yss (by simpa using hlen) (fun xy hxy => h xy (by simp [hxy]))
      constructor
      · simp [h0.1, ihl]
      · intro ab hab
        simp only [List.flatten_cons] at hab
        rw [List.zip_append (by simp [h0.1])] at hab
        simp only [List.mem_append] at hab
        rcases hab with hab | hab
        · exact h0.2 ab hab
        · exact ihp ab hab

/-- batched `order_strict` + shape of every batch: the trace is the concatenation, batch by batch in environment order, of
(all predicts of the batch) ++ (all its scores) ++ (all its learns), rows of the batch in order within each part -/
theorem order_strict_batched' {σ : Type} (c : Config) (L : Learner σ V) (n : Nat) (first : Dict (Fld V R))
    (rest : List (Dict (Fld V R))) (s s' : σ) (calls : List (Call V)) (rows : List (Row V R)) (H : Hyp c L first rest)
    (h : evaluate c L (some n) (first :: rest) s = .ok (s', calls, rows)) :
    ∃ groups : List (List (Call V)), groups.length = (chunks n (first :: rest)).length ∧ calls = groups.flatten ∧
      ∀ cg ∈ ((chunks n (first :: rest)).map (List.map view)).zip groups,
        ∃ learns : List (Call V), (∀ x ∈ learns, Call.isLearn x = true) ∧ learns.length ≤ cg.1.length ∧
          cg.2 = (if needPred c L.hasScore then cg.1.map (fun v => Call.predict v.ctx v.acts) else [])
            ++ (if (c.eval == .ips && L.hasScore && !needPred c L.hasScore) then cg.1.map (fun v => Call.score v.ctx v.acts v.offAct) else [])
            ++ learns ∧
          ∀ vl ∈ cg.1.zip learns, Call.ctx vl.2 = vl.1.ctx := by
  obtain ⟨full, hsp, _⟩ := evaluate_ok_specB' c L n first rest s s' calls rows H h
  obtain ⟨st, h1, h2, _, h4⟩ := specRunB_steps L _ s _ hsp
  simp only at h2
  refine ⟨st.map (·.2.2.1), by simpa using h1, h2, ?_⟩
  intro cg hcg
  rw [List.zip_map_right] at hcg
  simp only [List.mem_map] at hcg
  obtain ⟨cst, hcst, rfl⟩ := hcg
  obtain ⟨args, _, _, hshape⟩ := specChunk_state L cst.2.1 cst.1 _ (h4 cst hcst)
  refine ⟨_, ?_, ?_, hshape, ?_⟩
  · intro x hx
    rw [List.mem_iff_getElem] at hx
    obtain ⟨i, _, rfl⟩ := hx
    simp [Call.isLearn]
  · simp [List.length_zipWith]; omega
  · intro vl hvl
    rw [List.mem_iff_getElem] at hvl
    obtain ⟨i, hi, rfl⟩ := hvl
    simp [Call.ctx]

theorem allSome_zipWith_some {α β γ : Type} (F : α → Option β → Option γ) (xs : List α) (ps : List β) (args : List γ)
    (h : allSome (List.zipWith F xs (ps.map some)) = some args) :
    ∀ xpa ∈ (xs.zip ps).zip args, F xpa.1.1 (some xpa.1.2) = some xpa.2 := by
  induction xs generalizing ps args with
  | nil => intro x hx; simp at hx
  | cons x xs ih =>
    cases ps with
    | nil => intro y hy; simp at hy
    | cons p ps =>
      simp only [List.map_cons, List.zipWith_cons_cons, allSome] at h
      cases hF : F x (some p) with
      | none => rw [hF] at h; simp [allSome] at h
      | some a =>
        rw [hF] at h
        simp only [allSome, Option.map_eq_some_iff] at h
        obtain ⟨as, has, rfl⟩ := h
        intro y hy
        simp only [List.zip_cons_cons, List.mem_cons] at hy
        rcases hy with hy | hy
        · subst hy; exact hF
        · exact ih ps as has y hy

/-- batched `kwargs_roundtrip`: with on-policy learning every batch is (one predict per row, rows in order) then (one
learn per row, rows in order); the j-th learn carries the j-th row's context and the action, probability and kwargs
the learner answered for that row — answered in the state reached after predicting the earlier rows of the SAME
batch from the state at the start of the batch (`predictS`) — and the environment's / IPS reward of that action -/
theorem kwargs_roundtrip_batched' {σ : Type} (c : Config) (L : Learner σ V) (n : Nat) (first : Dict (Fld V R))
    (rest : List (Dict (Fld V R))) (s s' : σ) (calls : List (Call V)) (rows : List (Row V R)) (H : Hyp c L first rest)
    (hl : c.learn = .on ∨ c.learn = .ips)
    (h : evaluate c L (some n) (first :: rest) s = .ok (s', calls, rows)) :
    ∃ steps : List (σ × List (Call V)), steps.length = (chunks n (first :: rest)).length ∧ calls = (steps.map (·.2)).flatten ∧
      ∀ cst ∈ ((chunks n (first :: rest)).map (List.map view)).zip steps,
        ∃ args : List (Option V × Option Rat × Option Rat × Dict V),
          cst.2.2 = cst.1.map (fun v => Call.predict v.ctx v.acts)
            ++ List.zipWith (fun (v : View V R) a => Call.learn v.ctx a.1 a.2.1 a.2.2.1 a.2.2.2) cst.1 args ∧
          args.length = cst.1.length ∧
          ∀ vpa ∈ (cst.1.zip (predictS L cst.2.1 cst.1).2).zip args,
            ∃ rew, (if c.learn = .on then envReward vpa.1.1 vpa.1.2.action else ipsReward vpa.1.1 (some vpa.1.2.action)) = some rew ∧
              vpa.2 = (some vpa.1.2.action, some rew, vpa.1.2.prob, vpa.1.2.kw) := by
  obtain ⟨full, hsp, _⟩ := evaluate_ok_specB' c L n first rest s s' calls rows H h
  obtain ⟨st, h1, h2, _, h4⟩ := specRunB_steps L _ s _ hsp
  simp only at h2
  have hnp : needPred c L.hasScore = true := by rcases hl with hl | hl <;> simp [needPred, hl]
  refine ⟨st.map (fun x => (x.1, x.2.2.1)), by simpa using h1, by simpa [Function.comp_def] using h2, ?_⟩
  intro cst hcst
  rw [List.zip_map_right] at hcst
  simp only [List.mem_map] at hcst
  obtain ⟨cs, hcs, rfl⟩ := hcst
  obtain ⟨args, hargs, _, hshape⟩ := specChunk_state L cs.2.1 cs.1 _ (h4 cs hcs)
  rw [hnp] at hshape hargs
  simp only [if_true, Bool.not_true, Bool.and_false, Bool.false_eq_true, if_false, List.append_nil] at hshape hargs
  rcases hargs with ⟨h0, _⟩ | ⟨_, hall⟩
  · rcases hl with hl | hl <;> rw [hl] at h0 <;> cases h0
  · refine ⟨args, hshape, ?_, ?_⟩
    · have := allSome_length _ _ hall
      simp only [List.length_zipWith, List.length_map, predictS_length, Nat.min_self] at this
      exact this
    · intro vpa hvpa
      have := allSome_zipWith_some (learnArgsS c) cs.1 (predictS L cs.2.1 cs.1).2 args hall vpa hvpa
      rcases hl with hl | hl
      · simp only [learnArgsS, hl, Option.map_eq_some_iff] at this
        obtain ⟨rew, hrew, heq⟩ := this
        exact ⟨rew, by simp [hl, hrew], heq.symm⟩
      · simp only [learnArgsS, hl, Option.map_eq_some_iff] at this
        obtain ⟨rew, hrew, heq⟩ := this
        exact ⟨rew, by simp [hl, hrew], heq.symm⟩

/-- batched `extra_fields_carried` / one row per interaction -/
theorem extra_fields_carried_batched' {σ : Type} (c : Config) (L : Learner σ V) (n : Nat) (hn : 0 < n) (first : Dict (Fld V R))
    (rest : List (Dict (Fld V R))) (s s' : σ) (calls : List (Call V)) (rows : List (Row V R)) (H : Hyp c L first rest)
    (h : evaluate c L (some n) (first :: rest) s = .ok (s', calls, rows)) :
    ∃ full : List (Row V R), full.length = (first :: rest).length ∧ rows = full.filter (fun o => !o.isEmpty) ∧
      ∀ vr ∈ ((first :: rest).map view).zip full,
        ∃ pre : Row V R, vr.2 = pre ++ vr.1.extras.map (fun kv => (kv.1, Cell.fld kv.2)) ∧ ∀ b ∈ pre, b.1 ∈ implicitExclude := by
  obtain ⟨full, hsp, hrows⟩ := evaluate_ok_specB' c L n first rest s s' calls rows H h
  obtain ⟨st, h1, _, h3, h4⟩ := specRunB_steps L _ s _ hsp
  simp only at h3
  have key := zip_flatten_forall
    (fun vr : View V R × Row V R => ∃ pre : Row V R, vr.2 = pre ++ vr.1.extras.map (fun kv => (kv.1, Cell.fld kv.2)) ∧ ∀ b ∈ pre, b.1 ∈ implicitExclude)
    ((chunks n (first :: rest)).map (List.map view)) (st.map (·.2.2.2)) (by simpa using h1.symm)
    (by
      intro xy hxy
      rw [List.zip_map_right] at hxy
      simp only [List.mem_map] at hxy
      obtain ⟨cs, hcs, rfl⟩ := hxy
      exact specChunk_rows L cs.2.1 cs.1 _ (h4 cs hcs))
  have hfl : ((chunks n (first :: rest)).map (List.map view)).flatten = (first :: rest).map view := by
    rw [← List.map_flatten, chunks_flatten n hn]
  rw [hfl, ← h3] at key
  exact ⟨full, by simpa using key.1.symm, hrows, key.2⟩

/-! ### batched = un-batched up to the grouping of calls (history-independent learners) -/

def predC (c : Config) (hs : Bool) (v : View V R) : List (Call V) :=
  if needPred c hs then [Call.predict v.ctx v.acts] else []

def scoreC (c : Config) (hs : Bool) (v : View V R) : List (Call V) :=
  if (c.eval == .ips && hs && !needPred c hs) then [Call.score v.ctx v.acts v.offAct] else []

theorem map_eq_flatMap_single {α β : Type} (f : α → β) (l : List α) : l.map f = l.flatMap (fun x => [f x]) := by
  induction l with
  | nil => rfl
  | cons x xs ih => simp [ih]

theorem flatMap_nil_fun {α β : Type} (l : List α) : l.flatMap (fun _ => ([] : List β)) = [] := by
  induction l with
  | nil => rfl
  | cons x xs ih => simp [ih]

theorem specRun_calls_closed {σ : Type} {c : Config} {fl : Flags} {L : Learner σ V} {f g} (ho : Oblivious L f g)
    (vs : List (View V R)) (s : σ) (r : σ × List (Call V) × List (Row V R)) (h : specRun c fl L s vs = some r) :
    r.2.1 = vs.flatMap (fun v => predC c L.hasScore v ++ scoreC c L.hasScore v ++ learnCallsO c L.hasScore f v) := by
  induction vs generalizing s r with
  | nil => simp only [specRun, Option.some.injEq] at h; subst h; rfl
  | cons v vs ih =>
    simp only [specRun, Option.bind_eq_some_iff, Option.map_eq_some_iff] at h
    obtain ⟨r1, h1, r2, h2, hr⟩ := h
    subst hr
    obtain ⟨lc, hcs, hlc⟩ := specInter_calls L s v r1 h1
    have hl : lc = learnCallsO c L.hasScore f v := by
      rcases hlc with ⟨hn, h0⟩ | ⟨hn, a, ha, h0⟩
      · subst h0; simp [learnCallsO, hn]
      · subst h0
        have hne : (c.learn != .none) = true := by simpa [bne] using hn
        rw [ho.pred] at ha
        simp [learnCallsO, hne, ha]
    simp only [List.flatMap_cons, ih r1.1 r2 h2, hcs, hl, predC, scoreC]

theorem specRunB_calls_closed {σ : Type} {c : Config} {fl : Flags} {L : Learner σ V} {f g} (ho : Oblivious L f g)
    (chs : List (List (View V R))) (s : σ) (r : σ × List (Call V) × List (Row V R)) (h : specRunB c fl L s chs = some r) :
    r.2.1 = chs.flatMap (fun ch => ch.flatMap (predC c L.hasScore) ++ ch.flatMap (scoreC c L.hasScore)
      ++ ch.flatMap (learnCallsO c L.hasScore f)) := by
  induction chs generalizing s r with
  | nil => simp only [specRunB, Option.some.injEq] at h; subst h; rfl
  | cons ch rest ih =>
    simp only [specRunB, Option.bind_eq_some_iff, Option.map_eq_some_iff] at h
    obtain ⟨r1, h1, r2, h2, hr⟩ := h
    subst hr
    obtain ⟨args, hargs, _, hcalls⟩ := specChunk_state L s ch r1 h1
    have hL : List.zipWith (fun (v : View V R) a => Call.learn v.ctx a.1 a.2.1 a.2.2.1 a.2.2.2) ch args
        = ch.flatMap (learnCallsO c L.hasScore f) := by
      rcases hargs with ⟨hn, h0⟩ | ⟨hn, h0⟩
      · subst h0
        have : ∀ v : View V R, learnCallsO c L.hasScore f v = [] := by intro v; simp [learnCallsO, hn]
        simp [this]
      · have hne : (c.learn != .none) = true := by simpa [bne] using hn
        have hps : (if needPred c L.hasScore = true then List.map some (predictS L s ch).2 else List.map (fun _ => none) ch)
            = ch.map (fun v => if needPred c L.hasScore then some (f v.ctx v.acts) else none) := by
          rw [predictS_oblivious ho]
          cases needPred c L.hasScore <;> simp
        rw [hps] at h0
        rw [zipWith_allSome (learnArgsS c) (fun (v : View V R) a => Call.learn v.ctx a.1 a.2.1 a.2.2.1 a.2.2.2) _ ch args h0]
        congr 1
        funext v
        simp only [learnCallsO, hne, if_true]
        cases learnArgsS c v (if needPred c L.hasScore = true then some (f v.ctx v.acts) else none) <;> rfl
    have hP : (if needPred c L.hasScore = true then ch.map (fun v => Call.predict v.ctx v.acts) else [])
        = ch.flatMap (predC c L.hasScore) := by
      cases hn : needPred c L.hasScore
      · have : predC c L.hasScore = fun (_ : View V R) => ([] : List (Call V)) := by funext v; simp [predC, hn]
        rw [this, flatMap_nil_fun]; simp
      · have : predC c L.hasScore = fun (v : View V R) => [Call.predict v.ctx v.acts] := by funext v; simp [predC, hn]
        rw [this]; simp only [if_true]; exact map_eq_flatMap_single _ _
    have hS : (if (c.eval == EvalMode.ips && L.hasScore && !needPred c L.hasScore) = true then
          ch.map (fun v => Call.score v.ctx v.acts v.offAct) else []) = ch.flatMap (scoreC c L.hasScore) := by
      cases hb : (c.eval == EvalMode.ips && L.hasScore && !needPred c L.hasScore)
      · have : scoreC c L.hasScore = fun (_ : View V R) => ([] : List (Call V)) := by funext v; simp only [scoreC, hb, Bool.false_eq_true, if_false]
        rw [this, flatMap_nil_fun]; simp
      · have : scoreC c L.hasScore = fun (v : View V R) => [Call.score v.ctx v.acts v.offAct] := by funext v; simp only [scoreC, hb, if_true]
        rw [this]; simp only [if_true]; exact map_eq_flatMap_single _ _
    simp only [List.flatMap_cons, ih r1.1 r2 h2, hcalls, hL, hP, hS]

/-- for a history-independent learner a batched pass over Batch(n) is the un-batched pass with the calls regrouped:
un-batched, interaction by interaction, (predict? score? learn?); batched, batch by batch, (all predicts) (all scores)
(all learns) — the same calls with the same arguments -/
theorem batched_trace_regrouped' {σ : Type} {L : Learner σ V} {f : Option V → Option (List V) → Pred V}
    {g : Option V → Option (List V) → Option V → Rat} (ho : Oblivious L f g) (c : Config) (n : Nat)
    (first : Dict (Fld V R)) (rest : List (Dict (Fld V R))) (s sb su : σ) (cb cu : List (Call V)) (rb ru : List (Row V R))
    (H : Hyp c L first rest)
    (hb : evaluate c L (some n) (first :: rest) s = .ok (sb, cb, rb))
    (hu : evaluate c L none (first :: rest) s = .ok (su, cu, ru)) :
    cu = ((first :: rest).map view).flatMap
        (fun v => predC c L.hasScore v ++ scoreC c L.hasScore v ++ learnCallsO c L.hasScore f v) ∧
    cb = ((chunks n (first :: rest)).map (List.map view)).flatMap
        (fun ch => ch.flatMap (predC c L.hasScore) ++ ch.flatMap (scoreC c L.hasScore) ++ ch.flatMap (learnCallsO c L.hasScore f)) := by
  obtain ⟨fb, hsb, _⟩ := evaluate_ok_specB' c L n first rest s sb cb rb H hb
  obtain ⟨fu, hsu, _⟩ := evaluate_ok_spec' c L first rest s su cu ru H.wf H.valid H.seq hu
  exact ⟨specRun_calls_closed ho _ s _ hsu, specRunB_calls_closed ho _ s _ hsb⟩

/-! ## learning_info in batched passes -/

/-- a batched pass with `learning_info`, seen without the info, is the batched pass of the model the refinement
theorems are about -/
theorem stepChunk_eq_IB {σ : Type} (c : Config) (fl : Flags) (L : InfoLearner σ V) (s : σ) (ch : List (Dict (Fld V R))) :
    stepChunk c fl L.toLearner true s ch =
      (stepChunkIB c fl L s ch).map (fun r => (r.1, r.2.1, r.2.2.1.filter (fun o => !o.isEmpty))) := by
  unfold stepChunk stepChunkIB
  cases prepAll c fl ch with
  | error e => rfl
  | ok rows =>
    simp only [Except.bind]
    generalize evalsOf c _ rows _ _ = E
    cases E with
    | error e => rfl
    | ok evals =>
      simp only
      generalize learnsOf c L.toLearner _ rows _ = LL
      cases LL with
      | error e => rfl
      | ok ll =>
        simp only
        generalize mapM₃ (mkRow c fl (shouldPred c L.hasScore) true) rows _ evals = M
        cases M <;> rfl

variable [Subscript V]

/-- what the rows of a batched evaluation receive from `learning_info`: batch by batch, every row of the batch gets the
whole info written during that batch's pass (`batchInfo`: all predicts in row order, then all learns, later writes
updating earlier ones), each value indexed by the row's position in the batch when it is subscriptable
(`indexInfo`), merged into the row the interaction has anyway; state and calls are those without info -/
theorem runIB_rows {σ : Type} (c : Config) (fl : Flags) (L : InfoLearner σ V) (chs : List (List (Dict (Fld V R)))) (s : σ)
    (r : σ × List (Call V) × List (Row V R)) (h : runIB c fl L s chs = .ok r) :
    ∃ steps : List (σ × σ × List (Call V) × List (Row V R) × Dict V), steps.length = chs.length ∧
      r.2.1 = (steps.map (·.2.2.1)).flatten ∧
      r.2.2 = (steps.map (fun st => (mergeIndexed st.2.2.2.2 0 st.2.2.2.1).filter (fun o => !o.isEmpty))).flatten ∧
      ∀ cst ∈ chs.zip steps, stepChunkIB c fl L cst.2.1 cst.1 = .ok cst.2.2 ∧
        stepChunk c fl L.toLearner true cst.2.1 cst.1
          = .ok (cst.2.2.1, cst.2.2.2.1, cst.2.2.2.2.1.filter (fun o => !o.isEmpty)) := by
  induction chs generalizing s r with
  | nil =>
    simp only [runIB, Except.ok.injEq] at h
    subst h
    exact ⟨[], rfl, rfl, rfl, by simp⟩
  | cons ch rest ih =>
    simp only [runIB] at h
    obtain ⟨r1, h1, h⟩ := Except.bind_eq_ok h
    obtain ⟨r2, h2, hr⟩ := Except.map_eq_ok h
    subst hr
    obtain ⟨st, hs1, hs2, hs3, hs4⟩ := ih r1.1 r2 h2
    refine ⟨(s, r1) :: st, by simp [hs1], by simp [hs2], by simp [hs3], ?_⟩
    intro cst hcst
    simp only [List.zip_cons_cons, List.mem_cons] at hcst
    rcases hcst with hcst | hcst
    · subst hcst
      refine ⟨h1, ?_⟩
      rw [stepChunk_eq_IB, h1]; rfl
    · exact hs4 cst hcst

theorem info_batched_rows' {σ : Type} (c : Config) (L : InfoLearner σ V) (n : Nat) (first : Dict (Fld V R))
    (rest : List (Dict (Fld V R))) (s s' : σ) (calls : List (Call V)) (rows : List (Row V R))
    (h : evaluateIB c L n (first :: rest) s = .ok (s', calls, rows)) :
    ∃ steps : List (σ × σ × List (Call V) × List (Row V R) × Dict V), steps.length = (chunks n (first :: rest)).length ∧
      calls = (steps.map (·.2.2.1)).flatten ∧
      rows = (steps.map (fun st => (mergeIndexed st.2.2.2.2 0 st.2.2.2.1).filter (fun o => !o.isEmpty))).flatten ∧
      ∀ cst ∈ (chunks n (first :: rest)).zip steps,
        stepChunkIB c (mkFlags first) L cst.2.1 cst.1 = .ok cst.2.2 ∧
        stepChunk c (mkFlags first) L.toLearner true cst.2.1 cst.1
          = .ok (cst.2.2.1, cst.2.2.2.1, cst.2.2.2.2.1.filter (fun o => !o.isEmpty)) := by
  simp only [evaluateIB] at h
  by_cases hm : (!(missingKeys c L.hasScore first).isEmpty) = true
  · rw [if_pos hm] at h; cases h
  · rw [if_neg hm] at h
    have := runIB_rows c (mkFlags first) L (chunks n (first :: rest)) s (s', calls, rows) (ofExcept_eq_ok h)
    exact this

/-! ## environments whose interactions do not all have the keys of the first -/

omit [Subscript V] in
/-- a reserved key the FIRST interaction lacks is ignored in every later interaction: the loop reads `None` -/
theorem readRow_ignores {c : Config} {fl : Flags} {d : Dict (Fld V R)} {r : RowIn V R} (h : readRow c fl d = .ok r) :
    (fl.hasContext = false → r.ctx = none) ∧ (fl.hasActions = false → r.acts = none) ∧
    (fl.hasAction = false → r.offAct = none) ∧ (fl.hasReward = false → r.offRwd = none) := by
  simp only [readRow, bind, Except.bind, pure, Except.pure] at h
  repeat' split at h
  all_goals first
    | (simp only [Except.ok.injEq] at h; subst h
       refine ⟨?_, ?_, ?_, ?_⟩ <;> intro hf <;> simp_all [whenHas])
    | cases h

omit [Subscript V] in
/-- the logged probability is read from each interaction itself: present → its value, `None`/absent → `None`,
whatever the first interaction had -/
theorem readRow_probability {c : Config} {fl : Flags} {d : Dict (Fld V R)} {r : RowIn V R} (h : readRow c fl d = .ok r) :
    getNumOpt "probability" (d.get? "probability") = .ok r.offPr := by
  simp only [readRow, bind, Except.bind, pure, Except.pure] at h
  repeat' split at h
  all_goals first
    | (simp only [Except.ok.injEq] at h; subst h; assumption)
    | cases h

omit [Subscript V] in
/-- a reserved key the first interaction HAS and a later one lacks stops the evaluation (`KeyError` in the code) -/
theorem readRow_missing_context {c : Config} {fl : Flags} {d : Dict (Fld V R)} (hf : fl.hasContext = true)
    (hd : d.get? "context" = none) : readRow c fl d = .error (.keyError "context") := by
  simp [readRow, whenHas, hf, hd, getVal, bind, Except.bind]

/-! ## Phase 4: every accepted mode (package guard, reward targets), record-field set -/

end Coba.C06

namespace Coba.C06
section Phase4
variable {V R σ : Type}

theorem requiredX_base' (c : ConfigX) (c0 : Config) (hs : Bool) (h : c.base = some c0) :
    requiredX c hs = required c0 hs ∧ shouldPredX c hs = shouldPred c0 hs ∧ evalTargetX c = evalTarget c0
      ∧ opeFilters c = (if learnIps c0 then [(OpeType.ips, "learn_rewards")] else [])
          ++ (if evalIpsOwn c0 then [(OpeType.ips, "eval_rewards")] else []) := by
  obtain ⟨l, e, rec⟩ := c
  cases l <;> cases e <;> simp [ConfigX.base, LearnModeX.base, EvalModeX.base] at h <;> subst h <;>
    simp +decide [requiredX, required, shouldPredX, shouldPred, evalTargetX, evalTarget, opeFilters, learnType, evalType, evalOwnX,
      learnIps, evalIpsOwn, outActionX, outProbX, outAction, outProb, ConfigX.rcd, Config.rcd] <;>
    (cases hs <;> rfl)

theorem opeFilters_base_noVw (c : ConfigX) (c0 : Config) (vw : Bool) (h : c.base = some c0) :
    (opeFilters c).find? (fun tt => needsVw tt.1 && !vw) = none := by
  obtain ⟨l, e, rec⟩ := c
  cases l <;> cases e <;> simp [ConfigX.base, LearnModeX.base, EvalModeX.base] at h <;>
    simp [opeFilters, learnType, evalType, evalOwnX, needsVw]

theorem evaluateX_conservative' [DecidableEq V] [RewardFn R V] (vw : Bool) (c : ConfigX) (c0 : Config) (L : Learner σ V)
    (bs : Option Nat) (env : List (Dict (Fld V R))) (s : σ) (h : c.base = some c0) :
    evaluateX vw c L bs env s = .done (evaluate c0 L bs env s) := by
  cases env with
  | nil => simp [evaluateX, evaluate]
  | cons first rest =>
    have hr := (requiredX_base' c c0 L.hasScore h).1
    simp only [evaluateX, evaluate, missingKeys, hr, opeFilters_base_noVw c c0 vw h, h]
    split <;> simp_all

theorem opeFilters_vw_of_base_none (c : ConfigX) (h : c.base = none) :
    ∃ tt, (opeFilters c).find? (fun tt => needsVw tt.1 && !false) = some tt := by
  obtain ⟨l, e, rec⟩ := c
  cases l <;> cases e <;> simp [ConfigX.base, LearnModeX.base, EvalModeX.base] at h <;>
    simp +decide [opeFilters, learnType, evalType, evalOwnX, needsVw]

theorem package_guard' [DecidableEq V] [RewardFn R V] (c : ConfigX) (L : Learner σ V) (bs : Option Nat)
    (first : Dict (Fld V R)) (rest : List (Dict (Fld V R))) (s : σ) (hb : c.base = none) :
    (∃ keys, keys ≠ [] ∧ keys = (requiredX c L.hasScore).filter (fun k => !first.has k)
        ∧ evaluateX false c L bs (first :: rest) s = .done (.rejected keys))
    ∨ ((requiredX c L.hasScore).filter (fun k => !first.has k) = [] ∧
        ∃ t tg, (t, tg) ∈ opeFilters c ∧ needsVw t = true ∧ evaluateX false c L bs (first :: rest) s = .packageMissing t tg) := by
  obtain ⟨tt, htt⟩ := opeFilters_vw_of_base_none c hb
  by_cases hm : (requiredX c L.hasScore).filter (fun k => !first.has k) = []
  · right
    refine ⟨hm, tt.1, tt.2, List.mem_of_find?_eq_some htt, ?_, ?_⟩
    · have := List.find?_some htt; simpa using this
    · simp only [Bool.not_false, Bool.and_true] at htt
      simp [evaluateX, hm, htt]
  · left
    refine ⟨_, hm, rfl, ?_⟩
    simp [evaluateX, hm]

theorem package_learn_first' (c : ConfigX) (h : c.learn = .dr ∨ c.learn = .dm) :
    (opeFilters c).find? (fun tt => needsVw tt.1 && !false) = (learnType c.learn).map (fun t => (t, "learn_rewards")) := by
  obtain ⟨l, e, rec⟩ := c
  rcases h with h | h <;> simp only at h <;> subst h <;> cases e <;>
    simp +decide [opeFilters, learnType, evalType, evalOwnX, needsVw]

theorem package_eval' (c : ConfigX) (hl : c.learn ≠ .dr ∧ c.learn ≠ .dm) (h : c.eval = .dr ∨ c.eval = .dm) :
    (opeFilters c).find? (fun tt => needsVw tt.1 && !false) = (evalType c.eval).map (fun t => (t, "eval_rewards")) := by
  obtain ⟨l, e, rec⟩ := c
  rcases h with h | h <;> simp only at h <;> subst h <;> cases l <;>
    simp +decide [opeFilters, learnType, evalType, evalOwnX, needsVw] at hl ⊢

theorem result_only_package_free' [DecidableEq V] [RewardFn R V] (c : ConfigX) (L : Learner σ V) (bs : Option Nat)
    (env : List (Dict (Fld V R))) (s : σ) (r) (hne : env ≠ [])
    (h : evaluateX false c L bs env s = .done (.ok r)) : ∃ c0, c.base = some c0 := by
  cases hb : c.base with
  | some c0 => exact ⟨c0, rfl⟩
  | none =>
    cases env with
    | nil => exact absurd rfl hne
    | cons first rest =>
      rcases package_guard' c L bs first rest s hb with ⟨k, _, _, hk⟩ | ⟨_, t, tg, _, _, hk⟩ <;> rw [hk] at h <;> cases h

theorem requiredSX_eq' (c : ConfigX) (hs : Bool) :
    requiredSX c hs = requiredX c hs ++ (if c.learn == .ips || c.eval == .ips then ["probability"] else []) := by
  obtain ⟨l, e, rec⟩ := c
  cases l <;> cases e <;>
    simp +decide [requiredSX, requiredX, needPredX, outActionX, outProbX, ConfigX.rcd] <;> (cases hs <;> simp [or_assoc])

theorem targets_written' (c : ConfigX) :
    (∀ t, learnType c.learn = some t → (t, learnTargetX) ∈ opeFilters c)
    ∧ (∀ t, evalType c.eval = some t → (t, evalTargetX c) ∈ opeFilters c)
    ∧ ((opeFilters c).map (·.2)).Nodup
    ∧ (evalTargetX c = learnTargetX ↔ (evalType c.eval = none ∨ evalType c.eval = learnType c.learn)) := by
  obtain ⟨l, e, rec⟩ := c
  cases l <;> cases e <;> simp +decide [opeFilters, learnType, evalType, evalOwnX, evalTargetX, learnTargetX]

variable [DecidableEq V] [RewardFn R V]

theorem rewardsCell_keys_eq {c : Config} {fl : Flags} {r : RowIn V R} {rw : Row V R}
    (hx : rewardsCell c fl r = .ok rw) : Dict.keys rw = if c.rcd "rewards" && fl.hasRewards then ["rewards"] else [] := by
  unfold rewardsCell at hx
  by_cases h1 : (c.rcd "rewards" && fl.hasRewards) = true
  · rw [if_pos h1] at hx
    rw [if_pos h1]
    by_cases h2 : fl.discrete = true
    · rw [if_pos h2] at hx
      cases ha : r.acts with
      | none => rw [ha] at hx; cases hx
      | some as =>
        rw [ha] at hx
        obtain ⟨xs, _, hrw⟩ := Except.map_eq_ok hx
        subst hrw; simp [Dict.keys]
    · rw [if_neg h2] at hx
      cases hr : r.rewards with
      | none => rw [hr] at hx; cases hx
      | some f =>
        rw [hr] at hx
        simp only [Except.ok.injEq] at hx
        subst hx; simp [Dict.keys]
  · rw [if_neg h1] at hx
    rw [if_neg h1]
    simp only [Except.ok.injEq] at hx
    subst hx; simp [Dict.keys]

theorem mkRow_record_keys' {c : Config} {fl : Flags} {sp b : Bool} {r : RowIn V R} {p : Option (Pred V)} {er : Option Rat}
    {row : Row V R} (hx : mkRow c fl sp b r p er = .ok row) (hnd : nodupKeys (Dict.keys r.extras) = true)
    (hfr : ∀ kv ∈ r.extras, kv.1 ∉ implicitExclude) :
    Dict.keys row = recordKeys c fl sp b (p.bind (·.prob)).isSome ++ Dict.keys r.extras := by
  unfold mkRow at hx
  obtain ⟨rw, hrw, hrow⟩ := Except.map_eq_ok hx
  have hk := rewardsCell_keys_eq hrw
  have hkm := rewardsCell_keys hrw
  subst hrow
  rw [foldl_set_fresh _ _ hnd]
  · simp only [Dict.keys, List.map_append, List.map_map] at hk ⊢
    rw [hk]
    simp only [recordKeys]
    simp [apply_ite (List.map (fun x : String × Cell V R => x.fst))]
  · intro kv hkv b' hb' heq
    apply hfr kv hkv
    rw [← heq]
    simp only [List.mem_append] at hb'
    rcases hb' with ((((hb' | hb') | hb') | hb') | hb') | hb'
    · split at hb' <;> simp at hb'; simp [hb', implicitExclude]
    · split at hb' <;> simp at hb'; simp [hb', implicitExclude]
    · split at hb' <;> simp at hb'; simp [hb', implicitExclude]
    · split at hb' <;> simp at hb'; simp [hb', implicitExclude]
    · rw [hkm b' hb']; simp [implicitExclude]
    · split at hb' <;> simp at hb'; simp [hb', implicitExclude]

theorem recordKeys_no_eval (c : Config) (fl : Flags) (sp b hp : Bool) (h : c.eval = .none) :
    "action" ∉ recordKeys c fl sp b hp ∧ "reward" ∉ recordKeys c fl sp b hp ∧ "probability" ∉ recordKeys c fl sp b hp := by
  simp [recordKeys, outAction, outProb, h]

end Phase4

/-! ## Translator obligations: the tables extracted from the current source are the ones the model uses -/

theorem source_tables_match' :
    -- `_IMPLICIT_EXCLUDE` (a set: compared as a set)
    ((Coba.Generated.C06.implicitExclude.all (implicitExclude.contains ·)) = true
      ∧ (implicitExclude.all (Coba.Generated.C06.implicitExclude.contains ·)) = true)
    -- `_required`: the three key lists
    ∧ (∀ c hs, requiredX c hs = requiredWith Coba.Generated.C06.requiredPred Coba.Generated.C06.requiredOff
          Coba.Generated.C06.requiredRwds c hs)
    -- `learn_type` / `eval_type` dispatch chains
    ∧ (∀ l : LearnModeX, (learnType l).map OpeType.pyName = l.pyName.bind (fun n => Coba.Generated.C06.learnTypes.lookup n))
    ∧ (∀ e : EvalModeX, (evalType e).map OpeType.pyName = e.pyName.bind (fun n => Coba.Generated.C06.evalTypes.lookup n))
    -- `OpeRewards.__init__`: which types call PackageChecker.vowpalwabbit
    ∧ (∀ t : OpeType, needsVw t = Coba.Generated.C06.vwTypes.contains t.pyName)
    -- reward targets
    ∧ learnTargetX = Coba.Generated.C06.learnTarget
    ∧ (∀ c, evalTargetX c = if evalOwnX c then Coba.Generated.C06.evalTargetOwn else Coba.Generated.C06.evalTargetShared)
    ∧ (∀ c, ((opeFilters c).map (·.2)).all (Coba.Generated.C06.opeTargets.contains ·) = true)
    -- accepted modes (type annotations of the constructor), default record
    ∧ (∀ l : LearnModeX, ∀ n, l.pyName = some n → Coba.Generated.C06.learnModes.contains n = true)
    ∧ (Coba.Generated.C06.learnModes.all (fun n => [LearnModeX.on, .off, .ips, .dr, .dm].any (fun l => l.pyName == some n))) = true
    ∧ (∀ e : EvalModeX, ∀ n, e.pyName = some n → Coba.Generated.C06.evalModes.contains n = true)
    ∧ (Coba.Generated.C06.evalModes.all (fun n => [EvalModeX.on, .ips, .dr, .dm].any (fun e => e.pyName == some n))) = true
    ∧ defaultRecord = Coba.Generated.C06.defaultRecord := by
  refine ⟨⟨by decide +kernel, by decide +kernel⟩, fun _ _ => rfl, ?_, ?_, ?_, rfl, fun _ => rfl, ?_, ?_, by decide +kernel, ?_,
    by decide +kernel, by decide +kernel⟩
  · intro l; cases l <;> decide +kernel
  · intro e; cases e <;> decide +kernel
  · intro t; cases t <;> decide +kernel
  · intro c; obtain ⟨l, e, rec⟩ := c; cases l <;> cases e <;> rfl
  · intro l n h; cases l <;> simp [LearnModeX.pyName] at h <;> subst h <;> decide +kernel
  · intro e n h; cases e <;> simp [EvalModeX.pyName] at h <;> subst h <;> decide +kernel

end Coba.C06

/-! ## Phase 4c: heterogeneous environments — an interaction is processed only if it has every key the code subscripts -/

namespace Coba.C06
section Hetero
variable {V R : Type}

theorem finalize_ok_has {b : Bool} {d d1 : Dict (Fld V R)} (h : finalize b d = .ok d1) :
    (b = true → d.get? "actions" ≠ none ∧ d.get? "rewards" ≠ none) ∧
    (∀ k, d1.get? k ≠ none → d.get? k ≠ none) := by
  unfold finalize at h
  cases b with
  | false => simp at h; subst h; exact ⟨by simp, fun _ hk => hk⟩
  | true =>
    simp only [if_true] at h
    split at h
    · rename_i as rs ha hr
      split at h
      · simp only [Except.ok.injEq] at h; subst h
        refine ⟨fun _ => ⟨by simp [ha], by simp [hr]⟩, ?_⟩
        intro k hk
        by_cases hkr : "rewards" = k
        · subst hkr; simp [hr]
        · rwa [Dict.get?_set_ne d _ hkr] at hk
      · cases h
    all_goals cases h

theorem opeIps_ok_has {t : String} {d d1 : Dict (Fld V R)} (h : opeIps t d = .ok d1) (ht : t ∈ ["learn_rewards", "eval_rewards"]) :
    (d.get? "action" ≠ none ∧ d.get? "reward" ≠ none) ∧
    (∀ k, k ≠ "learn_rewards" → k ≠ "eval_rewards" → d1.get? k ≠ none → d.get? k ≠ none) := by
  unfold opeIps at h
  simp only [bind, Except.bind, pure, Except.pure] at h
  repeat' split at h
  all_goals cases h
  rename_i _ va ha _ _ vp hp _ rr hr
  refine ⟨⟨?_, ?_⟩, ?_⟩
  · intro hn; rw [hn] at ha; simp [fldAction] at ha
  · intro hn; rw [hn] at hr; simp [fldReward] at hr
  · intro k hk1 hk2 hk
    have : t ≠ k := by
      simp only [List.mem_cons, List.not_mem_nil, or_false] at ht
      rcases ht with rfl | rfl
      · exact fun e => hk1 e.symm
      · exact fun e => hk2 e.symm
    rwa [Dict.get?_set_ne d _ this] at hk

theorem opeIf_ok_has {on : Bool} {t : String} {d d1 : Dict (Fld V R)} (h : opeIf on t d = .ok d1) (ht : t ∈ ["learn_rewards", "eval_rewards"]) :
    (on = true → d.get? "action" ≠ none ∧ d.get? "reward" ≠ none) ∧
    (∀ k, k ≠ "learn_rewards" → k ≠ "eval_rewards" → d1.get? k ≠ none → d.get? k ≠ none) := by
  cases on with
  | false => simp [opeIf] at h; subst h; exact ⟨by simp, fun _ _ _ hk => hk⟩
  | true => simp only [opeIf, if_true] at h; exact ⟨fun _ => (opeIps_ok_has h ht).1, (opeIps_ok_has h ht).2⟩

theorem readRow_ok_has {c : Config} {fl : Flags} {d : Dict (Fld V R)} {r : RowIn V R} (h : readRow c fl d = .ok r) :
    (fl.hasContext = true → d.get? "context" ≠ none) ∧ (fl.hasActions = true → d.get? "actions" ≠ none) ∧
    (fl.hasRewards = true → d.get? "rewards" ≠ none) ∧ (fl.hasReward = true → d.get? "reward" ≠ none) ∧
    (fl.hasAction = true → d.get? "action" ≠ none) := by
  simp only [readRow, bind, Except.bind, pure, Except.pure] at h
  repeat' split at h
  all_goals first
    | (simp only [Except.ok.injEq] at h; subst h
       refine ⟨?_, ?_, ?_, ?_, ?_⟩ <;> intro hf hn <;> simp_all [whenHas, getVal, getActs, getAny, getNum])
    | cases h

theorem has_of_get? {d : Dict (Fld V R)} {k : String} (h : d.get? k ≠ none) : d.has k = true := by
  simp only [Dict.has]; cases hg : d.get? k with
  | none => exact absurd hg h
  | some _ => rfl

theorem prep_ok_has_needed' {c : Config} {fl : Flags} {d : Dict (Fld V R)} {r : RowIn V R} (h : prep c fl d = .ok r) :
    missingOf c fl d = [] := by
  simp only [prep, pipeline, bind, Except.bind] at h
  split at h
  · cases h
  rename_i d3 hp
  split at hp
  · cases hp
  rename_i d1 h1
  split at hp
  · cases hp
  rename_i d2 h2
  have f1 := finalize_ok_has h1
  have f2 := opeIf_ok_has h2 (by simp)
  have f3 := opeIf_ok_has hp (by simp)
  have f4 := readRow_ok_has h
  have back : ∀ k, k ≠ "learn_rewards" → k ≠ "eval_rewards" → d3.get? k ≠ none → d.get? k ≠ none :=
    fun k a b hk => f1.2 k (f2.2 k a b (f3.2 k a b hk))
  have back2 : ∀ k, k ≠ "learn_rewards" → k ≠ "eval_rewards" → d2.get? k ≠ none → d.get? k ≠ none :=
    fun k a b hk => f1.2 k (f2.2 k a b hk)
  simp only [missingOf, List.filter_eq_nil_iff, neededKeys, List.mem_append]
  intro k hk
  simp only [Bool.not_eq_true', Bool.not_eq_false]
  apply has_of_get?
  rcases hk with ((((((hk | hk) | hk) | hk) | hk) | hk) | hk) | hk
  · split at hk
    · rename_i hb
      simp only [List.mem_cons, List.not_mem_nil, or_false] at hk
      rcases hk with rfl | rfl
      · exact (f1.1 hb).1
      · exact (f1.1 hb).2
    · simp at hk
  · split at hk
    · rename_i hb
      simp only [List.mem_cons, List.not_mem_nil, or_false] at hk
      rcases hk with rfl | rfl
      · exact f1.2 _ (f2.1 hb).1
      · exact f1.2 _ (f2.1 hb).2
    · simp at hk
  · split at hk
    · rename_i hb
      simp only [List.mem_cons, List.not_mem_nil, or_false] at hk
      rcases hk with rfl | rfl
      · exact back2 _ (by decide) (by decide) (f3.1 hb).1
      · exact back2 _ (by decide) (by decide) (f3.1 hb).2
    · simp at hk
  · split at hk
    · rename_i hb; simp at hk; subst hk; exact back _ (by decide) (by decide) (f4.1 hb)
    · simp at hk
  · split at hk
    · rename_i hb; simp at hk; subst hk; exact back _ (by decide) (by decide) (f4.2.1 hb)
    · simp at hk
  · split at hk
    · rename_i hb; simp at hk; subst hk; exact back _ (by decide) (by decide) (f4.2.2.1 hb)
    · simp at hk
  · split at hk
    · rename_i hb; simp at hk; subst hk; exact back _ (by decide) (by decide) (f4.2.2.2.1 hb)
    · simp at hk
  · split at hk
    · rename_i hb; simp at hk; subst hk; exact back _ (by decide) (by decide) (f4.2.2.2.2 hb)
    · simp at hk

end Hetero

section Hetero2
variable {V R σ : Type} [DecidableEq V] [RewardFn R V]

theorem stepChunk_single_ok_prep {c : Config} {fl : Flags} {L : Learner σ V} {b : Bool} {s : σ} {d : Dict (Fld V R)} {out}
    (h : stepChunk c fl L b s [d] = .ok out) : ∃ r, prep c fl d = .ok r := by
  unfold stepChunk at h
  cases hp : prep c fl d with
  | ok r => exact ⟨r, rfl⟩
  | error e => simp [prepAll, hp, bind, Except.bind] at h

theorem runChunks_singles_ok {c : Config} {fl : Flags} {L : Learner σ V} {b : Bool} (env : List (Dict (Fld V R)))
    (s : σ) (cs : List (Call V)) (rs : List (Row V R)) {out}
    (h : runChunks c fl L b s cs rs (env.map ([·])) = .ok out) : ∀ d ∈ env, missingOf c fl d = [] := by
  induction env generalizing s cs rs with
  | nil => simp
  | cons d rest ih =>
    simp only [List.map_cons, runChunks] at h
    cases hs : stepChunk c fl L b s [d] with
    | error e => simp [hs, Except.bind] at h
    | ok r1 =>
      simp only [hs, Except.bind] at h
      obtain ⟨r, hr⟩ := stepChunk_single_ok_prep hs
      intro d' hd'
      simp only [List.mem_cons] at hd'
      rcases hd' with rfl | hd'
      · exact prep_ok_has_needed' hr
      · exact ih _ _ _ h d' hd'

theorem hetero_evaluates_only_if' (c : Config) (L : Learner σ V) (first : Dict (Fld V R)) (rest : List (Dict (Fld V R)))
    (s : σ) (out) (h : evaluate c L none (first :: rest) s = .ok out) :
    ∀ d ∈ first :: rest, missingOf c (mkFlags first) d = [] := by
  unfold evaluate at h
  simp only at h
  split at h
  · cases h
  · rw [chunks_one] at h
    cases hr : runChunks c (mkFlags first) L false s [] [] ((first :: rest).map ([·])) with
    | error e => simp only [List.map_cons] at hr; simp [hr, Outcome.ofExcept] at h
    | ok o => exact runChunks_singles_ok _ s [] [] hr

end Hetero2
/-! ## Phase 5: the calls the learner object sees (SafeLearner's call discipline) -/

theorem rowLevel_append (a b : List RawCall) : rowLevel (a ++ b) = rowLevel a ++ rowLevel b := by
  induction a with
  | nil => rfl
  | cons x t ih =>
    cases x with
    | scoreProbe => simpa [rowLevel] using ih
    | orient i => simpa [rowLevel] using ih
    | row m i => simp [rowLevel, ih]
    | batch m rows ok => cases ok <;> simp [rowLevel, ih]

theorem rowLevel_rows (m : Meth) (rows : List Nat) : rowLevel (rows.map (RawCall.row m)) = rows.map (fun i => (m, i)) := by
  induction rows with
  | nil => rfl
  | cons i t ih => simp [rowLevel, ih]

theorem rowLevel_safeCall (aware : Bool) (st : SafeSt) (m : Meth) (rows : List Nat) :
    rowLevel (safeCall aware st m rows).2 = rows.map (fun i => (m, i)) := by
  unfold safeCall
  split
  · simp [rowLevel]
  · simp [rowLevel_rows]
  · split <;> simp [rowLevel, rowLevel_rows]

theorem rowLevel_predictCall (aware : Bool) (width : Option Nat) (st : SafeSt) (rows : List Nat) :
    rowLevel (predictCall aware width st rows).2 = rows.map (fun i => (Meth.predict, i)) := by
  unfold predictCall
  simp only []
  split
  · exact rowLevel_safeCall ..
  · simp only [rowLevel_append, rowLevel_safeCall]
    split
    · cases rows <;> simp [rowLevel]
    · simp [rowLevel]

theorem rowLevel_phaseCall (batched aware : Bool) (width : Option Nat) (st : SafeSt) (m : Meth) (rows : List Nat) :
    rowLevel (phaseCall batched aware width st m rows).2 = rows.map (fun i => (m, i)) := by
  unfold phaseCall
  split
  · simp [rowLevel_rows]
  · split
    · rename_i h; have : m = .predict := by simpa using h
      subst this; exact rowLevel_predictCall ..
    · exact rowLevel_safeCall ..

theorem rowLevel_rawChunk (batched aware : Bool) (width : Option Nat) (phases : List Meth) (st : SafeSt) (rows : List Nat) :
    rowLevel (rawChunk batched aware width phases st rows).2 = phases.flatMap (fun m => rows.map (fun i => (m, i))) := by
  induction phases generalizing st with
  | nil => rfl
  | cons m ms ih => simp [rawChunk, rowLevel_append, rowLevel_phaseCall, ih]

theorem rowLevel_rawRun' (batched aware : Bool) (width : Option Nat) (phases : List Meth) (st : SafeSt) (cs : List (List Nat)) :
    rowLevel (rawRun batched aware width phases st cs) = skeleton phases cs := by
  induction cs generalizing st with
  | nil => rfl
  | cons ch rest ih => simp [rawRun, skeleton, rowLevel_append, rowLevel_rawChunk, ih]


theorem countOrient_append (a b : List RawCall) : countOrient (a ++ b) = countOrient a + countOrient b := by
  induction a with
  | nil => simp [countOrient]
  | cons x t ih => cases x <;> simp [countOrient, ih] <;> omega

theorem countRefused_append (a b : List RawCall) : countRefused (a ++ b) = countRefused a + countRefused b := by
  induction a with
  | nil => simp [countRefused]
  | cons x t ih =>
    cases x with
    | batch m rows ok => cases ok <;> simp [countRefused, ih] <;> omega
    | _ => simp [countRefused, ih]

theorem countOrient_rows (m : Meth) (rows : List Nat) : countOrient (rows.map (RawCall.row m)) = 0 := by
  induction rows with
  | nil => rfl
  | cons i t ih => simp [countOrient, ih]

theorem countRefused_rows (m : Meth) (rows : List Nat) : countRefused (rows.map (RawCall.row m)) = 0 := by
  induction rows with
  | nil => rfl
  | cons i t ih => simp [countRefused, ih]

/-- a wrapper whose call discipline is decided for every method of `phases` -/
def Settled (aware : Bool) (phases : List Meth) (st : SafeSt) : Prop :=
  (∀ m ∈ phases, st.get m = some aware) ∧ (Meth.predict ∈ phases → st.parsed = true)

theorem settled_phaseCall {aware : Bool} {phases : List Meth} {st : SafeSt} (hs : Settled aware phases st)
    (width : Option Nat) {m : Meth} (hm : m ∈ phases) (rows : List Nat) :
    (phaseCall true aware width st m rows).1 = st ∧ countOrient (phaseCall true aware width st m rows).2 = 0
      ∧ countRefused (phaseCall true aware width st m rows).2 = 0 := by
  have hg := hs.1 m hm
  have hp : m = .predict → st.parsed = true := fun h => hs.2 (h ▸ hm)
  cases aware <;> cases m <;>
    simp_all [phaseCall, predictCall, safeCall, countOrient, countRefused, countOrient_rows, countRefused_rows]

theorem settled_rawChunk {aware : Bool} {phases : List Meth} {st : SafeSt} (hs : Settled aware phases st)
    (width : Option Nat) (ms : List Meth) (hms : ∀ m ∈ ms, m ∈ phases) (rows : List Nat) :
    (rawChunk true aware width ms st rows).1 = st ∧ countOrient (rawChunk true aware width ms st rows).2 = 0
      ∧ countRefused (rawChunk true aware width ms st rows).2 = 0 := by
  induction ms with
  | nil => simp [rawChunk, countOrient, countRefused]
  | cons m t ih =>
    have h1 := settled_phaseCall hs width (hms m (by simp)) rows
    have h2 := ih (fun x hx => hms x (by simp [hx]))
    simp only [rawChunk, h1.1, countOrient_append, countRefused_append]
    exact ⟨h2.1, by omega, by omega⟩

theorem settled_rawRun {aware : Bool} {phases : List Meth} {st : SafeSt} (hs : Settled aware phases st)
    (width : Option Nat) (cs : List (List Nat)) :
    countOrient (rawRun true aware width phases st cs) = 0 ∧ countRefused (rawRun true aware width phases st cs) = 0 := by
  induction cs with
  | nil => simp [rawRun, countOrient, countRefused]
  | cons ch rest ih =>
    have h := settled_rawChunk hs width phases (fun _ h => h) ch
    simp only [rawRun, h.1, countOrient_append, countRefused_append]
    exact ⟨by omega, by omega⟩

/-- the first pass of a fresh wrapper, for the phase lists `_results` can have: afterwards the wrapper is settled -/
theorem first_pass (c : Config) (hasScore aware : Bool) (width : Option Nat) (i : Nat) (t : List Nat) :
    Settled aware (phasesOf c hasScore) (rawChunk true aware width (phasesOf c hasScore) {} (i :: t)).1 ∧
    countOrient (rawChunk true aware width (phasesOf c hasScore) {} (i :: t)).2
      = (if aware && shouldPred c hasScore && (width == some (t.length + 1)) then 1 else 0) ∧
    countRefused (rawChunk true aware width (phasesOf c hasScore) {} (i :: t)).2
      = (if aware then 0 else (phasesOf c hasScore).length) := by
  refine ⟨?_, ?_, ?_⟩ <;>
  · simp only [phasesOf, Settled]
    cases aware <;> cases shouldPred c hasScore <;> cases (c.eval == .ips && hasScore) <;> cases (c.learn != .none) <;>
      simp [rawChunk, phaseCall, predictCall, safeCall, SafeSt.get, SafeSt.set, countOrient, countRefused,
        countOrient_append, countRefused_append, countOrient_rows, countRefused_rows] <;>
      (try (split <;> simp_all [countOrient, countRefused]))

theorem calls_seen_by_learner_batched' (c : Config) (hasScore aware : Bool) (width : Option Nat) (i : Nat) (t : List Nat)
    (rest : List (List Nat)) :
    rowLevel (rawRun true aware width (phasesOf c hasScore) {} ((i :: t) :: rest))
      = skeleton (phasesOf c hasScore) ((i :: t) :: rest) ∧
    countOrient (rawRun true aware width (phasesOf c hasScore) {} ((i :: t) :: rest))
      = (if aware && shouldPred c hasScore && (width == some (t.length + 1)) then 1 else 0) ∧
    countRefused (rawRun true aware width (phasesOf c hasScore) {} ((i :: t) :: rest))
      = (if aware then 0 else (phasesOf c hasScore).length) := by
  have h := first_pass c hasScore aware width i t
  have h2 := settled_rawRun h.1 width rest
  refine ⟨rowLevel_rawRun' .., ?_, ?_⟩
  · simp only [rawRun, countOrient_append, h.2.1, h2.1]; simp
  · simp only [rawRun, countRefused_append, h.2.2, h2.2]; simp

theorem rawChunk_unbatched (aware : Bool) (width : Option Nat) (phases : List Meth) (st : SafeSt) (rows : List Nat) :
    (rawChunk false aware width phases st rows).2 = phases.flatMap (fun m => rows.map (RawCall.row m)) := by
  induction phases generalizing st with
  | nil => rfl
  | cons m ms ih => simp [rawChunk, phaseCall, ih]

theorem calls_seen_by_learner_unbatched' (aware : Bool) (width : Option Nat) (phases : List Meth) (st : SafeSt) (cs : List (List Nat)) :
    rawRun false aware width phases st cs = cs.flatMap (fun ch => phases.flatMap (fun m => ch.map (RawCall.row m))) := by
  induction cs generalizing st with
  | nil => rfl
  | cons ch rest ih => simp [rawRun, rawChunk_unbatched, ih]

/-! ## Phase 5: translator tie for the record-construction code -/

theorem filter_map_cons_ite {α β : Type} (p : α → Bool) (f : α → β) (x : α) (l : List α) :
    ((x :: l).filter p).map f = (if p x then [f x] else []) ++ (l.filter p).map f := by
  cases h : p x <;> simp [List.filter, h]

theorem record_program_matches' (c : Config) (fl : Flags) (sp batched hasPr : Bool) (hop : c.rcd "ope_loss" = false) :
    progKeys Coba.Generated.C06.flagDefs Coba.Generated.C06.rowProgram c fl sp batched hasPr
      = timeKeys c ++ recordKeys c fl sp batched hasPr := by
  simp only [progKeys, Coba.Generated.C06.flagDefs, Coba.Generated.C06.rowProgram, timeKeys, recordKeys, outAction, outProb,
    filter_map_cons_ite, List.filter_nil, List.map_nil, List.append_nil]
  simp [atomVal, guardVal, List.lookup, hop, Bool.and_assoc]

/-! ## Phase 6: a consumer that stops early (`evaluateStopped`, `resumeStopped`, `runHistoryS`) -/
section stopped
variable {V R : Type} [DecidableEq V] [RewardFn R V] {σ : Type}


theorem runChunks_append (c : Config) (fl : Flags) (L : Learner σ V) (b : Bool) :
    ∀ (A B : List (List (Dict (Fld V R)))) (s : σ) (cs : List (Call V)) (rs : List (Row V R)),
    runChunks c fl L b s cs rs (A ++ B) =
      (runChunks c fl L b s cs rs A).bind fun r => runChunks c fl L b r.1 r.2.1 r.2.2 B := by
  intro A
  induction A with
  | nil => intro B s cs rs; rfl
  | cons ch A ih =>
    intro B s cs rs
    simp only [List.cons_append, runChunks]
    cases stepChunk c fl L b s ch with
    | error e => rfl
    | ok r => simp only [Except.bind]; exact ih B _ _ _

theorem runChunks_acc (c : Config) (fl : Flags) (L : Learner σ V) (b : Bool) :
    ∀ (A : List (List (Dict (Fld V R)))) (s s' : σ) (cs cs' : List (Call V)) (rs rs' : List (Row V R)),
    runChunks c fl L b s cs rs A = .ok (s', cs', rs') → cs <+: cs' ∧ rs <+: rs' := by
  intro A
  induction A with
  | nil =>
    intro s s' cs cs' rs rs' h
    simp only [runChunks, Except.ok.injEq, Prod.mk.injEq] at h
    obtain ⟨_, h2, h3⟩ := h
    subst h2; subst h3
    exact ⟨List.prefix_refl _, List.prefix_refl _⟩
  | cons ch A ih =>
    intro s s' cs cs' rs rs' h
    simp only [runChunks] at h
    cases hst : stepChunk c fl L b s ch with
    | error e => rw [hst] at h; cases h
    | ok r =>
      rw [hst] at h
      simp only [Except.bind] at h
      obtain ⟨h1, h2⟩ := ih _ _ _ _ _ _ h
      exact ⟨(List.prefix_append _ _).trans h1, (List.prefix_append _ _).trans h2⟩

theorem stopped_prefix' (c : Config) (L : Learner σ V) (bs : Option Nat) (env : List (Dict (Fld V R))) (s s' : σ) (j : Nat)
    (calls : List (Call V)) (rows : List (Row V R)) (h : evaluate c L bs env s = .ok (s', calls, rows)) :
    ∃ r : σ × List (Call V) × List (Row V R), evaluateStopped c L bs env s j = .ok r ∧ r.2.1 <+: calls ∧ r.2.2 <+: rows ∧
      resumeStopped c L bs env j r = .ok (s', calls, rows) := by
  cases env with
  | nil =>
    simp only [evaluate, Outcome.ok.injEq, Prod.mk.injEq] at h
    obtain ⟨h1, h2, h3⟩ := h
    subst h1; subst h2; subst h3
    exact ⟨(s, [], []), rfl, List.prefix_refl _, List.prefix_refl _, rfl⟩
  | cons first rest =>
    simp only [evaluate, evaluateStopped, resumeStopped] at h ⊢
    by_cases hm : (!(missingKeys c L.hasScore first).isEmpty) = true
    · simp only [hm, if_true] at h; cases h
    · simp only [hm] at h ⊢
      simp only [Bool.false_eq_true, if_false] at h ⊢
      cases bs with
      | some n =>
        simp only at h ⊢
        rw [← List.take_append_drop j (chunks n (first :: rest)), runChunks_append] at h
        cases hr : runChunks c (mkFlags first) L true s [] [] (List.take j (chunks n (first :: rest))) with
        | error e => rw [hr] at h; cases h
        | ok r =>
          rw [hr] at h
          simp only [Except.bind] at h
          cases hq : runChunks c (mkFlags first) L true r.1 r.2.1 r.2.2 (List.drop j (chunks n (first :: rest))) with
          | error e => rw [hq] at h; cases h
          | ok q =>
            rw [hq] at h
            simp only [Outcome.ofExcept, Outcome.ok.injEq] at h
            subst h
            obtain ⟨h1, h2⟩ := runChunks_acc c _ L true _ _ _ _ _ _ _ hq
            exact ⟨r, rfl, h1, h2, by rw [hq]; rfl⟩
      | none =>
        simp only at h ⊢
        rw [← List.take_append_drop j (chunks 1 (first :: rest)), runChunks_append] at h
        cases hr : runChunks c (mkFlags first) L false s [] [] (List.take j (chunks 1 (first :: rest))) with
        | error e => rw [hr] at h; cases h
        | ok r =>
          rw [hr] at h
          simp only [Except.bind] at h
          cases hq : runChunks c (mkFlags first) L false r.1 r.2.1 r.2.2 (List.drop j (chunks 1 (first :: rest))) with
          | error e => rw [hq] at h; cases h
          | ok q =>
            rw [hq] at h
            simp only [Outcome.ofExcept, Outcome.ok.injEq] at h
            subst h
            obtain ⟨h1, h2⟩ := runChunks_acc c _ L false _ _ _ _ _ _ _ hq
            exact ⟨r, rfl, h1, h2, by rw [hq]; rfl⟩

theorem stopped_unbatched_take' (c : Config) (L : Learner σ V) (env : List (Dict (Fld V R))) (s : σ) (j : Nat) (hj : 0 < j) :
    evaluateStopped c L none env s j = evaluate c L none (env.take j) s := by
  cases env with
  | nil => simp [evaluateStopped, evaluate]
  | cons first rest =>
    obtain ⟨k, rfl⟩ : ∃ k, j = k + 1 := ⟨j - 1, by omega⟩
    simp only [evaluateStopped, evaluate, List.take_succ_cons, chunks_one, List.map_cons, List.map_take]

omit [DecidableEq V] [RewardFn R V] in
theorem chunksAux_length_le {α : Type} (n : Nat) : ∀ (fuel : Nat) (l : List α), (chunksAux n fuel l).length ≤ fuel := by
  intro fuel
  induction fuel with
  | zero => intro l; simp [chunksAux]
  | succ f ih =>
    intro l
    simp only [chunksAux]
    split
    · simp
    · simp only [List.length_cons]; exact Nat.succ_le_succ (ih _)

theorem stopped_all' (c : Config) (L : Learner σ V) (bs : Option Nat) (env : List (Dict (Fld V R))) (s : σ) (j : Nat)
    (hj : env.length ≤ j) : evaluateStopped c L bs env s j = evaluate c L bs env s := by
  cases env with
  | nil => rfl
  | cons first rest =>
    have hl : ∀ n, (chunks n (first :: rest)).take j = chunks n (first :: rest) := fun n =>
      List.take_of_length_le (Nat.le_trans (chunksAux_length_le n _ _) hj)
    simp only [evaluateStopped, evaluate, hl]

omit [DecidableEq V] [RewardFn R V] in

theorem chunksAux_take {α : Type} (n : Nat) (hn : 0 < n) : ∀ (fuel fuel' : Nat) (l : List α) (j : Nat),
    l.length ≤ fuel → (l.take (j * n)).length ≤ fuel' →
    (chunksAux n fuel l).take j = chunksAux n fuel' (l.take (j * n)) := by
  intro fuel
  induction fuel with
  | zero =>
    intro fuel' l j h _
    have : l = [] := List.eq_nil_of_length_eq_zero (by omega)
    subst this
    cases fuel' <;> simp [chunksAux]
  | succ f ih =>
    intro fuel' l j h h'
    cases l with
    | nil => cases fuel' <;> simp [chunksAux]
    | cons x xs =>
      cases j with
      | zero => cases fuel' <;> simp [chunksAux]
      | succ k =>
        have hpos : 0 < (k + 1) * n := Nat.mul_pos (Nat.succ_pos _) hn
        have hne : ((x :: xs).take ((k + 1) * n)).length ≠ 0 := by
          simp only [List.length_take, List.length_cons]; omega
        cases fuel' with
        | zero => omega
        | succ f' =>
          have he : ((x :: xs).take ((k + 1) * n)).isEmpty = false := by
            cases hq : (x :: xs).take ((k + 1) * n) with
            | nil => rw [hq] at hne; simp at hne
            | cons _ _ => rfl
          simp only [chunksAux, List.isEmpty_cons, Bool.false_eq_true, if_false, he, List.take_succ_cons]
          have h1 : List.take n (List.take ((k + 1) * n) (x :: xs)) = List.take n (x :: xs) := by
            rw [List.take_take]; congr 1; rw [Nat.add_mul]; omega
          have h2 : List.drop n (List.take ((k + 1) * n) (x :: xs)) = List.take (k * n) (List.drop n (x :: xs)) := by
            rw [List.drop_take]; congr 1; rw [Nat.add_mul]; omega
          rw [h1, h2]
          congr 1
          apply ih
          · simp only [List.length_drop, List.length_cons] at h ⊢; omega
          · rw [← h2]; simp only [List.length_drop]; omega

theorem chunks_take {α : Type} (n : Nat) (hn : 0 < n) (l : List α) (j : Nat) :
    (chunks n l).take j = chunks n (l.take (j * n)) :=
  chunksAux_take n hn _ _ l j (Nat.le_refl _) (Nat.le_refl _)

theorem stopped_batched_take' (c : Config) (L : Learner σ V) (n : Nat) (hn : 0 < n) (env : List (Dict (Fld V R))) (s : σ) (j : Nat)
    (hj : 0 < j) : evaluateStopped c L (some n) env s j = evaluate c L (some n) (env.take (j * n)) s := by
  cases env with
  | nil => simp [evaluateStopped, evaluate]
  | cons first rest =>
    obtain ⟨k, hk⟩ : ∃ k, j * n = k + 1 := ⟨j * n - 1, by have := Nat.mul_pos hj hn; omega⟩
    have ht : (first :: rest).take (j * n) = first :: rest.take k := by rw [hk]; rfl
    have hc := chunks_take n hn (first :: rest) j
    rw [ht] at hc
    simp only [evaluateStopped, evaluate, ht, hc]

theorem abandoned_history' (L : Learner σ V) : ∀ (es : List (EpisodeS V R)) (s : σ), (∀ e ∈ es, e.okStop) →
    runHistoryS L s es = runHistory L s (es.map EpisodeS.seen) := by
  intro es
  induction es with
  | nil => intro s _; rfl
  | cons e es ih =>
    intro s h
    have he := h e (List.mem_cons_self ..)
    have hev : e.run L s = evaluate e.seen.cfg L e.seen.bs e.seen.env s := by
      unfold EpisodeS.run
      cases hs : e.stop with
      | none => simp only [EpisodeS.seen, hs]
      | some j =>
        have hj := he.1 j hs
        cases hb : e.bs with
        | none => simp only [EpisodeS.seen, hs, hb, Option.getD_none, Nat.mul_one]; exact stopped_unbatched_take' _ L _ s j hj
        | some n => simp only [EpisodeS.seen, hs, hb, Option.getD_some]; exact stopped_batched_take' _ L n (he.2 n hb) _ s j hj
    simp only [runHistoryS, List.map_cons, runHistory, hev]
    rw [ih _ (fun e' he' => h e' (List.mem_cons_of_mem _ he'))]

end stopped

end Coba.C06
